(** Proofs about Subst.v.  Core: sequential [replace] passes = simultaneous
    substitution ([seq_eq_sim_gen] and corollaries). *)
From Coq Require Import List NArith Bool Arith Lia Permutation.
From MWF Require Import Base.Str Expand.PyStr Expand.PyStrProofs Expand.Subst.
Import ListNotations.
Local Notation length := List.length.

(* ------------------------------------------------------------------------ *)
(** * Token shape *)

Definition is_token (t : str) : Prop := exists n, wf_nameb n = true /\ t = tok n.

Lemma wf_nameb_rev : forall n, wf_nameb (rev n) = wf_nameb n.
Proof.
  intros n. unfold wf_nameb.
  destruct (forallb name_charb n) eqn:E.
  - apply forallb_forall. intros c Hc. apply in_rev in Hc.
    rewrite forallb_forall in E. auto.
  - destruct (forallb name_charb (rev n)) eqn:E'; auto.
    assert (forallb name_charb n = true); [|congruence].
    apply forallb_forall. intros c Hc. rewrite forallb_forall in E'.
    apply E'. apply in_rev. rewrite rev_involutive. exact Hc.
Qed.

Lemma is_tokenb_spec : forall t, is_tokenb t = true <-> is_token t.
Proof.
  intros t. unfold is_token. split.
  - destruct t as [|a [|b r]]; simpl; try discriminate.
    intros H. apply andb_true_iff in H. destruct H as [H Hr].
    apply andb_true_iff in H. destruct H as [Ha Hb].
    apply N.eqb_eq in Ha. apply N.eqb_eq in Hb. subst.
    destruct (rev r) as [|z n] eqn:Er; [discriminate|].
    apply andb_true_iff in Hr. destruct Hr as [Hz Hn]. apply N.eqb_eq in Hz. subst.
    exists (rev n). split.
    + rewrite wf_nameb_rev. exact Hn.
    + unfold tok. f_equal. f_equal.
      rewrite <- (rev_involutive r), Er. simpl. reflexivity.
  - intros [n [Hn E]]. subst. unfold tok, is_tokenb.
    rewrite !N.eqb_refl. simpl. rewrite rev_app_distr. simpl.
    rewrite wf_nameb_rev. rewrite Hn. reflexivity.
Qed.

Lemma token_ne : forall t, is_token t -> t <> [].
Proof. intros t [n [_ E]]. subst. discriminate. Qed.

Lemma token_head : forall t, is_token t -> exists r, t = DOLLAR :: r.
Proof. intros t [n [_ E]]. subst. eexists. reflexivity. Qed.

Lemma wf_name_no : forall n c, wf_nameb n = true -> In c n ->
  c <> DOLLAR /\ c <> LPAR /\ c <> RPAR.
Proof.
  intros n c H Hin. unfold wf_nameb in H. rewrite forallb_forall in H.
  specialize (H c Hin). unfold name_charb in H.
  apply negb_true_iff in H. apply orb_false_iff in H. destruct H as [H H3].
  apply orb_false_iff in H. destruct H as [H1 H2].
  apply N.eqb_neq in H1, H2, H3. auto.
Qed.

(** [$] occurs in a token only at its head. *)
Lemma token_dollar_only_head : forall t a b,
  is_token t -> t = a ++ DOLLAR :: b -> a = [].
Proof.
  intros t a b [n [Hn E]] H. subst t. destruct a as [|x a]; auto. exfalso.
  unfold tok in H. simpl in H. inversion H as [[Hx H']]. clear H.
  assert (Hin : In DOLLAR (LPAR :: n ++ [RPAR])).
  { rewrite H'. apply in_or_app. right. left. reflexivity. }
  destruct Hin as [E | Hin]; [discriminate|].
  apply in_app_or in Hin. destruct Hin as [Hin | [E | []]]; [|discriminate].
  destruct (wf_name_no n DOLLAR Hn Hin) as [F _]. congruence.
Qed.

Lemma name_close_eq : forall n n' x y,
  wf_nameb n = true -> wf_nameb n' = true ->
  n ++ RPAR :: x = n' ++ RPAR :: y -> n = n'.
Proof.
  induction n as [|c n IH]; intros n' x y Hn Hn' E.
  - destruct n' as [|c' n']; auto. simpl in E. inversion E; subst.
    destruct (wf_name_no (RPAR :: n') RPAR Hn') as [_ [_ F]]; [left; auto|congruence].
  - destruct n' as [|c' n'].
    + simpl in E. inversion E; subst.
      destruct (wf_name_no (RPAR :: n) RPAR Hn) as [_ [_ F]]; [left; auto|congruence].
    + simpl in E. inversion E; subst. f_equal.
      simpl in Hn, Hn'. apply andb_true_iff in Hn, Hn'.
      eapply IH; try apply H1; tauto.
Qed.

(** A token that matches at the head of another token *is* that token. *)
Lemma token_prefix_eq : forall t t' r,
  is_token t -> is_token t' -> isprefix t (t' ++ r) -> t = t'.
Proof.
  intros t t' r [n [Hn E]] [n' [Hn' E']] [q Hq]. subst.
  unfold tok in *. simpl in Hq. inversion Hq as [H]. clear Hq.
  rewrite <- !app_assoc in H. simpl in H. symmetry in H.
  apply name_close_eq in H; auto. congruence.
Qed.

(* ------------------------------------------------------------------------ *)
(** * render *)

Lemma render_app : forall S L1 L2, render S (L1 ++ L2) = render S L1 ++ render S L2.
Proof. intros. unfold render. apply flat_map_app. Qed.

Lemma render_cons : forall S it L, render S (it :: L) = render_item S it ++ render S L.
Proof. reflexivity. Qed.

Lemma render_ext : forall S S' L,
  (forall t v, In (K t v) L -> S t = S' t) -> render S L = render S' L.
Proof.
  induction L as [|it L IH]; intros H; auto.
  rewrite !render_cons. f_equal.
  - destruct it; simpl; auto. rewrite (H t v); auto. left. reflexivity.
  - apply IH. intros t v Hin. apply (H t v). right. exact Hin.
Qed.

Definition tokens_ok (L : list item) : Prop := forall t v, In (K t v) L -> is_token t.

Lemma tokens_ok_tail : forall it L, tokens_ok (it :: L) -> tokens_ok L.
Proof. intros it L H t v Hin. apply (H t v). right. exact Hin. Qed.

(** Key lemma.  A token match that starts strictly before the rendering of [L]
    (inside non-empty already-emitted material [a]) cannot run into an
    unreplaced token occurrence, hence it is also a match in the fully
    substituted text. *)
Lemma prefix_transfer : forall S t L a,
  is_token t -> tokens_ok L -> a <> [] ->
  isprefix t (a ++ render S L) -> isprefix t (a ++ dst L).
Proof.
  intros S t L. induction L as [|it L IH]; intros a Ht Hok Ha P.
  - exact P.
  - unfold dst in *. rewrite render_cons in *.
    destruct it as [c | tj vj]; simpl render_item in *.
    + rewrite app_assoc in *. apply IH; auto.
      * eapply tokens_ok_tail; eauto.
      * destruct a; discriminate.
    + destruct (S tj) eqn:ES.
      * rewrite app_assoc in *. apply IH; auto.
        -- eapply tokens_ok_tail; eauto.
        -- destruct a; [contradiction|discriminate].
      * (* unreplaced token occurrence ahead: the match cannot reach it *)
        apply prefix_app_split in P. destruct P as [P | [p' [Hp' [E P']]]].
        -- apply prefix_app_r. exact P.
        -- exfalso.
           assert (Htj : is_token tj) by (apply (Hok tj vj); left; reflexivity).
           destruct (token_head _ Htj) as [rj Erj]. subst tj.
           destruct P' as [q Hq]. destruct p' as [|c p']; [contradiction|].
           simpl in Hq. inversion Hq; subst c.
           apply Ha. apply (token_dollar_only_head t a p' Ht E).
Qed.

(** One [replace] pass over a partially substituted text substitutes exactly
    the occurrences of its token and nothing else, provided the token does not
    occur in the fully substituted text. *)
Lemma replace_render : forall t v S L,
  is_token t -> tokens_ok L ->
  (forall v', In (K t v') L -> v' = v) ->
  ~ occurs t (dst L) ->
  replace t v (render S L) = render (fun x => str_eqb x t || S x) L.
Proof.
  intros t v S L Ht. induction L as [|it L IH]; intros Hok Hv Hno.
  - simpl. rewrite replace_nil. destruct t; auto. exfalso. eapply token_ne; eauto.
  - assert (Hne : t <> []) by (apply token_ne; auto).
    assert (Hok' : tokens_ok L) by (eapply tokens_ok_tail; eauto).
    assert (Hv' : forall v', In (K t v') L -> v' = v) by (intros; apply Hv; right; auto).
    assert (Hno' : ~ occurs t (dst L)).
    { intros O. apply Hno. unfold dst. rewrite render_cons. apply occurs_app_l. exact O. }
    specialize (IH Hok' Hv' Hno').
    rewrite !render_cons.
    destruct it as [c | tj vj]; simpl render_item.
    + (* literal character *)
      simpl app. rewrite replace_miss; auto.
      * rewrite IH. reflexivity.
      * apply prefixb_false. intros P. apply Hno.
        change (c :: render S L) with ([c] ++ render S L) in P.
        apply prefix_transfer in P; auto; [|discriminate].
        unfold dst. rewrite render_cons. simpl render_item.
        apply (prefix_occurs t [] _ P).
    + destruct (S tj) eqn:ES.
      * (* already replaced occurrence: its value is copied *)
        rewrite orb_true_r.
        rewrite replace_app_nostart; auto.
        -- rewrite IH. reflexivity.
        -- intros a1 a2 E Ha2 P. apply Hno.
           apply prefix_transfer in P; auto.
           unfold dst. rewrite render_cons. simpl render_item. subst vj.
           rewrite <- app_assoc. apply prefix_occurs. exact P.
      * rewrite orb_false_r.
        assert (Htj : is_token tj) by (apply (Hok tj vj); left; reflexivity).
        destruct (str_eqb tj t) eqn:Eq.
        -- (* an occurrence of [t] itself: replaced by [v] *)
           apply str_eqb_eq in Eq. subst tj.
           rewrite replace_hit; auto. rewrite IH.
           rewrite (Hv vj); auto. left. reflexivity.
        -- (* an occurrence of another, not yet replaced token: copied *)
           apply str_eqb_neq in Eq.
           rewrite replace_app_nostart; auto.
           ++ rewrite IH. reflexivity.
           ++ intros a1 a2 E Ha2 P. destruct a1 as [|x a1].
              ** simpl in E. subst a2. apply Eq. symmetry.
                 eapply token_prefix_eq; eauto.
              ** destruct (token_head _ Ht) as [rt Ert]. subst t.
                 destruct P as [q Hq]. destruct a2 as [|y a2]; [contradiction|].
                 simpl in Hq. inversion Hq; subst y.
                 assert (x :: a1 = []) by (apply (token_dollar_only_head tj (x :: a1) a2 Htj E)).
                 discriminate.
Qed.

Lemma seq_cons : forall e l x, seq (e :: l) x = seq l (replace (fst e) (snd e) x).
Proof. reflexivity. Qed.

Lemma seq_app : forall l1 l2 x, seq (l1 ++ l2) x = seq l2 (seq l1 x).
Proof. intros. unfold seq. apply fold_left_app. Qed.

(** Sequential passes over a partially substituted text. *)
Lemma seq_render : forall l S L,
  (forall e, In e l -> is_token (fst e)) ->
  tokens_ok L ->
  (forall e v', In e l -> In (K (fst e) v') L -> v' = snd e) ->
  (forall e, In e l -> ~ occurs (fst e) (dst L)) ->
  seq l (render S L) = render (fun x => str_mem x (tokens l) || S x) L.
Proof.
  induction l as [|e l IH]; intros S L Htok Hok Hv Hno.
  - simpl. apply render_ext. intros. reflexivity.
  - rewrite seq_cons. rewrite replace_render; auto.
    + rewrite IH; auto.
      * apply render_ext. intros t v _. simpl.
        destruct (str_eqb t (fst e)), (str_mem t (tokens l)), (S t); reflexivity.
      * intros; apply Htok; right; auto.
      * intros; apply Hv; auto; right; auto.
      * intros; apply Hno; right; auto.
    + apply Htok. left. reflexivity.
    + intros v' Hin. apply (Hv e v'); auto. left. reflexivity.
    + apply Hno. left. reflexivity.
Qed.

(* ------------------------------------------------------------------------ *)
(** * parse / sim *)

Lemma lookup_prefix_some : forall T x e,
  lookup_prefix T x = Some e -> In e T /\ prefixb (fst e) x = true.
Proof.
  induction T as [|e0 T IH]; intros x e H; simpl in H; [discriminate|].
  destruct (prefixb (fst e0) x) eqn:E.
  - inversion H; subst. split; auto. left. reflexivity.
  - apply IH in H. destruct H. split; auto. right. auto.
Qed.

Lemma lookup_prefix_none : forall T x,
  lookup_prefix T x = None <-> (forall e, In e T -> prefixb (fst e) x = false).
Proof.
  induction T as [|e0 T IH]; intros x; simpl.
  - split; auto. intros _ e [].
  - destruct (prefixb (fst e0) x) eqn:E.
    + split; [discriminate|]. intros H. rewrite (H e0) in E; auto. discriminate.
    + rewrite IH. split.
      * intros H e [E'|Hin]; subst; auto.
      * intros H e Hin. apply H. right. auto.
Qed.

Lemma sim_go_skip : forall T a r, sim_go T (a ++ r) (length a) = sim_go T r 0.
Proof. induction a; intros; simpl; auto. Qed.

Lemma parse_go_skip : forall T a r, parse_go T (a ++ r) (length a) = parse_go T r 0.
Proof. induction a; intros; simpl; auto. Qed.

Lemma dst_parse_go : forall T x skip, dst (parse_go T x skip) = sim_go T x skip.
Proof.
  intros T. induction x as [|c r IH]; intros skip; simpl; auto.
  destruct skip; auto.
  destruct (lookup_prefix T (c :: r)) as [e|].
  - unfold dst in *. rewrite render_cons. simpl render_item. rewrite IH. reflexivity.
  - unfold dst in *. rewrite render_cons. simpl. rewrite IH. reflexivity.
Qed.

Lemma dst_parse : forall T x, dst (parse T x) = sim T x.
Proof. intros. apply dst_parse_go. Qed.

Lemma src_parse_go : forall T,
  (forall e, In e T -> fst e <> []) ->
  forall x skip, skip <= length x -> src (parse_go T x skip) = skipn skip x.
Proof.
  intros T Hne. induction x as [|c r IH]; intros skip Hs.
  - simpl in Hs. assert (skip = 0) by lia. subst. reflexivity.
  - simpl. destruct skip as [|k].
    + destruct (lookup_prefix T (c :: r)) as [e|] eqn:El.
      * apply lookup_prefix_some in El. destruct El as [Hin P].
        apply prefixb_spec in P. destruct P as [q Hq].
        specialize (Hne e Hin). destruct (fst e) as [|c' t'] eqn:Et; [contradiction|].
        simpl in Hq. inversion Hq; subst c' r.
        unfold src in *. rewrite render_cons. simpl render_item.
        simpl pred. rewrite IH.
        -- rewrite skipn_app, skipn_all, Nat.sub_diag. simpl. reflexivity.
        -- rewrite app_length. lia.
      * unfold src in *. rewrite render_cons. simpl. rewrite IH; [|lia]. reflexivity.
    + simpl in Hs. apply IH. lia.
Qed.

Lemma src_parse : forall T x,
  (forall e, In e T -> fst e <> []) -> src (parse T x) = x.
Proof. intros. unfold parse. rewrite src_parse_go; auto. lia. Qed.

Lemma parse_go_K_in : forall T x skip t v,
  In (K t v) (parse_go T x skip) -> In (t, v) T /\ occurs t x.
Proof.
  intros T. induction x as [|c r IH]; intros skip t v H; simpl in H; [contradiction|].
  assert (Hocc : forall t, occurs t r -> occurs t (c :: r)).
  { intros t0 O. apply (occurs_app_l t0 [c] r O). }
  destruct skip as [|k].
  - destruct (lookup_prefix T (c :: r)) as [e|] eqn:El.
    + destruct H as [H|H].
      * inversion H; subst. apply lookup_prefix_some in El. destruct El as [Hin P].
        split.
        -- destruct e; exact Hin.
        -- apply prefixb_spec in P. apply (prefix_occurs _ [] _ P).
      * apply IH in H. destruct H. split; auto.
    + destruct H as [H|H]; [discriminate|].
      apply IH in H. destruct H. split; auto.
  - apply IH in H. destruct H. split; auto.
Qed.

(** positions rendered as literal characters are not heads of tokens of [T] *)
Lemma parse_go_C_nohead : forall T x skip L1 c L2,
  (forall e, In e T -> fst e <> []) ->
  skip <= length x ->
  parse_go T x skip = L1 ++ C c :: L2 ->
  lookup_prefix T (c :: src L2) = None.
Proof.
  intros T x. induction x as [|c0 r IH]; intros skip L1 c L2 Hne Hs H.
  - simpl in H. destruct L1; discriminate.
  - simpl in H. destruct skip as [|k].
    + destruct (lookup_prefix T (c0 :: r)) as [e|] eqn:El.
      * destruct L1 as [|i1 L1]; [discriminate|]. inversion H; subst.
        apply lookup_prefix_some in El. destruct El as [Hin P].
        apply prefixb_spec in P. destruct P as [q Hq].
        apply (IH (pred (length (fst e))) L1 c L2 Hne); [|exact H2].
        specialize (Hne e Hin). destruct (fst e) as [|c' t'] eqn:Et; [contradiction|].
        simpl in Hq. inversion Hq; subst. simpl. rewrite app_length. lia.
      * destruct L1 as [|i1 L1].
        -- inversion H; subst.
           rewrite src_parse_go; [simpl; exact El | exact Hne | lia].
        -- inversion H; subst. apply (IH 0 L1 c L2 Hne); [lia|exact H2].
    + apply (IH k L1 c L2 Hne); [simpl in Hs; lia|exact H].
Qed.

(* ------------------------------------------------------------------------ *)
(** * The core law *)

Definition wf_table (T : table) : Prop :=
  (forall t, In t (tokens T) -> is_token t) /\ NoDup (tokens T).

Lemma wf_tableb_spec : forall T, wf_tableb T = true <-> wf_table T.
Proof.
  intros T. unfold wf_tableb, wf_table.
  rewrite andb_true_iff, forallb_forall, str_nodupb_NoDup.
  split; intros [H1 H2]; split; auto; intros t Ht; apply is_tokenb_spec; auto.
Qed.

Lemma nodup_fst_functional : forall (T : table) a b b',
  NoDup (map fst T) -> In (a, b) T -> In (a, b') T -> b = b'.
Proof.
  induction T as [|[a0 b0] T IH]; intros a b b' Hnd H1 H2; [contradiction|].
  simpl in Hnd. inversion Hnd; subst.
  destruct H1 as [H1|H1], H2 as [H2|H2].
  - congruence.
  - inversion H1; subst. exfalso. apply H3. apply (in_map fst) in H2. exact H2.
  - inversion H2; subst. exfalso. apply H3. apply (in_map fst) in H1. exact H1.
  - eapply IH; eauto.
Qed.

Lemma token_free_spec : forall T y,
  token_free T y = true <-> (forall t, In t (tokens T) -> ~ occurs t y).
Proof.
  intros. unfold token_free. rewrite forallb_forall. split; intros H t Ht.
  - apply occursb_false. apply negb_true_iff. auto.
  - apply negb_true_iff. apply occursb_false. auto.
Qed.

Lemma in_tokens : forall (T : table) e, In e T -> In (fst e) (tokens T).
Proof. intros. unfold tokens. apply in_map. auto. Qed.

(** General form: [l] is any list of entries of [T] (any order, repetitions
    allowed) that mentions at least every token of [T] occurring in the text. *)
Theorem seq_eq_sim_gen : forall T l x,
  wf_table T ->
  incl l T ->
  (forall t, In t (tokens T) -> occurs t x -> In t (tokens l)) ->
  token_free T (sim T x) = true ->
  seq l x = sim T x.
Proof.
  intros T l x [Htok Hnd] Hincl Hcov Hfree.
  assert (Hne : forall e, In e T -> fst e <> []).
  { intros e He. apply token_ne. apply Htok. apply in_tokens. auto. }
  rewrite token_free_spec in Hfree.
  set (L := parse T x).
  assert (Hok : tokens_ok L).
  { intros t v Hin. apply parse_go_K_in in Hin. destruct Hin as [Hin _].
    apply Htok. apply (in_tokens T (t, v)). auto. }
  rewrite <- (src_parse T x Hne) at 1. fold L. unfold src.
  rewrite seq_render; auto.
  - rewrite <- dst_parse. fold L. unfold dst. apply render_ext.
    intros t v Hin. apply parse_go_K_in in Hin. destruct Hin as [Hin Hocc].
    rewrite orb_false_r. apply str_mem_In. apply Hcov; auto.
    apply (in_tokens T (t, v)). auto.
  - intros e He. apply Htok. apply in_tokens. auto.
  - intros [t v] v' He Hin. simpl in *. apply parse_go_K_in in Hin. destruct Hin as [Hin _].
    eapply nodup_fst_functional; eauto.
  - intros e He. unfold L. rewrite dst_parse. apply Hfree. apply in_tokens. auto.
Qed.

(** The law as stated in DESIGN section 5 (C09): any *order* of the entries. *)
Theorem seq_eq_sim : forall T l x,
  wf_table T -> Permutation l T ->
  token_free T (sim T x) = true ->
  seq l x = sim T x.
Proof.
  intros T l x Hwf Hp Hfree. apply seq_eq_sim_gen; auto.
  - intros e He. eapply Permutation_in; eauto.
  - intros t Ht _. unfold tokens in *.
    eapply Permutation_in; [|exact Ht]. apply Permutation_map. apply Permutation_sym. auto.
Qed.

Corollary seq_order_irrelevant : forall T l1 l2 x,
  wf_table T -> Permutation l1 T -> Permutation l2 T ->
  token_free T (sim T x) = true ->
  seq l1 x = seq l2 x.
Proof. intros. rewrite (seq_eq_sim T l1), (seq_eq_sim T l2); auto. Qed.

Corollary seq_no_token_survives : forall T l x,
  wf_table T -> Permutation l T ->
  token_free T (sim T x) = true ->
  token_free T (seq l x) = true.
Proof. intros. rewrite (seq_eq_sim T l); auto. Qed.

(** ** What [sim] is: the three equations that determine it *)
Lemma sim_nil : forall T, sim T [] = [].
Proof. reflexivity. Qed.

Lemma sim_token : forall T t v r,
  wf_table T -> In (t, v) T -> sim T (t ++ r) = v ++ sim T r.
Proof.
  intros T t v r [Htok Hnd] Hin.
  assert (Ht : is_token t) by (apply Htok; apply (in_tokens T (t, v)); auto).
  destruct (token_head _ Ht) as [rt Ert].
  unfold sim. subst t. simpl app. cbn [sim_go].
  destruct (lookup_prefix T (DOLLAR :: rt ++ r)) as [e|] eqn:El.
  - apply lookup_prefix_some in El. destruct El as [He P].
    apply prefixb_spec in P.
    assert (E : fst e = DOLLAR :: rt).
    { apply (token_prefix_eq (fst e) (DOLLAR :: rt) r); auto.
      apply Htok. apply in_tokens. auto. }
    assert (snd e = v).
    { destruct e as [t' v']. simpl in *. subst t'.
      eapply nodup_fst_functional; eauto. }
    subst v. rewrite E. simpl length. simpl pred. rewrite sim_go_skip. reflexivity.
  - exfalso. rewrite lookup_prefix_none in El. specialize (El _ Hin). simpl in El.
    change (DOLLAR :: rt ++ r) with ((DOLLAR :: rt) ++ r) in El.
    rewrite prefixb_app in El. discriminate.
Qed.

Lemma sim_char : forall T c r,
  (forall t, In t (tokens T) -> prefixb t (c :: r) = false) ->
  sim T (c :: r) = c :: sim T r.
Proof.
  intros T c r H. unfold sim. cbn [sim_go].
  destruct (lookup_prefix T (c :: r)) as [e|] eqn:El; auto.
  apply lookup_prefix_some in El. destruct El as [He P].
  rewrite H in P; [discriminate|]. apply in_tokens. auto.
Qed.

(** ** Decomposition: what is replaced and what is copied *)
Theorem seq_decomposition : forall T l x,
  wf_table T -> Permutation l T ->
  token_free T (sim T x) = true ->
  exists L,
    x = src L /\ seq l x = dst L /\
    (forall t v, In (K t v) L -> In (t, v) T) /\
    (forall L1 c L2, L = L1 ++ C c :: L2 -> lookup_prefix T (c :: src L2) = None).
Proof.
  intros T l x Hwf Hp Hfree.
  assert (Hne : forall e, In e T -> fst e <> []).
  { intros e He. apply token_ne. apply (proj1 Hwf). apply in_tokens. auto. }
  exists (parse T x). split; [|split; [|split]].
  - symmetry. apply src_parse. auto.
  - rewrite dst_parse. apply seq_eq_sim; auto.
  - intros t v Hin. apply parse_go_K_in in Hin. tauto.
  - intros L1 c L2 E. unfold parse in E.
    apply (parse_go_C_nohead T x 0 L1 c L2 Hne); [lia | exact E].
Qed.

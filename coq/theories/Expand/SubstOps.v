(** Combinators the text GENERATED from maestrowf's substitution code
    (Expand/SubstGen.v, by translate/tcode_subst.py) is composed of: one
    combinator per Python expression / statement template of
      utils.apply_function,
      parameters.Combination (__init__, add, apply, get_param_string),
      parameters.ParameterGenerator (add_parameter's defaults, get_combinations),
      variable.Variable / pathdependency.PathDependency (get_var, substitute),
      studyenvironment.StudyEnvironment (__init__, add, find, apply_environment),
      executiongraph._StepRecord (__init__, generate_script: the $(WORKSPACE) pass).
    Expand/PathGen.v (translate/tcode_paths.py) reuses the string and loop
    combinators.

    Representation.  Python [str] is [str = list N]; [str.replace] is PyStr's
    [replace].  A value that the code renders with [str(..)] before splicing it
    into a text (parameter values, labels, names, Variable.value) is carried as
    that rendering, so [py_str] is the identity; whether such a value is an
    instance of [str] travels as a separate flag where the code asks
    ([o_value_isstr]).  Dictionaries are association lists in insertion order,
    sets are duplicate-free lists.  Objects are records; an attribute assignment
    is a functional update.

    Stdlib only, small total functions, no proofs.  The equalities of the
    generated functions with the hand-written model (Subst.v) are in
    SubstGenProofs.v. *)
From MWF Require Export Base.Str Expand.PyStr.
From MWF Require Import Base.Util Expand.Subst.
From Coq Require Import List NArith Bool Arith.
Import ListNotations.

(* ------------------------------------------------------------------------- *)
(** * strings                                                                 *)
(* ------------------------------------------------------------------------- *)

(** [str(x)] of a value carried as its rendering; a str-valued attribute used
    as a string *)
Definition py_str (x : str) : str := x.
Definition as_str (x : str) : str := x.

(** truth value of a string ([if item], [if not item]) *)
Definition str_truthy (x : str) : bool := match x with [] => false | _ :: _ => true end.

(** [sub in x] on strings *)
Definition str_contains (sub x : str) : bool := occursb sub x.

(** ["..{}..{}..".format(a, b)] with auto-numbered fields only (the translator
    refuses anything else); a missing argument is Python's IndexError and
    renders as nothing here *)
Fixpoint py_format (fmt : str) (args : list str) : str :=
  match fmt with
  | [] => []
  | c :: rest =>
    match rest with
    | d :: rest' =>
      if N.eqb c 123%N && N.eqb d 125%N then
        match args with
        | a :: args' => a ++ py_format rest' args'
        | [] => py_format rest' []
        end
      else c :: py_format rest args
    | [] => [c]
    end
  end.

(** [sep.join(l)], [sorted(l)] *)
Definition py_join (sep : str) (l : list str) : str := join sep l.
Definition py_sorted (l : list str) : list str := str_sort l.

(** [x.replace(old, new, count)]: at most [count] replacements, left to right *)
Fixpoint replace_count_go (old new x : str) (skip n : nat) : str :=
  match x with
  | [] => []
  | c :: r =>
    match skip with
    | S k => replace_count_go old new r k n
    | O =>
      match n with
      | O => x
      | S n' =>
        if prefixb old x then new ++ replace_count_go old new r (pred (length old)) n'
        else c :: replace_count_go old new r 0 n
      end
    end
  end.
Definition replace_count (n : nat) (old new x : str) : str :=
  match old with
  | [] => x
  | _ :: _ => replace_count_go old new x 0 n
  end.

(* ------------------------------------------------------------------------- *)
(** * lists, dictionaries, sets, loops                                        *)
(* ------------------------------------------------------------------------- *)

(** [[]], [l.append(x)], [l[i]] *)
Definition list_empty {A} : list A := [].
Definition list_append {A} (x : A) (l : list A) : list A := l ++ [x].
Definition list_index (l : list str) (i : nat) : str := nth i l [].

(** [{}] / [OrderedDict()], [d[k] = v] (an existing key keeps its position),
    [k in d], [d[k]], [d.items()], [d.keys()], [d.values()] *)
Definition dict_empty {A} : list (str * A) := [].
Fixpoint dict_put {A} (k : str) (v : A) (d : list (str * A)) : list (str * A) :=
  match d with
  | [] => [(k, v)]
  | (k', w) :: d' => if str_eqb k k' then (k', v) :: d' else (k', w) :: dict_put k v d'
  end.
Definition dict_has {A} (k : str) (d : list (str * A)) : bool :=
  existsb (fun kv => str_eqb k (fst kv)) d.
Fixpoint dict_lookup {A} (k : str) (d : list (str * A)) : option A :=
  match d with
  | [] => None
  | (k', w) :: d' => if str_eqb k k' then Some w else dict_lookup k d'
  end.
(** [d[k]] of a dictionary of strings; a missing key is Python's KeyError and
    reads as the empty string here (model artefact, as in Subst.combo_string) *)
Definition dict_get_str (k : str) (d : list (str * str)) : str :=
  match dict_lookup k d with Some v => v | None => [] end.
Definition dict_items {A} (d : list (str * A)) : list (str * A) := d.
Definition dict_keys {A} (d : list (str * A)) : list str := map fst d.
Definition dict_values {A} (d : list (str * A)) : list A := map snd d.

(** [set()], [s.add(x)], [x in s] for sets of strings, and for sets whose
    elements may be None ([StudyEnvironment._names]) *)
Definition set_empty {A} : list A := [].
Definition sset_mem (x : str) (s : list str) : bool := str_mem x s.
Definition sset_add (x : str) (s : list str) : list str := if str_mem x s then s else s ++ [x].
Definition optstr_eqb (a b : option str) : bool :=
  match a, b with
  | None, None => true
  | Some x, Some y => str_eqb x y
  | _, _ => false
  end.
Definition oset_mem (x : option str) (s : list (option str)) : bool := existsb (optstr_eqb x) s.
Definition oset_add (x : option str) (s : list (option str)) : list (option str) :=
  if oset_mem x s then s else s ++ [x].
(** truth value of [name] when it is a string or None *)
Definition optstr_truthy (x : option str) : bool :=
  match x with Some (_ :: _) => true | _ => false end.

(** [any(<cond> for x in l)], [[<e> for x in l]], [{k: <e> for k, v in d.items()}] *)
Definition any_of {A} (l : list A) (f : A -> bool) : bool := existsb f l.
Definition list_comp {A B} (f : A -> B) (l : list A) : list B := map f l.
Definition dict_comp {A B} (f : str -> A -> str * B) (d : list (str * A)) : list (str * B) :=
  map (fun kv => f (fst kv) (snd kv)) d.

(** [for k, v in d.items(): body] and [for x in l: body]; [s] is the (tuple of
    the) variables the body re-assigns *)
Definition for_items {A S} (d : list (str * A)) (body : str -> A -> S -> S) (s : S) : S :=
  fold_left (fun acc kv => body (fst kv) (snd kv) acc) d s.
Definition for_each {A S} (l : list A) (body : A -> S -> S) (s : S) : S :=
  fold_left (fun acc x => body x acc) l s.

(** what a method that may raise hands back *)
Inductive exn : Type := TypeError | ValueError | KeyError | OtherError.
Inductive result (A : Type) : Type :=
| Done (a : A)
| Raise (e : exn).
Arguments Done {A} a.
Arguments Raise {A} e.

(* ------------------------------------------------------------------------- *)
(** * values of a step's fields ([utils.apply_function])                      *)
(* ------------------------------------------------------------------------- *)

(** [elif isinstance(item, str|list|dict): k  else: e]; inside [k] the name is
    bound to the payload *)
Definition case_str {R} (v : pyval) (k : str -> R) (e : R) : R :=
  match v with VStr x => k x | _ => e end.
Definition case_list {R} (v : pyval) (k : list pyval -> R) (e : R) : R :=
  match v with VList l => k l | _ => e end.
Definition case_dict {R} (v : pyval) (k : list (str * pyval) -> R) (e : R) : R :=
  match v with VDict d => k d | _ => e end.
Definition py_of_str (x : str) : pyval := VStr x.
Definition py_of_list (l : list pyval) : pyval := VList l.
Definition py_of_dict (d : list (str * pyval)) : pyval := VDict d.

(* ------------------------------------------------------------------------- *)
(** * environment objects (Variable, PathDependency, ...)                     *)
(* ------------------------------------------------------------------------- *)

Inductive okind : Type := KVariable | KPathDependency | KSource | KOther.

Record envobj : Type := mkobj {
  o_kind : okind;
  o_name : str;
  o_value : str;             (* str(value) *)
  o_value_isstr : bool;      (* isinstance(value, str) *)
  o_token : str
}.

(** the class hierarchy of maestrowf/abstracts (checked by the translator):
    Variable < Substitution; PathDependency < Dependency < Substitution;
    Source is a sibling *)
Definition isinstance_Dependency (o : envobj) : bool :=
  match o_kind o with KPathDependency => true | _ => false end.
Definition isinstance_Substitution (o : envobj) : bool :=
  match o_kind o with KVariable | KPathDependency => true | _ => false end.
Definition isinstance_Source (o : envobj) : bool :=
  match o_kind o with KSource => true | _ => false end.

Record environment : Type := mkenv {
  env_substitutions : list (str * envobj);
  env_labels : list (str * envobj);
  env_sources : list envobj;
  env_dependencies : list (str * envobj);
  env_tokens : list str;
  env_names : list (option str);
  env_is_set_up : bool
}.
Definition env_blank : environment := mkenv [] [] [] [] [] [] false.
Definition set_env_substitutions (v : list (str * envobj)) (e : environment) : environment :=
  mkenv v (env_labels e) (env_sources e) (env_dependencies e) (env_tokens e) (env_names e) (env_is_set_up e).
Definition set_env_labels (v : list (str * envobj)) (e : environment) : environment :=
  mkenv (env_substitutions e) v (env_sources e) (env_dependencies e) (env_tokens e) (env_names e) (env_is_set_up e).
Definition set_env_sources (v : list envobj) (e : environment) : environment :=
  mkenv (env_substitutions e) (env_labels e) v (env_dependencies e) (env_tokens e) (env_names e) (env_is_set_up e).
Definition set_env_dependencies (v : list (str * envobj)) (e : environment) : environment :=
  mkenv (env_substitutions e) (env_labels e) (env_sources e) v (env_tokens e) (env_names e) (env_is_set_up e).
Definition set_env_tokens (v : list str) (e : environment) : environment :=
  mkenv (env_substitutions e) (env_labels e) (env_sources e) (env_dependencies e) v (env_names e) (env_is_set_up e).
Definition set_env_names (v : list (option str)) (e : environment) : environment :=
  mkenv (env_substitutions e) (env_labels e) (env_sources e) (env_dependencies e) (env_tokens e) v (env_is_set_up e).
Definition set_env_is_set_up (v : bool) (e : environment) : environment :=
  mkenv (env_substitutions e) (env_labels e) (env_sources e) (env_dependencies e) (env_tokens e) (env_names e) v.

(* ------------------------------------------------------------------------- *)
(** * Combination and ParameterGenerator                                      *)
(* ------------------------------------------------------------------------- *)

Record combination : Type := mkcombo {
  cb_params : list (str * str);
  cb_labels : list (str * str);
  cb_names : list (str * str);
  cb_token : str
}.
Definition combo_blank : combination := mkcombo [] [] [] [].
Definition set_cb_params (v : list (str * str)) (c : combination) : combination :=
  mkcombo v (cb_labels c) (cb_names c) (cb_token c).
Definition set_cb_labels (v : list (str * str)) (c : combination) : combination :=
  mkcombo (cb_params c) v (cb_names c) (cb_token c).
Definition set_cb_names (v : list (str * str)) (c : combination) : combination :=
  mkcombo (cb_params c) (cb_labels c) v (cb_token c).
Definition set_cb_token (v : str) (c : combination) : combination :=
  mkcombo (cb_params c) (cb_labels c) (cb_names c) v.

(** [ParameterGenerator]: parameters (key -> the str() of every row's value),
    labels (key -> a format or one label per row: Subst.label_spec), names *)
Record pgen : Type := mkpgen {
  pg_parameters : list (str * list str);
  pg_labels : list (str * label_spec);
  pg_names : list (str * str);
  pg_label_token : str;
  pg_token : str;
  pg_length : nat
}.
Definition pgen_blank : pgen := mkpgen [] [] [] [] [] 0.
Definition set_pg_parameters (v : list (str * list str)) (g : pgen) : pgen :=
  mkpgen v (pg_labels g) (pg_names g) (pg_label_token g) (pg_token g) (pg_length g).
Definition set_pg_labels (v : list (str * label_spec)) (g : pgen) : pgen :=
  mkpgen (pg_parameters g) v (pg_names g) (pg_label_token g) (pg_token g) (pg_length g).
Definition set_pg_names (v : list (str * str)) (g : pgen) : pgen :=
  mkpgen (pg_parameters g) (pg_labels g) v (pg_label_token g) (pg_token g) (pg_length g).
Definition set_pg_label_token (v : str) (g : pgen) : pgen :=
  mkpgen (pg_parameters g) (pg_labels g) (pg_names g) v (pg_token g) (pg_length g).
Definition set_pg_token (v : str) (g : pgen) : pgen :=
  mkpgen (pg_parameters g) (pg_labels g) (pg_names g) (pg_label_token g) v (pg_length g).
Definition set_pg_length (v : nat) (g : pgen) : pgen :=
  mkpgen (pg_parameters g) (pg_labels g) (pg_names g) (pg_label_token g) (pg_token g) v.
Definition dict_get_values (k : str) (d : list (str * list str)) : list str :=
  match dict_lookup k d with Some v => v | None => [] end.
Definition dict_get_label (k : str) (d : list (str * label_spec)) : label_spec :=
  match dict_lookup k d with Some v => v | None => LFmt [] end.
(** [if isinstance(l, list): k  else: e]; the name is bound to the payload *)
Definition case_label_list {R} (l : label_spec) (k : list str -> R) (e : str -> R) : R :=
  match l with LList ls => k ls | LFmt f => e f end.
(** truth value of a label / name argument of add_parameter ([if label:]) *)
Definition label_truthy (l : label_spec) : bool :=
  match l with LFmt [] => false | LList [] => false | _ => true end.
Definition label_of_str (x : str) : label_spec := LFmt x.

(* ------------------------------------------------------------------------- *)
(** * a step's run dictionary, as far as the $(WORKSPACE) pass touches it     *)
(* ------------------------------------------------------------------------- *)

Record run2 : Type := mkrun { run_cmd : str; run_restart : str }.
Definition set_run_cmd (v : str) (r : run2) : run2 := mkrun v (run_restart r).
Definition set_run_restart (v : str) (r : run2) : run2 := mkrun (run_cmd r) v.

(** C11, part 2: relocation.  Staging the same specification under another
    output root gives the same graph (names, insertion order, adjacency lists,
    dependency sets), the same workspace components, restart limits, params and
    every field the root cannot reach; each absolute workspace is [base root
    comps] for the SAME components; cmd / restart are related by [txt_reloc]
    (same replacements, relocated directories).  Errors are the same. *)
From MWF Require Import Base.Str Base.Util Expand.PyStr Expand.Expand Expand.OrderFree Expand.OrderFree2.
From Coq Require Import List NArith Bool Arith Lia Permutation.
Import ListNotations.

(* ------------------------------------------------------------------------ *)
(** * Graphs related record-wise *)
Section GraphRel.
  Variable RR : rec -> rec -> Prop.

  Definition node_rel (a b : node) : Prop :=
    nd_name a = nd_name b /\ nd_kids a = nd_kids b /\ nd_deps a = nd_deps b
    /\ opt_rel RR (nd_rec a) (nd_rec b).
  Definition g_rel (g g' : graph) : Prop := Forall2 node_rel g g'.

  Lemma g_rel_names g g' : g_rel g g' -> g_names g = g_names g'.
  Proof. induction 1; simpl; auto. destruct H as [-> _]; f_equal; auto. Qed.

  Lemma g_rel_has g g' x : g_rel g g' -> g_has x g = g_has x g'.
  Proof. intros H; rewrite !g_has_names, (g_rel_names _ _ H); auto. Qed.

  Lemma g_rel_map f f' g g' :
    g_rel g g' -> (forall a b, node_rel a b -> node_rel (f a) (f' b)) -> g_rel (map f g) (map f' g').
  Proof. induction 1; simpl; intros Hf; constructor; auto. apply IHForall2; auto. Qed.

  Lemma on_node_rel x f g g' :
    (forall a b, node_rel a b -> node_rel (f a) (f b)) -> g_rel g g' -> g_rel (on_node x f g) (on_node x f g').
  Proof.
    intros Hf H; unfold on_node; apply g_rel_map; auto.
    intros a b Hab. destruct Hab as (A1 & A2 & A3 & A4) eqn:E. rewrite A1.
    destruct (str_eqb x (nd_name b)); auto.
  Qed.

  Lemma g_add_rel x ro ro' g g' :
    opt_rel RR ro ro' -> g_rel g g' -> g_rel (g_add x ro g) (g_add x ro' g').
  Proof.
    intros Hr H; unfold g_add; rewrite <- (g_rel_has _ _ x H). destruct (g_has x g).
    - apply on_node_rel; auto. intros a b (A1 & A2 & A3 & A4); repeat split; simpl; auto.
    - apply Forall2_app; auto. constructor; [|constructor]. repeat split; simpl; auto.
  Qed.

  Lemma add_kid_rel c a b : node_rel a b -> node_rel (add_kid c a) (add_kid c b).
  Proof. intros (A1 & A2 & A3 & A4); repeat split; simpl; auto; congruence. Qed.
  Lemma add_dep_rel c a b : node_rel a b -> node_rel (add_dep c a) (add_dep c b).
  Proof. intros (A1 & A2 & A3 & A4); repeat split; simpl; auto; congruence. Qed.

  Lemma g_connect_rel p c g g' :
    g_rel g g' -> opt_rel g_rel (g_connect p c g) (g_connect p c g').
  Proof.
    intros H; unfold g_connect. rewrite <- (g_rel_has _ _ p H).
    destruct (str_eqb p c); simpl.
    - apply on_node_rel; auto using add_dep_rel.
    - destruct (g_has p g); simpl; auto.
      apply on_node_rel; auto using add_dep_rel. apply on_node_rel; auto using add_kid_rel.
  Qed.

  Lemma connect_all_rel ps c : forall g g',
    g_rel g g' -> opt_rel g_rel (connect_all ps c g) (connect_all ps c g').
  Proof.
    induction ps; intros g g' H.
    - simpl; auto.
    - rewrite !connect_all_cons. pose proof (g_connect_rel a c g g' H) as Hc.
      destruct (g_connect a c g), (g_connect a c g'); simpl in Hc; try contradiction; simpl; auto.
  Qed.
End GraphRel.

(* ------------------------------------------------------------------------ *)
(** * The relocation relation *)
Definition rec_reloc (r r' : str) (a b : rec) : Prop :=
  r_wsc a = r_wsc b /\ r_ws a = base r (r_wsc a) /\ r_ws b = base r' (r_wsc b)
  /\ r_rlimit a = r_rlimit b /\ r_params a = r_params b /\ r_desc a = r_desc b
  /\ r_rest a = r_rest b /\ r_deps a = r_deps b
  /\ txt_reloc r r' (r_cmd a) (r_cmd b) /\ txt_reloc r r' (r_restart a) (r_restart b).

Definition dir_reloc (r r' : str) (a b : str) : Prop :=
  exists comps, a = base r comps /\ b = base r' comps.

Definition ws_reloc (r r' : str) (w w' : list (str * str)) : Prop :=
  Forall2 (fun a b => fst a = fst b /\ dir_reloc r r' (snd a) (snd b)) w w'.

Definition st_reloc (r r' : str) (a b : sstate) : Prop :=
  g_rel (rec_reloc r r') (st_g a) (st_g b) /\ st_combos a = st_combos b
  /\ ws_reloc r r' (st_ws a) (st_ws b).

Lemma ws_reloc_lookup r r' w w' k :
  ws_reloc r r' w w' -> opt_rel (dir_reloc r r') (alookup k w) (alookup k w').
Proof.
  induction 1; simpl; auto.
  destruct x as [k1 v1], y as [k2 v2]; simpl in *. destruct H as [-> Hd].
  destruct (str_eqb k k2); simpl; auto.
Qed.

Lemma ws_reloc_aset r r' w w' k v v' :
  dir_reloc r r' v v' -> ws_reloc r r' w w' -> ws_reloc r r' (aset k v w) (aset k v' w').
Proof.
  intros Hv; induction 1; simpl.
  - constructor; [|constructor]. simpl; auto.
  - destruct x as [k1 v1], y as [k2 v2]; simpl in *. destruct H as [-> Hd].
    destruct (str_eqb k k2); constructor; simpl; auto.
Qed.

(* ------------------------------------------------------------------------ *)
(** * What does not see the root *)
Section Reloc.
  Variable ap : list param -> nat -> str -> str.
  Variable san : str -> str.
  Variable pi : an_oracle.
  Variable sp : spec.
  Variable r' : str.
  Let r := sp_root sp.
  Let sp' := set_root r' sp.

  Lemma msp_base comps : msp san sp comps = base r (map san comps).
  Proof. reflexivity. Qed.
  Lemma msp_base' comps : msp san sp' comps = base r' (map san comps).
  Proof. reflexivity. Qed.

  Lemma plan_go_root order : forall um, plan_go sp' order um = plan_go sp order um.
  Proof.
    induction order; intros um; simpl; auto.
    destruct (str_eqb a SOURCE); auto.
    change (find_step sp' a) with (find_step sp a). destruct (find_step sp a); auto.
    change (sp_params sp') with (sp_params sp). destruct (used_step (sp_params sp) um s); auto.
  Qed.

  Lemma toposort_root : toposort sp' = toposort sp.
  Proof. reflexivity. Qed.
  Lemma topo_ok_root order : topo_ok sp' order = topo_ok sp order.
  Proof. reflexivity. Qed.

  Variable um : usedmap.

  Lemma parent_list_root combos t i : parent_list pi sp' um combos t i = parent_list pi sp um combos t i.
  Proof. reflexivity. Qed.

  Lemma ws_value_reloc w w' t i m :
    ws_reloc r r' w w' ->
    opt_rel (dir_reloc r r') (ws_value san sp um w t i m) (ws_value san sp' um w' t i m).
  Proof.
    intros H; unfold ws_value.
    destruct (str_mem m (deps_hub t)); simpl.
    - exists (map san [m]); split; reflexivity.
    - destruct (alookup m um) as [[|k U]|]; simpl; auto.
      + apply ws_reloc_lookup; auto.
      + change (sp_params sp') with (sp_params sp). apply ws_reloc_lookup; auto.
  Qed.

  Lemma ws_pass_reloc w w' t i ms : forall cr cr',
    ws_reloc r r' w w' ->
    txt_reloc r r' (fst cr) (fst cr') -> txt_reloc r r' (snd cr) (snd cr') ->
    opt_rel (fun a b => txt_reloc r r' (fst a) (fst b) /\ txt_reloc r r' (snd a) (snd b))
            (ws_pass san sp um w t i ms cr) (ws_pass san sp' um w' t i ms cr').
  Proof.
    induction ms as [|m ms IH]; intros cr cr' Hw H1 H2; simpl; auto.
    pose proof (ws_value_reloc w w' t i m Hw) as Hv.
    destruct (ws_value san sp um w t i m), (ws_value san sp' um w' t i m); simpl in Hv; try contradiction; simpl; auto.
    destruct Hv as (comps & -> & ->).
    apply IH; auto; cbn [fst snd];
      apply (tr_sub r r' (c_dollar :: c_lpar :: m ++ dot_workspace) comps); auto.
  Qed.

  Lemma add_instance_reloc t x comps f params i st st' :
    st_reloc r r' st st' ->
    opt_rel (st_reloc r r') (add_instance san pi sp um t x comps f params i st)
                            (add_instance san pi sp' um t x comps f params i st').
  Proof.
    intros (Hg & Hc & Hw); unfold add_instance.
    pose proof (ws_pass_reloc (st_ws st) (st_ws st') t i (step_wsrefs t)
                  (f (s_cmd t), f (s_restart t)) (f (s_cmd t), f (s_restart t)) Hw
                  (tr_same r r' _) (tr_same r r' _)) as HP.
    destruct (ws_pass san sp um (st_ws st) t i (step_wsrefs t) _) as [[cmd rcmd]|],
             (ws_pass san sp' um (st_ws st') t i (step_wsrefs t) _) as [[cmd' rcmd']|];
      simpl in HP; try contradiction; simpl; auto.
    destruct HP as [HP1 HP2].
    rewrite parent_list_root, <- Hc.
    destruct (parent_list pi sp um (st_combos st) t i) as [parents|]; simpl; auto.
    match goal with |- context [g_add x (Some ?ra) (st_g st)] =>
      match goal with |- context [g_add x (Some ?rb) (st_g st')] =>
        assert (HR : opt_rel (rec_reloc r r') (Some ra) (Some rb)) end end.
    { unfold opt_rel, rec_reloc; cbn [r_wsc r_ws r_rlimit r_params r_desc r_rest r_deps r_cmd r_restart].
      rewrite msp_base, msp_base'.
      repeat split; auto; apply (tr_sub r r' tok_workspace (map san comps)); auto. }
    pose proof (connect_all_rel (rec_reloc r r') parents x _ _
                  (g_add_rel (rec_reloc r r') x _ _ _ _ HR Hg)) as HC.
    destruct (connect_all parents x (g_add x _ (st_g st))),
             (connect_all parents x (g_add x _ (st_g st'))); simpl in HC; try contradiction; simpl; auto.
    repeat split; auto.
  Qed.

  Lemma stage_row_reloc t U st st' i :
    st_reloc r r' st st' ->
    opt_rel (st_reloc r r') (stage_row ap san pi sp um t U st i) (stage_row ap san pi sp' um t U st' i).
  Proof.
    intros (Hg & Hc & Hw); unfold stage_row; simpl.
    change (sp_params sp') with (sp_params sp). rewrite <- Hc.
    assert (Hw2 : ws_reloc r r'
              (aset (s_name t ++ c_us :: combo_string (sp_params sp) U i)
                    (msp san sp [s_name t; combo_string (sp_params sp) U i]) (st_ws st))
              (aset (s_name t ++ c_us :: combo_string (sp_params sp) U i)
                    (msp san sp' [s_name t; combo_string (sp_params sp) U i]) (st_ws st'))).
    { apply ws_reloc_aset; auto. eexists; split; reflexivity. }
    destruct (str_mem _ (akeys (st_combos st))); simpl.
    - repeat split; auto.
    - apply add_instance_reloc. repeat split; auto.
  Qed.

  Lemma fold_opt_rel {A} (R : sstate -> sstate -> Prop) (f f' : sstate -> A -> option sstate) l :
    (forall a s s', R s s' -> opt_rel R (f s a) (f' s' a)) ->
    forall o o', opt_rel R o o' ->
    opt_rel R (fold_left (fun ost a => match ost with Some s => f s a | None => None end) l o)
              (fold_left (fun ost a => match ost with Some s => f' s a | None => None end) l o').
  Proof.
    intros Hf; induction l; simpl; auto.
    intros o o' Ho. apply IHl. destruct o, o'; simpl in *; auto; contradiction.
  Qed.

  Lemma stage_step_reloc t st st' :
    st_reloc r r' st st' ->
    opt_rel (st_reloc r r') (stage_step ap san pi sp um t st) (stage_step ap san pi sp' um t st').
  Proof.
    intros (Hg & Hc & Hw); unfold stage_step. rewrite <- Hc.
    destruct (used_in um (s_name t)) eqn:EU.
    - apply add_instance_reloc. repeat split; simpl; auto.
      apply ws_reloc_aset; auto. eexists; split; reflexivity.
    - change (sp_params sp') with (sp_params sp). apply fold_opt_rel.
      + intros; apply stage_row_reloc; auto.
      + simpl; repeat split; auto.
  Qed.

  Lemma stage_go_reloc order : forall st st',
    st_reloc r r' st st' ->
    opt_rel (st_reloc r r') (stage_go ap san pi sp um order st) (stage_go ap san pi sp' um order st').
  Proof.
    induction order; intros st st' H; simpl; auto.
    destruct (str_eqb a SOURCE).
    - apply IHorder. destruct H as (Hg & Hc & Hw). repeat split; simpl; auto.
      rewrite <- (g_rel_has _ _ _ SOURCE Hg). destruct (g_has SOURCE (st_g st)); auto.
      apply Forall2_app; auto. constructor; [|constructor]. repeat split; simpl; auto.
    - change (find_step sp' a) with (find_step sp a). destruct (find_step sp a); simpl; auto.
      pose proof (stage_step_reloc s st st' H) as HS.
      destruct (stage_step ap san pi sp um s st), (stage_step ap san pi sp' um s st');
        simpl in HS; try contradiction; simpl; auto.
  Qed.

  Lemma init_reloc : st_reloc r r' (init_state sp) (init_state sp').
  Proof.
    unfold st_reloc, init_state; simpl. split; [|split; auto].
    - constructor.
    - constructor; [|constructor]. simpl; split; auto. exists []; split; reflexivity.
  Qed.
End Reloc.

Definition reloc_rel (r r' : str) (a b : result (usedmap * sstate)) : Prop :=
  match a, b with
  | Ok (um, st), Ok (um', st') => um = um' /\ st_reloc r r' st st'
  | Err e, Err e' => e = e'
  | _, _ => False
  end.

Theorem stage_relocatable ap san pi sp r' :
  reloc_rel (sp_root sp) r' (stage ap san pi sp) (stage ap san pi (set_root r' sp)).
Proof.
  unfold stage. change (sp_steps (set_root r' sp)) with (sp_steps sp).
  destruct (negb (construct_ok [SOURCE] (sp_steps sp))); simpl; auto.
  rewrite toposort_root, topo_ok_root.
  destruct (negb (topo_ok sp (toposort sp))); simpl; auto.
  rewrite plan_go_root.
  destruct (plan_go sp (toposort sp) [(SOURCE, [])]) as [um|]; simpl; auto.
  pose proof (stage_go_reloc ap san pi sp r' um (toposort sp) _ _ (init_reloc sp r')) as H.
  destruct (stage_go ap san pi sp um (toposort sp) (init_state sp)),
           (stage_go ap san pi (set_root r' sp) um (toposort sp) (init_state (set_root r' sp)));
    simpl in H; try contradiction; simpl; auto.
Qed.

(* ------------------------------------------------------------------------ *)
(** * Consequences on observables *)
Lemma observe_reloc r r' g g' :
  g_rel (rec_reloc r r') g g' -> map mask_nobs (observe g) = map mask_nobs (observe g').
Proof.
  intros H; unfold observe. rewrite <- (g_rel_names _ _ _ H).
  generalize (g_names g) as names. induction H; simpl; auto.
  intros names; f_equal; auto.
  destruct H as (A1 & A2 & A3 & A4). unfold obs_node. rewrite A1, A2, A3.
  destruct (nd_rec x) as [ra|], (nd_rec y) as [rb|]; simpl in A4; try contradiction; auto.
  destruct A4 as (B1 & B2 & B3 & B4 & B5 & B6 & B7 & B8 & B9 & B10).
  unfold mask_nobs; simpl. rewrite B1, B4, B5, B6, B7, B8; auto.
Qed.

(** names in insertion order, adjacency table, dependency sets, relative
    workspaces, restart limits, params, description, resource fields, depends:
    unchanged by a change of root; same errors *)
Theorem stage_relocatable_obs ap san pi sp r' :
  mask_result (observe_result (stage ap san pi (set_root r' sp)))
  = mask_result (observe_result (stage ap san pi sp)).
Proof.
  pose proof (stage_relocatable ap san pi sp r') as H.
  destruct (stage ap san pi sp) as [[um st]|e], (stage ap san pi (set_root r' sp)) as [[um' st']|e'];
    simpl in H; try contradiction; simpl; [|congruence].
  destruct H as (-> & Hg & _ & _).
  f_equal; f_equal. symmetry. apply (observe_reloc _ _ _ _ Hg).
Qed.

(** the absolute workspace of every instance is [root/components] for the same
    components, and its commands are related by [txt_reloc] *)
Lemma g_rel_find RR g g' x :
  g_rel RR g g' -> opt_rel (node_rel RR) (g_find x g) (g_find x g').
Proof.
  unfold g_find. induction 1; simpl; auto.
  destruct H as (A1 & A2 & A3 & A4) eqn:E. rewrite A1. destruct (str_eqb x (nd_name y)); simpl; auto.
Qed.

Theorem stage_relocatable_ws ap san pi sp r' um st um' st' x ra :
  stage ap san pi sp = Ok (um, st) -> stage ap san pi (set_root r' sp) = Ok (um', st') ->
  rec_of (st_g st) x = Some ra ->
  exists rb, rec_of (st_g st') x = Some rb
    /\ r_wsc rb = r_wsc ra
    /\ r_ws ra = base (sp_root sp) (r_wsc ra) /\ r_ws rb = base r' (r_wsc ra)
    /\ txt_reloc (sp_root sp) r' (r_cmd ra) (r_cmd rb)
    /\ txt_reloc (sp_root sp) r' (r_restart ra) (r_restart rb).
Proof.
  intros E E' Hx. pose proof (stage_relocatable ap san pi sp r') as H.
  rewrite E, E' in H; simpl in H. destruct H as (_ & Hg & _ & _).
  unfold rec_of in *. pose proof (g_rel_find _ _ _ x Hg) as F.
  destruct (g_find x (st_g st)) as [na|]; [|discriminate].
  destruct (g_find x (st_g st')) as [nb|]; simpl in F; [|contradiction].
  destruct F as (_ & _ & _ & F). rewrite Hx in F.
  destruct (nd_rec nb) as [rb|]; simpl in F; [|contradiction].
  destruct F as (B1 & B2 & B3 & B4 & B5 & B6 & B7 & B8 & B9 & B10).
  exists rb. rewrite B2, B3, B1. repeat split; auto.
Qed.

(** [txt_reloc] is not the full relation: with equal roots it is equality *)
Lemma txt_reloc_same r a b : txt_reloc r r a b -> a = b.
Proof. induction 1; subst; auto. Qed.

(* ------------------------------------------------------------------------ *)
(** * Submission order and status listing never look at cmd / restart *)
Lemma find_obs_mask x nodes :
  find_obs x (map mask_nobs nodes) = option_map mask_nobs (find_obs x nodes).
Proof.
  unfold find_obs; induction nodes as [|o nodes IH]; simpl; auto.
  destruct (str_eqb x (o_name o)); auto.
Qed.

Lemma ready_names_mask done nodes :
  map o_name (filter (ready_now done) (map mask_nobs nodes)) = map o_name (filter (ready_now done) nodes).
Proof.
  induction nodes as [|o nodes IH]; simpl; auto.
  change (ready_now done (mask_nobs o)) with (ready_now done o).
  destruct (ready_now done o); simpl; rewrite IH; auto.
Qed.

Lemma dry_polls_mask fuel nodes : forall done,
  dry_polls fuel (map mask_nobs nodes) done = dry_polls fuel nodes done.
Proof.
  induction fuel; intros done; simpl; auto.
  rewrite ready_names_mask. destruct (map o_name (filter (ready_now done) nodes)); auto.
  rewrite IHfuel; auto.
Qed.

Lemma submission_order_mask nodes : submission_order (map mask_nobs nodes) = submission_order nodes.
Proof. unfold submission_order. rewrite map_length. apply dry_polls_mask. Qed.

Lemma kids_in_mask nodes x : kids_in (map mask_nobs nodes) x = kids_in nodes x.
Proof. unfold kids_in. rewrite find_obs_mask. destruct (find_obs x nodes); auto. Qed.

Lemma bfs_go_mask fuel nodes : forall q p,
  bfs_go fuel (map mask_nobs nodes) q p = bfs_go fuel nodes q p.
Proof.
  induction fuel; intros q p; simpl; auto.
  destruct q; auto. rewrite kids_in_mask. apply IHfuel.
Qed.

Lemma status_rows_mask nodes : status_rows (map mask_nobs nodes) = status_rows nodes.
Proof.
  unfold status_rows, status_order. rewrite map_length, bfs_go_mask.
  apply map_ext; intros x. rewrite find_obs_mask. destruct (find_obs x nodes); auto.
Qed.

Lemma script_names nodes : map sc_name (scripts_of nodes) = concat (submission_order nodes).
Proof.
  unfold scripts_of. rewrite map_map. rewrite <- (map_id (concat (submission_order nodes))) at 2.
  apply map_ext; intros x. unfold script_of. destruct (find_obs x nodes); auto.
Qed.

(** the dry-run submission order, the status listing (names, relative
    workspaces, states, Params column) and the names of the scripts written do
    not change with the root *)
Theorem listing_relocatable ap san pi sp r' :
  let x := c11_model_gen ap san pi sp in
  let x' := c11_model_gen ap san pi (set_root r' sp) in
  x_polls x' = x_polls x /\ x_status x' = x_status x
  /\ map sc_name (x_scripts x') = map sc_name (x_scripts x).
Proof.
  unfold c11_model_gen. pose proof (stage_relocatable_obs ap san pi sp r') as H.
  destruct (observe_result (stage ap san pi sp)) as [o|e],
           (observe_result (stage ap san pi (set_root r' sp))) as [o'|e']; simpl in H; try discriminate;
    simpl; auto.
  inversion H as [[Hu Hn]].
  rewrite !script_names.
  rewrite <- (submission_order_mask (ob_nodes o')), <- (submission_order_mask (ob_nodes o)),
          <- (status_rows_mask (ob_nodes o')), <- (status_rows_mask (ob_nodes o)), Hn; auto.
Qed.

(** both at once: another admissible oracle AND another root *)
Theorem stage_reloc_order_free ap san pi pi' sp r' :
  perm_oracle pi -> perm_oracle pi' ->
  mask_result (observe_result (stage ap san pi' (set_root r' sp)))
  = mask_result (observe_result (stage ap san pi sp)).
Proof.
  intros Hp Hp'. rewrite (stage_order_free ap san pi' pi (set_root r' sp)); auto.
  apply stage_relocatable_obs.
Qed.

(* ------------------------------------------------------------------------ *)
(** * [base] spelled out: "root / c1 / ... / cn" *)
Definition plain_comp (c : str) : bool := negb (is_nil c) && negb (existsb (N.eqb c_slash) c).
Definition root_ok (r : str) : bool :=
  match rev r with [] => false | d :: _ => negb (N.eqb d c_slash) end.

Lemma root_ok_snoc r c : plain_comp c = true -> root_ok (r ++ c_slash :: c) = true.
Proof.
  unfold plain_comp, root_ok; intros H; apply andb_true_iff in H as [H1 H2].
  destruct (@exists_last _ c) as (c0 & d & ->). { destruct c; [discriminate|congruence]. }
  replace (r ++ c_slash :: c0 ++ [d]) with ((r ++ c_slash :: c0) ++ [d])
    by (rewrite <- app_assoc; reflexivity).
  rewrite rev_app_distr. cbn [rev app].
  apply negb_true_iff in H2. apply negb_true_iff.
  destruct (N.eqb d c_slash) eqn:E; auto.
  apply N.eqb_eq in E; subst d. exfalso.
  assert (X : existsb (N.eqb c_slash) (c0 ++ [c_slash]) = true).
  { apply existsb_exists; exists c_slash; split; [apply in_or_app; right; left; auto | apply N.eqb_refl]. }
  congruence.
Qed.

Lemma pjoin_plain r c : root_ok r = true -> plain_comp c = true -> pjoin r c = r ++ c_slash :: c.
Proof.
  unfold root_ok, plain_comp; intros Hr Hc. apply andb_true_iff in Hc as [H1 H2].
  destruct c as [|a c]; [discriminate|].
  assert (Ha : N.eqb a c_slash = false).
  { destruct (N.eqb a c_slash) eqn:E; auto. apply N.eqb_eq in E; subst a.
    apply negb_true_iff in H2. cbn [existsb] in H2. rewrite N.eqb_refl in H2. discriminate. }
  unfold pjoin. rewrite Ha.
  destruct (rev r) as [|d l]; [discriminate|].
  apply negb_true_iff in Hr. rewrite Hr; auto.
Qed.

Theorem base_spelled comps : forall r,
  root_ok r = true -> forallb plain_comp comps = true ->
  base r comps = r ++ flat_map (fun c => c_slash :: c) comps.
Proof.
  unfold base; induction comps as [|c comps IH]; intros r Hr Hc; simpl.
  - rewrite app_nil_r; auto.
  - apply andb_true_iff in Hc as [Hc1 Hc2].
    rewrite pjoin_plain; auto. rewrite IH; auto using root_ok_snoc.
    rewrite <- app_assoc; auto.
Qed.

(* ------------------------------------------------------------------------ *)
(** * --hashws (modelling note of OrderFree.v): a digest of the combination
    string gives root-independent components; the absolute workspace is
    relocated like every other one.  (A digest of anything that mentions the
    root would not be of this form.) *)
Theorem hashed_ws_relocatable san h r r' x combo :
  dir_reloc r r' (hashed_ws san h r x combo) (hashed_ws san h r' x combo).
Proof. exists (map san (hashed_comps h x combo)); split; reflexivity. Qed.

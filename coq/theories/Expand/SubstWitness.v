(** Concrete cases: witnesses of the known findings K4a / K4b of C09 (outside
    the hygiene hypothesis), a witness that the token-freeness hypothesis of the
    core law is necessary, and a hygienic study (non-vacuity of the theorems). *)
From Coq Require Import List NArith Bool Arith Permutation.
From MWF Require Import Base.Str Expand.PyStr Expand.Subst.
Import ListNotations.

Definition run_of (cmd : str) (deps : pyval) (restart : str) : list (str * pyval) :=
  [(s "cmd", VStr cmd); (s "cores per task", VStr []); (s "depends", deps); (s "gpus", VStr []);
   (s "nodes", VStr []); (s "post", VStr []); (s "pre", VStr []); (s "procs", VStr []);
   (s "reservation", VStr []); (s "restart", VStr restart); (s "walltime", VStr [])].

Definition std_env (root : str) : list env_op :=
  [ERemove (s "OUTPUT_PATH"); EAdd (EVar (s "OUTPUT_PATH") root true);
   EAdd (EVar (s "SPECROOT") (s "/spec") true)].

(** K4a: two workspace tokens separated by "/" only (corpus/C09/k4a_adjacent_ws.json) *)
Definition k4a_case : case :=
  {| c_root := s "/out"; c_shell := s "/bin/bash"; c_env := std_env (s "/out"); c_params := [];
     c_steps := [ {| s_name := s "a"; s_desc := s "first";
                     s_run := run_of (s "echo 1 > out.txt") (VStr []) [] |};
                  {| s_name := s "b"; s_desc := s "second";
                     s_run := run_of (s "cat $(a.workspace)/$(a.workspace)") (VList [VStr (s "a")]) [] |} ];
     c_order := [0; 1] |}.

(** K4a, second shape: a parameter token glued in front of a workspace token
    (corpus/C09/k4a_param_before_ws.json) *)
Definition k4a_case2 : case :=
  {| c_root := s "/out"; c_shell := s "/bin/bash"; c_env := std_env (s "/out");
     c_params := [ {| p_key := s "P"; p_name := []; p_values := [s "1"; s "2"]; p_label := LFmt (s "P.%%") |} ];
     c_steps := [ {| s_name := s "a"; s_desc := s "first";
                     s_run := run_of (s "echo 1 > out.txt") (VStr []) [] |};
                  {| s_name := s "b"; s_desc := s "second";
                     s_run := run_of (s "cp $(P)/$(a.workspace)/out.txt .") (VList [VStr (s "a")]) [] |} ];
     c_order := [0; 1] |}.

(** K4b: parameter values that are token text (corpus/C09/k4b_value_token.json) *)
Definition k4b_case : case :=
  {| c_root := s "/out"; c_shell := s "/bin/bash";
     c_env := EAdd (EVar (s "VAR1") (s "data") true) :: std_env (s "/out");
     c_params := [ {| p_key := s "P"; p_name := []; p_values := [s "$(WORKSPACE)/x"; s "$(VAR1)"];
                      p_label := LList [s "l0"; s "l1"] |} ];
     c_steps := [ {| s_name := s "a"; s_desc := s "first";
                     s_run := run_of (s "echo $(P) $(VAR1)") (VStr []) [] |} ];
     c_order := [0] |}.

(** K4c: a step name with a blank: WSREGEX never recognises its workspace token
    (corpus/C09/k4c_space_name.json) *)
Definition k4c_case : case :=
  {| c_root := s "/out"; c_shell := s "/bin/bash"; c_env := std_env (s "/out"); c_params := [];
     c_steps := [ {| s_name := s "run sim"; s_desc := s "first";
                     s_run := run_of (s "echo 1 > out.txt") (VStr []) [] |};
                  {| s_name := s "collect"; s_desc := s "second";
                     s_run := run_of (s "ls $(run sim.workspace)") (VList [VStr (s "run sim_*")]) [] |} ];
     c_order := [0; 1] |}.

(** a funnel parent whose name [make_safe_path] rewrites, inside the hypotheses *)
Definition colon_case : case :=
  {| c_root := s "/out"; c_shell := s "/bin/bash"; c_env := std_env (s "/out");
     c_params := [ {| p_key := s "P"; p_name := []; p_values := [s "1"; s "2"]; p_label := LFmt (s "P.%%") |} ];
     c_steps := [ {| s_name := s "run:sim"; s_desc := s "first";
                     s_run := run_of (s "sim $(P)") (VStr []) [] |};
                  {| s_name := s "collect"; s_desc := s "unparameterised consumer";
                     s_run := run_of (s "ls $(run:sim.workspace)") (VList [VStr (s "run:sim_*")])
                                     (s "ls -l $(run:sim.workspace)") |};
                  {| s_name := s "compare"; s_desc := s "parameterised consumer";
                     s_run := run_of (s "cmp $(P) $(run:sim.workspace)") (VList [VStr (s "run:sim_*")]) [] |} ];
     c_order := [0; 1; 2] |}.

(** a study inside the hypotheses: environment variable, parameter with value /
    label / name tokens, own workspace, an ordinary and a funnel reference *)
Definition good_case : case :=
  {| c_root := s "/out"; c_shell := s "/bin/bash";
     c_env := EAdd (EVar (s "VAR1") (s "data") true) :: std_env (s "/out");
     c_params := [ {| p_key := s "P"; p_name := s "size"; p_values := [s "1"; s "2"]; p_label := LFmt (s "P.%%") |} ];
     c_steps := [ {| s_name := s "a"; s_desc := s "make $(P)";
                     s_run := run_of (s "echo $(P) $(VAR1) $(date) > $(WORKSPACE)/o") (VStr []) [] |};
                  {| s_name := s "b"; s_desc := s "use";
                     s_run := run_of (s "cat $(a.workspace)/o # $(P.label) $(P.name)") (VList [VStr (s "a")])
                                     (s "touch $(WORKSPACE)/again") |};
                  {| s_name := s "c"; s_desc := s "collect";
                     s_run := run_of (s "ls $(a.workspace) $(OUTPUT_PATH)") (VList [VStr (s "a_*")]) [] |} ];
     c_order := [0; 1; 2] |}.

Definition script_of (name : str) (o : outcome) : option str :=
  match o with
  | Raised => None
  | Staged l => option_map i_script (find (fun i => str_eqb name (i_name i)) l)
  end.

Lemma k4a_facts :
  valid_case k4a_case = true /\ sig_K4a k4a_case = true /\ hyg k4a_case = false /\
  stage Model k4a_case = Raised /\ C09_ok k4a_case (stage Model k4a_case) = false.
Proof. vm_compute. repeat split; reflexivity. Qed.

Lemma k4a_facts2 :
  valid_case k4a_case2 = true /\ sig_K4a k4a_case2 = true /\ hyg k4a_case2 = false /\
  stage Model k4a_case2 = Raised /\ C09_ok k4a_case2 (stage Model k4a_case2) = false.
Proof. vm_compute. repeat split; reflexivity. Qed.

Lemma k4b_facts :
  valid_case k4b_case = true /\ sig_K4a k4b_case = false /\ hyg k4b_case = false /\
  C09_ok k4b_case (stage Model k4b_case) = false /\
  script_of (s "a_l0") (stage Model k4b_case) =
    Some (script_text (s "/bin/bash") (s "echo /out/a/l0/x data")) /\
  script_of (s "a_l1") (stage Model k4b_case) =
    Some (script_text (s "/bin/bash") (s "echo $(VAR1) data")).
Proof. vm_compute. repeat split; reflexivity. Qed.

Lemma k4c_facts :
  valid_case k4c_case = true /\ sig_K4a k4c_case = false /\ sig_K4c k4c_case = true /\
  hyg k4c_case = false /\ C09_ok k4c_case (stage Model k4c_case) = false /\
  script_of (s "collect") (stage Model k4c_case) =
    Some (script_text (s "/bin/bash") (s "ls $(run sim.workspace)")).
Proof. vm_compute. repeat split; reflexivity. Qed.

Lemma colon_facts :
  valid_case colon_case = true /\ hyg colon_case = true /\ sig_K4c colon_case = false /\
  script_of (s "collect") (stage Model colon_case) =
    Some (script_text (s "/bin/bash") (s "ls /out/runsim")) /\
  script_of (s "compare_P.2") (stage Model colon_case) =
    Some (script_text (s "/bin/bash") (s "cmp 2 /out/runsim")) /\
  script_of (s "run:sim_P.2") (stage Model colon_case) =
    Some (script_text (s "/bin/bash") (s "sim 2")).
Proof. vm_compute. repeat split; reflexivity. Qed.

Lemma good_facts :
  valid_case good_case = true /\ hyg good_case = true /\ sig_K4a good_case = false /\
  script_of (s "a_P.2") (stage Model good_case) =
    Some (script_text (s "/bin/bash") (s "echo 2 data $(date) > /out/a/P.2/o")) /\
  script_of (s "b_P.2") (stage Model good_case) =
    Some (script_text (s "/bin/bash") (s "cat /out/a/P.2/o # P.2 size")) /\
  script_of (s "c") (stage Model good_case) =
    Some (script_text (s "/bin/bash") (s "ls /out/a /out")).
Proof. vm_compute. repeat split; reflexivity. Qed.

(** the token-freeness hypothesis of the core law cannot be dropped *)
Definition chain_table : table := [(s "$(A)", s "$(B)"); (s "$(B)", s "1")].
Lemma chain_facts :
  wf_tableb chain_table = true /\
  seq chain_table (s "$(A)") = s "1" /\ sim chain_table (s "$(A)") = s "$(B)" /\
  seq (rev chain_table) (s "$(A)") = s "$(B)".
Proof. vm_compute. repeat split; reflexivity. Qed.

(* ------------------------------------------------------------------------ *)
(** * The refutations, in the form quoted by Props/C09.v *)
Theorem unconditional_core_refuted : exists (T l : table) (x : str),
  wf_tableb T = true /\ Permutation l T /\ seq l x <> sim T x /\ seq l x <> seq (rev l) x.
Proof.
  exists chain_table, chain_table, (s "$(A)").
  destruct chain_facts as [A [B [C0 D]]]. rewrite B, C0, D.
  split; [exact A|]. split; [apply Permutation_refl|]. split; discriminate.
Qed.

Theorem K4a_refuted : exists c : case,
  valid_case c = true /\ sig_K4a c = true /\
  stage Model c = Raised /\ C09_ok c (stage Model c) = false.
Proof.
  exists k4a_case. destruct k4a_facts as [A [B [_ [D E]]]]. repeat split; assumption.
Qed.

Theorem K4a_param_refuted : exists c : case,
  valid_case c = true /\ sig_K4a c = true /\ c_params c <> [] /\
  stage Model c = Raised /\ C09_ok c (stage Model c) = false.
Proof.
  exists k4a_case2. destruct k4a_facts2 as [A [B [_ [D E]]]]. repeat split; try assumption.
  discriminate.
Qed.

Theorem K4b_refuted : exists c : case,
  valid_case c = true /\ sig_K4a c = false /\ sig_K4b c = true /\
  C09_ok c (stage Model c) = false.
Proof.
  exists k4b_case. destruct k4b_facts as [A [B [C0 [D _]]]].
  unfold sig_K4b. rewrite C0. repeat split; assumption.
Qed.

Theorem K4c_refuted : exists c : case,
  valid_case c = true /\ sig_K4a c = false /\ sig_K4c c = true /\
  C09_ok c (stage Model c) = false.
Proof.
  exists k4c_case. destruct k4c_facts as [A [B [C0 [_ [D _]]]]]. repeat split; assumption.
Qed.

Lemma core_example :
  let T := [(s "$(A)", s "1"); (s "$(A.label)", s "A.1")] in
  wf_tableb T = true /\ token_free T (sim T (s "x$(A)$(A.label)$(B)")) = true /\
  sim T (s "x$(A)$(A.label)$(B)") = s "x1A.1$(B)".
Proof. vm_compute. repeat split; reflexivity. Qed.

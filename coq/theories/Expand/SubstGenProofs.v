(** Tie between the hand-written substitution model (Subst.v), which every
    theorem of Props/C09.v is about, and the text GENERATED from the current
    source of maestrowf (SubstGen.v, by translate/tcode_subst.py): each
    generated function is EQUAL to the model function that plays its role in
    [C09_passes] ([env_pass], [param_pass], [rec_pass]), in [C09_values]
    ([param_table]), in [C09_recursion] ([apply_function]) and in
    [C09_env_values] ([env_add], [env_find]).  An edit of the source that
    changes what one of these methods does (label / value / name mixed up, a
    [replace] with a count, the order of the passes, a pass dropped, recursion
    that stops at dict values, an early exit) changes SubstGen.v and breaks one
    of these obligations.

    How Python objects are read as model values: an environment object with the
    default token is the table entry "$(" name ")" |-> str(value) ([entry_of]);
    a [StudyEnvironment] is the [envt] of its three dictionaries ([env_abs]);
    the [Combination] that [ParameterGenerator.get_combinations] builds for row
    [i] of the parameters [ps] is [combo_of ps i].

    The proofs never restate the generated text. *)
From Coq Require Import List NArith Bool Arith Lia.
From MWF Require Import Base.Str Base.Util Expand.PyStr Expand.PyStrProofs Expand.Subst
     Expand.SubstProofs Expand.SubstPasses Expand.SubstOps Expand.SubstGen.
Import ListNotations.
(* [seq] is the model's sequential substitution, not List.seq *)
Local Notation seq := Subst.seq.

(* ------------------------------------------------------------------------- *)
(** * small facts about the combinators                                       *)
(* ------------------------------------------------------------------------- *)

Lemma for_items_seq : forall (T : table) x,
  for_items T (fun k v item => replace k (py_str v) item) x = seq T x.
Proof. reflexivity. Qed.

Lemma for_each_append : forall {A} (f : A -> str) l acc,
  for_each l (fun x acc => list_append (f x) acc) acc = acc ++ map f l.
Proof.
  intros A f l. unfold for_each, list_append.
  induction l as [|a l IH]; intros acc; simpl.
  - rewrite app_nil_r. reflexivity.
  - rewrite IH, <- app_assoc. reflexivity.
Qed.

Lemma dict_put_fresh : forall {A} k (v : A) d,
  dict_has k d = false -> dict_put k v d = d ++ [(k, v)].
Proof.
  intros A k v d. unfold dict_has. induction d as [|[k' w] d IH]; simpl; intros H; [reflexivity|].
  apply orb_false_iff in H. destruct H as [H1 H2]. rewrite H1, IH by exact H2. reflexivity.
Qed.

Lemma dict_has_lookup : forall {A} k (d : list (str * A)),
  dict_has k d = match dict_lookup k d with Some _ => true | None => false end.
Proof.
  intros A k d. unfold dict_has. induction d as [|[k' w] d IH]; simpl; [reflexivity|].
  destruct (str_eqb k k'); simpl; [reflexivity | exact IH].
Qed.

Lemma dict_has_app : forall {A} k (d1 d2 : list (str * A)),
  dict_has k (d1 ++ d2) = dict_has k d1 || dict_has k d2.
Proof. intros. unfold dict_has. apply existsb_app. Qed.

Lemma occursb_char : forall c v, occursb [c] v = existsb (N.eqb c) v.
Proof.
  intros c v. induction v as [|a v IH]; simpl; [reflexivity|].
  rewrite IH. destruct v; rewrite andb_true_r; reflexivity.
Qed.

(** token texts *)
Lemma tok_inj : forall a b, tok a = tok b -> a = b.
Proof.
  unfold tok. intros a b H. injection H as H. apply app_inv_tail in H. exact H.
Qed.

Lemma tok_eqb : forall a b, str_eqb (tok a) (tok b) = str_eqb a b.
Proof.
  intros a b. destruct (str_eqb a b) eqn:E.
  - apply str_eqb_eq in E. subst. apply str_eqb_refl.
  - apply str_eqb_neq. apply str_eqb_neq in E. intros H. apply E, tok_inj, H.
Qed.

Lemma tok_sfx_eqb : forall a b sfx, str_eqb (tok (a ++ sfx)) (tok (b ++ sfx)) = str_eqb a b.
Proof.
  intros a b sfx. rewrite tok_eqb. destruct (str_eqb a b) eqn:E.
  - apply str_eqb_eq in E. subst. apply str_eqb_refl.
  - apply str_eqb_neq. apply str_eqb_neq in E. intros H. apply E. eapply app_inv_tail, H.
Qed.

(** the three formats of the code are the model's token texts *)
Lemma format_value : forall k, py_format (s "{}({})") [s "$"; k] = tok k.
Proof. reflexivity. Qed.
Lemma format_label : forall k, py_format (s "{}({}.label)") [s "$"; k] = tok (k ++ s ".label").
Proof. intros k. unfold tok. rewrite <- app_assoc. reflexivity. Qed.
Lemma format_name : forall k, py_format (s "{}({}.name)") [s "$"; k] = tok (k ++ s ".name").
Proof. intros k. unfold tok. rewrite <- app_assoc. reflexivity. Qed.

(* ------------------------------------------------------------------------- *)
(** * utils.apply_function  ([C09_recursion])                                  *)
(* ------------------------------------------------------------------------- *)

Theorem apply_function_is_generated : forall (f : str -> str) (v : pyval),
  apply_function_gen v f = apply_function f v.
Proof.
  intros f. induction v using pyval_ind'.
  - destruct x; reflexivity.
  - assert (E : list_comp (fun x => apply_function_gen x f) l = map (apply_function f) l).
    { unfold list_comp. induction H as [|b l' Hb Hl IH]; simpl; [reflexivity|]. rewrite Hb, IH. reflexivity. }
    destruct l as [|a l]; [reflexivity|].
    cbn [apply_function_gen apply_function truthy negb case_str case_list py_of_list].
    rewrite E. reflexivity.
  - rewrite apply_function_VDict.
    assert (E : dict_comp (fun key value => (key, apply_function_gen value f)) d = apply_dict f d).
    { unfold dict_comp, apply_dict.
      induction H as [|b d' Hb Hd IH]; simpl; [reflexivity|]. rewrite Hb, IH. reflexivity. }
    destruct d as [|kv d]; [reflexivity|].
    cbn [apply_function_gen truthy negb case_str case_list case_dict py_of_dict dict_items].
    unfold dict_items, py_of_dict. rewrite E. reflexivity.
  - destruct b; reflexivity.
Qed.

(** as the two callers use it: Study.add_step and StudyStep.apply_parameters map
    a pass over every field of a step *)
Corollary apply_function_is_generated_dict : forall (f : str -> str) (d : list (str * pyval)),
  apply_function_gen (VDict d) f = VDict (apply_dict f d).
Proof. intros. rewrite apply_function_is_generated. apply apply_function_VDict. Qed.

(* ------------------------------------------------------------------------- *)
(** * Variable / PathDependency: get_var, substitute                           *)
(* ------------------------------------------------------------------------- *)

(** an object built by the constructors: the token is the default one *)
Definition wf_obj (o : envobj) : Prop :=
  o_token o = s "$" /\ (o_kind o = KVariable \/ o_kind o = KPathDependency).

(** the table entry an object stands for *)
Definition entry_of (o : envobj) : entry := (tok (o_name o), o_value o).

Theorem variable_init_is_generated : forall n v b,
  wf_obj (variable_init_gen n v b) /\ entry_of (variable_init_gen n v b) = (tok n, v) /\
  o_value_isstr (variable_init_gen n v b) = b.
Proof. intros. unfold wf_obj. cbn. auto. Qed.

Theorem variable_get_var_is_generated : forall o,
  o_token o = s "$" -> variable_get_var_gen o = tok (o_name o).
Proof. intros o H. unfold variable_get_var_gen. rewrite H. apply format_value. Qed.

Theorem pathdependency_get_var_is_generated : forall o,
  o_token o = s "$" -> pathdependency_get_var_gen o = tok (o_name o).
Proof. intros o H. unfold pathdependency_get_var_gen. rewrite H. apply format_value. Qed.

(** [substitute] is ONE Python [replace] of the object's entry: the one-entry [seq] *)
Theorem variable_substitute_is_generated : forall o x,
  o_token o = s "$" -> variable_substitute_gen o x = seq [entry_of o] x.
Proof.
  intros o x H. unfold variable_substitute_gen. rewrite variable_get_var_is_generated by exact H.
  reflexivity.
Qed.

Theorem pathdependency_substitute_is_generated : forall o x,
  o_token o = s "$" -> pathdependency_substitute_gen o x = seq [entry_of o] x.
Proof.
  intros o x H. unfold pathdependency_substitute_gen.
  rewrite pathdependency_get_var_is_generated by exact H. reflexivity.
Qed.

Theorem obj_substitute_is_generated : forall o x,
  wf_obj o -> obj_substitute_gen o x = replace (tok (o_name o)) (o_value o) x.
Proof.
  intros o x [Ht [Hk|Hk]]; unfold obj_substitute_gen; rewrite Hk.
  - rewrite variable_substitute_is_generated by exact Ht. reflexivity.
  - rewrite pathdependency_substitute_is_generated by exact Ht. reflexivity.
Qed.

(* ------------------------------------------------------------------------- *)
(** * StudyEnvironment  ([env_pass], [env_add], [env_find])                    *)
(* ------------------------------------------------------------------------- *)

Definition abs_table (d : list (str * envobj)) : table := map (fun kv => entry_of (snd kv)) d.

(** dictionaries of the environment: keyed by the object's name *)
Definition wf_dict (d : list (str * envobj)) : Prop :=
  Forall (fun kv => wf_obj (snd kv) /\ fst kv = o_name (snd kv)) d.

Definition env_abs (E : environment) : envt :=
  {| e_labels := abs_table (env_labels E);
     e_deps := abs_table (env_dependencies E);
     e_subs := abs_table (env_substitutions E);
     e_tokens := match env_tokens E with [] => false | _ :: _ => true end |}.

Definition wf_env (E : environment) : Prop :=
  wf_dict (env_labels E) /\ wf_dict (env_dependencies E) /\ wf_dict (env_substitutions E) /\
  Forall (fun t => t = s "$") (env_tokens E).

Theorem environment_init_is_generated :
  wf_env environment_init_gen /\ env_abs environment_init_gen = env_empty.
Proof. unfold wf_env, wf_dict. cbn. repeat split; constructor. Qed.

Lemma substitute_loop : forall d x,
  wf_dict d ->
  for_items (dict_items d) (fun _ v item => obj_substitute_gen v item) x = seq (abs_table d) x.
Proof.
  intros d x H. revert x. unfold for_items, dict_items, seq.
  induction H as [|[k o] d [Ho _] Hd IH]; intros x; simpl; [reflexivity|].
  rewrite obj_substitute_is_generated by exact Ho. apply IH.
Qed.

(** apply_environment: labels, then dependencies, then substitutions, each a
    loop of [replace]s in dictionary order; the empty string is handed back *)
Theorem apply_environment_is_generated : forall E x,
  wf_env E -> environment_apply_environment_gen E x = env_pass Model (env_abs E) x.
Proof.
  intros E x (Hl & Hd & Hs & _). destruct x as [|c x]; [reflexivity|].
  unfold environment_apply_environment_gen, env_pass, pass. cbn [str_truthy negb env_abs e_labels e_deps e_subs].
  cbv zeta.
  rewrite (substitute_loop _ _ Hl), (substitute_loop _ _ Hd), (substitute_loop _ _ Hs).
  destruct (seq (abs_table (env_substitutions E)) _); reflexivity.
Qed.

(** the model item an object is *)
Definition item_of (o : envobj) : env_item :=
  match o_kind o with
  | KPathDependency => EDep (o_name o) (o_value o)
  | _ => EVar (o_name o) (o_value o) (o_value_isstr o)
  end.

Definition fresh (n : str) (E : environment) : Prop :=
  dict_has n (env_labels E) = false /\ dict_has n (env_dependencies E) = false /\
  dict_has n (env_substitutions E) = false /\ oset_mem (Some n) (env_names E) = false.

Lemma abs_table_put : forall d o,
  dict_has (o_name o) d = false ->
  abs_table (dict_put (o_name o) o d) = abs_table d ++ [(tok (o_name o), o_value o)].
Proof.
  intros d o H. rewrite dict_put_fresh by exact H. unfold abs_table. rewrite map_app. reflexivity.
Qed.

Lemma wf_dict_put : forall d o,
  wf_dict d -> wf_obj o -> dict_has (o_name o) d = false -> wf_dict (dict_put (o_name o) o d).
Proof.
  intros d o Hd Ho H. rewrite dict_put_fresh by exact H. apply Forall_app. split; [exact Hd|].
  constructor; [|constructor]. split; [exact Ho | reflexivity].
Qed.

Lemma any_token : forall (l : list str) (f : str -> bool),
  Forall (fun t => t = s "$") l ->
  any_of l f = match l with [] => false | _ :: _ => f (s "$") end.
Proof.
  intros l f H. unfold any_of. induction H as [|t l Ht Hl IH]; [reflexivity|].
  simpl. subst t. rewrite IH. destruct l; [apply orb_false_r | apply orb_diag].
Qed.

(** add: an object with a new name becomes an entry of the table its class and
    its value select (a string value that holds the token of an already
    registered substitution is a label); the three model tables are what
    [apply_environment] loops over *)
Theorem environment_add_is_generated : forall E o,
  wf_env E -> wf_obj o -> fresh (o_name o) E ->
  exists E', environment_add_gen E o = Done E' /\ wf_env E' /\
             env_abs E' = env_add (env_abs E) (item_of o).
Proof.
  intros E o (Hl & Hd & Hs & Ht) Ho (Fl & Fd & Fs & Fn).
  unfold environment_add_gen. cbv zeta.
  assert (Hn : forall E0, env_names E0 = env_names E ->
            (optstr_truthy (Some (o_name o)) && oset_mem (Some (o_name o)) (env_names E0)) = false).
  { intros E0 ->. rewrite Fn. apply andb_false_r. }
  destruct Ho as [Htok [Hk|Hk]].
  - (* Variable *)
    unfold isinstance_Dependency, isinstance_Substitution, item_of. rewrite Hk.
    rewrite (any_token _ _ Ht). unfold str_contains, as_str.
    change (s "$") with [DOLLAR]. rewrite occursb_char.
    destruct (o_value_isstr o && match env_tokens E with [] => false | _ :: _ => existsb (N.eqb DOLLAR) (o_value o) end) eqn:C.
    + rewrite Hn by reflexivity. eexists. split; [reflexivity|]. split.
      * repeat split; cbn; auto. apply wf_dict_put; auto. split; auto.
      * unfold env_abs, env_add. cbn.
        rewrite abs_table_put by exact Fl.
        assert (C' : o_value_isstr o && match env_tokens E with [] => false | _ :: _ => true end &&
                     existsb (N.eqb DOLLAR) (o_value o) = true).
        { destruct (o_value_isstr o), (env_tokens E); simpl in *; auto. }
        rewrite C'. reflexivity.
    + rewrite Hn by reflexivity. eexists. split; [reflexivity|]. split.
      * repeat split; cbn; auto.
        -- apply wf_dict_put; auto. split; auto.
        -- unfold sset_add. destruct (str_mem (o_token o) (env_tokens E)); [exact Ht|].
           apply Forall_app. split; [exact Ht|]. constructor; [exact Htok | constructor].
      * unfold env_abs, env_add. cbn.
        rewrite abs_table_put by exact Fs.
        assert (C' : o_value_isstr o && match env_tokens E with [] => false | _ :: _ => true end &&
                     existsb (N.eqb DOLLAR) (o_value o) = false).
        { destruct (o_value_isstr o), (env_tokens E); simpl in *; auto. }
        rewrite C'. f_equal.
        unfold sset_add. destruct (str_mem (o_token o) (env_tokens E)) eqn:M.
        -- destruct (env_tokens E); [discriminate | reflexivity].
        -- destruct (env_tokens E); reflexivity.
  - (* PathDependency *)
    unfold isinstance_Dependency, item_of. rewrite Hk.
    rewrite Hn by reflexivity. eexists. split; [reflexivity|]. split.
    + repeat split; cbn; auto. apply wf_dict_put; auto. split; auto.
    + unfold env_abs, env_add. cbn. rewrite abs_table_put by exact Fd. reflexivity.
Qed.

(** a name that is already registered is refused *)
Theorem environment_add_duplicate : forall E o,
  wf_obj o -> o_name o <> [] -> oset_mem (Some (o_name o)) (env_names E) = true ->
  environment_add_gen E o = Raise ValueError.
Proof.
  intros E o [_ Hk] Hne Hm. unfold environment_add_gen. cbv zeta.
  assert (T : optstr_truthy (Some (o_name o)) = true) by (destruct (o_name o); [congruence | reflexivity]).
  assert (C : forall E0, env_names E0 = env_names E ->
            optstr_truthy (Some (o_name o)) && oset_mem (Some (o_name o)) (env_names E0) = true).
  { intros E0 ->. rewrite T, Hm. reflexivity. }
  destruct Hk as [Hk|Hk]; unfold isinstance_Dependency, isinstance_Substitution; rewrite Hk.
  - destruct (o_value_isstr o && _); rewrite C; reflexivity.
  - rewrite C; reflexivity.
Qed.

Lemma find_abs_table : forall d n,
  wf_dict d ->
  find (fun e => str_eqb (tok n) (fst e)) (abs_table d) = option_map entry_of (dict_lookup n d).
Proof.
  intros d n H. unfold abs_table. induction H as [|[k o] d [_ Hk] Hd IH]; [reflexivity|].
  cbn [map find dict_lookup snd fst entry_of] in *. subst k. rewrite tok_eqb.
  destruct (str_eqb n (o_name o)); [reflexivity | exact IH].
Qed.

(** find: dependencies, then substitutions, then labels *)
Theorem environment_find_is_generated : forall E n,
  wf_env E -> option_map o_value (environment_find_gen E n) = env_find (env_abs E) n.
Proof.
  intros E n (Hl & Hd & Hs & _). unfold environment_find_gen, env_find. cbn [env_abs e_deps e_subs e_labels].
  rewrite !dict_has_lookup, !find_abs_table by assumption.
  destruct (dict_lookup n (env_dependencies E)); [reflexivity|].
  destruct (dict_lookup n (env_substitutions E)); [reflexivity|].
  destruct (dict_lookup n (env_labels E)); reflexivity.
Qed.

(* ------------------------------------------------------------------------- *)
(** * Combination  ([param_table], [param_pass], [combo_string])               *)
(* ------------------------------------------------------------------------- *)

(** the Combination get_combinations builds for row [i]: one [add] per parameter *)
Definition combo_of (ps : list param) (i : nat) : combination :=
  fold_left (fun cb p => combination_add_gen cb (p_key p) (param_name p) (row_value p i) (row_label p i))
            ps combination_init_gen.

Definition labels_of (ps : list param) (i : nat) : table :=
  map (fun p => (tok (p_key p ++ s ".label"), row_label p i)) ps.
Definition values_of (ps : list param) (i : nat) : table :=
  map (fun p => (tok (p_key p), row_value p i)) ps.
Definition names_of (ps : list param) : table :=
  map (fun p => (tok (p_key p ++ s ".name"), param_name p)) ps.

Lemma param_table_parts : forall ps i,
  param_table ps i = labels_of ps i ++ values_of ps i ++ names_of ps.
Proof. reflexivity. Qed.

Lemma dict_has_keyed : forall (ps : list param) (k sfx : str) (g : param -> str),
  ~ In k (map p_key ps) ->
  dict_has (tok (k ++ sfx)) (map (fun p => (tok (p_key p ++ sfx), g p)) ps) = false.
Proof.
  intros ps k sfx g H. unfold dict_has. induction ps as [|p ps IH]; [reflexivity|].
  cbn [map existsb fst]. rewrite tok_sfx_eqb. cbn [map In] in H.
  assert (E : str_eqb k (p_key p) = false) by (apply str_eqb_neq; intros ->; apply H; left; reflexivity).
  rewrite E. apply IH. intros Hin. apply H. right. exact Hin.
Qed.

Lemma dict_has_keyed0 : forall (ps : list param) (k : str) (g : param -> str),
  ~ In k (map p_key ps) ->
  dict_has (tok k) (map (fun p => (tok (p_key p), g p)) ps) = false.
Proof.
  intros ps k g H. unfold dict_has. induction ps as [|p ps IH]; [reflexivity|].
  cbn [map existsb fst]. rewrite tok_eqb. cbn [map In] in H.
  assert (E : str_eqb k (p_key p) = false) by (apply str_eqb_neq; intros ->; apply H; left; reflexivity).
  rewrite E. apply IH. intros Hin. apply H. right. exact Hin.
Qed.

(** add: "$(K)" |-> value, "$(K.label)" |-> label, "$(K.name)" |-> name, each
    into its own dictionary  ([C09_values]) *)
Theorem combination_add_is_generated : forall ps i,
  NoDup (map p_key ps) ->
  cb_labels (combo_of ps i) = labels_of ps i /\
  cb_params (combo_of ps i) = values_of ps i /\
  cb_names (combo_of ps i) = names_of ps /\
  cb_token (combo_of ps i) = s "$".
Proof.
  intros ps i. induction ps as [|p ps IH] using rev_ind; intros ND.
  - repeat split.
  - rewrite map_app in ND. simpl in ND.
    assert (ND' : NoDup (map p_key ps)).
    { apply NoDup_remove_1 in ND. rewrite app_nil_r in ND. exact ND. }
    assert (Hp : ~ In (p_key p) (map p_key ps)).
    { apply NoDup_remove_2 in ND. rewrite app_nil_r in ND. exact ND. }
    destruct (IH ND') as (L & V & N & T).
    unfold combo_of in *. rewrite fold_left_app. cbn [fold_left].
    set (cb := fold_left _ ps combination_init_gen) in *.
    unfold combination_add_gen. cbv zeta. cbn [cb_labels cb_params cb_names cb_token set_cb_params set_cb_labels set_cb_names].
    rewrite T, format_value, format_label, format_name, L, V, N.
    unfold labels_of, values_of, names_of. rewrite !map_app. cbn [map].
    rewrite !dict_put_fresh
      by (first [apply dict_has_keyed; exact Hp | apply dict_has_keyed0; exact Hp]).
    repeat split.
Qed.

(** apply: labels, then values, then names, one [replace] per entry:
    the model's parameter pass *)
Theorem combination_apply_is_generated : forall ps i x,
  NoDup (map p_key ps) -> combination_apply_gen (combo_of ps i) x = param_pass Model ps i x.
Proof.
  intros ps i x ND. destruct (combination_add_is_generated ps i ND) as (L & V & N & _).
  unfold combination_apply_gen, param_pass, pass. cbv zeta. unfold dict_items.
  rewrite L, V, N, param_table_parts, !SubstProofs.seq_app. reflexivity.
Qed.

Corollary combination_apply_is_generated_b : forall ps i x,
  keys_okb ps = true -> combination_apply_gen (combo_of ps i) x = param_pass Model ps i x.
Proof.
  intros ps i x H. apply combination_apply_is_generated.
  unfold keys_okb in H. apply andb_true_iff in H. apply str_nodupb_NoDup, H.
Qed.

Lemma label_lookup : forall ps i k,
  dict_get_str (tok (k ++ s ".label")) (labels_of ps i) =
  match find_param k ps with Some p => row_label p i | None => [] end.
Proof.
  intros ps i k. unfold dict_get_str, find_param, labels_of.
  induction ps as [|p ps IH]; [reflexivity|].
  cbn [map dict_lookup find]. rewrite tok_sfx_eqb. destruct (str_eqb k (p_key p)); [reflexivity | exact IH].
Qed.

(** get_param_string: the labels of the sorted keys, joined by "." *)
Theorem get_param_string_is_generated : forall ps i keys,
  NoDup (map p_key ps) ->
  combination_get_param_string_gen (combo_of ps i) keys = combo_string ps i (py_sorted keys).
Proof.
  intros ps i keys ND. destruct (combination_add_is_generated ps i ND) as (L & _ & _ & T).
  unfold combination_get_param_string_gen, combo_string. cbv zeta.
  rewrite T, L.
  rewrite (for_each_append (fun item => dict_get_str (py_format (s "{}({}.label)") [s "$"; item]) (labels_of ps i))).
  unfold list_empty, py_join. cbn [app]. f_equal.
  apply map_ext. intros k. rewrite format_label. apply label_lookup.
Qed.

(* ------------------------------------------------------------------------- *)
(** * _StepRecord: the $(WORKSPACE) pass  ([rec_pass])                          *)
(* ------------------------------------------------------------------------- *)

Theorem steprecord_init_is_generated : forall (d : desc) cmd rst,
  steprecord_init_gen (d_ws d) (mkrun cmd rst) =
  (variable_init_gen (s "WORKSPACE") (d_ws d) true,
   mkrun (rec_pass Model d cmd) (rec_pass Model d rst)).
Proof. reflexivity. Qed.

Theorem steprecord_generate_script_is_generated : forall (d : desc) r,
  steprecord_generate_script_gen (variable_init_gen (s "WORKSPACE") (d_ws d) true) r =
  mkrun (rec_pass Model d (run_cmd r)) (run_restart r).
Proof. reflexivity. Qed.

(** what reaches the adapter: cmd went through the pass twice (constructor and
    generate_script), restart once -- [cmd4] / [rst3] of [Subst.inst_of Model] *)
Theorem steprecord_passes_is_generated : forall (d : desc) cmd rst,
  steprecord_generate_script_gen (fst (steprecord_init_gen (d_ws d) (mkrun cmd rst)))
                                 (snd (steprecord_init_gen (d_ws d) (mkrun cmd rst))) =
  mkrun (rec_pass Model d (rec_pass Model d cmd)) (rec_pass Model d rst).
Proof. reflexivity. Qed.

(* ------------------------------------------------------------------------- *)
(** * ParameterGenerator: defaults of add_parameter, the rows of get_combinations *)
(* ------------------------------------------------------------------------- *)

Theorem pgen_init_is_generated :
  pgen_init_gen = mkpgen [] [] [] PCT2 (s "$") 0.
Proof. reflexivity. Qed.

(** add_parameter stores the values, the label (a falsy label becomes
    "KEY.%%": [param_label]) and the name (a falsy name becomes KEY:
    [param_name]) under the key, and refuses a column of another length *)
Theorem add_parameter_is_generated : forall pg p,
  pg_label_token pg = PCT2 ->
  pg_length pg = 0 \/ List.length (p_values p) = pg_length pg ->
  pgen_add_parameter_gen pg (p_key p) (p_values p) (p_label p) (p_name p) =
  Done (mkpgen (dict_put (p_key p) (p_values p) (pg_parameters pg))
               (dict_put (p_key p) (param_label p) (pg_labels pg))
               (dict_put (p_key p) (param_name p) (pg_names pg))
               (pg_label_token pg) (pg_token pg)
               (if Nat.eqb (pg_length pg) 0 then List.length (p_values p) else pg_length pg)).
Proof.
  intros [P L N lt tk len] p Ht Hl. cbn [pg_label_token pg_length] in *. subst lt.
  unfold pgen_add_parameter_gen, param_label, param_name. cbv zeta.
  cbn [pg_length pg_labels pg_names pg_parameters pg_label_token pg_token
       set_pg_parameters set_pg_labels set_pg_names set_pg_length].
  destruct (Nat.eqb len 0) eqn:E.
  - destruct (p_label p) as [[|c f]|[|l ls]], (p_name p); reflexivity.
  - destruct Hl as [Hl|Hl]; [subst len; discriminate|]. rewrite Hl, Nat.eqb_refl. cbn [negb].
    destruct (p_label p) as [[|c f]|[|l ls]], (p_name p); reflexivity.
Qed.

Theorem add_parameter_length_mismatch : forall pg key values label name,
  pg_length pg <> 0 -> List.length values <> pg_length pg ->
  pgen_add_parameter_gen pg key values label name = Raise ValueError.
Proof.
  intros pg key values label name H0 H1. unfold pgen_add_parameter_gen. cbv zeta.
  cbn [pg_length set_pg_parameters].
  apply Nat.eqb_neq in H0. apply Nat.eqb_neq in H1. rewrite H0, H1. reflexivity.
Qed.

(** the generator state for the parameters [ps] *)
Definition pgen_of (ps : list param) : pgen :=
  mkpgen (map (fun p => (p_key p, p_values p)) ps)
         (map (fun p => (p_key p, param_label p)) ps)
         (map (fun p => (p_key p, param_name p)) ps)
         PCT2 (s "$") (nrows ps).

Lemma keyed_lookup : forall {A} (g : param -> A) ps p,
  NoDup (map p_key ps) -> In p ps ->
  dict_lookup (p_key p) (map (fun q => (p_key q, g q)) ps) = Some (g p).
Proof.
  intros A g ps p ND Hin. induction ps as [|a ps IH]; [destruct Hin|].
  cbn [map dict_lookup]. inversion ND as [|x l Hx ND']; subst.
  destruct Hin as [->|Hin]; [rewrite str_eqb_refl; reflexivity|].
  destruct (str_eqb (p_key p) (p_key a)) eqn:E; [|apply IH; assumption].
  exfalso. apply str_eqb_eq in E. apply Hx. rewrite <- E. apply in_map. exact Hin.
Qed.

Lemma fold_left_map_l : forall {A B C} (f : A -> B -> A) (g : C -> B) l a,
  fold_left f (map g l) a = fold_left (fun a x => f a (g x)) l a.
Proof. intros A B C f g l. induction l as [|x l IH]; intros a; simpl; [reflexivity | apply IH]. Qed.

Lemma fold_left_ext_in : forall {A B} (f g : A -> B -> A) l a,
  (forall a x, In x l -> f a x = g a x) -> fold_left f l a = fold_left g l a.
Proof.
  intros A B f g l. induction l as [|x l IH]; intros a H; simpl; [reflexivity|].
  rewrite H by (left; reflexivity). apply IH. intros a' y Hy. apply H. right. exact Hy.
Qed.

(** get_combinations: row [i] gets one [add] per parameter with the key, the
    NAME, the row's VALUE and the row's LABEL, in this order *)
Theorem combination_row_is_generated : forall ps i,
  NoDup (map p_key ps) -> pgen_combination_row_gen (pgen_of ps) i = combo_of ps i.
Proof.
  intros ps i ND. unfold pgen_combination_row_gen, combo_of. cbv zeta.
  unfold for_each, dict_keys. cbn [pgen_of pg_parameters pg_labels pg_names pg_label_token].
  rewrite map_map. cbn [fst]. rewrite fold_left_map_l.
  apply fold_left_ext_in. intros cb p Hp.
  unfold dict_get_values, dict_get_label, dict_get_str.
  rewrite !keyed_lookup by assumption.
  unfold case_label_list, row_label, row_value, list_index, py_str.
  destruct (param_label p); reflexivity.
Qed.

(** hence: what [Combination.apply] substitutes for the combination that
    [get_combinations] yields for row [i] is the model's parameter pass *)
Corollary parameter_pass_is_generated : forall ps i x,
  keys_okb ps = true ->
  combination_apply_gen (pgen_combination_row_gen (pgen_of ps) i) x = param_pass Model ps i x.
Proof.
  intros ps i x H. unfold keys_okb in H. apply andb_true_iff in H. destruct H as [H _].
  apply str_nodupb_NoDup in H. rewrite combination_row_is_generated by exact H.
  apply combination_apply_is_generated. exact H.
Qed.

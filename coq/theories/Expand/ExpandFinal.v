(** The statements of Props/C08.v with their (glue) proofs from the lemmas of
    ExpandC08.v / ExpandSound.v; Props/C08.v restates them and closes each by [exact]. *)
From MWF Require Import Base.Str Base.Util Expand.PyStr Expand.Expand Expand.ExpandProofs
     Expand.ExpandInv Expand.ExpandC08 Expand.ExpandSound Expand.ExpandWitness.
From Coq Require Import List NArith Bool Arith.
Import ListNotations.

(** the used-parameter table is the closure the property speaks of: a key is
    used by a step iff the step mentions it, or an ordinary parent uses it, or
    a step whose workspace it references (not as a funnel) uses it *)
Lemma final_C08_used_closure : forall ap san pi sp um st t k,
  perm_oracle pi -> hygiene sp um -> stage ap san pi sp = Ok (um, st) -> In t (sp_steps sp) ->
  (In k (used_in um (s_name t)) <->
   In k (keys_of (sp_params sp)) /\
   (existsb (uses_key k) (step_texts t) = true
    \/ (exists d, In d (deps_ord t) /\ In k (used_in um d))
    \/ (exists w, In w (step_wsrefs t) /\ ~ In w (deps_hub t) /\ In k (used_in um w)))).
Proof.
  intros ap san pi sp um st t k Hpi Hh Hs Ht.
  exact (used_closure ap san sp um (st_g st) t k Hh (stage_SF ap san pi sp um st Hpi Hh Hs) Ht).
Qed.

(** instances are shared exactly between rows that agree (value and label) on
    all parameters the step uses *)
Lemma final_C08_sharing : forall ap san pi sp um st t i j,
  perm_oracle pi -> hygiene sp um -> stage ap san pi sp = Ok (um, st) ->
  In t (sp_steps sp) -> valid_row sp um (s_name t) i -> valid_row sp um (s_name t) j ->
  (iname (sp_params sp) um (s_name t) i = iname (sp_params sp) um (s_name t) j
   <-> agree (sp_params sp) (used_in um (s_name t)) i j = true).
Proof.
  intros ap san pi sp um st t i j _ Hh _. exact (sharing sp um Hh t i j).
Qed.

(** an instance depends on the same-row instance of each ordinary dependency,
    on all instances of each funnel dependency, on "_source" iff it has
    neither -- and on nothing else (set equality, for the adjacency table and
    for [_dependencies]) *)
Lemma final_C08_edges : forall ap san pi sp um st t i p,
  perm_oracle pi -> hygiene sp um -> stage ap san pi sp = Ok (um, st) ->
  In t (sp_steps sp) -> valid_row sp um (s_name t) i ->
  let x := iname (sp_params sp) um (s_name t) i in
  let expected :=
    (deps_ord t = [] /\ deps_hub t = [] /\ p = SOURCE)
    \/ (exists d, In d (deps_ord t) /\ p = iname (sp_params sp) um d i)
    \/ (exists h j, In h (deps_hub t) /\ In j (rows_of (sp_params sp) um h)
                    /\ p = iname (sp_params sp) um h j) in
  (In x (kids_of (st_g st) p) <-> expected) /\ (In p (deps_of (st_g st) x) <-> expected).
Proof.
  intros ap san pi sp um st t i p Hpi Hh Hs Ht Hv x expected.
  pose proof (edges ap san sp um (st_g st) Hh (stage_SF ap san pi sp um st Hpi Hh Hs) t i Ht Hv p) as [E1 E2].
  unfold expected. rewrite <- (expected_In sp um t i p). split; assumption.
Qed.

(** a step that uses no parameter is instantiated exactly once, under its own name *)
Lemma final_C08_unparam : forall ap san pi sp um st t,
  perm_oracle pi -> hygiene sp um -> stage ap san pi sp = Ok (um, st) ->
  In t (sp_steps sp) -> used_in um (s_name t) = [] ->
  all_instances sp um (s_name t) = [s_name t]
  /\ In (s_name t) (g_names (st_g st))
  /\ (forall i, iname (sp_params sp) um (s_name t) i = s_name t)
  /\ NoDup (g_names (st_g st)).
Proof.
  intros ap san pi sp um st t Hpi Hh Hs Ht Hu.
  pose proof (stage_SF ap san pi sp um st Hpi Hh Hs) as Hsf.
  destruct (unparam ap san sp um (st_g st) Hsf t Ht Hu) as (A & B & C).
  repeat split; auto. apply (total_names ap san sp um (st_g st) Hsf).
Qed.

(** for every step and every row there is exactly one node named after the
    instance (names are duplicate-free and there is no other node but
    "_source"); it carries that row's values of the used parameters and is the
    record [add_instance] builds for a row [j] that agrees with [i] *)
Lemma final_C08_total : forall ap san pi sp um st,
  perm_oracle pi -> hygiene sp um -> stage ap san pi sp = Ok (um, st) ->
  NoDup (g_names (st_g st))
  /\ (forall y, In y (g_names (st_g st)) ->
        y = SOURCE \/ exists t i, In t (sp_steps sp) /\ valid_row sp um (s_name t) i
                                  /\ y = iname (sp_params sp) um (s_name t) i)
  /\ (forall t i, In t (sp_steps sp) -> valid_row sp um (s_name t) i ->
        In (iname (sp_params sp) um (s_name t) i) (g_names (st_g st))
        /\ exists j r, valid_row sp um (s_name t) j
             /\ agree (sp_params sp) (used_in um (s_name t)) j i = true
             /\ rec_of (st_g st) (iname (sp_params sp) um (s_name t) i) = Some r
             /\ rec_from ap san sp um t j r
             /\ r_params r = param_values (sp_params sp) (used_in um (s_name t)) i).
Proof.
  intros ap san pi sp um st Hpi Hh Hs.
  pose proof (stage_SF ap san pi sp um st Hpi Hh Hs) as Hsf.
  destruct (total_names ap san sp um (st_g st) Hsf) as (A & B & C).
  split; auto. split; auto. intros t i Ht Hv. split; auto.
  destruct (records ap san sp um (st_g st) Hh Hsf t i Ht Hv) as (j & r & R1 & R2 & R3 & R4 & _ & R6).
  exists j, r. auto.
Qed.

(** rows that agree on the parameters a step uses expand every field of the
    step to the same text (so sharing the instance loses nothing), provided
    the keys are distinct words and the substituted text contains no
    parameter token (the hypothesis of C09's core law; it excludes values
    that contain token text, K4b) *)
Lemma final_C08_sound_sharing : forall ap san pi sp um st t i j x,
  perm_oracle pi -> hygiene sp um -> stage ap san pi sp = Ok (um, st) ->
  params_ok (sp_params sp) = true ->
  In t (sp_steps sp) -> In x (step_texts t) ->
  agree (sp_params sp) (used_in um (s_name t)) i j = true ->
  no_token_left (sp_params sp) i x = true ->
  apply_row (sp_params sp) i x = apply_row (sp_params sp) j x.
Proof.
  intros ap san pi sp um st t i j x Hpi Hh Hs.
  exact (sound_sharing_fields ap san sp um (st_g st) t i j x Hh (stage_SF ap san pi sp um st Hpi Hh Hs)).
Qed.

(** every child was inserted after its parent (well-formedness of the
    execution DAG: [parents x < x] in insertion order) *)
Lemma final_C08_topological : forall ap san pi sp um st p c,
  perm_oracle pi -> hygiene sp um -> stage ap san pi sp = Ok (um, st) ->
  In c (kids_of (st_g st) p) ->
  (index_of p (g_names (st_g st)) < index_of c (g_names (st_g st)))%nat
  /\ In p (g_names (st_g st)) /\ In c (g_names (st_g st)).
Proof.
  intros ap san pi sp um st p c Hpi Hh Hs.
  exact (topological ap san sp um (st_g st) (stage_SF ap san pi sp um st Hpi Hh Hs) p c).
Qed.

(** the restart limit attached to an instance is the configured limit if the
    step has a restart command, else 0 (cited by C06) *)
Lemma final_C06_rlimit_attach : forall ap san pi sp um st t i,
  perm_oracle pi -> hygiene sp um -> stage ap san pi sp = Ok (um, st) ->
  In t (sp_steps sp) -> valid_row sp um (s_name t) i ->
  exists r, rec_of (st_g st) (iname (sp_params sp) um (s_name t) i) = Some r
            /\ r_rlimit r = match s_restart t with [] => 0%nat | _ => sp_rlimit sp end.
Proof.
  intros ap san pi sp um st t i Hpi Hh Hs Ht Hv.
  destruct (records ap san sp um (st_g st) Hh (stage_SF ap san pi sp um st Hpi Hh Hs) t i Ht Hv)
    as (j & r & _ & _ & R3 & _ & R5 & _).
  exists r. split; [exact R3 | exact R5].
Qed.

(** the monitor evaluated by the harness on the implementation's graph holds of
    every staging of the model inside H8, for every iteration order of the sets *)
Lemma final_C08_monitor_holds : forall ap san pi sp,
  perm_oracle pi -> hygb sp = true ->
  C08_ok sp (observe_result (stage ap san pi sp)) = true.
Proof. exact monitor_model. Qed.

(** the boolean hygiene decides the propositional one *)
Lemma final_C08_hygb_sound : forall sp um, plan sp = Some um -> hygb sp = true -> hygiene sp um.
Proof. exact hygb_hygiene. Qed.

(** K2 (known finding, outside H8): labels "a.b","c" and "a","b.c" give the
    same instance name for two rows that differ on used parameters; one
    instance is lost and the monitor is false on the staged graph *)
Lemma final_C08_sharing_refuted : exists sp,
  sig_label_join sp = true /\ hygb sp = false /\ C08_ok sp (c08_model sp) = false.
Proof. exists w_k2. vm_compute. repeat split; reflexivity. Qed.

(** K2b (known finding, outside H8): an instance name equal to another step's name *)
Lemma final_C08_total_refuted : exists sp,
  sig_name_clash sp = true /\ hygb sp = false /\ C08_ok sp (c08_model sp) = false.
Proof. exists w_k2b. vm_compute. repeat split; reflexivity. Qed.

(** non-vacuity: a study inside H8 that stages to nine nodes (three rows, two
    parameters, an ordinary and a funnel dependency, an unparameterised step) *)
Lemma final_C08_nonvacuous :
  hygb w_valid = true
  /\ (exists um st, stage_c pi_id w_valid = Ok (um, st) /\ length (st_g st) = 9%nat)
  /\ C08_ok w_valid (c08_model w_valid) = true.
Proof.
  split; [vm_compute; reflexivity|]. split; [|vm_compute; reflexivity].
  destruct (stage_c pi_id w_valid) as [[um st]|e] eqn:E.
  - exists um, st. split; auto.
    assert (H : match stage_c pi_id w_valid with Ok (_, s) => length (st_g s) | Err _ => 0%nat end = 9%nat)
      by (vm_compute; reflexivity).
    rewrite E in H. exact H.
  - exfalso. assert (H : match stage_c pi_id w_valid with Ok _ => true | Err _ => false end = true)
      by (vm_compute; reflexivity).
    rewrite E in H. discriminate.
Qed.

Lemma final_C08_sound_sharing_nonvacuous :
  let ps := sp_params w_valid in
  let x := Str.s "cat $(N) $(N.label)" in
  params_ok ps = true /\ agree ps [Str.s "N"] 0 2 = true /\ agree ps [Str.s "NX"] 0 2 = false
  /\ no_token_left ps 0 x = true
  /\ apply_row ps 0 x = Str.s "cat 1 N.1" /\ apply_row ps 2 x = Str.s "cat 1 N.1".
Proof. vm_compute. repeat split; reflexivity. Qed.

Lemma final_C08_sound_sharing_needs_hyp :
  let ps := w_k4b_params in
  let x := Str.s "$(A)" in
  params_ok ps = true /\ agree ps [Str.s "A"] 0 1 = true
  /\ (forall k, In k (keys_of ps) -> uses_key k x = true -> In k [Str.s "A"])
  /\ no_token_left ps 0 x = false
  /\ apply_row ps 0 x <> apply_row ps 1 x.
Proof.
  split; [vm_compute; reflexivity|]. split; [vm_compute; reflexivity|]. split.
  - intros k [<-|[<-|[]]] H; [left; reflexivity | vm_compute in H; discriminate].
  - split; [vm_compute; reflexivity | vm_compute; discriminate].
Qed.

Lemma final_C08_label_token :
  labels_of (mkP (Str.s "N") [] [Str.s "1"; Str.s "2"] (LTK (Str.s "##") [])) = [Str.s "N.1"; Str.s "N.2"]
  /\ labels_of (mkP (Str.s "N") [] [Str.s "1"; Str.s "2"] (LT [])) = [Str.s "N.1"; Str.s "N.2"]
  /\ labels_of (mkP (Str.s "N") [] [Str.s "1"; Str.s "2"] (LTK (Str.s "##") (Str.s "n##-##"))) = [Str.s "n1-1"; Str.s "n2-2"]
  /\ labels_of (mkP (Str.s "N") [] [Str.s "1"; Str.s "2"] (LTK (Str.s "##") (Str.s "n%%"))) = [Str.s "n%%"; Str.s "n%%"].
Proof. vm_compute. repeat split; reflexivity. Qed.

(** Combinators the text GENERATED from maestrowf's path construction code
    (Expand/PathGen.v, by translate/tcode_paths.py) is composed of, next to the
    string / list / loop combinators of Expand/SubstOps.v: one per Python
    expression template of utils.make_safe_path, the workspace expressions of
    Study._stage, StudyStep.name / real_name, _StepRecord.generate_script /
    setup_workspace / _execute, the four adapters' _write_script and
    LocalScriptAdapter.submit.

    [os.path.join] is the model's [join2] / [join] (SafePath.v, validated against
    posixpath by the path-function cases of the C10 check); md5 is not modelled:
    the digest function [h] is a parameter, as in SafePath.v.

    Stdlib only, no proofs.  The equalities with the hand-written model are in
    PathGenProofs.v. *)
From Coq Require Import List NArith Bool.
From MWF Require Import Base.Str Gen.SafePathData Expand.SafePath.
Import ListNotations.

(** [string.ascii_letters], [string.digits] *)
Definition string_ascii_letters : str :=
  s "abcdefghijklmnopqrstuvwxyzABCDEFGHIJKLMNOPQRSTUVWXYZ".
Definition string_digits : str := s "0123456789".

(** [c in valid] for a character of a string; ["".join(c for c in x if f c)] *)
Definition char_in (c : N) (x : str) : bool := existsb (N.eqb c) x.
Definition str_filter (f : N -> bool) (x : str) : str := filter f x.

(** [os.path.join(a, b)], [os.path.join] of a starred list (an empty argument list is
    Python's TypeError) *)
Definition os_path_join (a b : str) : str := join2 a b.
Definition os_path_join_star (l : list str) : str :=
  match l with
  | [] => []
  | a :: bs => join a bs
  end.

(** [md5(x.encode("utf-8")).hexdigest()] *)
Definition md5_hexdigest (h : str -> str) (x : str) : str := h x.

(** C08: the theorems about [stage] (model of Study.stage) and the proof that the
    monitor [C08_ok] holds of every staging inside hygiene H8. *)
From MWF Require Import Base.Str Base.Util Base.UtilLemmas Expand.PyStr Expand.PyStrProofs
     Expand.Expand Expand.ExpandProofs Expand.ExpandGraph Expand.ExpandInv.
From Coq Require Import List NArith Bool Arith Lia Permutation.
Import ListNotations.

(* ------------------------------------------------------------------------ *)
(** * From a successful [stage] to the invariant *)
Lemma topo_ok_spec sp order :
  topo_ok sp order = true ->
  exists rest, order = SOURCE :: rest /\ NoDup order
               /\ (forall v, In v (study_nodes sp) -> In v order)
               /\ (forall v, In v order -> In v (study_nodes sp)).
Proof.
  unfold topo_ok. rewrite !andb_true_iff. intros [[[H1 H2] H3] H4].
  destruct order as [|x rest]; [discriminate|]. apply str_eqb_eq in H4; subst x.
  exists rest. split; auto. split; [apply str_nodupb_NoDup; auto|].
  rewrite forallb_forall in H2, H3. split; intros v Hv; apply str_mem_In; auto.
Qed.

Lemma stage_go_source ap san pi sp um rest st :
  stage_go ap san pi sp um (SOURCE :: rest) st =
  stage_go ap san pi sp um rest
    (mkSt (if g_has SOURCE (st_g st) then st_g st else st_g st ++ [mkNode SOURCE None [] []])
          (st_combos st) (st_ws st)).
Proof. cbn [stage_go]. rewrite str_eqb_refl. reflexivity. Qed.

(** what phase 1 computed for one step *)
Lemma plan_step sp order um t :
  NoDup order -> In (s_name t) order -> NoDup (step_names sp) -> ~ In SOURCE (step_names sp) ->
  In t (sp_steps sp) -> plan_go sp order [(SOURCE, [])] = Some um ->
  exists umx, used_step (sp_params sp) umx t = Some (used_in um (s_name t))
              /\ (forall y u, alookup y umx = Some u -> alookup y um = Some u).
Proof.
  intros Hn Hi Hnd Hs Ht H.
  assert (Hne : s_name t <> SOURCE) by (intros E; apply Hs; rewrite <- E; apply in_map; auto).
  assert (Hfresh : forall x, In x order -> x <> SOURCE -> alookup x [(SOURCE, @nil str)] = None).
  { intros x _ Hx. simpl. apply str_eqb_neq in Hx. rewrite Hx; auto. }
  destruct (plan_go_inv sp order _ _ Hn Hfresh H) as [_ B].
  destruct (B _ Hi Hne) as (t' & umx & F & U & _ & M).
  rewrite (find_step_In sp t Hnd Ht) in F. inversion F; subst t'. exists umx; auto.
Qed.

(** the side facts every theorem needs, and the invariant at the end *)
Record SF (ap : list param -> nat -> str -> str) (san : str -> str)
          (sp : spec) (um : usedmap) (g : graph) : Prop := mkSF {
  sf_nd : NoDup (step_names sp);
  sf_src : ~ In SOURCE (step_names sp);
  sf_self : forall t p, In t (sp_steps sp) -> In p (parents_raw t) -> p <> s_name t;
  sf_plan : plan sp = Some um;
  sf_used : forall t, In t (sp_steps sp) ->
      exists umx, used_step (sp_params sp) umx t = Some (used_in um (s_name t))
                  /\ (forall y u, alookup y umx = Some u -> alookup y um = Some u);
  sf_mono : forall t d, In t (sp_steps sp) -> In d (deps_ord t) ->
      incl (used_in um d) (used_in um (s_name t));
  sf_inv : GInv ap san sp um (inst_list sp um) g }.

Lemma used_keys sp um t :
  (exists umx, used_step (sp_params sp) umx t = Some (used_in um (s_name t))
               /\ (forall y u, alookup y umx = Some u -> alookup y um = Some u)) ->
  incl (used_in um (s_name t)) (keys_of (sp_params sp)).
Proof.
  intros (umx & U & _) k Hk. apply used_step_spec in U as (_ & _ & U). apply U in Hk; tauto.
Qed.

Theorem stage_SF ap san pi sp um st :
  perm_oracle pi -> hygiene sp um -> stage ap san pi sp = Ok (um, st) ->
  SF ap san sp um (st_g st).
Proof.
  intros Hpi Hh H. unfold stage in H.
  destruct (construct_ok [SOURCE] (sp_steps sp)) eqn:Ec; simpl in H; [|discriminate].
  destruct (topo_ok sp (toposort sp)) eqn:Et; simpl in H; [|discriminate].
  destruct (plan_go sp (toposort sp) [(SOURCE, [])]) as [um'|] eqn:Ep; [|discriminate].
  destruct (stage_go ap san pi sp um' (toposort sp) (init_state sp)) as [st'|] eqn:Eg; [|discriminate].
  inversion H; subst um' st'; clear H.
  destruct (construct_ok_spec _ _ Ec) as (Hnd & Hseen & Hpar).
  destruct (topo_ok_spec _ _ Et) as (rest & Eo & Hno & Hall & Hsub).
  fold (step_names sp) in Hnd.
  assert (Hsrc : ~ In SOURCE (step_names sp)).
  { intros Hi. apply In_step_names in Hi as [t [Ht E]]. apply (Hseen t Ht). rewrite E; simpl; auto. }
  assert (Hself : forall t p, In t (sp_steps sp) -> In p (parents_raw t) -> p <> s_name t).
  { intros t p Ht Hp. apply (Hpar t Ht p Hp). }
  assert (Hord : forall t, In t (sp_steps sp) -> In (s_name t) (toposort sp)).
  { intros t Ht. apply Hall. unfold study_nodes. right. apply in_map; auto. }
  assert (Hused : forall t, In t (sp_steps sp) ->
            exists umx, used_step (sp_params sp) umx t = Some (used_in um (s_name t))
                        /\ (forall y u, alookup y umx = Some u -> alookup y um = Some u)).
  { intros t Ht. eapply plan_step; eauto. }
  assert (Hmono : forall t d, In t (sp_steps sp) -> In d (deps_ord t) ->
                              incl (used_in um d) (used_in um (s_name t))).
  { intros t d Ht Hd k Hk. destruct (Hused t Ht) as (umx & U & M).
    pose proof (used_step_spec _ _ _ _ U) as (S1 & _ & S3).
    apply deps_ord_In in Hd as [Hd Hs].
    destruct (S1 d Hd Hs) as [u Hu]. pose proof (M _ _ Hu) as Hu'.
    unfold used_in in Hk. rewrite Hu' in Hk.
    apply S3. split.
    - assert (Hd' : In d (step_names sp)).
      { rewrite <- (strip_star_nostar d Hs). eapply hy_deps; eauto. }
      apply In_step_names in Hd' as [td [Htd E]]. subst d.
      apply (used_keys sp um td (Hused td Htd)). unfold used_in. rewrite Hu'; auto.
    - right; left. exists d, u; auto. }
  constructor; auto.
  - rewrite Eo in Eg. rewrite stage_go_source in Eg. simpl in Eg.
    rewrite Eo in Hno. inversion Hno as [|? ? Hns Hno']; subst.
    match type of Eg with stage_go _ _ _ _ _ _ ?s0 = _ =>
      destruct (stage_go_inv ap san pi sp um (in_oracle_of_perm pi Hpi) Hnd Hsrc Hself Hh Hmono
                  rest [] s0 st Hno' Hns) as (done' & D1 & D2 & D3 & D4) end.
    + intros x _ [].
    + intros x [].
    + constructor.
    + apply GInv_init.
    + split; [intros t []|]. simpl. intros x [<-|[]]; auto.
    + exact Eg.
    + simpl in D1. eapply GInv_ext; [|exact D3].
      intros [t i]. change (inst_list sp um) with (insts sp um (sp_steps sp)).
      rewrite !In_insts. split; intros [H1 H2]; split; auto.
      assert (Hi : In (s_name t) rest).
      { pose proof (Hord t H1) as Hi. rewrite Eo in Hi. destruct Hi as [E|Hi]; auto.
        exfalso. apply Hsrc. rewrite E. apply in_map; auto. }
      rewrite <- D1 in Hi. apply in_map_iff in Hi as [t' [E Ht']].
      rewrite <- (steps_same_name sp t' t); auto.
Qed.

(* ------------------------------------------------------------------------ *)
(** * Rows *)
Lemma agree_refl ps U i : agree ps U i i = true.
Proof. unfold agree; apply forallb_forall; intros k _. rewrite !str_eqb_refl; auto. Qed.

(** a valid row is, up to agreement on the used parameters, a row the step is
    expanded over *)
Lemma valid_row_norm sp um x i :
  valid_row sp um x i ->
  exists i', In i' (rows_of (sp_params sp) um x)
             /\ agree (sp_params sp) (used_in um x) i' i = true
             /\ iname (sp_params sp) um x i' = iname (sp_params sp) um x i.
Proof.
  unfold valid_row, rows_of, iname. destruct (used_in um x) eqn:E.
  - intros _. exists 0%nat; simpl; auto.
  - intros [H|H]; [discriminate|]. exists i. split; [apply In_seq0; auto|].
    split; auto. apply agree_refl.
Qed.

Section Theorems.
  Variable ap : list param -> nat -> str -> str.
  Variable san : str -> str.
  Variable sp : spec.
  Variable um : usedmap.
  Variable g : graph.
  Hypothesis Hh : hygiene sp um.
  Hypothesis Hsf : SF ap san sp um g.

  Notation ps := (sp_params sp).
  Notation U t := (used_in um (s_name t)).
  Notation iname_ t i := (iname (sp_params sp) um (s_name t) i).

  Let HG := sf_inv _ _ _ _ _ Hsf.

  Lemma in_L t i : In (t, i) (inst_list sp um) <-> vinst sp um t i.
  Proof. change (inst_list sp um) with (insts sp um (sp_steps sp)). apply In_insts. Qed.

  Lemma norm_inst t i :
    In t (sp_steps sp) -> valid_row sp um (s_name t) i ->
    exists i', In (t, i') (inst_list sp um) /\ agree ps (U t) i' i = true
               /\ iname_ t i' = iname_ t i
               /\ expected_parents sp um t i' = expected_parents sp um t i.
  Proof.
    intros Ht Hv. destruct (valid_row_norm _ _ _ _ Hv) as (i' & H1 & H2 & H3).
    exists i'. split; [apply in_L; split; auto|]. repeat split; auto.
    apply expected_agree; auto. apply (sf_mono _ _ _ _ _ Hsf).
  Qed.

  (** C08_sharing *)
  Lemma sharing t i j :
    In t (sp_steps sp) -> valid_row sp um (s_name t) i -> valid_row sp um (s_name t) j ->
    (iname_ t i = iname_ t j <-> agree ps (U t) i j = true).
  Proof.
    intros Ht Hi Hj. split.
    - intros E. apply (hy_inj _ _ Hh t t i j); auto.
    - intros Ha. apply (agree_iname ps um (s_name t) (U t)); auto. apply incl_refl.
  Qed.

  (** C08_total, names part *)
  Lemma total_names :
    NoDup (g_names g)
    /\ (forall t i, In t (sp_steps sp) -> valid_row sp um (s_name t) i -> In (iname_ t i) (g_names g))
    /\ (forall y, In y (g_names g) ->
          y = SOURCE \/ exists t i, In t (sp_steps sp) /\ valid_row sp um (s_name t) i /\ y = iname_ t i).
  Proof.
    split; [apply (gi_nodup _ _ _ _ _ _ HG)|]. split.
    - intros t i Ht Hv. destruct (norm_inst t i Ht Hv) as (i' & H1 & _ & H3 & _).
      rewrite <- H3. apply (gi_names _ _ _ _ _ _ HG). right; exists t, i'; auto.
    - intros y Hy. apply (gi_names _ _ _ _ _ _ HG) in Hy as [?|[t [i [H1 H2]]]]; auto.
      right; exists t, i. apply in_L in H1 as [H1 H1']. repeat split; auto. apply rows_valid; auto.
  Qed.

  (** C08_edges *)
  Lemma edges t i :
    In t (sp_steps sp) -> valid_row sp um (s_name t) i ->
    forall p, (In (iname_ t i) (kids_of g p) <-> In p (expected_parents sp um t i))
              /\ (In p (deps_of g (iname_ t i)) <-> In p (expected_parents sp um t i)).
  Proof.
    intros Ht Hv p. destruct (norm_inst t i Ht Hv) as (i' & H1 & H2 & H3 & H4).
    rewrite <- H3, <- H4. split.
    - split.
      + intros Hk. destruct (gi_kids _ _ _ _ _ _ HG p _ Hk) as [_ [t1 [i1 (K1 & K2 & K3)]]].
        destruct (same_name sp um (sf_nd _ _ _ _ _ Hsf) Hh t i' t1 i1) as [<- Ha];
          try (apply in_L; auto); auto.
        rewrite (expected_agree sp um (sf_mono _ _ _ _ _ Hsf) t i' i1); auto.
      + apply (gi_edges _ _ _ _ _ _ HG t i' H1).
    - apply (gi_deps _ _ _ _ _ _ HG t i' H1).
  Qed.

  (** "_source" is a parent exactly of the instances of steps without dependencies *)
  Lemma source_parent t i :
    In t (sp_steps sp) -> valid_row sp um (s_name t) i ->
    (In SOURCE (expected_parents sp um t i) <-> s_deps t = []).
  Proof.
    intros Ht Hv. rewrite expected_In. split.
    - intros [(H1 & H2 & _)|[[d [Hd E]]|[h [j (Hh' & Hj & E)]]]].
      + destruct (s_deps t) as [|d ds] eqn:Ed; auto. exfalso.
        destruct (has_star d) eqn:Es.
        * assert (In (strip_star d) (deps_hub t)) by (apply deps_hub_In; exists d; rewrite Ed; simpl; auto).
          rewrite H2 in H; contradiction.
        * assert (In d (deps_ord t)) by (apply deps_ord_In; rewrite Ed; simpl; auto).
          rewrite H1 in H; contradiction.
      + exfalso. destruct (dep_step sp um Hh t d Ht Hd) as [td [Htd En]]. subst d.
        assert (Vd : valid_row sp um (s_name td) i).
        { destruct Hv as [E0|Hlt]; [|right; auto]. left.
          pose proof (sf_mono _ _ _ _ _ Hsf t _ Ht Hd) as Hm. rewrite E0 in Hm.
          destruct (used_in um (s_name td)) as [|k l]; auto. exfalso; apply (Hm k); simpl; auto. }
        destruct (valid_row_norm _ _ _ _ Vd) as (i' & R1 & _ & R3).
        apply (iname_not_source sp um (sf_src _ _ _ _ _ Hsf) Hh td i'); [split; auto|].
        unfold iname'. rewrite R3; auto.
      + exfalso. destruct (hub_step sp um Hh t h Ht Hh') as [th [Hth En]]. subst h.
        apply (iname_not_source sp um (sf_src _ _ _ _ _ Hsf) Hh th j); [split; auto|]. auto.
    - intros E. left. unfold deps_ord, deps_hub. rewrite E; simpl; auto.
  Qed.

  (** C08_unparam *)
  Lemma unparam t :
    In t (sp_steps sp) -> U t = [] ->
    all_instances sp um (s_name t) = [s_name t]
    /\ In (s_name t) (g_names g)
    /\ forall i, iname_ t i = s_name t.
  Proof.
    intros Ht E.
    assert (Hn : forall i, iname_ t i = s_name t) by (intros i; unfold iname; rewrite E; auto).
    split; [|split; auto].
    - unfold all_instances, rows_of. rewrite E; simpl. rewrite Hn; auto.
    - rewrite <- (Hn 0%nat). apply total_names; auto. left; auto.
  Qed.

  (** C08_topological *)
  Lemma topological p c :
    In c (kids_of g p) ->
    (index_of p (g_names g) < index_of c (g_names g))%nat /\ In p (g_names g) /\ In c (g_names g).
  Proof.
    intros Hk. destruct (gi_kids _ _ _ _ _ _ HG p c Hk) as [H1 [t [i (K1 & K2 & K3)]]].
    split; auto. split; [eapply kids_of_names; eauto|].
    apply (gi_names _ _ _ _ _ _ HG). right; eauto.
  Qed.

  (** C08_total, record part (and C06_rlimit_attach) *)
  Lemma records t i :
    In t (sp_steps sp) -> valid_row sp um (s_name t) i ->
    exists j r, valid_row sp um (s_name t) j /\ agree ps (U t) j i = true
                /\ rec_of g (iname_ t i) = Some r /\ rec_from ap san sp um t j r
                /\ r_rlimit r = rlimit_cfg sp t
                /\ r_params r = param_values ps (U t) i.
  Proof.
    intros Ht Hv. destruct (norm_inst t i Ht Hv) as (i' & H1 & H2 & H3 & _).
    destruct (gi_rec _ _ _ _ _ _ HG t i' H1) as (j & r & J1 & J2 & J3 & J4).
    assert (Ha : agree ps (U t) j i' = true).
    { apply (same_name sp um (sf_nd _ _ _ _ _ Hsf) Hh t j t i'); auto; apply in_L; auto. }
    assert (Ha' : agree ps (U t) j i = true).
    { unfold agree in *. rewrite forallb_forall in *. intros k Hk.
      specialize (Ha k Hk). specialize (H2 k Hk).
      apply andb_true_iff in Ha as [A1 A2]. apply andb_true_iff in H2 as [B1 B2].
      apply str_eqb_eq in A1, A2, B1, B2. rewrite A1, A2, B1, B2, !str_eqb_refl; auto. }
    exists j, r. split; [apply rows_valid; apply in_L in J1; apply J1|].
    split; auto. split; [unfold iname' in J3; rewrite <- H3; auto|]. split; auto.
    destruct J4 as (wsm & cmd & rcmd & _ & ->). simpl. split; auto.
    apply agree_param_values; auto.
  Qed.
End Theorems.

(* ------------------------------------------------------------------------ *)
(** * The used-parameter table is the closure the property speaks of *)
Lemma used_closure ap san sp um g t k :
  hygiene sp um -> SF ap san sp um g -> In t (sp_steps sp) ->
  (In k (used_in um (s_name t)) <->
   In k (keys_of (sp_params sp)) /\
   (existsb (uses_key k) (step_texts t) = true
    \/ (exists d, In d (deps_ord t) /\ In k (used_in um d))
    \/ (exists w, In w (step_wsrefs t) /\ ~ In w (deps_hub t) /\ In k (used_in um w)))).
Proof.
  intros Hh Hsf Ht. destruct (sf_used _ _ _ _ _ Hsf t Ht) as (umx & Us & M).
  pose proof (used_step_spec _ _ _ _ Us) as (S1 & S2 & S3). rewrite S3.
  assert (D : In k (direct_used (sp_params sp) t) <->
              In k (keys_of (sp_params sp)) /\ existsb (uses_key k) (step_texts t) = true).
  { unfold direct_used. rewrite filter_In. tauto. }
  split.
  - intros [Hk [H|[(d & u & H1 & H2 & H3 & H4)|(w & u & H1 & H2 & H3 & H4)]]]; split; auto.
    + left; apply D; auto.
    + right; left. exists d; split; [apply deps_ord_In; auto|].
      unfold used_in; rewrite (M _ _ H3); auto.
    + right; right. exists w; repeat split; auto. unfold used_in; rewrite (M _ _ H3); auto.
  - intros [Hk [H|[(d & H1 & H2)|(w & H1 & H2 & H3)]]]; split; auto.
    + left; apply D; auto.
    + right; left. apply deps_ord_In in H1 as [H1 H1'].
      destruct (S1 d H1 H1') as [u Hu]. exists d, u. repeat split; auto.
      unfold used_in in H2; rewrite (M _ _ Hu) in H2; auto.
    + right; right. destruct (S2 w H1) as [u Hu]. exists w, u. repeat split; auto.
      unfold used_in in H3; rewrite (M _ _ Hu) in H3; auto.
Qed.

(* ------------------------------------------------------------------------ *)
(** * The boolean hygiene decides the propositional one *)
Lemma inst_list_In sp um t i :
  In (t, i) (inst_list sp um) <-> In t (sp_steps sp) /\ In i (rows_of (sp_params sp) um (s_name t)).
Proof. change (inst_list sp um) with (insts sp um (sp_steps sp)). apply In_insts. Qed.

Lemma hygb_hygiene sp um : plan sp = Some um -> hygb sp = true -> hygiene sp um.
Proof.
  intros Hp H. unfold hygb in H. rewrite Hp in H.
  apply andb_true_iff in H as [H Hn]. apply andb_true_iff in H as [_ Hd].
  unfold naming_ok in Hn. apply andb_true_iff in Hn as [N1 N2].
  rewrite forallb_forall in N1, N2.
  assert (Inj : forall t t' i j, In (t, i) (inst_list sp um) -> In (t', j) (inst_list sp um) ->
            iname (sp_params sp) um (s_name t) i = iname (sp_params sp) um (s_name t') j ->
            s_name t = s_name t' /\ agree (sp_params sp) (used_in um (s_name t)) i j = true).
  { intros t t' i j H1 H2 E. specialize (N1 _ H1). rewrite forallb_forall in N1. specialize (N1 _ H2).
    unfold inst_name in N1; simpl in N1. rewrite E, str_eqb_refl in N1. simpl in N1.
    apply andb_true_iff in N1 as [A B]. apply str_eqb_eq in A; auto. }
  constructor.
  - intros t d Ht Hd'. unfold deps_ok in Hd. rewrite forallb_forall in Hd. specialize (Hd t Ht).
    rewrite forallb_forall in Hd. apply str_mem_In; auto.
  - intros t t' i j Ht Ht' Vi Vj E.
    destruct (valid_row_norm _ _ _ _ Vi) as (i' & I1 & I2 & I3).
    destruct (valid_row_norm _ _ _ _ Vj) as (j' & J1 & J2 & J3).
    destruct (Inj t t' i' j') as [A B]; try (apply inst_list_In; auto); [congruence|].
    split; auto.
    (* agree i' j', i' ~ i, j' ~ j *)
    unfold agree in *. rewrite forallb_forall in *. intros k Hk.
    specialize (B k Hk). specialize (I2 k Hk).
    assert (Hk' : In k (used_in um (s_name t'))) by (rewrite <- A; auto).
    specialize (J2 k Hk').
    apply andb_true_iff in B as [B1 B2]. apply andb_true_iff in I2 as [C1 C2].
    apply andb_true_iff in J2 as [D1 D2].
    apply str_eqb_eq in B1, B2, C1, C2, D1, D2.
    rewrite <- C1, <- C2, <- D1, <- D2, B1, B2, !str_eqb_refl; auto.
  - intros t i Ht Hu Hi.
    assert (Hin : In (t, i) (inst_list sp um)).
    { apply inst_list_In; split; auto. unfold rows_of.
      destruct (used_in um (s_name t)); [contradiction|]. apply In_seq0; auto. }
    specialize (N2 _ Hin). cbn [fst snd] in N2. apply orb_true_iff in N2 as [N2|N2].
    + destruct (used_in um (s_name t)); [contradiction | discriminate].
    + apply negb_true_iff in N2. apply str_mem_nIn in N2.
      unfold inst_name in N2; cbn [fst snd] in N2. exact N2.
Qed.

(* ------------------------------------------------------------------------ *)
(** * The monitor holds of the model's graph *)
Lemma list_eqb_refl {A} (e : A -> A -> bool) (l : list A) :
  (forall x, e x x = true) -> list_eqb e l l = true.
Proof. intros He; induction l; simpl; auto. rewrite He, IHl; auto. Qed.

Lemma strs_eqb_refl l : strs_eqb l l = true.
Proof. apply list_eqb_refl, str_eqb_refl. Qed.
Lemma kv_eqb_refl a : kv_eqb a a = true.
Proof. unfold kv_eqb; rewrite !str_eqb_refl; auto. Qed.
Lemma kvs_eqb_refl l : kvs_eqb l l = true.
Proof. apply list_eqb_refl, kv_eqb_refl. Qed.
Lemma kl_eqb_refl a : kl_eqb a a = true.
Proof. unfold kl_eqb; rewrite str_eqb_refl, strs_eqb_refl; auto. Qed.

Lemma eqb_of_iff a b : (a = true <-> b = true) -> Bool.eqb a b = true.
Proof. destruct a, b; simpl; intuition. Qed.

Lemma sseteqb_spec a b : sseteqb a b = true <-> (forall x, In x a <-> In x b).
Proof.
  unfold sseteqb. rewrite andb_true_iff, !forallb_forall. split.
  - intros [H1 H2] x; split; intros H; apply str_mem_In; auto.
  - intros H; split; intros x Hx; apply str_mem_In, H; auto.
Qed.

Lemma observe_names g : map o_name (observe g) = g_names g.
Proof.
  unfold observe, g_names. rewrite map_map. apply map_ext.
  intros nd; unfold obs_node; destruct (nd_rec nd); auto.
Qed.

Lemma obs_node_name names nd : o_name (obs_node names nd) = nd_name nd.
Proof. unfold obs_node; destruct (nd_rec nd); auto. Qed.
Lemma obs_node_kids names nd : o_kids (obs_node names nd) = nd_kids nd.
Proof. unfold obs_node; destruct (nd_rec nd); auto. Qed.
Lemma obs_node_deps names nd : o_deps (obs_node names nd) = canon_set names (nd_deps nd).
Proof. unfold obs_node; destruct (nd_rec nd); auto. Qed.

Lemma find_obs_observe x g :
  find_obs x (observe g) = option_map (obs_node (g_names g)) (g_find x g).
Proof.
  unfold find_obs, observe, g_find. generalize (g_names g) as names.
  induction g as [|a g IH]; simpl; intros names; auto.
  rewrite obs_node_name. destruct (str_eqb x (nd_name a)); auto.
Qed.

Lemma adj_parents_observe g x p :
  NoDup (g_names g) -> (In p (adj_parents (observe g) x) <-> In x (kids_of g p)).
Proof.
  intros Hn. unfold adj_parents, observe. rewrite in_map_iff. split.
  - intros [o [E Ho]]. apply filter_In in Ho as [Ho Hk]. apply in_map_iff in Ho as [nd [<- Hnd]].
    rewrite obs_node_name in E. rewrite obs_node_kids in Hk. apply str_mem_In in Hk.
    unfold kids_of. rewrite <- E, (g_find_NoDup g nd Hn Hnd); auto.
  - unfold kids_of. destruct (g_find p g) as [nd|] eqn:E; [|intros []]. intros Hk.
    exists (obs_node (g_names g) nd). rewrite obs_node_name. split; [eapply g_find_name; eauto|].
    apply filter_In; split; [apply in_map; eapply g_find_In; eauto|].
    rewrite obs_node_kids. apply str_mem_In; auto.
Qed.

Lemma canon_set_In names l d : In d (canon_set names l) <-> In d names /\ In d l.
Proof. unfold canon_set. rewrite filter_In, str_mem_In. tauto. Qed.

Theorem monitor_nodes ap san sp um g :
  hygiene sp um -> SF ap san sp um g -> C08_ok_nodes sp um (observe g) = true.
Proof.
  intros Hh Hsf. pose proof (sf_inv _ _ _ _ _ Hsf) as HG.
  pose proof (gi_nodup _ _ _ _ _ _ HG) as Hnd.
  unfold C08_ok_nodes. rewrite !andb_true_iff. repeat split.
  - (* names *)
    unfold names_ok. rewrite observe_names. rewrite !andb_true_iff. repeat split.
    + apply str_nodupb_NoDup; auto.
    + destruct (gi_head _ _ _ _ _ _ HG) as [rest ->]. apply str_eqb_refl.
    + apply forallb_forall. intros x Hx. apply str_mem_In.
      apply (gi_names _ _ _ _ _ _ HG) in Hx as [->|[t [i [H1 ->]]]]; [left; auto|].
      right. apply in_map_iff. exists (t, i); auto.
    + apply forallb_forall. intros x Hx. apply str_mem_In.
      apply in_map_iff in Hx as [[t i] [<- H1]]. apply (gi_names _ _ _ _ _ _ HG). right; exists t, i; auto.
  - (* sharing *)
    unfold sharing_ok. apply forallb_forall. intros t Ht.
    apply forallb_forall. intros i Hi. apply forallb_forall. intros j Hj.
    apply eqb_of_iff. rewrite str_eqb_eq.
    apply (sharing sp um Hh t i j); auto using rows_valid.
  - (* edges *)
    unfold edges_ok. rewrite andb_true_iff. split.
    + apply forallb_forall. intros [t i] Hti. unfold inst_name; simpl.
      apply inst_list_In in Hti as [Ht Hi]. pose proof (rows_valid _ _ _ _ Hi) as Hv.
      rewrite andb_true_iff. split.
      * apply sseteqb_spec. intros p. rewrite adj_parents_observe by auto.
        apply (edges ap san sp um g Hh Hsf t i Ht Hv p).
      * rewrite find_obs_observe.
        assert (Hin : In (iname (sp_params sp) um (s_name t) i) (g_names g)).
        { apply (total_names ap san sp um g Hsf); auto. }
        apply g_find_Some_names in Hin as [nd Hf]. rewrite Hf; simpl.
        apply sseteqb_spec. intros d. rewrite obs_node_deps, canon_set_In.
        pose proof (edges ap san sp um g Hh Hsf t i Ht Hv d) as [E1 E2].
        unfold deps_of in E2. rewrite Hf in E2. rewrite E2. split; [tauto|].
        intros Hd; split; auto. apply E1 in Hd. eapply kids_of_names; eauto.
    + destruct (adj_parents (observe g) SOURCE) as [|p l] eqn:E; auto. exfalso.
      assert (Hp : In p (adj_parents (observe g) SOURCE)) by (rewrite E; simpl; auto).
      apply adj_parents_observe in Hp; auto.
      destruct (gi_kids _ _ _ _ _ _ HG p _ Hp) as [_ [t [i (K1 & K2 & _)]]].
      apply (iname_not_source sp um (sf_src _ _ _ _ _ Hsf) Hh t i); auto.
      apply (gi_valid _ _ _ _ _ _ HG); auto.
  - (* topological *)
    unfold topological_ok. rewrite observe_names. apply forallb_forall. intros o Ho.
    unfold observe in Ho. apply in_map_iff in Ho as [nd [<- Hnd']].
    rewrite obs_node_name, obs_node_kids. apply forallb_forall. intros c Hc.
    assert (Hk : In c (kids_of g (nd_name nd))).
    { unfold kids_of. rewrite (g_find_NoDup g nd Hnd Hnd'); auto. }
    destruct (topological ap san sp um g Hsf _ _ Hk) as (T1 & T2 & T3).
    rewrite andb_true_iff. split; [apply Nat.ltb_lt; auto | apply str_mem_In; auto].
  - (* records *)
    unfold records_ok. apply forallb_forall. intros [t i] Hti. unfold inst_name; simpl.
    apply inst_list_In in Hti as [Ht Hi]. pose proof (rows_valid _ _ _ _ Hi) as Hv.
    destruct (records ap san sp um g Hh Hsf t i Ht Hv) as (j & r & _ & _ & R3 & _ & R5 & R6).
    rewrite find_obs_observe. unfold rec_of in R3.
    destruct (g_find (iname (sp_params sp) um (s_name t) i) g) as [nd|]; [|discriminate].
    simpl. unfold obs_node. rewrite R3. simpl.
    rewrite R5, R6, Nat.eqb_refl, kvs_eqb_refl; auto.
Qed.

(** the monitor [C08_ok] holds of every staging of the model inside hygiene H8,
    whatever the iteration order of the sets *)
Theorem monitor_model ap san pi sp :
  perm_oracle pi -> hygb sp = true ->
  C08_ok sp (observe_result (stage ap san pi sp)) = true.
Proof.
  intros Hpi Hy. destruct (stage ap san pi sp) as [[um st]|e] eqn:E; simpl; auto.
  assert (Hp : plan sp = Some um).
  { unfold stage in E.
    destruct (construct_ok [SOURCE] (sp_steps sp)); simpl in E; [|discriminate].
    destruct (topo_ok sp (toposort sp)); simpl in E; [|discriminate].
    unfold plan. destruct (plan_go sp (toposort sp) [(SOURCE, [])]) as [um'|]; [|discriminate].
    destruct (stage_go ap san pi sp um' (toposort sp) (init_state sp)); [|discriminate].
    inversion E; auto. }
  pose proof (hygb_hygiene sp um Hp Hy) as Hh.
  pose proof (stage_SF ap san pi sp um st Hpi Hh E) as Hsf.
  rewrite Hp. rewrite andb_true_iff. split.
  - unfold used_ok; simpl. apply list_eqb_refl, kl_eqb_refl.
  - simpl. apply (monitor_nodes ap san); auto.
Qed.

(** C11, part 3: the used-parameter SET.  In the Python code
    [used_params[step]] is a set that is only ever iterated through
    [sorted(...)] (Combination.get_param_string, get_param_values -- the latter
    since the repair fbb1b94).  Expand.v therefore gives it no oracle.  This
    file proves what that relies on: [sorted] is canonical -- any two
    enumerations of the same set sort to the same list -- so instance names,
    workspace components and the Params listing do not depend on the order in
    which the set is enumerated. *)
From MWF Require Import Base.Str Base.Util Expand.PyStr Expand.Expand Expand.OrderFree Expand.OrderFree2.
From Coq Require Import List NArith Bool Arith Lia Permutation.
Import ListNotations.

(** Python's [<=] on strings is a total order *)
Lemma str_leb_refl a : str_leb a a = true.
Proof. induction a; simpl; auto. rewrite N.eqb_refl; auto. Qed.

Lemma str_leb_total a : forall b, str_leb a b = true \/ str_leb b a = true.
Proof.
  induction a as [|x a IH]; intros [|y b]; simpl; auto.
  rewrite (N.eqb_sym y x). destruct (N.eqb x y) eqn:E; auto.
  apply N.eqb_neq in E. rewrite !N.ltb_lt. lia.
Qed.

Lemma str_leb_antisym a : forall b, str_leb a b = true -> str_leb b a = true -> a = b.
Proof.
  induction a as [|x a IH]; intros [|y b]; simpl; auto; try discriminate.
  rewrite (N.eqb_sym y x). destruct (N.eqb x y) eqn:E.
  - apply N.eqb_eq in E; subst. intros; f_equal; auto.
  - rewrite !N.ltb_lt; lia.
Qed.

Lemma str_leb_trans a : forall b c, str_leb a b = true -> str_leb b c = true -> str_leb a c = true.
Proof.
  induction a as [|x a IH]; intros [|y b] [|z c]; simpl; auto; try discriminate.
  destruct (N.eqb x y) eqn:E1.
  - apply N.eqb_eq in E1; subst y. destruct (N.eqb x z) eqn:E2; auto. apply IH.
  - apply N.eqb_neq in E1. intros H1. apply N.ltb_lt in H1.
    destruct (N.eqb y z) eqn:E2.
    + apply N.eqb_eq in E2; subst z. intros _.
      rewrite (proj2 (N.eqb_neq x y) E1). apply N.ltb_lt; auto.
    + intros H2; apply N.ltb_lt in H2. assert (Hxz : x <> z) by lia.
      rewrite (proj2 (N.eqb_neq x z) Hxz). apply N.ltb_lt; lia.
Qed.

Lemma str_leb_false a b : str_leb a b = false -> str_leb b a = true.
Proof. destruct (str_leb_total a b) as [H|H]; auto; congruence. Qed.

(** two insertions commute (in ANY list) *)
Lemma str_insert_comm x y l : str_insert x (str_insert y l) = str_insert y (str_insert x l).
Proof.
  assert (two : forall t, (if str_leb x y then x :: y :: t else y :: x :: t)
                        = (if str_leb y x then y :: x :: t else x :: y :: t)).
  { intros t. destruct (str_leb x y) eqn:Exy, (str_leb y x) eqn:Eyx; auto.
    - rewrite (str_leb_antisym _ _ Exy Eyx); auto.
    - apply str_leb_false in Exy; congruence. }
  induction l as [|z l IH]; cbn [str_insert].
  - apply two.
  - destruct (str_leb y z) eqn:Eyz, (str_leb x z) eqn:Exz; cbn [str_insert]; rewrite ?Eyz, ?Exz.
    + apply two.
    + destruct (str_leb x y) eqn:Exy; auto.
      rewrite (str_leb_trans _ _ _ Exy Eyz) in Exz; discriminate.
    + destruct (str_leb y x) eqn:Eyx; auto.
      rewrite (str_leb_trans _ _ _ Eyx Exz) in Eyz; discriminate.
    + rewrite IH; auto.
Qed.

(** [sorted] is canonical *)
Theorem str_sort_perm l l' : Permutation l l' -> str_sort l = str_sort l'.
Proof.
  unfold str_sort; induction 1; simpl; auto.
  - rewrite IHPermutation; auto.
  - apply str_insert_comm.
  - congruence.
Qed.

(** names, workspace components and the Params listing of an instance do not
    depend on how the used-parameter set is enumerated *)
Theorem combo_string_perm ps U U' i : Permutation U U' -> combo_string ps U i = combo_string ps U' i.
Proof. intros H; unfold combo_string; rewrite (str_sort_perm _ _ H); auto. Qed.

Theorem param_values_perm ps U U' i : Permutation U U' -> param_values ps U i = param_values ps U' i.
Proof. intros H; unfold param_values; rewrite (str_sort_perm _ _ H); auto. Qed.

(** ... hence a used-parameter table whose entries are enumerated differently
    names every instance alike *)
Definition um_perm (um um' : usedmap) : Prop :=
  Forall2 (fun a b => fst a = fst b /\ Permutation (snd a) (snd b)) um um'.

Lemma um_perm_lookup um um' x :
  um_perm um um' ->
  match alookup x um, alookup x um' with
  | Some U, Some U' => Permutation U U'
  | None, None => True
  | _, _ => False
  end.
Proof.
  induction 1; simpl; auto.
  destruct x0 as [k U], y as [k' U']; simpl in *. destruct H as [-> HP].
  destruct (str_eqb x k'); auto.
Qed.

Theorem iname_perm ps um um' x i : um_perm um um' -> iname ps um x i = iname ps um' x i.
Proof.
  intros H; unfold iname, used_in. pose proof (um_perm_lookup um um' x H) as L.
  destruct (alookup x um) as [U|], (alookup x um') as [U'|]; try contradiction; auto.
  destruct U as [|k U], U' as [|k' U']; auto.
  - apply Permutation_nil in L; discriminate.
  - apply Permutation_sym, Permutation_nil in L; discriminate.
  - rewrite (combo_string_perm ps _ _ i L); auto.
Qed.

Theorem used_set_order_free (ps : list param) (U U' : list str) (i : nat) :
  Permutation U U' ->
  combo_string ps U i = combo_string ps U' i /\ param_values ps U i = param_values ps U' i.
Proof. intros; split; [apply combo_string_perm | apply param_values_perm]; assumption. Qed.

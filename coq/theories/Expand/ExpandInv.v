(** The invariant of phase 2 of [Study._stage] (model: [stage_go]) for C08:
    after any prefix of the topologically sorted steps has been expanded, the
    ExecutionGraph holds exactly the instances of those steps, with exactly
    the expected edges, in an order where parents precede children. *)
From MWF Require Import Base.Str Base.Util Base.UtilLemmas Expand.PyStr Expand.PyStrProofs Expand.Expand Expand.ExpandProofs
     Expand.ExpandGraph.
From Coq Require Import List NArith Bool Arith Lia Permutation.
Import ListNotations.

(* ------------------------------------------------------------------------ *)
(** * Small facts *)
Lemma strip_go_nostar x : has_star x = false -> strip_go x 0 = x.
Proof.
  unfold has_star. induction x as [|c r IH]; simpl; auto.
  intros H; apply orb_false_iff in H as [H1 H2].
  assert (Hc : N.eqb c c_star = false) by (rewrite N.eqb_sym; auto).
  destruct r as [|c2 r'].
  - rewrite Hc; auto.
  - simpl in H2. apply orb_false_iff in H2 as [H2 H3].
    assert (Hc2 : N.eqb c2 c_star = false) by (rewrite N.eqb_sym; auto).
    rewrite Hc2, andb_false_r, Hc. f_equal. apply IH. simpl. rewrite H2, H3; auto.
Qed.

Lemma strip_star_nostar x : has_star x = false -> strip_star x = x.
Proof. apply strip_go_nostar. Qed.

Lemma deps_ord_parents t d : In d (deps_ord t) -> In d (parents_raw t).
Proof.
  intros H; apply deps_ord_In in H as [H1 H2]. unfold parents_raw.
  destruct (s_deps t) eqn:E; [contradiction|]. rewrite <- E in *.
  apply in_map_iff; exists d; split; auto. apply strip_star_nostar; auto.
Qed.

Lemma deps_hub_parents t h : In h (deps_hub t) -> In h (parents_raw t).
Proof.
  intros H; apply deps_hub_In in H as [d (H1 & H2 & ->)]. unfold parents_raw.
  destruct (s_deps t) eqn:E; [contradiction|]. rewrite <- E in *.
  apply in_map; auto.
Qed.

Lemma steps_same_name sp t t' :
  NoDup (step_names sp) -> In t (sp_steps sp) -> In t' (sp_steps sp) -> s_name t = s_name t' -> t = t'.
Proof.
  intros Hn H1 H2 E. pose proof (find_step_In sp t Hn H1) as F1.
  pose proof (find_step_In sp t' Hn H2) as F2. rewrite E in F1. congruence.
Qed.

Lemma In_step_names sp x : In x (step_names sp) <-> exists t, In t (sp_steps sp) /\ s_name t = x.
Proof.
  unfold step_names; rewrite in_map_iff. split; intros [t [H1 H2]]; exists t; auto.
Qed.

Lemma In_seq0 i n : In i (seq 0 n) <-> (i < n)%nat.
Proof. rewrite in_seq; lia. Qed.

Lemma rows_valid sp um x i : In i (rows_of (sp_params sp) um x) -> valid_row sp um x i.
Proof.
  unfold rows_of, valid_row. destruct (used_in um x); auto.
  intros H; right; apply In_seq0; auto.
Qed.

Lemma in_oracle_of_perm pi : perm_oracle pi -> forall l x, In x (pi l) <-> In x l.
Proof.
  intros H l x; split; intros Hi.
  - eapply Permutation_in; [apply H | auto].
  - eapply Permutation_in; [apply Permutation_sym, H | auto].
Qed.

(** agreement on a set of parameters fixes the combination string, the record
    parameters and the instance name *)
Lemma agree_In ps U i j :
  agree ps U i j = true ->
  forall k, In k U -> val_of ps k i = val_of ps k j /\ lab_of ps k i = lab_of ps k j.
Proof.
  unfold agree; rewrite forallb_forall. intros H k Hk. specialize (H k Hk).
  apply andb_true_iff in H as [H1 H2]. apply str_eqb_eq in H1, H2; auto.
Qed.

Lemma agree_incl ps U U' i j : incl U' U -> agree ps U i j = true -> agree ps U' i j = true.
Proof.
  unfold agree; rewrite !forallb_forall. intros Hi H k Hk; apply H, Hi; auto.
Qed.

Lemma agree_sym ps U i j : agree ps U i j = true -> agree ps U j i = true.
Proof.
  unfold agree; rewrite !forallb_forall. intros H k Hk. specialize (H k Hk).
  apply andb_true_iff in H as [H1 H2]. apply str_eqb_eq in H1, H2. rewrite H1, H2, !str_eqb_refl; auto.
Qed.

Lemma agree_combo ps U i j : agree ps U i j = true -> combo_string ps U i = combo_string ps U j.
Proof.
  intros H; unfold combo_string; f_equal. apply map_ext_in; intros k Hk.
  apply (proj1 (str_sort_In _ _)) in Hk. apply (agree_In _ _ _ _ H k Hk).
Qed.

Lemma agree_param_values ps U i j : agree ps U i j = true -> param_values ps U i = param_values ps U j.
Proof.
  intros H; unfold param_values. apply map_ext_in; intros k Hk.
  apply (proj1 (str_sort_In _ _)) in Hk. f_equal. apply (agree_In _ _ _ _ H k Hk).
Qed.

Lemma agree_iname ps um x U i j :
  incl (used_in um x) U -> agree ps U i j = true -> iname ps um x i = iname ps um x j.
Proof.
  intros Hi H; unfold iname. destruct (used_in um x) eqn:E; auto.
  rewrite <- E in *. do 2 f_equal. apply agree_combo. eapply agree_incl; eauto.
Qed.

Lemma fold_opt_none {A} (f : sstate -> A -> option sstate) l :
  fold_left (fun ost a => match ost with Some s => f s a | None => None end) l None = None.
Proof. induction l; simpl; auto. Qed.

Lemma fold_opt_seq_inv (P : nat -> sstate -> Prop) (f : sstate -> nat -> option sstate) n :
  (forall k st st1, (k < n)%nat -> P k st -> f st k = Some st1 -> P (S k) st1) ->
  forall st0 st', P 0%nat st0 ->
  fold_left (fun ost i => match ost with Some s => f s i | None => None end) (seq 0 n) (Some st0) = Some st' ->
  P n st'.
Proof.
  intros Hstep.
  assert (G : forall m a st0 st', (a + m = n)%nat -> P a st0 ->
            fold_left (fun ost i => match ost with Some s => f s i | None => None end) (seq a m) (Some st0) = Some st' ->
            P n st').
  { induction m as [|m IH]; simpl; intros a st0 st' Ha HP H.
    - inversion H as [H0]. rewrite <- H0. replace n with a by lia. auto.
    - destruct (f st0 a) as [st1|] eqn:E.
      + apply (IH (S a) st1 st'); auto; try lia. apply (Hstep a st0); auto; lia.
      + rewrite fold_opt_none in H; discriminate. }
  intros st0 st' HP H. apply (G n 0%nat st0 st'); auto.
Qed.

(* ------------------------------------------------------------------------ *)
Section Inv.
  Variable ap : list param -> nat -> str -> str.
  Variable san : str -> str.
  Variable pi : an_oracle.
  Variable sp : spec.
  Variable um : usedmap.

  Hypothesis Hpi : forall l x, In x (pi l) <-> In x l.
  Hypothesis Hnd : NoDup (step_names sp).
  Hypothesis Hsrc : ~ In SOURCE (step_names sp).
  Hypothesis Hself : forall t p, In t (sp_steps sp) -> In p (parents_raw t) -> p <> s_name t.
  Hypothesis Hhyg : hygiene sp um.
  Hypothesis Hmono : forall t d, In t (sp_steps sp) -> In d (deps_ord t) ->
                                 incl (used_in um d) (used_in um (s_name t)).

  Notation ps := (sp_params sp).
  Definition iname' (t : step) (i : nat) : str := iname ps um (s_name t) i.
  Definition vinst (t : step) (i : nat) : Prop :=
    In t (sp_steps sp) /\ In i (rows_of ps um (s_name t)).

  (** the record [add_instance] builds for row [i] of step [t] *)
  Definition rec_from (t : step) (i : nat) (r : rec) : Prop :=
    let U := used_in um (s_name t) in
    let f := match U with [] => (fun y : str => y) | _ => ap ps i end in
    let comps := match U with [] => [s_name t] | _ => [s_name t; combo_string ps U i] end in
    exists wsm cmd rcmd,
      ws_pass san sp um wsm t i (step_wsrefs t) (f (s_cmd t), f (s_restart t)) = Some (cmd, rcmd) /\
      r = mkRec (msp san sp comps) (map san comps) (rlimit_of sp t) (param_values ps U i)
                (f (s_desc t))
                (replace tok_workspace (msp san sp comps) cmd)
                (replace tok_workspace (msp san sp comps) rcmd)
                (map (fun kv => (fst kv, f (snd kv))) (s_rest t)) (map f (s_deps t)).

  Lemma vinst_valid t i : vinst t i -> valid_row sp um (s_name t) i.
  Proof. intros [_ H]; apply rows_valid; auto. Qed.

  (** F1: equal names = same step, agreeing rows *)
  Lemma same_name t i t' j :
    vinst t i -> vinst t' j -> iname' t i = iname' t' j ->
    t = t' /\ agree ps (used_in um (s_name t)) i j = true.
  Proof.
    intros V1 V2 E. destruct (hy_inj _ _ Hhyg t t' i j) as [H1 H2];
      try apply V1; try apply V2; auto using vinst_valid.
    split; auto. apply (steps_same_name sp); auto; try apply V1; apply V2.
  Qed.

  Lemma dep_step t d : In t (sp_steps sp) -> In d (deps_ord t) ->
    exists td, In td (sp_steps sp) /\ s_name td = d.
  Proof.
    intros Ht Hd. apply In_step_names. apply deps_ord_In in Hd as [H1 H2].
    rewrite <- (strip_star_nostar d H2). eapply hy_deps; eauto.
  Qed.

  Lemma hub_step t h : In t (sp_steps sp) -> In h (deps_hub t) ->
    exists th, In th (sp_steps sp) /\ s_name th = h.
  Proof.
    intros Ht Hd. apply In_step_names. apply deps_hub_In in Hd as [d (H1 & H2 & ->)].
    eapply hy_deps; eauto.
  Qed.

  (** F3: rows that agree on the used parameters have the same expected parents *)
  Lemma expected_agree t i j :
    In t (sp_steps sp) -> agree ps (used_in um (s_name t)) i j = true ->
    expected_parents sp um t i = expected_parents sp um t j.
  Proof.
    intros Ht Ha; unfold expected_parents.
    destruct (deps_ord t) eqn:Eo, (deps_hub t) eqn:Eh; auto; rewrite <- Eo in *; f_equal;
      apply map_ext_in; intros d Hd; eapply agree_iname; eauto.
  Qed.

  Lemma expected_In t i p :
    In p (expected_parents sp um t i) <->
    (deps_ord t = [] /\ deps_hub t = [] /\ p = SOURCE)
    \/ (exists d, In d (deps_ord t) /\ p = iname ps um d i)
    \/ (exists h j, In h (deps_hub t) /\ In j (rows_of ps um h) /\ p = iname ps um h j).
  Proof.
    unfold expected_parents.
    assert (G : In p (map (fun d => iname ps um d i) (deps_ord t) ++ flat_map (all_instances sp um) (deps_hub t))
                <-> (exists d, In d (deps_ord t) /\ p = iname ps um d i)
                    \/ (exists h j, In h (deps_hub t) /\ In j (rows_of ps um h) /\ p = iname ps um h j)).
    { rewrite in_app_iff, in_map_iff, in_flat_map. unfold all_instances. split.
      - intros [[d [E Hd]]|[h [Hh Hi]]]; [left; eauto|].
        apply in_map_iff in Hi as [j [E Hj]]. right; exists h, j; auto.
      - intros [[d [Hd E]]|[h [j (Hh & Hj & E)]]]; [left; eauto|].
        right; exists h; split; auto. apply in_map_iff; eauto. }
    destruct (deps_ord t) as [|o od] eqn:Eo; destruct (deps_hub t) as [|h0 hd] eqn:Eh.
    - simpl. split.
      + intros [<-|[]]; auto.
      + intros [(_ & _ & ->)|[[d [[] _]]|[h [j ([] & _)]]]]; auto.
    - split; [intros H; right; apply (proj1 G); exact H|].
      intros [(_ & H & _)|H]; [discriminate | apply (proj2 G); exact H].
    - split; [intros H; right; apply (proj1 G); exact H|].
      intros [(H & _)|H]; [discriminate | apply (proj2 G); exact H].
    - split; [intros H; right; apply (proj1 G); exact H|].
      intros [(H & _)|H]; [discriminate | apply (proj2 G); exact H].
  Qed.

  Lemma iname_not_source t i : vinst t i -> iname' t i <> SOURCE.
  Proof.
    intros [Ht Hi] E. unfold iname', iname in E.
    destruct (used_in um (s_name t)) eqn:EU.
    - apply Hsrc. rewrite <- E. apply in_map; auto.
    - unfold rows_of in Hi; rewrite EU in Hi. apply In_seq0 in Hi.
      apply (hy_nostep _ _ Hhyg t i); auto; try congruence.
      unfold iname; rewrite EU, E; simpl; auto.
  Qed.

  (** F4: an instance is not among its own expected parents *)
  Lemma not_own_parent t i : vinst t i -> ~ In (iname' t i) (expected_parents sp um t i).
  Proof.
    intros V Hin. pose proof V as [Ht Hi].
    apply expected_In in Hin as [(_ & _ & E)|[[d [Hd E]]|[h [j (Hh & Hj & E)]]]].
    - apply (iname_not_source t i); auto.
    - destruct (dep_step t d Ht Hd) as [td [Htd En]]. subst d.
      assert (Vd : valid_row sp um (s_name td) i).
      { destruct (vinst_valid _ _ V) as [E0|Hlt]; [|right; auto].
        left. pose proof (Hmono t _ Ht Hd) as Hm. rewrite E0 in Hm.
        destruct (used_in um (s_name td)) as [|k l]; auto. exfalso; apply (Hm k); simpl; auto. }
      destruct (hy_inj _ _ Hhyg t td i i) as [H1 _]; auto using vinst_valid.
      apply (Hself t (s_name td)); auto. apply deps_ord_parents; auto.
    - destruct (hub_step t h Ht Hh) as [th [Hth En]]. subst h.
      destruct (hy_inj _ _ Hhyg t th i j) as [H1 _]; auto using vinst_valid, rows_valid.
      apply (Hself t (s_name th)); auto. apply deps_hub_parents; auto.
  Qed.

  (* ---------------------------------------------------------------------- *)
  (** * The graph invariant *)
  Record GInv (L : list (step * nat)) (g : graph) : Prop := mkGInv {
    gi_nodup : NoDup (g_names g);
    gi_head : exists rest, g_names g = SOURCE :: rest;
    gi_names : forall y, In y (g_names g) <-> y = SOURCE \/ exists t i, In (t, i) L /\ y = iname' t i;
    gi_valid : forall t i, In (t, i) L -> vinst t i;
    gi_deps : forall t i, In (t, i) L ->
                forall d, In d (deps_of g (iname' t i)) <-> In d (expected_parents sp um t i);
    gi_rec : forall t i, In (t, i) L ->
                exists j r, In (t, j) L /\ iname' t j = iname' t i
                            /\ rec_of g (iname' t i) = Some r /\ rec_from t j r;
    gi_kids : forall p c, In c (kids_of g p) ->
                (index_of p (g_names g) < index_of c (g_names g))%nat
                /\ exists t i, In (t, i) L /\ c = iname' t i /\ In p (expected_parents sp um t i);
    gi_edges : forall t i, In (t, i) L -> forall p, In p (expected_parents sp um t i) ->
                In (iname' t i) (kids_of g p) }.

  Lemma GInv_ext L L' g : (forall ti, In ti L <-> In ti L') -> GInv L g -> GInv L' g.
  Proof.
    intros HL [A A' B C D E F G]. constructor; auto.
    - intros y; rewrite B. split; intros [?|[t [i [H1 H2]]]]; auto; right; exists t, i; split; auto; apply HL; auto.
    - intros t i H; apply C, HL; auto.
    - intros t i H; apply D, HL; auto.
    - intros t i H. destruct (E t i (proj2 (HL _) H)) as [j [r (H1 & H2 & H3 & H4)]].
      exists j, r; repeat split; auto. apply HL; auto.
    - intros p c H. destruct (F p c H) as [H1 [t [i (H2 & H3 & H4)]]]. split; auto.
      exists t, i; repeat split; auto. apply HL; auto.
    - intros t i H; apply G, HL; auto.
  Qed.

  Lemma GInv_init : GInv [] [mkNode SOURCE None [] []].
  Proof.
    constructor; simpl.
    - constructor; [intros []|constructor].
    - exists []; auto.
    - intros y; split; [intros [<-|[]]; auto | intros [->|[t [i [[] _]]]]; auto].
    - intros t i [].
    - intros t i [].
    - intros t i [].
    - intros p c. unfold kids_of; simpl. destruct (str_eqb p SOURCE); simpl; intros [].
    - intros t i [].
  Qed.

  (** one [add_step] + its [add_connection]s keep the invariant *)
  Lemma GInv_add L g t i r pl g' :
    GInv L g -> vinst t i -> rec_from t i r ->
    (forall p, In p pl <-> In p (expected_parents sp um t i)) ->
    connect_all pl (iname' t i) (g_add (iname' t i) (Some r) g) = Some g' ->
    GInv (L ++ [(t, i)]) g'.
  Proof.
    intros [A A' B C D E F G] V Hr Hpl Hc.
    set (x := iname' t i) in *.
    destruct (add_graph_spec _ _ _ _ _ Hc) as (S1 & S2 & S3 & S4 & S5 & S6 & S7).
    assert (Hxs : x <> SOURCE) by (apply iname_not_source; auto).
    assert (Hnp : ~ In x pl) by (intros H; apply Hpl in H; revert H; apply not_own_parent; auto).
    (* when the node exists already it is an earlier row of the same step that agrees *)
    assert (Hex : g_has x g = true ->
                  exists i0, In (t, i0) L /\ iname' t i0 = x
                             /\ agree ps (used_in um (s_name t)) i0 i = true).
    { intros Hh. rewrite g_has_names in Hh. apply str_mem_In, B in Hh as [?|[t0 [i0 [H0 E0]]]]; [contradiction|].
      destruct (same_name t0 i0 t i) as [-> Ha]; auto. exists i0; auto. }
    assert (Hin : forall t1 i1, In (t1, i1) (L ++ [(t, i)]) -> iname' t1 i1 <> x -> In (t1, i1) L).
    { intros t1 i1 H Hn. apply in_app_iff in H as [?|[H|[]]]; auto. inversion H; subst. contradiction. }
    assert (Hv : forall t1 i1, In (t1, i1) (L ++ [(t, i)]) -> vinst t1 i1).
    { intros t1 i1 H. apply in_app_iff in H as [?|[H|[]]]; auto. inversion H; subst; auto. }
    assert (Hsame : forall t1 i1, In (t1, i1) (L ++ [(t, i)]) -> iname' t1 i1 = x ->
                     t1 = t /\ expected_parents sp um t1 i1 = expected_parents sp um t i).
    { intros t1 i1 H E1. destruct (same_name t1 i1 t i) as [-> Ha]; auto.
      split; auto. apply expected_agree; auto. apply V. }
    assert (Hold : forall y, In y (g_names g) -> In y (g_names g')).
    { intros y Hy. rewrite S1. destruct (g_has x g); auto. apply in_app_iff; auto. }
    constructor.
    - rewrite S1. destruct (g_has x g) eqn:Eh; auto.
      apply NoDup_snoc; auto. intros Hi. apply str_mem_In in Hi. rewrite <- g_has_names in Hi. congruence.
    - destruct A' as [rest Hrest]. rewrite S1, Hrest. destruct (g_has x g); eauto.
      exists (rest ++ [x]); auto.
    - intros y. rewrite S1. destruct (g_has x g) eqn:Eh.
      + rewrite B. split.
        * intros [?|[t1 [i1 [H1 H2]]]]; auto. right; exists t1, i1; split; auto. apply in_app_iff; auto.
        * intros [?|[t1 [i1 [H1 H2]]]]; auto.
          apply in_app_iff in H1 as [H1|[H1|[]]]; [right; eauto|].
          inversion H1; subst t1 i1. destruct (Hex eq_refl) as [i0 (H3 & H4 & _)]. right; exists t, i0; split; auto. rewrite H4; auto.
      + rewrite in_app_iff, B. simpl. split.
        * intros [[?|[t1 [i1 [H1 H2]]]]|[<-|[]]]; auto.
          -- right; exists t1, i1; split; auto. apply in_app_iff; auto.
          -- right; exists t, i; split; auto. apply in_app_iff; simpl; auto.
        * intros [?|[t1 [i1 [H1 H2]]]]; auto.
          apply in_app_iff in H1 as [H1|[H1|[]]]; [left; right; eauto|].
          inversion H1; subst. right; left; reflexivity.
    - exact Hv.
    - intros t1 i1 H d. destruct (str_dec (iname' t1 i1) x) as [E1|E1].
      + destruct (Hsame _ _ H E1) as [-> ->]. rewrite E1, S4. apply Hpl.
      + rewrite S5 by auto. apply D; auto.
    - intros t1 i1 H. destruct (str_dec (iname' t1 i1) x) as [E1|E1].
      + destruct (Hsame _ _ H E1) as [-> _]. rewrite E1, S7.
        destruct (g_has x g) eqn:Eh.
        * destruct (Hex eq_refl) as [i0 (H3 & H4 & _)].
          destruct (E t i0 H3) as [j [r0 (J1 & J2 & J3 & J4)]].
          exists j, r0. rewrite H4 in *. repeat split; auto. apply in_app_iff; auto.
        * exists i, r. repeat split; auto. apply in_app_iff; simpl; auto.
      + rewrite S6 by auto. destruct (E t1 i1 (Hin _ _ H E1)) as [j [r0 (J1 & J2 & J3 & J4)]].
        exists j, r0; repeat split; auto. apply in_app_iff; auto.
    - intros p c H. apply S3 in H as [H|(-> & Hp & Hpx)].
      + destruct (F p c H) as [H1 [t1 [i1 (H2 & H3 & H4)]]]. split.
        * assert (In p (g_names g)) by (eapply kids_of_names; eauto).
          assert (In c (g_names g)) by (apply B; right; eauto).
          rewrite S1. destruct (g_has x g); auto. rewrite !index_of_app_in; auto.
        * exists t1, i1; repeat split; auto. apply in_app_iff; auto.
      + split; [|exists t, i; repeat split; [apply in_app_iff; simpl; auto | apply Hpl; auto]].
        destruct (g_has x g) eqn:Eh.
        * destruct (Hex eq_refl) as [i0 (H3 & H4 & Ha)].
          assert (Hk : In x (kids_of g p)).
          { rewrite <- H4. apply G; auto. rewrite (expected_agree t i0 i); [apply Hpl; auto | apply V | auto]. }
          rewrite S1; rewrite ?Eh. apply F; auto.
        * rewrite S1; rewrite ?Eh. destruct (S2 p Hp) as [?|Hi]; [contradiction|].
          rewrite index_of_app_in by auto. rewrite index_of_app_new.
          -- apply index_of_lt; auto.
          -- intros Hi'. apply str_mem_In in Hi'. rewrite <- g_has_names in Hi'. congruence.
    - intros t1 i1 H p Hp. apply S3. destruct (str_dec (iname' t1 i1) x) as [E1|E1].
      + destruct (Hsame _ _ H E1) as [-> Hx]. rewrite Hx in Hp. right. rewrite E1. repeat split; auto.
        * apply Hpl; auto.
        * intros ->. apply Hnp, Hpl; auto.
      + left. apply G; auto.
  Qed.

  (* ---------------------------------------------------------------------- *)
  (** * [step_combos] *)
  Definition insts (done : list step) : list (step * nat) :=
    flat_map (fun t => map (pair t) (rows_of ps um (s_name t))) done.

  Lemma In_insts done t i : In (t, i) (insts done) <-> In t done /\ In i (rows_of ps um (s_name t)).
  Proof.
    unfold insts; rewrite in_flat_map. split.
    - intros [t' [H1 H2]]. apply in_map_iff in H2 as [j [E Hj]]. inversion E; subst; auto.
    - intros [H1 H2]. exists t; split; auto. apply in_map; auto.
  Qed.

  Definition CDone (done : list step) (combos : list (str * list str)) : Prop :=
    (forall t, In t done -> exists c, alookup (s_name t) combos = Some c
                                      /\ set_eq c (all_instances sp um (s_name t)))
    /\ (forall x, In x (akeys combos) -> x = SOURCE \/ exists t, In t done /\ s_name t = x).

  Lemma hub_items_spec combos hs : forall out,
    hub_items pi combos hs = Some out ->
    (forall h, In h hs -> exists c, alookup h combos = Some c)
    /\ (forall y, In y out <-> exists h c, In h hs /\ alookup h combos = Some c /\ In y c).
  Proof.
    induction hs as [|h hs IH]; simpl; intros out H.
    - inversion H; subst. split; [intros ? []|]. intros y; split; [intros [] | intros (? & ? & [] & _)].
    - destruct (alookup h combos) as [c|] eqn:El; [|discriminate].
      destruct (hub_items pi combos hs) as [r|]; [|discriminate]. inversion H; subst; clear H.
      destruct (IH _ eq_refl) as [I1 I2]. split.
      + intros h' [<-|Hh]; eauto.
      + intros y. rewrite in_app_iff, Hpi, I2. split.
        * intros [Hy|(h' & c' & Hh & Hl & Hy)]; [exists h, c; auto | exists h', c'; auto].
        * intros (h' & c' & [<-|Hh] & Hl & Hy); [left; congruence | right; eauto].
  Qed.

  (** the parents the code connects = the expected parents, as sets *)
  Lemma parent_list_expected combos t i pl :
    (forall h, In h (deps_hub t) -> forall c, alookup h combos = Some c ->
               set_eq c (all_instances sp um h)) ->
    parent_list pi sp um combos t i = Some pl ->
    forall p, In p pl <-> In p (expected_parents sp um t i).
  Proof.
    intros Hc H p. unfold parent_list in H. unfold expected_parents.
    assert (G : forall hs, hub_items pi combos (pi (deps_hub t)) = Some hs ->
                In p (map (fun p0 => iname ps um p0 i) (pi (deps_ord t)) ++ hs) <->
                In p (map (fun p0 => iname ps um p0 i) (deps_ord t) ++ flat_map (all_instances sp um) (deps_hub t))).
    { intros hs Hh. destruct (hub_items_spec _ _ _ Hh) as [I1 I2].
      rewrite !in_app_iff, !in_map_iff, I2, in_flat_map. split.
      - intros [[d [E Hd]]|(h & c & Hh' & Hl & Hy)].
        + left; exists d; split; auto. apply Hpi; auto.
        + right; exists h. apply (proj1 (Hpi _ _)) in Hh'. split; auto. apply (Hc h Hh' c Hl); auto.
      - intros [[d [E Hd]]|[h [Hh' Hy]]].
        + left; exists d; split; auto. apply Hpi; auto.
        + right. destruct (I1 h) as [c Hl]; [apply Hpi; auto|].
          exists h, c; repeat split; auto; [apply Hpi; auto | apply (Hc h Hh' c Hl); auto]. }
    destruct (deps_ord t) eqn:Eo, (deps_hub t) eqn:Eh.
    - inversion H; subst; tauto.
    - destruct (hub_items pi combos (pi (s :: l))) eqn:E; [|discriminate]. inversion H; subst. apply G; auto.
    - destruct (hub_items pi combos (pi [])) eqn:E; [|discriminate]. inversion H; subst. apply G; auto.
    - destruct (hub_items pi combos (pi (s0 :: l0))) eqn:E; [|discriminate]. inversion H; subst. apply G; auto.
  Qed.

  Lemma add_instance_spec t x comps f params i st st' :
    add_instance san pi sp um t x comps f params i st = Some st' ->
    exists cmd rcmd pl g',
      ws_pass san sp um (st_ws st) t i (step_wsrefs t) (f (s_cmd t), f (s_restart t)) = Some (cmd, rcmd)
      /\ parent_list pi sp um (st_combos st) t i = Some pl
      /\ connect_all pl x
           (g_add x (Some (mkRec (msp san sp comps) (map san comps) (rlimit_of sp t) params (f (s_desc t))
                                 (replace tok_workspace (msp san sp comps) cmd)
                                 (replace tok_workspace (msp san sp comps) rcmd)
                                 (map (fun kv => (fst kv, f (snd kv))) (s_rest t)) (map f (s_deps t))))
                  (st_g st)) = Some g'
      /\ st' = mkSt g' (st_combos st) (st_ws st).
  Proof.
    unfold add_instance.
    destruct (ws_pass san sp um (st_ws st) t i (step_wsrefs t) (f (s_cmd t), f (s_restart t)))
      as [[cmd rcmd]|]; [|discriminate].
    destruct (parent_list pi sp um (st_combos st) t i) as [pl|]; [|discriminate].
    match goal with |- context [connect_all pl x ?G] => destruct (connect_all pl x G) as [g'|] eqn:E end;
      [|discriminate].
    intros H; inversion H; subst. exists cmd, rcmd, pl, g'. auto.
  Qed.

  (** hubs of a step being expanded are complete *)
  Lemma hubs_complete done combos combos' t :
    CDone done combos -> In t (sp_steps sp) ->
    (forall y, y <> s_name t -> alookup y combos' = alookup y combos) ->
    forall h, In h (deps_hub t) -> forall c, alookup h combos' = Some c ->
      set_eq c (all_instances sp um h).
  Proof.
    intros [C1 C2] Ht Hother h Hh c Hl.
    assert (Hn : h <> s_name t) by (apply Hself; auto; apply deps_hub_parents; auto).
    rewrite Hother in Hl by auto.
    destruct (C2 h) as [->|[th [Hd <-]]].
    - apply alookup_In_keys; eauto.
    - exfalso. destruct (hub_step t _ Ht Hh) as [th [H1 H2]]. apply Hsrc. rewrite <- H2. apply in_map; auto.
    - destruct (C1 th Hd) as [c' [Hl' Hs]]. rewrite Hl in Hl'; inversion Hl'; subst; auto.
  Qed.

  (** expanding one step *)
  Lemma stage_step_inv done t st st' :
    incl done (sp_steps sp) -> In t (sp_steps sp) -> ~ In t done ->
    GInv (insts done) (st_g st) -> CDone done (st_combos st) ->
    stage_step ap san pi sp um t st = Some st' ->
    GInv (insts (done ++ [t])) (st_g st') /\ CDone (done ++ [t]) (st_combos st').
  Proof.
    intros Hdone Ht Hnt HG HC H.
    assert (Hother : forall t', In t' done -> s_name t' <> s_name t).
    { intros t' H1 E. apply Hnt. rewrite <- (steps_same_name sp t' t); auto. }
    unfold insts; rewrite flat_map_app; simpl; rewrite app_nil_r. fold (insts done).
    unfold stage_step in H. destruct (used_in um (s_name t)) as [|u0 U0] eqn:EU.
    - (* no parameters: a single instance named after the step *)
      apply add_instance_spec in H as (cmd & rcmd & pl & g' & W & P & Cn & ->). simpl in *.
      assert (En : iname' t 0 = s_name t) by (unfold iname', iname; rewrite EU; auto).
      assert (Er : rows_of ps um (s_name t) = [0%nat]) by (unfold rows_of; rewrite EU; auto).
      rewrite Er; simpl. split.
      + match type of Cn with connect_all _ _ (g_add _ (Some ?r) _) = _ =>
          apply (GInv_add (insts done) (st_g st) t 0%nat r pl g' HG) end.
        * split; auto. rewrite Er; simpl; auto.
        * unfold rec_from. rewrite EU. exists (aset (s_name t) (msp san sp [s_name t]) (st_ws st)), cmd, rcmd.
          split; auto.
        * eapply parent_list_expected; [|exact P].
          eapply hubs_complete; eauto. intros y Hy. rewrite !alookup_aset_other; auto.
        * rewrite En; exact Cn.
      + destruct HC as [C1 C2]. split.
        * intros t' Ht'. apply in_app_iff in Ht' as [Ht'|[<-|[]]].
          -- destruct (C1 t' Ht') as [c [Hl Hs]]. exists c; split; auto.
             rewrite !alookup_aset_other; auto.
          -- exists [s_name t]. rewrite alookup_aset_same. split; auto.
             unfold all_instances; rewrite Er; simpl. unfold iname; rewrite EU. apply set_eq_refl.
        * intros x Hx. apply akeys_aset in Hx as [->|Hx]; [right; exists t; split; auto; apply in_app_iff; simpl; auto|].
          apply akeys_aset in Hx as [->|Hx]; [right; exists t; split; auto; apply in_app_iff; simpl; auto|].
          destruct (C2 x Hx) as [?|[t' [H1 H2]]]; auto. right; exists t'; split; auto. apply in_app_iff; auto.
    - (* one instance per row, shared between rows with the same name *)
      rewrite <- EU in *.
      assert (Er : rows_of ps um (s_name t) = seq 0 (nrows ps)) by (unfold rows_of; rewrite EU; auto).
      rewrite Er.
      set (x := s_name t) in *.
      set (P := fun (k : nat) (s1 : sstate) =>
                  GInv (insts done ++ map (pair t) (seq 0 k)) (st_g s1)
                  /\ (forall y, y <> x -> alookup y (st_combos s1) = alookup y (st_combos st))
                  /\ (exists c, alookup x (st_combos s1) = Some c
                                /\ forall y, In y c <-> exists i, (i < k)%nat /\ y = iname' t i)
                  /\ (forall y, In y (akeys (st_combos s1)) -> y = x \/ In y (akeys (st_combos st)))).
      assert (HP : P (nrows ps) st').
      { eapply (fold_opt_seq_inv P); [| |exact H].
        - (* one row *)
          intros k s0 s1 Hk (I1 & I2 & (c & I3 & I3') & I4) Hrow.
          unfold stage_row in Hrow. simpl in Hrow.
          assert (En : x ++ c_us :: combo_string ps (used_in um x) k = iname' t k).
          { unfold iname', iname. fold x. rewrite EU; auto. }
          fold x in Hrow. rewrite En in Hrow.
          assert (Hkey : str_mem (iname' t k) (akeys (st_combos s0)) = false).
          { apply str_mem_nIn. intros Hi.
            apply (hy_nostep _ _ Hhyg t k Ht); [fold x; rewrite EU; discriminate | auto |].
            fold (iname' t k). destruct (I4 _ Hi) as [E|Hi'].
            - right. rewrite E. apply in_map; auto.
            - destruct HC as [_ C2]. destruct (C2 _ Hi') as [->|[t' [H1 H2]]]; [left; auto|].
              right. rewrite <- H2. apply in_map; auto. }
          rewrite Hkey in Hrow.
          apply add_instance_spec in Hrow as (cmd & rcmd & pl & g' & W & Pl & Cn & ->). simpl in *.
          unfold add_combo in *. rewrite I3 in *.
          unfold P; cbn [st_g st_combos st_ws]. split; [|split; [|split]].
          + rewrite seq_S, map_app, app_assoc; simpl.
            match type of Cn with connect_all _ _ (g_add _ (Some ?r) _) = _ =>
              apply (GInv_add (insts done ++ map (pair t) (seq 0 k)) (st_g s0) t k r pl g' I1) end.
            * split; auto. fold x. rewrite Er. apply In_seq0; auto.
            * unfold rec_from. fold x. rewrite EU, <- EU.
              exists (aset (iname' t k) (msp san sp [x; combo_string ps (used_in um x) k]) (st_ws s0)), cmd, rcmd.
              split; auto.
            * eapply parent_list_expected; [|exact Pl].
              eapply hubs_complete; eauto. intros y Hy. rewrite alookup_aset_other; auto.
            * exact Cn.
          + intros y Hy. rewrite alookup_aset_other; auto.
          + exists (sadd_s (iname' t k) c). rewrite alookup_aset_same. split; auto.
            intros y. rewrite In_sadd_s, I3'. split.
            * intros [->|[i [Hi E]]]; [exists k; split; auto | exists i; split; auto; lia].
            * intros [i [Hi E]]. destruct (Nat.eq_dec i k) as [->|Hne]; auto. right; exists i; split; auto; lia.
          + intros y Hy. apply akeys_aset in Hy as [->|Hy]; auto.
        - (* before the first row *)
          unfold P; simpl. rewrite app_nil_r. split; [auto|split; [|split]].
          + intros y Hy. rewrite alookup_aset_other; auto.
          + exists []. rewrite alookup_aset_same. split; auto.
            intros y; split; [intros [] | intros [i [Hi _]]; lia].
          + intros y Hy. apply akeys_aset in Hy as [->|Hy]; auto. }
      destruct HP as (I1 & I2 & (c & I3 & I3') & I4). split; auto.
      destruct HC as [C1 C2]. split.
      + intros t' Ht'. apply in_app_iff in Ht' as [Ht'|[<-|[]]].
        * destruct (C1 t' Ht') as [c' [Hl Hs]]. exists c'; split; auto. rewrite I2; auto.
        * exists c. split; auto. intros y. rewrite I3'. unfold all_instances. fold x. rewrite Er, in_map_iff.
          split; [intros [i [Hi ->]]; exists i; split; auto; apply In_seq0; auto
                 | intros [i [<- Hi]]; exists i; split; auto; apply In_seq0; auto].
      + intros y Hy. destruct (I4 y Hy) as [->|Hy'].
        * right; exists t; split; auto. apply in_app_iff; simpl; auto.
        * destruct (C2 y Hy') as [?|[t' [H1 H2]]]; auto. right; exists t'; split; auto. apply in_app_iff; auto.
  Qed.

  (** expanding the steps of [order] one after the other *)
  Lemma stage_go_inv order : forall done st st',
    NoDup order -> ~ In SOURCE order ->
    (forall x, In x order -> ~ In x (map s_name done)) ->
    incl done (sp_steps sp) -> NoDup (map s_name done) ->
    GInv (insts done) (st_g st) -> CDone done (st_combos st) ->
    stage_go ap san pi sp um order st = Some st' ->
    exists done', map s_name done' = map s_name done ++ order /\ incl done' (sp_steps sp)
                  /\ GInv (insts done') (st_g st') /\ CDone done' (st_combos st').
  Proof.
    induction order as [|x order IH]; simpl; intros done st st' Hno Hns Hfresh Hd Hdn HG HC H.
    - inversion H; subst. exists done; rewrite app_nil_r; auto.
    - seqb x SOURCE; [exfalso; apply Hns; auto|].
      destruct (find_step sp x) as [t|] eqn:Ef; [|discriminate].
      apply find_step_Some in Ef as [Ht Hx].
      destruct (stage_step ap san pi sp um t st) as [st1|] eqn:Es; [|discriminate].
      inversion Hno; subst.
      assert (Hnt : ~ In t done).
      { intros Hi. apply (Hfresh (s_name t)); auto. apply in_map; auto. }
      destruct (stage_step_inv done t st st1 Hd Ht Hnt HG HC Es) as [HG1 HC1].
      destruct (IH (done ++ [t]) st1 st') as [done' (D1 & D2 & D3 & D4)]; auto.
      + intros y Hy. rewrite map_app, in_app_iff. simpl. intros [Hi|[<-|[]]]; auto.
        apply (Hfresh y); auto.
      + intros y Hy. apply in_app_iff in Hy as [?|[<-|[]]]; auto.
      + rewrite map_app; simpl. apply NoDup_snoc; auto; apply Hfresh; simpl; auto.
      + exists done'. rewrite D1, map_app, <- app_assoc. auto.
  Qed.
End Inv.

(** Tie between the hand-written expansion model (Expand.v), which the theorems of
    Props/C08.v, Props/C11.v, C13_stageable and C18_stage_function are about, and
    the text GENERATED from the current source of study.py / parameters.py /
    executiongraph.py (StageGen.v, by translate/tcode_stage.py). *)
From Coq Require Import List Arith Bool NArith Lia Permutation.
From MWF Require Import Expand.StageOps Expand.StageGen Expand.ExpandProofs Expand.ExpandInv.
Import ListNotations.

(* ------------------------------------------------------------------------- *)
(** * formats and tokens *)
Lemma fmt_us a b : py_format (s "{}_{}") [a; b] = a ++ c_us :: b.
Proof. cbn. rewrite app_nil_r. reflexivity. Qed.

Lemma fmt_sp a b : py_format (s "{} {}") [a; b] = a ++ c_space :: b.
Proof. cbn. rewrite app_nil_r. reflexivity. Qed.

Lemma fmt_wsvar m : py_format (s "$({}.workspace)") [m] = c_dollar :: c_lpar :: m ++ dot_workspace.
Proof. reflexivity. Qed.

Lemma fmt_lab k : py_format (s "{}({}.label)") [combo_token; k] = tok_lab k.
Proof. reflexivity. Qed.

Lemma fmt_val k : py_format (s "{}({})") [combo_token; k] = tok_val k.
Proof. reflexivity. Qed.

Lemma tok_eqb (suf k k' : str) :
  str_eqb (c_dollar :: c_lpar :: k ++ suf) (c_dollar :: c_lpar :: k' ++ suf) = str_eqb k k'.
Proof.
  destruct (str_eqb k k') eqn:E.
  - apply str_eqb_eq in E. subst. apply str_eqb_refl.
  - apply str_eqb_neq. apply str_eqb_neq in E. intros H. apply E.
    injection H as H. eapply app_inv_tail; exact H.
Qed.

Lemma combo_labels_item ps i k : combo_item (combo_labels ps i) (tok_lab k) = lab_of ps k i.
Proof.
  unfold combo_item, combo_labels, lab_of, find_param.
  induction ps as [|p ps IH]; [reflexivity|]. cbn [map alookup find].
  unfold tok_lab at 1 2. rewrite tok_eqb. destruct (str_eqb k (p_key p)); [reflexivity | exact IH].
Qed.

Lemma combo_params_item ps i k : combo_item (combo_params ps i) (tok_val k) = val_of ps k i.
Proof.
  unfold combo_item, combo_params, val_of, find_param.
  induction ps as [|p ps IH]; [reflexivity|]. cbn [map alookup find].
  unfold tok_val at 1 2. rewrite (tok_eqb [c_rpar]). destruct (str_eqb k (p_key p)); [reflexivity | exact IH].
Qed.

(** ** Combination.get_param_string / get_param_values *)
Theorem get_param_string_is_generated : forall ps i U,
  get_param_string_gen ps i U = combo_string ps U i.
Proof.
  intros ps i U. unfold get_param_string_gen, combo_string, py_join, py_sorted, for_each, list_append.
  cbv zeta. f_equal.
  assert (H : forall l acc, fold_left (fun a x => a ++ [combo_item (combo_labels ps i)
                 (py_format (s "{}({}.label)") [combo_token; x])]) l acc
              = acc ++ map (fun k => lab_of ps k i) l).
  { induction l as [|x l IH]; intros acc; cbn [fold_left map]; [now rewrite app_nil_r|].
    rewrite IH, fmt_lab, combo_labels_item, <- app_assoc. reflexivity. }
  apply (H _ []).
Qed.

Theorem get_param_values_is_generated : forall ps i U,
  get_param_values_gen ps i U = param_values ps U i.
Proof.
  intros ps i U. unfold get_param_values_gen, param_values, for_yield, py_sorted.
  apply map_ext. intros k. cbv zeta. rewrite fmt_val, combo_params_item. reflexivity.
Qed.

(* ------------------------------------------------------------------------- *)
(** * canonical sets of parameter keys *)
Lemma str_mem_app x a b : str_mem x (a ++ b) = str_mem x a || str_mem x b.
Proof. apply existsb_app. Qed.

Lemma str_mem_filter (P : str -> bool) k l : str_mem k (filter P l) = str_mem k l && P k.
Proof.
  induction l as [|y l IH]; [reflexivity|]. cbn [filter].
  destruct (P y) eqn:Py; cbn [str_mem existsb]; fold (str_mem k (filter P l)); fold (str_mem k l); rewrite IH;
    destruct (str_eqb k y) eqn:E; cbn [orb]; try reflexivity.
  - apply str_eqb_eq in E. subst. rewrite Py. destruct (str_mem y l); reflexivity.
  - apply str_eqb_eq in E. subst. rewrite Py. destruct (str_mem y l); reflexivity.
Qed.

Lemma filter_ext_keys {A} (P Q : A -> bool) l :
  (forall k, In k l -> P k = Q k) -> filter P l = filter Q l.
Proof. apply filter_ext_in. Qed.

Lemma keys_mem ps k : In k (keys_of ps) -> str_mem k (keys_of ps) = true.
Proof. apply str_mem_In. Qed.

Lemma pk_canon_filter ps (Q : str -> bool) extra :
  pk_canon ps (filter Q (keys_of ps) ++ extra) = filter (fun k => Q k || str_mem k extra) (keys_of ps).
Proof.
  unfold pk_canon. apply filter_ext_keys. intros k Hk.
  rewrite str_mem_app, str_mem_filter, (keys_mem _ _ Hk). reflexivity.
Qed.

Lemma pk_canon_nil ps : pk_canon ps [] = [].
Proof. unfold pk_canon. induction (keys_of ps); [reflexivity | exact IHl]. Qed.

Lemma filter_false {A} (l : list A) : filter (fun _ => false) l = [].
Proof. induction l; [reflexivity | exact IHl]. Qed.

(* ------------------------------------------------------------------------- *)
(** * ParameterGenerator._get_used_parameters / get_used_parameters *)
Fixpoint texts_of (v : pyval) : list str :=
  match v with
  | PStr x => [x]
  | PList l => flat_map texts_of l
  | PDict l => flat_map (fun kv => texts_of (snd kv)) l
  end.

Fixpoint pyval_induction (P : pyval -> Prop) (HS : forall x, P (PStr x))
         (HL : forall l, Forall P l -> P (PList l))
         (HD : forall l, Forall (fun kv => P (snd kv)) l -> P (PDict l)) (v : pyval) : P v :=
  match v with
  | PStr x => HS x
  | PList l => HL l ((fix go (l : list pyval) : Forall P l :=
                        match l with
                        | [] => Forall_nil _
                        | x :: l' => Forall_cons _ (pyval_induction P HS HL HD x) (go l')
                        end) l)
  | PDict l => HD l ((fix go (l : list (str * pyval)) : Forall (fun kv => P (snd kv)) l :=
                        match l with
                        | [] => Forall_nil _
                        | x :: l' => Forall_cons _ (pyval_induction P HS HL HD (snd x)) (go l')
                        end) l)
  end.

Lemma uses_key_nil k : uses_key k [] = false.
Proof. reflexivity. Qed.

Lemma used_scan_keys ps x : forall ks (Q : str -> bool),
  (forall k, In k ks -> In k (keys_of ps)) ->
  fold_left (fun a key => if re_param_token_found key x then pk_add ps key a else a) ks
            (filter Q (keys_of ps))
  = filter (fun k => Q k || (str_mem k ks && uses_key k x)) (keys_of ps).
Proof.
  induction ks as [|key ks IH]; intros Q Hks; cbn [fold_left].
  - apply filter_ext_keys. intros k _. cbn. now rewrite orb_false_r.
  - assert (E : (if re_param_token_found key x then pk_add ps key (filter Q (keys_of ps))
                 else filter Q (keys_of ps))
                = filter (fun k => Q k || (str_eqb k key && uses_key key x)) (keys_of ps)).
    { unfold re_param_token_found, pk_add. destruct (uses_key key x).
      - rewrite pk_canon_filter. apply filter_ext_keys. intros k _. cbn. now rewrite orb_false_r, andb_true_r.
      - apply filter_ext_keys. intros k _. now rewrite andb_false_r, orb_false_r. }
    rewrite E, IH by (intros k Hk; apply Hks; now right).
    apply filter_ext_keys. intros k _. cbn [str_mem existsb]. fold (str_mem k ks).
    destruct (str_eqb k key) eqn:Ek; cbn [orb andb].
    + apply str_eqb_eq in Ek. subst.
      destruct (Q key), (uses_key key x), (str_mem key ks); reflexivity.
    + now rewrite orb_false_r.
Qed.

Lemma get_used_parameters_rec ps : forall item (Q : str -> bool),
  _get_used_parameters_gen ps item (filter Q (keys_of ps))
  = filter (fun k => Q k || existsb (uses_key k) (texts_of item)) (keys_of ps).
Proof.
  induction item as [x|l IH|l IH] using pyval_induction; intros Q.
  - cbn [_get_used_parameters_gen texts_of existsb].
    assert (G : for_each (parameter_keys ps) (filter Q (keys_of ps))
                  (fun key params => if re_param_token_found key x then
                                       let params0 := pk_add ps key params in params0 else params)
                = filter (fun k => Q k || (uses_key k x || false)) (keys_of ps)).
    { unfold for_each, parameter_keys. cbv zeta. rewrite used_scan_keys by auto.
      apply filter_ext_keys. intros k Hk. now rewrite (keys_mem _ _ Hk), orb_false_r. }
    destruct x as [|c x]; [|exact G].
    cbn [py_falsy]. apply filter_ext_keys. intros k _. cbn. now rewrite orb_false_r.
  - assert (G : forall Q, for_each l (filter Q (keys_of ps))
                  (fun each params => _get_used_parameters_gen ps each params)
                = filter (fun k => Q k || existsb (uses_key k) (flat_map texts_of l)) (keys_of ps)).
    { clear Q. unfold for_each. induction IH as [|v l Hv _ IHl]; intros Q; cbn [fold_left flat_map].
      - apply filter_ext_keys. intros k _. cbn. now rewrite orb_false_r.
      - rewrite Hv, IHl. apply filter_ext_keys. intros k _. now rewrite existsb_app, orb_assoc. }
    destruct l as [|v l]; [|exact (G Q)].
    cbn. apply filter_ext_keys. intros k _. now rewrite orb_false_r.
  - assert (G : forall Q, for_values l (filter Q (keys_of ps))
                  (fun each params => _get_used_parameters_gen ps each params)
                = filter (fun k => Q k || existsb (uses_key k)
                                             (flat_map (fun kv => texts_of (snd kv)) l)) (keys_of ps)).
    { clear Q. unfold for_values. induction IH as [|v l Hv _ IHl]; intros Q; cbn [fold_left flat_map].
      - apply filter_ext_keys. intros k _. cbn. now rewrite orb_false_r.
      - rewrite Hv, IHl. apply filter_ext_keys. intros k _. now rewrite existsb_app, orb_assoc. }
    destruct l as [|v l]; [|exact (G Q)].
    cbn. apply filter_ext_keys. intros k _. now rewrite orb_false_r.
Qed.

Theorem get_used_parameters_is_generated : forall ps t,
  get_used_parameters_gen ps t = direct_used ps t.
Proof.
  intros ps t. unfold get_used_parameters_gen, direct_used, set_empty. cbv zeta.
  rewrite <- (filter_false (keys_of ps)), get_used_parameters_rec.
  apply filter_ext_keys. intros k _. unfold step_dict, step_texts.
  cbn [texts_of flat_map snd existsb app orb].
  rewrite !app_nil_r, uses_key_nil.
  cbn [existsb app]. rewrite !existsb_app. cbn [existsb].
  assert (E1 : flat_map texts_of (map PStr (s_deps t)) = s_deps t).
  { induction (s_deps t) as [|d l IH]; [reflexivity|]. cbn. now rewrite IH. }
  assert (E2 : flat_map (fun kv : str * pyval => texts_of (snd kv))
                 (map (fun kv : str * str => (fst kv, PStr (snd kv))) (s_rest t)) = map snd (s_rest t)).
  { induction (s_rest t) as [|d l IH]; [reflexivity|]. cbn. now rewrite IH. }
  rewrite E1, E2.
  destruct (uses_key k (s_name t)), (uses_key k (s_desc t)), (uses_key k (s_cmd t)),
    (uses_key k (s_restart t)), (existsb (uses_key k) (s_deps t)),
    (existsb (uses_key k) (map snd (s_rest t))); reflexivity.
Qed.

(* ------------------------------------------------------------------------- *)
(** * ExecutionGraph.add_step / add_connection *)
Lemma on_node_absent x f g : g_has x g = false -> on_node x f g = g.
Proof.
  unfold on_node, g_has. induction g as [|nd g IH]; [reflexivity|]. cbn [existsb map].
  intros H. apply orb_false_iff in H as [H1 H2]. rewrite H1, IH by exact H2. reflexivity.
Qed.

Lemma g_has_on_node x y f g :
  (forall nd, nd_name (f nd) = nd_name nd) -> g_has x (on_node y f g) = g_has x g.
Proof.
  intros Hf. rewrite !g_has_names, g_names_on_node by exact Hf. reflexivity.
Qed.

(** the record add_step builds from its arguments *)
Definition record_of (t : step) (w : path) (rl : nat) (params : list (str * str)) : rec :=
  mkRec (fst w) (snd w) rl params (s_desc t) (replace tok_workspace (fst w) (s_cmd t))
        (replace tok_workspace (fst w) (s_restart t)) (s_rest t) (s_deps t).

Theorem add_step_is_generated : forall g x t w rl params,
  add_step_gen g x t w rl params = g_add x (Some (record_of t w rl params)) g.
Proof.
  intros g x t w rl params. unfold add_step_gen, g_add, dag_add_node, dependencies_reset. cbv zeta.
  rewrite g_has_on_node by reflexivity.
  destruct (g_has x g) eqn:E; [reflexivity|].
  rewrite on_node_absent by exact E. unfold record_of.
  destruct params; reflexivity.
Qed.

Theorem add_connection_is_generated : forall g p c, add_connection_gen g p c = g_connect p c g.
Proof.
  intros g p c. unfold add_connection_gen, g_connect, dag_add_edge, dependencies_add. cbv zeta.
  destruct (str_eqb p c); [reflexivity|]. destruct (g_has p g); reflexivity.
Qed.

(* ------------------------------------------------------------------------- *)
(** * edge loops *)
Lemma for_in_connect {A} (F : A -> str) x (body : A -> graph -> option graph) {R} (k : graph -> option R) :
  forall (l : list A) g,
  (forall a dag, In a l -> body a dag = g_connect (F a) x dag) ->
  for_in l g body k = match connect_all (map F l) x g with Some g' => k g' | None => None end.
Proof.
  induction l as [|a l IH]; intros g Hb; cbn [for_in map]; [reflexivity|].
  rewrite connect_all_cons, Hb by now left.
  destruct (g_connect (F a) x g); [|reflexivity]. apply IH. intros; apply Hb; now right.
Qed.

Lemma connect_all_none ps c : fold_left (fun og p => match og with Some g' => g_connect p c g' | None => None end) ps None = None.
Proof. induction ps; [reflexivity | exact IHps]. Qed.

Lemma connect_all_app a b c g :
  connect_all (a ++ b) c g = match connect_all a c g with Some g' => connect_all b c g' | None => None end.
Proof.
  revert g. induction a as [|p a IH]; intros g; [reflexivity|].
  cbn [app]. rewrite !connect_all_cons. destruct (g_connect p c g); [apply IH | reflexivity].
Qed.

(** the funnel loops: all instances of every funnel parent *)
Lemma hub_loop pi combos x {R} (k : graph -> option R) : forall hs g,
  for_in hs g (fun parent dag =>
      dict_item combos parent (fun v_ =>
      for_set pi v_ dag (fun item dag => call (add_connection_gen dag item x) (fun dag => Some dag))
      (fun dag => Some dag))) k
  = match hub_items pi combos hs with
    | Some items => match connect_all items x g with Some g' => k g' | None => None end
    | None => None
    end.
Proof.
  induction hs as [|h hs IH]; intros g; cbn [for_in hub_items fold_right]; [reflexivity|].
  fold (hub_items pi combos hs). unfold dict_item at 1.
  destruct (alookup h combos) as [c|]; [|reflexivity].
  unfold for_set. rewrite (for_in_connect (fun y => y) x) by (intros; unfold call; rewrite add_connection_is_generated; now destruct g_connect).
  rewrite map_id.
  destruct (hub_items pi combos hs) as [r|] eqn:Er.
  - rewrite connect_all_app. destruct (connect_all (pi c) x g) as [g1|]; [|reflexivity].
    rewrite IH. reflexivity.
  - destruct (connect_all (pi c) x g) as [g1|]; [|reflexivity]. rewrite IH. reflexivity.
Qed.

(** the three kinds of parents of one instance, in the source's order *)
Lemma edges_loop pi sp um combos t i nm od hd (body : str -> graph -> option graph)
      {R} (k : graph -> option R) g :
  od = deps_ord t -> hd = deps_hub t ->
  (forall p dag, In p (pi od) -> body p dag = g_connect (iname (sp_params sp) um p i) nm dag) ->
  (if nonempty od || nonempty hd then
     for_set pi od g body (fun dag =>
     for_set pi hd dag (fun parent dag =>
         dict_item combos parent (fun v_ =>
         for_set pi v_ dag (fun item dag => call (add_connection_gen dag item nm) (fun dag => Some dag))
         (fun dag => Some dag))) (fun dag => k dag))
   else call (add_connection_gen g SOURCE nm) (fun dag => k dag))
  = match parent_list pi sp um combos t i with
    | Some parents => match connect_all parents nm g with Some g' => k g' | None => None end
    | None => None
    end.
Proof.
  intros Hod Hhd Hb. unfold parent_list. rewrite <- Hod, <- Hhd.
  assert (G : for_set pi od g body (fun dag =>
     for_set pi hd dag (fun parent dag =>
         dict_item combos parent (fun v_ =>
         for_set pi v_ dag (fun item dag => call (add_connection_gen dag item nm) (fun dag => Some dag))
         (fun dag => Some dag))) (fun dag => k dag))
     = match hub_items pi combos (pi hd) with
       | Some hs => match connect_all (map (fun p => iname (sp_params sp) um p i) (pi od) ++ hs) nm g with
                    | Some g' => k g' | None => None end
       | None => None
       end).
  { unfold for_set at 1. rewrite (for_in_connect (fun p => iname (sp_params sp) um p i) nm) by exact Hb.
    destruct (hub_items pi combos (pi hd)) as [hs|] eqn:Eh.
    - rewrite connect_all_app.
      destruct (connect_all (map (fun p => iname (sp_params sp) um p i) (pi od)) nm g) as [g1|]; [|reflexivity].
      unfold for_set at 1. rewrite hub_loop, Eh. reflexivity.
    - destruct (connect_all (map (fun p => iname (sp_params sp) um p i) (pi od)) nm g) as [g1|]; [|reflexivity].
      unfold for_set at 1. rewrite hub_loop, Eh. reflexivity. }
  destruct od as [|o od'], hd as [|h hd']; cbn [nonempty orb];
    try (rewrite G; destruct (hub_items pi combos); reflexivity).
  unfold call. rewrite add_connection_is_generated, connect_all_cons.
  destruct (g_connect SOURCE nm g); reflexivity.
Qed.

(* ------------------------------------------------------------------------- *)
(** * the $(x.workspace) substitution loop *)
Lemma ws_loop san sp um wsm t i (body : str -> str * str -> option (str * str))
      {R} (k : str * str -> option R) : forall refs cr,
  (forall m cr, In m refs ->
     body m cr = match ws_value san sp um wsm t i m with
                 | Some w => Some (replace (c_dollar :: c_lpar :: m ++ dot_workspace) w (fst cr),
                                   replace (c_dollar :: c_lpar :: m ++ dot_workspace) w (snd cr))
                 | None => None
                 end) ->
  for_in refs cr body k = match ws_pass san sp um wsm t i refs cr with Some cr' => k cr' | None => None end.
Proof.
  induction refs as [|m refs IH]; intros cr Hb; cbn [for_in ws_pass]; [reflexivity|].
  rewrite Hb by now left. destruct (ws_value san sp um wsm t i m); [|reflexivity].
  apply IH. intros; apply Hb; now right.
Qed.

Lemma map_pair_id {A B} (l : list (A * B)) : map (fun kv => (fst kv, snd kv)) l = l.
Proof. induction l as [|[a b] l IH]; [reflexivity|]. cbn. now rewrite IH. Qed.

Lemma nonempty_nil {A} (l : list A) : nonempty l = false -> l = [].
Proof. destruct l; [reflexivity | discriminate]. Qed.

(* ------------------------------------------------------------------------- *)
(** * the branch of a step without used parameters *)
Lemma unparam_is_generated ap san pi sp wsm hub dep um combos g order x t sparams pparams :
  x = s_name t -> dict_get x dep = deps_ord t -> dict_get x hub = deps_hub t ->
  alookup x combos = Some [] ->
  (forall m, In m (step_wsrefs t) -> str_mem m (deps_hub t) = false -> alookup m um = Some []) ->
  (forall p, In p (pi (deps_ord t)) -> used_in um p = []) ->
  _stage_unparam_gen ap san pi sp wsm hub dep um combos g order x t sparams pparams (step_wsrefs t) (rlimit_of sp t)
  = match add_instance san pi sp um t x [x] (fun y => y) [] 0
            (mkSt g (aset x [x] combos) (aset x (msp san sp [x]) wsm)) with
    | Some st => Some (st_ws st, hub, dep, um, st_combos st, st_g st)
    | None => None
    end.
Proof.
  intros Hx Hdep Hhub Hc Hws Hod.
  unfold _stage_unparam_gen, add_instance. cbv zeta.
  unfold dict_set_add. rewrite Hc. cbn [sadd_s str_mem existsb app].
  unfold dict_set, path_str, make_safe_path, out_path. cbn [fst snd st_ws st_combos st_g].
  fold (msp san sp [x]).
  rewrite (ws_loop san sp um (aset x (msp san sp [x]) wsm) t 0).
  2:{ intros m [c r] Hm. rewrite fmt_wsvar. unfold ws_value, set_mem, py_replace. rewrite Hhub.
      destruct (str_mem m (deps_hub t)) eqn:Em.
      - cbn [fst snd]. reflexivity.
      - rewrite (Hws m Hm Em). unfold dict_item.
        destruct (alookup m (aset x (msp san sp [x]) wsm)); reflexivity. }
  unfold run_cmd, run_restart.
  destruct (ws_pass san sp um (aset x (msp san sp [x]) wsm) t 0 (step_wsrefs t) (s_cmd t, s_restart t))
    as [[cmd rcmd]|]; [|reflexivity].
  rewrite add_step_is_generated.
  rewrite (edges_loop pi sp um (aset x [x] combos) t 0 x (dict_get x dep) (dict_get x hub)
             _ (fun dag => Some (aset x (msp san sp [x]) wsm, hub, dep, um, aset x [x] combos, dag))); auto.
  2:{ intros p dag Hp. rewrite Hdep in Hp. unfold call. rewrite add_connection_is_generated.
      unfold iname. rewrite (Hod p Hp). destruct (g_connect p x dag); reflexivity. }
  unfold record_of, step_copy, run_set_cmd, run_set_restart, rlimit_of. cbn [fst snd s_desc s_cmd s_restart s_rest s_deps].
  rewrite map_pair_id, map_id.
  destruct (parent_list pi sp um (aset x [x] combos) t 0) as [parents|]; [|reflexivity].
  match goal with |- match ?a with _ => _ end = match match ?b with _ => _ end with _ => _ end =>
    replace b with a by reflexivity; destruct a; reflexivity end.
Qed.

(* ------------------------------------------------------------------------- *)
(** * one combination of a step with used parameters *)
Lemma combo_is_generated ap san pi sp hub dep um order x t sparams pparams i wsm combos g U :
  x = s_name t -> dict_get x dep = deps_ord t -> dict_get x hub = deps_hub t ->
  alookup x um = Some U ->
  (forall p, In p (pi (deps_ord t)) -> exists u, alookup p um = Some u) ->
  _stage_combo_gen ap san pi sp hub dep um order x t sparams pparams (step_wsrefs t) (rlimit_of sp t) i wsm combos g
  = match stage_row ap san pi sp um t U (mkSt g combos wsm) i with
    | Some st => Some (st_ws st, st_combos st, st_g st)
    | None => None
    end.
Proof.
  intros Hx Hdep Hhub HU Hod.
  unfold _stage_combo_gen, stage_row. cbv zeta.
  assert (HUg : dict_get x um = U) by (unfold dict_get; now rewrite HU).
  rewrite !HUg, !get_param_string_is_generated, get_param_values_is_generated, fmt_us.
  rewrite <- Hx. cbn [st_g st_combos st_ws].
  unfold dict_set, path_str, make_safe_path, out_path, dict_has. cbn [fst snd].
  set (combo := combo_string (sp_params sp) U i).
  set (nm := x ++ c_us :: combo).
  fold (msp san sp [x; combo]).
  destruct (str_mem nm (akeys combos)); [reflexivity|].
  unfold add_instance. cbn [st_g st_combos st_ws].
  replace (dict_set_add x nm combos) with (add_combo x nm combos) by reflexivity.
  set (wsm' := aset nm (msp san sp [x; combo]) wsm).
  set (combos' := add_combo x nm combos).
  rewrite (ws_loop san sp um wsm' t i).
  2:{ intros m [c r] Hm. rewrite fmt_wsvar. unfold ws_value, set_mem, py_replace. rewrite Hhub.
      destruct (str_mem m (deps_hub t)) eqn:Em.
      - cbn [fst snd]. reflexivity.
      - unfold dict_item. destruct (alookup m um) as [[|k0 U0]|]; cbn [nonempty negb fst snd].
        + destruct (alookup m wsm'); reflexivity.
        + rewrite get_param_string_is_generated, fmt_us.
          destruct (alookup (m ++ c_us :: combo_string (sp_params sp) (k0 :: U0) i) wsm'); reflexivity.
        + reflexivity. }
  unfold run_cmd, run_restart, step_set_name, step_apply_parameters. cbn [s_cmd s_restart].
  destruct (ws_pass san sp um wsm' t i (step_wsrefs t)
              (ap (sp_params sp) i (s_cmd t), ap (sp_params sp) i (s_restart t))) as [[cmd rcmd]|]; [|reflexivity].
  rewrite add_step_is_generated.
  unfold step_real_name, run_set_cmd, run_set_restart. cbn [s_name s_desc s_cmd s_restart s_rest s_deps].
  rewrite (edges_loop pi sp um combos' t i nm (dict_get x dep) (dict_get x hub)
             _ (fun dag => Some (wsm', combos', dag))); auto.
  2:{ intros p dag Hp. rewrite Hdep in Hp. destruct (Hod p Hp) as [u Hu].
      unfold dict_item, iname, used_in. rewrite Hu. unfold call.
      destruct u as [|k0 U0]; cbn [nonempty].
      - rewrite add_connection_is_generated. destruct (g_connect p nm dag); reflexivity.
      - rewrite get_param_string_is_generated, fmt_us, add_connection_is_generated.
        destruct (g_connect (p ++ c_us :: combo_string (sp_params sp) (k0 :: U0) i) nm dag); reflexivity. }
  unfold record_of, rlimit_of. cbn [fst snd s_desc s_cmd s_restart s_rest s_deps].
  destruct (parent_list pi sp um combos' t i) as [parents|]; [|reflexivity].
  match goal with |- match ?a with _ => _ end = match match ?b with _ => _ end with _ => _ end =>
    replace b with a by reflexivity; destruct a; reflexivity end.
Qed.

(* ------------------------------------------------------------------------- *)
(** * the used-parameter closure of one step *)
Lemma star_in d : str_in (s "*") d = has_star d.
Proof.
  unfold str_in, has_star, c_star. change (s "*") with [42%N].
  induction d as [|c d IH]; [reflexivity|].
  cbn [occursb existsb prefixb]. rewrite IH, andb_true_r. reflexivity.
Qed.

Lemma pk_canon_idem ps l : pk_canon ps (pk_canon ps l) = pk_canon ps l.
Proof.
  unfold pk_canon at 2. rewrite <- (app_nil_r (filter _ _)), pk_canon_filter.
  apply filter_ext_keys. intros k _. cbn. now rewrite orb_false_r.
Qed.

Lemma pk_union_assoc ps P u r : pk_canon ps (pk_canon ps (P ++ u) ++ r) = pk_canon ps (P ++ u ++ r).
Proof.
  unfold pk_canon at 2. rewrite pk_canon_filter. apply filter_ext_keys. intros k _.
  now rewrite !str_mem_app, orb_assoc.
Qed.

Definition hub_after (x : str) (ds : list str) (h : dict (list str)) : dict (list str) :=
  fold_left (fun h d => if has_star d then dict_set_add x (strip_star d) h else h) ds h.
Definition dep_after (x : str) (ds : list str) (h : dict (list str)) : dict (list str) :=
  fold_left (fun h d => if has_star d then h else dict_set_add x d h) ds h.

Lemma dep_loop ps um x {R} (k : dict (list str) * dict (list str) * list str -> option R) :
  forall ds hub dep P, pk_canon ps P = P ->
  for_in ds (hub, dep, P) (fun parent '(hub_depends, depends, p_params) =>
      if str_in (s "*") parent then
        let hub_depends := dict_set_add x (re_sub_all_combos parent) hub_depends in
        Some (hub_depends, depends, p_params)
      else
        let depends := dict_set_add x parent depends in
        dict_item um parent (fun v_ =>
        let p_params := pk_union ps p_params v_ in
        Some (hub_depends, depends, p_params))) k
  = match gather_ord um ds with
    | Some a => k (hub_after x ds hub, dep_after x ds dep, pk_canon ps (P ++ a))
    | None => None
    end.
Proof.
  induction ds as [|d ds IH]; intros hub dep P HP; cbn [for_in gather_ord hub_after dep_after fold_left].
  - now rewrite app_nil_r, HP.
  - rewrite star_in. destruct (has_star d).
    + cbv zeta. rewrite IH by exact HP. reflexivity.
    + cbv zeta. unfold dict_item. destruct (alookup d um) as [u|]; [|reflexivity].
      unfold pk_union. rewrite IH by apply pk_canon_idem.
      destruct (gather_ord um ds) as [r|]; [|reflexivity].
      now rewrite pk_union_assoc, app_assoc.
Qed.

Lemma dict_has_alookup {A} k (d : dict A) :
  dict_has k d = match alookup k d with Some _ => true | None => false end.
Proof.
  unfold dict_has, akeys. induction d as [|[k' v] d IH]; [reflexivity|].
  cbn [map fst str_mem existsb alookup]. destruct (str_eqb k k'); [reflexivity | exact IH].
Qed.

Lemma ws_scan_loop ps um x hub {R} (k : list str -> option R) :
  forall ws P, pk_canon ps P = P ->
  for_in ws P (fun ws p_params =>
      if negb (dict_has ws um) then None
      else if set_mem ws (dict_get x hub) then Some p_params
      else dict_item um ws (fun v_ =>
           let p_params := pk_union ps p_params v_ in
           Some p_params)) k
  = match gather_ws um (dict_get x hub) ws with
    | Some b => k (pk_canon ps (P ++ b))
    | None => None
    end.
Proof.
  induction ws as [|w ws IH]; intros P HP; cbn [for_in gather_ws].
  - now rewrite app_nil_r, HP.
  - rewrite dict_has_alookup. unfold dict_item, set_mem.
    destruct (alookup w um) as [u|]; cbn [negb]; [|reflexivity].
    destruct (str_mem w (dict_get x hub)).
    + rewrite IH by exact HP. destruct (gather_ws um (dict_get x hub) ws); reflexivity.
    + cbv zeta. unfold pk_union. rewrite IH by apply pk_canon_idem.
      destruct (gather_ws um (dict_get x hub) ws) as [r|]; [|reflexivity].
      now rewrite pk_union_assoc.
Qed.

(** the sets [hub_depends[step]] / [depends[step]] the first loop builds *)
Lemma sadd_fold_dedup : forall l acc seen,
  (forall y, str_mem y seen = str_mem y acc) ->
  fold_left (fun a y => sadd_s y a) l acc = acc ++ str_dedup_acc seen l.
Proof.
  induction l as [|y l IH]; intros acc seen H; cbn [fold_left str_dedup_acc]; [now rewrite app_nil_r|].
  unfold sadd_s at 2. rewrite <- H. destruct (str_mem y seen) eqn:E.
  - apply IH. exact H.
  - rewrite (IH (acc ++ [y]) (y :: seen)).
    + now rewrite <- app_assoc.
    + intros z. rewrite str_mem_app. cbn [str_mem existsb]. fold (str_mem z seen). rewrite H.
      now rewrite orb_false_r, orb_comm.
Qed.

Lemma dict_set_add_get x y h acc :
  alookup x h = Some acc -> alookup x (dict_set_add x y h) = Some (sadd_s y acc).
Proof. intros H. unfold dict_set_add. rewrite H. apply alookup_aset_same. Qed.

Lemma hub_after_get x : forall ds h acc,
  alookup x h = Some acc ->
  alookup x (hub_after x ds h)
  = Some (fold_left (fun a y => sadd_s y a) (map strip_star (filter has_star ds)) acc).
Proof.
  induction ds as [|d ds IH]; intros h acc H; cbn [hub_after fold_left filter]; [exact H|].
  fold (hub_after x ds). destruct (has_star d); cbn [map fold_left].
  - apply IH. now apply dict_set_add_get.
  - apply IH. exact H.
Qed.

Lemma dep_after_get x : forall ds h acc,
  alookup x h = Some acc ->
  alookup x (dep_after x ds h)
  = Some (fold_left (fun a y => sadd_s y a) (filter (fun d => negb (has_star d)) ds) acc).
Proof.
  induction ds as [|d ds IH]; intros h acc H; cbn [dep_after fold_left filter]; [exact H|].
  fold (dep_after x ds). destruct (has_star d); cbn [negb fold_left].
  - apply IH. exact H.
  - apply IH. now apply dict_set_add_get.
Qed.

Lemma hub_after_deps x t h :
  dict_get x (hub_after x (s_deps t) (dict_set x set_empty h)) = deps_hub t.
Proof.
  unfold dict_get. rewrite (hub_after_get x _ _ []) by apply alookup_aset_same.
  rewrite (sadd_fold_dedup _ [] []) by reflexivity. reflexivity.
Qed.

Lemma dep_after_deps x t h :
  dict_get x (dep_after x (s_deps t) (dict_set x set_empty h)) = deps_ord t.
Proof.
  unfold dict_get. rewrite (dep_after_get x _ _ []) by apply alookup_aset_same.
  rewrite (sadd_fold_dedup _ [] []) by reflexivity. reflexivity.
Qed.

Lemma study_values_find sp x : alookup x (study_values sp) = find_step sp x.
Proof.
  unfold study_values, find_step. induction (sp_steps sp) as [|t l IH]; [reflexivity|].
  cbn [map alookup find]. destruct (str_eqb x (s_name t)); [reflexivity | exact IH].
Qed.

(* ------------------------------------------------------------------------- *)
(** * one step of the walk *)
Definition oracle_sub (pi : an_oracle) : Prop := forall l x, In x (pi l) -> In x l.
Definition um_inv (ps : list param) (um : usedmap) : Prop :=
  forall y u k, alookup y um = Some u -> In k u -> In k (keys_of ps).

Lemma perm_oracle_sub pi : perm_oracle pi -> oracle_sub pi.
Proof. intros H l x Hx. eapply Permutation_in; [apply H | exact Hx]. Qed.

Lemma rows_loop ap san pi sp um t U {R} (body : nat -> dict str * dict (list str) * graph -> option (dict str * dict (list str) * graph))
      (k : dict str * dict (list str) * graph -> option R) : forall l wsm combos g,
  (forall i wsm combos g, body i (wsm, combos, g)
     = match stage_row ap san pi sp um t U (mkSt g combos wsm) i with
       | Some st => Some (st_ws st, st_combos st, st_g st)
       | None => None
       end) ->
  for_in l (wsm, combos, g) body k
  = match fold_left (fun ost i => match ost with Some st' => stage_row ap san pi sp um t U st' i | None => None end)
                    l (Some (mkSt g combos wsm)) with
    | Some st => k (st_ws st, st_combos st, st_g st)
    | None => None
    end.
Proof.
  induction l as [|i l IH]; intros wsm combos g Hb; cbn [for_in fold_left]; [reflexivity|].
  rewrite Hb. destruct (stage_row ap san pi sp um t U (mkSt g combos wsm) i) as [[g1 c1 w1]|].
  - cbn [st_ws st_combos st_g]. apply IH. exact Hb.
  - rewrite fold_opt_none. reflexivity.
Qed.

Lemma step_is_generated ap san pi sp order x t wsm hub dep um combos g :
  oracle_sub pi -> um_inv (sp_params sp) um -> find_step sp x = Some t -> str_eqb x SOURCE = false ->
  _stage_step_gen ap san pi sp order x wsm hub dep um combos g
  = match used_step (sp_params sp) um t with
    | None => None
    | Some u =>
        match stage_step ap san pi sp (aset x u um) t (mkSt g combos wsm) with
        | Some st => Some (st_ws st, hub_after x (s_deps t) (aset x [] hub),
                           dep_after x (s_deps t) (aset x [] dep), aset x u um, st_combos st, st_g st)
        | None => None
        end
    end.
Proof.
  intros Hpi Hinv Hf Hsrc.
  assert (Hx : x = s_name t) by (symmetry; apply (find_step_Some _ _ _ Hf)).
  unfold _stage_step_gen. rewrite Hsrc. unfold dict_item at 1. rewrite study_values_find, Hf.
  cbv zeta. rewrite get_used_parameters_is_generated.
  unfold set_empty. rewrite dep_loop by apply pk_canon_nil.
  unfold run_depends, run_cmd, run_restart. rewrite fmt_sp. unfold re_findall_wsregex.
  fold (step_wsrefs t).
  destruct (used_step (sp_params sp) um t) as [u|] eqn:Hus.
  2:{ unfold used_step in Hus. destruct (gather_ord um (s_deps t)) as [a|]; [|reflexivity].
      rewrite ws_scan_loop by apply pk_canon_idem. rewrite hub_after_deps.
      destruct (gather_ws um (deps_hub t) (step_wsrefs t)); [discriminate | reflexivity]. }
  pose proof Hus as Hus0. unfold used_step in Hus0.
  destruct (gather_ord um (s_deps t)) as [a|]; [|discriminate].
  rewrite ws_scan_loop by apply pk_canon_idem. rewrite hub_after_deps.
  destruct (gather_ws um (deps_hub t) (step_wsrefs t)) as [b|]; [|discriminate].
  assert (Eu : pk_union (sp_params sp) (pk_canon (sp_params sp) (pk_canon (sp_params sp) ([] ++ a) ++ b))
                 (direct_used (sp_params sp) t) = u).
  { injection Hus0 as <-. unfold pk_union. rewrite pk_union_assoc. unfold pk_canon at 2.
    rewrite pk_canon_filter. apply filter_ext_keys. intros k _. cbn [app].
    rewrite !str_mem_app. destruct (str_mem k (direct_used (sp_params sp) t)), (str_mem k a), (str_mem k b); reflexivity. }
  rewrite Eu. clear Eu Hus0.
  destruct (used_step_spec _ _ _ _ Hus) as (S1 & S2 & S3).
  set (hub' := hub_after x (s_deps t) (dict_set x [] hub)).
  set (dep' := dep_after x (s_deps t) (dict_set x [] dep)).
  assert (Hhub : dict_get x hub' = deps_hub t) by apply hub_after_deps.
  assert (Hdep : dict_get x dep' = deps_ord t) by apply dep_after_deps.
  assert (Hrl : (if nonempty (s_restart t) then restart_limit sp else 0) = rlimit_of sp t).
  { unfold rlimit_of, restart_limit. destruct (s_restart t); reflexivity. }
  rewrite Hrl.
  assert (Hg : dict_get x (dict_set x u um) = u) by (unfold dict_get, dict_set; now rewrite alookup_aset_same).
  rewrite Hg. unfold stage_step. rewrite <- Hx. unfold used_in. rewrite alookup_aset_same.
  cbn [st_g st_combos st_ws]. unfold dict_set.
  assert (Hlook : forall p, In p (pi (deps_ord t)) -> exists u', alookup p (aset x u um) = Some u' /\
                    (p <> x -> alookup p um = Some u')).
  { intros p Hp. apply Hpi in Hp. apply deps_ord_In in Hp as [Hp1 Hp2].
    destruct (str_dec p x) as [->|Hn].
    - exists u. split; [apply alookup_aset_same | congruence].
    - destruct (S1 p Hp1 Hp2) as [u' Hu']. exists u'. rewrite alookup_aset_other by exact Hn. auto. }
  destruct u as [|k0 U0]; cbn [nonempty negb].
  - assert (Hc : alookup x (aset x [] combos) = Some ([] : list str)) by apply alookup_aset_same.
    assert (Hws : forall m, In m (step_wsrefs t) -> str_mem m (deps_hub t) = false ->
                  alookup m (aset x [] um) = Some []).
    { intros m Hm Em. destruct (str_dec m x) as [->|Hn]; [apply alookup_aset_same|].
      rewrite alookup_aset_other by exact Hn.
      destruct (S2 m Hm) as [um_m Hum]. rewrite Hum. destruct um_m as [|k r]; [reflexivity|]. exfalso.
      assert (Hk : In k []); [|destruct Hk].
      apply S3. split; [eapply Hinv; [exact Hum | now left]|].
      right; right. exists m, (k :: r). repeat split; auto; [|now left].
      now apply str_mem_nIn. }
    assert (Hod : forall p, In p (pi (deps_ord t)) -> used_in (aset x [] um) p = []).
    { intros p Hp. destruct (Hlook p Hp) as [u' [H1 H2]]. unfold used_in. rewrite H1.
      destruct (str_dec p x) as [->|Hn]; [rewrite alookup_aset_same in H1; congruence|].
      specialize (H2 Hn). destruct u' as [|k r]; [reflexivity|]. exfalso.
      assert (Hk : In k []); [|destruct Hk].
      apply Hpi in Hp. apply deps_ord_In in Hp as [Hp1 Hp2].
      apply S3. split; [eapply Hinv; [exact H2 | now left]|].
      right; left. exists p, (k :: r). repeat split; auto. now left. }
    rewrite (unparam_is_generated ap san pi sp wsm hub' dep' (aset x [] um) (aset x [] combos) g order x t
               _ _ Hx Hdep Hhub Hc Hws Hod).
    destruct (add_instance san pi sp (aset x [] um) t x [x] (fun y => y) [] 0
                (mkSt g (aset x [x] (aset x [] combos)) (aset x (msp san sp [x]) wsm))); reflexivity.
  - unfold combinations.
    rewrite (rows_loop ap san pi sp (aset x (k0 :: U0) um) t (k0 :: U0)).
    + destruct (fold_left _ (seq 0 (nrows (sp_params sp))) (Some (mkSt g (aset x [] combos) wsm))); reflexivity.
    + intros i wsm1 combos1 g1. apply combo_is_generated; auto.
      * apply alookup_aset_same.
      * intros p Hp. destruct (Hlook p Hp) as [u' [H1 _]]. eauto.
Qed.

(* ------------------------------------------------------------------------- *)
(** * the generated walk is one loop; the model computes the used-parameter
      table first ([plan_go]) and builds the graph afterwards ([stage_go]):
      a step only ever reads table entries of steps processed before it *)
Lemma ws_pass_agree san sp um um' wsm t i : forall refs cr,
  (forall m, In m refs -> alookup m um = alookup m um') ->
  ws_pass san sp um wsm t i refs cr = ws_pass san sp um' wsm t i refs cr.
Proof.
  induction refs as [|m refs IH]; intros cr H; cbn [ws_pass]; [reflexivity|].
  assert (E : ws_value san sp um wsm t i m = ws_value san sp um' wsm t i m).
  { unfold ws_value. rewrite (H m) by now left. reflexivity. }
  rewrite E. destruct (ws_value san sp um' wsm t i m); [|reflexivity].
  apply IH. intros; apply H; now right.
Qed.

Lemma iname_agree ps um um' p i : alookup p um = alookup p um' -> iname ps um p i = iname ps um' p i.
Proof. intros H. unfold iname, used_in. now rewrite H. Qed.

Lemma add_instance_agree san pi sp um um' t x comps f params i st :
  (forall m, In m (step_wsrefs t) -> alookup m um = alookup m um') ->
  (forall p, In p (pi (deps_ord t)) -> alookup p um = alookup p um') ->
  add_instance san pi sp um t x comps f params i st = add_instance san pi sp um' t x comps f params i st.
Proof.
  intros Hw Hp. unfold add_instance. rewrite (ws_pass_agree san sp um um') by exact Hw.
  assert (E : parent_list pi sp um (st_combos st) t i = parent_list pi sp um' (st_combos st) t i).
  { unfold parent_list.
    assert (Hm : map (fun p => iname (sp_params sp) um p i) (pi (deps_ord t))
                 = map (fun p => iname (sp_params sp) um' p i) (pi (deps_ord t))).
    { apply map_ext_in. intros p Hin. apply iname_agree, Hp, Hin. }
    destruct (deps_ord t), (deps_hub t); rewrite ?Hm; reflexivity. }
  rewrite E. reflexivity.
Qed.

Lemma fold_opt_ext {A} (f f' : sstate -> A -> option sstate) l :
  (forall s a, f s a = f' s a) -> forall o,
  fold_left (fun ost a => match ost with Some s => f s a | None => None end) l o
  = fold_left (fun ost a => match ost with Some s => f' s a | None => None end) l o.
Proof.
  intros H. induction l as [|a l IH]; intros o; cbn [fold_left]; [reflexivity|].
  destruct o as [s0|]; [rewrite H|]; apply IH.
Qed.

Lemma stage_step_agree ap san pi sp um um' t st :
  alookup (s_name t) um = alookup (s_name t) um' ->
  (forall m, In m (step_wsrefs t) -> alookup m um = alookup m um') ->
  (forall p, In p (pi (deps_ord t)) -> alookup p um = alookup p um') ->
  stage_step ap san pi sp um t st = stage_step ap san pi sp um' t st.
Proof.
  intros Hx Hw Hp. unfold stage_step, used_in. rewrite <- Hx.
  destruct (alookup (s_name t) um) as [[|k U]|].
  - apply add_instance_agree; assumption.
  - apply fold_opt_ext. intros s0 i. unfold stage_row.
    destruct (str_mem _ _); [reflexivity|]. apply add_instance_agree; assumption.
  - apply add_instance_agree; assumption.
Qed.

Lemma for_in_call {A S T R} (l : list A) (body : A -> S -> option S) (k1 : S -> option T) (k2 : T -> option R) :
  forall s, call (for_in l s body k1) k2 = for_in l s body (fun s' => call (k1 s') k2).
Proof.
  induction l as [|a l IH]; intros s0; cbn [for_in]; [reflexivity|].
  destruct (body a s0); [apply IH | reflexivity].
Qed.

Lemma step_source ap san pi sp order x wsm hub dep um combos g :
  str_eqb x SOURCE = true ->
  _stage_step_gen ap san pi sp order x wsm hub dep um combos g
  = Some (wsm, hub, dep, um, combos, if g_has SOURCE g then g else g ++ [mkNode SOURCE None [] []]).
Proof. intros H. unfold _stage_step_gen. rewrite H. reflexivity. Qed.

Lemma step_unknown ap san pi sp order x wsm hub dep um combos g :
  str_eqb x SOURCE = false -> find_step sp x = None ->
  _stage_step_gen ap san pi sp order x wsm hub dep um combos g = None.
Proof.
  intros H Hf. unfold _stage_step_gen. rewrite H. unfold dict_item at 1.
  rewrite study_values_find, Hf. reflexivity.
Qed.

Lemma walk_is_generated ap san pi sp t_sorted {R}
      (k : dict str * dict (list str) * dict (list str) * dict (list str) * dict (list str) * graph -> option R) :
  oracle_sub pi ->
  (forall w h d u c g h' d', k (w, h, d, u, c, g) = k (w, h', d', u, c, g)) ->
  forall order wsm hub dep um combos g,
  NoDup order -> (forall y, In y order -> y <> SOURCE -> alookup y um = None) ->
  um_inv (sp_params sp) um ->
  for_in order (wsm, hub, dep, um, combos, g)
    (fun step '(workspaces, hub_depends, depends, used_params, step_combos, dag) =>
       _stage_step_gen ap san pi sp t_sorted step workspaces hub_depends depends used_params step_combos dag) k
  = match plan_go sp order um with
    | None => None
    | Some um' =>
        match stage_go ap san pi sp um' order (mkSt g combos wsm) with
        | Some st => k (st_ws st, hub, dep, um', st_combos st, st_g st)
        | None => None
        end
    end.
Proof.
  intros Hpi Hk. induction order as [|x order IH]; intros wsm hub dep um combos g Hnd Hfresh Hinv;
    cbn [for_in plan_go stage_go]; [reflexivity|].
  inversion Hnd as [|? ? Hx Hnd']; subst.
  destruct (str_eqb x SOURCE) eqn:Hsrc.
  - rewrite step_source by exact Hsrc. apply IH; auto. intros y Hy; apply Hfresh; now right.
  - destruct (find_step sp x) as [t|] eqn:Hf.
    2:{ rewrite step_unknown by assumption. reflexivity. }
    rewrite (step_is_generated ap san pi sp t_sorted x t) by assumption.
    destruct (used_step (sp_params sp) um t) as [u|] eqn:Hus; [|reflexivity].
    assert (Hxn : x = s_name t) by (symmetry; apply (find_step_Some _ _ _ Hf)).
    destruct (used_step_spec _ _ _ _ Hus) as (S1 & S2 & S3).
    assert (Hfresh' : forall y, In y order -> y <> SOURCE -> alookup y (aset x u um) = None).
    { intros y Hy Hn. rewrite alookup_aset_other by (intros ->; contradiction).
      apply Hfresh; [now right | exact Hn]. }
    assert (Hinv' : um_inv (sp_params sp) (aset x u um)).
    { intros y u0 k0 Hy Hk0. destruct (str_dec y x) as [->|Hn].
      - rewrite alookup_aset_same in Hy. injection Hy as <-. apply S3 in Hk0. tauto.
      - rewrite alookup_aset_other in Hy by exact Hn. eapply Hinv; eauto. }
    destruct (plan_go sp order (aset x u um)) as [um'|] eqn:Ep.
    + destruct (plan_go_inv sp order _ _ Hnd' Hfresh' Ep) as [Hmono _].
      assert (Hagree : stage_step ap san pi sp (aset x u um) t (mkSt g combos wsm)
                       = stage_step ap san pi sp um' t (mkSt g combos wsm)).
      { assert (Hsome : forall y v, alookup y (aset x u um) = Some v ->
                          alookup y (aset x u um) = alookup y um').
        { intros y v Hy. rewrite Hy. symmetry. apply Hmono, Hy. }
        assert (Hl : forall y, y = x \/ (exists v, alookup y um = Some v) ->
                       alookup y (aset x u um) = alookup y um').
        { intros y [->|[v Hv]].
          - eapply Hsome, alookup_aset_same.
          - destruct (str_dec y x) as [->|Hn]; [eapply Hsome, alookup_aset_same|].
            eapply Hsome. rewrite alookup_aset_other by exact Hn. exact Hv. }
        apply stage_step_agree.
        - apply Hl. left. now symmetry.
        - intros m Hm. apply Hl. right. apply S2, Hm.
        - intros p Hp. apply Hl. right. apply Hpi in Hp. apply deps_ord_In in Hp as [Hp1 Hp2].
          apply S1; assumption. }
      rewrite <- Hagree.
      destruct (stage_step ap san pi sp (aset x u um) t (mkSt g combos wsm)) as [[g1 c1 w1]|]; [|reflexivity].
      cbn [st_ws st_combos st_g]. rewrite IH by assumption. rewrite Ep.
      destruct (stage_go ap san pi sp um' order (mkSt g1 c1 w1)); [apply Hk | reflexivity].
    + destruct (stage_step ap san pi sp (aset x u um) t (mkSt g combos wsm)) as [[g1 c1 w1]|]; [|reflexivity].
      cbn [st_ws st_combos st_g]. rewrite IH by assumption. rewrite Ep. reflexivity.
Qed.

(* ------------------------------------------------------------------------- *)
(** * Study.stage *)
Theorem stage_is_generated_sub : forall ap san pi sp,
  oracle_sub pi -> stage_gen ap san pi sp = stage ap san pi sp.
Proof.
  intros ap san pi sp Hpi. unfold stage_gen, stage, study_built.
  destruct (negb (construct_ok [SOURCE] (sp_steps sp))); [reflexivity|].
  destruct (negb (topo_ok sp (toposort sp))) eqn:Et; [reflexivity|].
  cbv zeta. unfold _stage_gen, topological_sort. cbv zeta.
  rewrite for_in_call.
  rewrite (walk_is_generated ap san pi sp).
  - unfold dict_one, set_empty, out_path, execution_graph_new, init_state.
    destruct (plan_go sp (toposort sp) [(SOURCE, [])]) as [um|]; [|reflexivity].
    destruct (stage_go ap san pi sp um (toposort sp) (mkSt [] [(SOURCE, [])] [(SOURCE, sp_root sp)])) as [[g c w]|];
      reflexivity.
  - exact Hpi.
  - reflexivity.
  - apply negb_false_iff in Et. unfold topo_ok in Et. rewrite !andb_true_iff in Et.
    apply str_nodupb_NoDup. tauto.
  - intros y _ Hn. unfold dict_one. cbn [alookup].
    destruct (str_eqb y SOURCE) eqn:E; [apply str_eqb_eq in E; contradiction | reflexivity].
  - intros y u k Hy Hk. unfold dict_one in Hy. cbn [alookup] in Hy.
    destruct (str_eqb y SOURCE); [|discriminate]. injection Hy as <-. destruct Hk.
Qed.

(** the oracle is a permutation of its argument in every theorem of
    Props/C08.v and Props/C11.v ([perm_oracle]) *)
Theorem stage_is_generated : forall ap san pi sp,
  perm_oracle pi -> stage_gen ap san pi sp = stage ap san pi sp.
Proof. intros ap san pi sp H. apply stage_is_generated_sub, perm_oracle_sub, H. Qed.

Corollary stage_c_is_generated_id : forall sp, stage_gen apply_row sanitize pi_id sp = stage_c pi_id sp.
Proof. intros sp. apply stage_is_generated, perm_oracle_id. Qed.

Corollary stage_c_is_generated_rev : forall sp, stage_gen apply_row sanitize pi_rev sp = stage_c pi_rev sp.
Proof. intros sp. apply stage_is_generated, perm_oracle_rev. Qed.

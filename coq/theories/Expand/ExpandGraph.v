(** Observers of the graph under construction ([kids_of], [deps_of], [rec_of],
    [g_names]) and what one [ExecutionGraph.add_step] followed by the
    [add_connection]s of an instance does to them (used by the invariant of
    ExpandInv.v for C08). *)
From MWF Require Import Base.Str Base.Util Expand.PyStr Expand.Expand Expand.ExpandProofs.
From Coq Require Import List NArith Bool Arith Lia Permutation.
Import ListNotations.

(* ------------------------------------------------------------------------ *)
(** * [g_find] *)
Lemma g_find_map F x g :
  (forall nd, nd_name (F nd) = nd_name nd) -> g_find x (map F g) = option_map F (g_find x g).
Proof.
  intros HF; unfold g_find; induction g as [|a g IH]; simpl; auto.
  rewrite HF. destruct (str_eqb x (nd_name a)); auto.
Qed.

Lemma g_find_app x g nd :
  g_find x (g ++ [nd]) =
  match g_find x g with
  | Some n => Some n
  | None => if str_eqb x (nd_name nd) then Some nd else None
  end.
Proof.
  unfold g_find; induction g as [|a g IH]; simpl.
  - destruct (str_eqb x (nd_name nd)); auto.
  - destruct (str_eqb x (nd_name a)); auto.
Qed.

Lemma g_find_name x g nd : g_find x g = Some nd -> nd_name nd = x.
Proof.
  unfold g_find; intros H; apply find_some in H as [_ H]. apply str_eqb_eq in H; auto.
Qed.

Lemma g_find_In x g nd : g_find x g = Some nd -> In nd g.
Proof. unfold g_find; intros H; apply find_some in H as [H _]; auto. Qed.

Lemma g_find_None x g : g_find x g = None <-> ~ In x (g_names g).
Proof.
  unfold g_find, g_names; induction g as [|a g IH]; simpl.
  - tauto.
  - seqb x (nd_name a).
    + split; [discriminate | intros H; exfalso; apply H; auto].
    + rewrite IH. split; [intros Hn [Hh|Hh]; auto | tauto].
Qed.

Lemma g_find_Some_names x g : (exists nd, g_find x g = Some nd) <-> In x (g_names g).
Proof.
  destruct (g_find x g) eqn:E.
  - split; [intros _|eauto]. destruct (in_dec str_dec x (g_names g)); auto.
    apply g_find_None in n0; congruence.
  - split; [intros [? ?]; discriminate|]. intros H; apply g_find_None in E; contradiction.
Qed.

Lemma g_find_NoDup g nd : NoDup (g_names g) -> In nd g -> g_find (nd_name nd) g = Some nd.
Proof.
  unfold g_find, g_names; induction g as [|a g IH]; simpl; intros Hn Hi; [contradiction|].
  inversion Hn; subst. destruct Hi as [->|Hi].
  - rewrite str_eqb_refl; auto.
  - seqb (nd_name nd) (nd_name a); auto.
    exfalso; apply H1. rewrite <- E. apply in_map; auto.
Qed.

Lemma kids_of_names g p c : In c (kids_of g p) -> In p (g_names g).
Proof.
  unfold kids_of; destruct (g_find p g) eqn:E; [|intros []].
  intros _; apply g_find_Some_names; eauto.
Qed.

(* ------------------------------------------------------------------------ *)
(** * [index_of] *)
Lemma index_of_lt x l : In x l -> (index_of x l < length l)%nat.
Proof.
  induction l as [|a l IH]; simpl; intros H; [contradiction|].
  seqb x a; [lia|]. destruct H as [->|H]; [congruence|]. apply IH in H; lia.
Qed.

Lemma index_of_app_in x l l' : In x l -> index_of x (l ++ l') = index_of x l.
Proof.
  induction l as [|a l IH]; simpl; intros H; [contradiction|].
  seqb x a; auto. destruct H as [->|H]; [congruence|]. f_equal; auto.
Qed.

Lemma index_of_app_new x l : ~ In x l -> index_of x (l ++ [x]) = length l.
Proof.
  induction l as [|a l IH]; simpl; intros H.
  - rewrite str_eqb_refl; auto.
  - seqb x a; [exfalso; auto|]. f_equal; apply IH; auto.
Qed.

(* ------------------------------------------------------------------------ *)
(** * All connections of one instance at once *)
Definition conn_all_fn (ps : list str) (c : str) (nd : node) : node :=
  fold_left (fun n p => conn_fn p c n) ps nd.

Lemma conn_all_name ps c : forall nd, nd_name (conn_all_fn ps c nd) = nd_name nd.
Proof.
  unfold conn_all_fn; induction ps as [|a ps IH]; simpl; intros nd; auto.
  rewrite IH; apply conn_fn_name.
Qed.

Lemma conn_all_rec ps c : forall nd, nd_rec (conn_all_fn ps c nd) = nd_rec nd.
Proof.
  unfold conn_all_fn; induction ps as [|a ps IH]; simpl; intros nd; auto.
  rewrite IH; apply conn_fn_rec.
Qed.

Lemma conn_all_kids ps c : forall nd k,
  In k (nd_kids (conn_all_fn ps c nd)) <->
  In k (nd_kids nd) \/ (k = c /\ In (nd_name nd) ps /\ nd_name nd <> c).
Proof.
  unfold conn_all_fn; induction ps as [|a ps IH]; simpl; intros nd k.
  - tauto.
  - rewrite IH, conn_fn_name, conn_fn_kids.
    seqb a c; simpl.
    + split; [intros [H|(H1 & H2 & H3)]; auto | intros [H|(H1 & [H2|H2] & H3)]; auto].
      congruence.
    + seqb a (nd_name nd); simpl.
      * rewrite In_sadd_s. split.
        -- intros [[->|Hk]|(H1 & H2 & H3)]; auto.
        -- intros [Hk|(H1 & _ & H3)]; auto.
      * split; [intros [Hk|(H1 & H2 & H3)]; auto | intros [Hk|(H1 & [H2|H2] & H3)]; auto].
        congruence.
Qed.

Lemma conn_all_deps ps c : forall nd d,
  In d (nd_deps (conn_all_fn ps c nd)) <-> In d (nd_deps nd) \/ (nd_name nd = c /\ In d ps).
Proof.
  unfold conn_all_fn; induction ps as [|a ps IH]; simpl; intros nd d.
  - tauto.
  - rewrite IH, conn_fn_name, conn_fn_deps.
    seqb c (nd_name nd).
    + rewrite In_sadd_s. split.
      * intros [[->|H]|[H1 H2]]; auto.
      * intros [H|[H1 [->|H2]]]; auto.
    + split; [intros [Hd|[H1 H2]]; auto | intros [Hd|[H1 H2]]; auto]. congruence.
Qed.

Lemma connect_all_map ps c : forall g g',
  connect_all ps c g = Some g' ->
  g' = map (conn_all_fn ps c) g /\ (forall p, In p ps -> p = c \/ In p (g_names g)).
Proof.
  induction ps as [|a ps IH]; intros g g'.
  - rewrite connect_all_nil; intros H; inversion H; subst. split; [|intros ? []].
    unfold conn_all_fn; simpl. symmetry; apply map_id.
  - rewrite connect_all_cons, g_connect_map.
    destruct (str_eqb a c || g_has a g) eqn:E; [|discriminate].
    intros H; apply IH in H as [H1 H2]. split.
    + subst g'. rewrite map_map. apply map_ext; intros nd; reflexivity.
    + intros p [<-|Hp].
      * apply orb_true_iff in E as [E|E]; [left; apply str_eqb_eq; auto|].
        right. rewrite g_has_names in E; apply str_mem_In; auto.
      * destruct (H2 p Hp) as [?|Hi]; auto. right.
        unfold g_names in *; rewrite map_map in Hi.
        erewrite map_ext in Hi; [exact Hi|]. intros; apply conn_fn_name.
Qed.

(* ------------------------------------------------------------------------ *)
(** * [add_step] (= [g_add]) seen through the observers *)
Definition reset_deps (x : str) (nd : node) : node :=
  if str_eqb x (nd_name nd) then mkNode (nd_name nd) (nd_rec nd) (nd_kids nd) [] else nd.

Lemma g_add_cases x r g :
  g_add x r g = if g_has x g then map (reset_deps x) g else g ++ [mkNode x r [] []].
Proof. unfold g_add, on_node, reset_deps; destruct (g_has x g); auto. Qed.

Lemma reset_deps_name x nd : nd_name (reset_deps x nd) = nd_name nd.
Proof. unfold reset_deps; destruct (str_eqb x (nd_name nd)); auto. Qed.

Lemma g_has_find x g : g_has x g = match g_find x g with Some _ => true | None => false end.
Proof.
  unfold g_has, g_find; induction g as [|a g IH]; simpl; auto.
  destruct (str_eqb x (nd_name a)); auto.
Qed.

Lemma kids_of_add x r g p : kids_of (g_add x r g) p = kids_of g p.
Proof.
  unfold kids_of; rewrite g_add_cases, g_has_find. destruct (g_find x g) eqn:Ex.
  - rewrite g_find_map by apply reset_deps_name.
    destruct (g_find p g); simpl; auto. unfold reset_deps; destruct (str_eqb x (nd_name n0)); auto.
  - rewrite g_find_app. destruct (g_find p g) eqn:Ep; auto.
    simpl. seqb p x; auto.
Qed.

Lemma deps_of_add x r g y :
  deps_of (g_add x r g) y = if str_eqb y x then [] else deps_of g y.
Proof.
  unfold deps_of; rewrite g_add_cases, g_has_find. destruct (g_find x g) eqn:Ex.
  - rewrite g_find_map by apply reset_deps_name.
    destruct (g_find y g) eqn:Ey; simpl.
    + apply g_find_name in Ey. unfold reset_deps; rewrite Ey, (str_eqb_sym x y).
      destruct (str_eqb y x); auto.
    + destruct (str_eqb y x); auto.
  - rewrite g_find_app. seqb y x.
    + rewrite Ex; simpl; rewrite ?str_eqb_refl; auto.
    + destruct (g_find y g); auto. simpl. rewrite E; auto.
Qed.

Lemma rec_of_add x r g y :
  rec_of (g_add x r g) y =
  if str_eqb y x then (if g_has x g then rec_of g x else r) else rec_of g y.
Proof.
  unfold rec_of; rewrite g_add_cases, g_has_find. destruct (g_find x g) eqn:Ex.
  - rewrite g_find_map by apply reset_deps_name.
    seqb y x.
    + rewrite Ex; simpl. unfold reset_deps; destruct (str_eqb x (nd_name n)); auto.
    + destruct (g_find y g); simpl; auto. unfold reset_deps; destruct (str_eqb x (nd_name n0)); auto.
  - rewrite g_find_app. seqb y x.
    + rewrite Ex; simpl; rewrite ?str_eqb_refl; auto.
    + destruct (g_find y g); auto. simpl. rewrite E; auto.
Qed.

(* ------------------------------------------------------------------------ *)
(** * The connections seen through the observers *)
Lemma kids_of_conn ps c g p k :
  In k (kids_of (map (conn_all_fn ps c) g) p) <->
  In k (kids_of g p) \/ (k = c /\ In p ps /\ p <> c /\ In p (g_names g)).
Proof.
  unfold kids_of. rewrite g_find_map by apply conn_all_name.
  destruct (g_find p g) eqn:E; simpl.
  - rewrite conn_all_kids. pose proof (g_find_name _ _ _ E) as Hn. rewrite Hn.
    assert (In p (g_names g)) by (apply g_find_Some_names; eauto). tauto.
  - apply g_find_None in E. tauto.
Qed.

Lemma deps_of_conn ps c g y d :
  In d (deps_of (map (conn_all_fn ps c) g) y) <->
  In d (deps_of g y) \/ (y = c /\ In d ps /\ In y (g_names g)).
Proof.
  unfold deps_of. rewrite g_find_map by apply conn_all_name.
  destruct (g_find y g) eqn:E; simpl.
  - rewrite conn_all_deps. pose proof (g_find_name _ _ _ E) as Hn. rewrite Hn.
    assert (In y (g_names g)) by (apply g_find_Some_names; eauto). tauto.
  - apply g_find_None in E. tauto.
Qed.

Lemma rec_of_conn ps c g y : rec_of (map (conn_all_fn ps c) g) y = rec_of g y.
Proof.
  unfold rec_of. rewrite g_find_map by apply conn_all_name.
  destruct (g_find y g); simpl; auto. apply conn_all_rec.
Qed.

(** [dag.add_step(x, ...)] followed by [dag.add_connection(p, x)] for every
    [p] of [ps], as one transformation of the observers *)
Lemma add_graph_spec x r ps g g' :
  connect_all ps x (g_add x r g) = Some g' ->
  g_names g' = (if g_has x g then g_names g else g_names g ++ [x])
  /\ (forall p, In p ps -> p = x \/ In p (g_names g))
  /\ (forall p k, In k (kids_of g' p) <-> In k (kids_of g p) \/ (k = x /\ In p ps /\ p <> x))
  /\ (forall d, In d (deps_of g' x) <-> In d ps)
  /\ (forall y, y <> x -> deps_of g' y = deps_of g y)
  /\ (forall y, y <> x -> rec_of g' y = rec_of g y)
  /\ rec_of g' x = (if g_has x g then rec_of g x else r).
Proof.
  intros H. pose proof (connect_all_names _ _ _ _ H) as Hnames.
  apply connect_all_map in H as [-> Hps].
  rewrite g_names_add in Hnames.
  assert (Hps' : forall p, In p ps -> p = x \/ In p (g_names g)).
  { intros p Hp. destruct (Hps p Hp) as [?|Hi]; auto.
    rewrite g_names_add in Hi. destruct (g_has x g); auto.
    apply in_app_iff in Hi as [?|[<-|[]]]; auto. }
  assert (Hx : In x (g_names (g_add x r g))).
  { rewrite g_names_add. destruct (g_has x g) eqn:E.
    - rewrite g_has_names in E; apply str_mem_In; auto.
    - apply in_app_iff; simpl; auto. }
  split; [exact Hnames|]. split; [exact Hps'|]. split; [|split; [|split; [|split]]].
  - intros p k. rewrite kids_of_conn, kids_of_add. split.
    + intros [?|(H1 & H2 & H3 & H4)]; auto.
    + intros [?|(H1 & H2 & H3)]; auto. right; repeat split; auto.
      rewrite g_names_add. destruct (Hps' p H2) as [?|Hi]; [contradiction|].
      destruct (g_has x g); auto. apply in_app_iff; auto.
  - intros d. rewrite deps_of_conn, deps_of_add, str_eqb_refl. simpl. tauto.
  - intros y Hy. apply str_eqb_neq in Hy.
    assert (E : forall d, In d (deps_of (map (conn_all_fn ps x) (g_add x r g)) y) <-> In d (deps_of g y)).
    { intros d. rewrite deps_of_conn, deps_of_add, Hy. apply str_eqb_neq in Hy. tauto. }
    (* the list itself is unchanged, not only its members *)
    unfold deps_of. rewrite g_find_map by apply conn_all_name.
    clear E. apply str_eqb_neq in Hy.
    rewrite g_add_cases. destruct (g_has x g).
    + rewrite g_find_map by apply reset_deps_name.
      destruct (g_find y g) eqn:Ey; simpl; auto.
      pose proof (g_find_name _ _ _ Ey) as Hn.
      unfold conn_all_fn.
      assert (Hr : reset_deps x n = n).
      { unfold reset_deps. rewrite Hn. apply not_eq_sym, str_eqb_neq in Hy. rewrite Hy; auto. }
      rewrite Hr. clear Hr.
      assert (G : forall l nd, nd_name nd = y ->
                  nd_deps (fold_left (fun n0 p => conn_fn p x n0) l nd) = nd_deps nd).
      { induction l as [|a l IH]; simpl; intros nd Hnd; auto.
        rewrite IH by (rewrite conn_fn_name; auto).
        rewrite conn_fn_deps, Hnd. apply not_eq_sym, str_eqb_neq in Hy. rewrite Hy; auto. }
      apply G; auto.
    + rewrite g_find_app. destruct (g_find y g) eqn:Ey; simpl.
      * pose proof (g_find_name _ _ _ Ey) as Hn.
        assert (G : forall l nd, nd_name nd = y ->
                    nd_deps (fold_left (fun n0 p => conn_fn p x n0) l nd) = nd_deps nd).
        { induction l as [|a l IH]; simpl; intros nd Hnd; auto.
          rewrite IH by (rewrite conn_fn_name; auto).
          rewrite conn_fn_deps, Hnd. apply not_eq_sym, str_eqb_neq in Hy. rewrite Hy; auto. }
        apply G; auto.
      * apply str_eqb_neq in Hy. rewrite Hy; auto.
  - intros y Hy. rewrite rec_of_conn, rec_of_add. apply str_eqb_neq in Hy; rewrite Hy; auto.
  - rewrite rec_of_conn, rec_of_add, str_eqb_refl; auto.
Qed.

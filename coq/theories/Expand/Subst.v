(** Text substitution of maestrowf (study.py, parameters.py, studyenvironment.py,
    variable.py, pathdependency.py, executiongraph.py:_StepRecord, utils.py),
    as executable Gallina.  Stdlib only; proofs are in SubstProofs.v.

    Part 1: token tables, the implementation's *sequential* application of
            Python [str.replace] ([seq]) and the specification's *simultaneous*
            left-to-right substitution ([sim]).
    Part 2: values ([pyval]) and [apply_function].
    Part 3: the passes (environment, parameters, workspaces, $(WORKSPACE)),
            the staging of texts, the specification, the hygiene predicate
            and the monitor [C09_ok]. *)
From MWF Require Export Base.Str Expand.PyStr.
From MWF Require Import Base.Util.
From MWF Require Expand.SafePath.
From Coq Require Import List NArith Bool Arith.
Import ListNotations.

(* ------------------------------------------------------------------------ *)
(** * Part 1 — tokens, tables, [seq] and [sim] *)

Definition DOLLAR : N := 36%N.
Definition LPAR : N := 40%N.
Definition RPAR : N := 41%N.

(** ["$(" ++ name ++ ")"]  —  [Variable.get_var], [Combination.add]. *)
Definition tok (name : str) : str := DOLLAR :: LPAR :: name ++ [RPAR].

Definition name_charb (c : N) : bool :=
  negb (N.eqb c DOLLAR || N.eqb c LPAR || N.eqb c RPAR).
(** a token name: no [$], [(], [)] *)
Definition wf_nameb (n : str) : bool := forallb name_charb n.

Definition is_tokenb (t : str) : bool :=
  match t with
  | a :: b :: r =>
      N.eqb a DOLLAR && N.eqb b LPAR &&
      match rev r with
      | z :: n => N.eqb z RPAR && wf_nameb n
      | [] => false
      end
  | _ => false
  end.

Definition entry : Type := str * str.          (* token text, value *)
Definition table : Type := list entry.

Definition tokens (T : table) : list str := map fst T.

(** token strings well formed and pairwise distinct *)
Definition wf_tableb (T : table) : bool :=
  forallb is_tokenb (tokens T) && str_nodupb (tokens T).

(** The implementation: one [replace] per entry, in list order
    ([for key, value in d.items(): item = item.replace(key, value)]). *)
Definition seq (l : table) (x : str) : str :=
  fold_left (fun acc e => replace (fst e) (snd e) acc) l x.

(** first entry whose token is a prefix of [x] *)
Fixpoint lookup_prefix (T : table) (x : str) : option entry :=
  match T with
  | [] => None
  | e :: T' => if prefixb (fst e) x then Some e else lookup_prefix T' x
  end.

(** The specification: one left-to-right scan; at each position a token of
    [T] is replaced by its value (and skipped), any other character is copied. *)
Fixpoint sim_go (T : table) (x : str) (skip : nat) : str :=
  match x with
  | [] => []
  | c :: r =>
      match skip with
      | S k => sim_go T r k
      | O => match lookup_prefix T x with
             | Some e => snd e ++ sim_go T r (pred (length (fst e)))
             | None => c :: sim_go T r 0
             end
      end
  end.
Definition sim (T : table) (x : str) : str := sim_go T x 0.

(** no token of [T] occurs in [y] *)
Definition token_free (T : table) (y : str) : bool :=
  forallb (fun t => negb (occursb t y)) (tokens T).

(** ** Decomposition of a text into literal characters and token occurrences *)
Inductive item : Type :=
| C (c : N)                 (* a character outside token occurrences *)
| K (t v : str).            (* an occurrence of token [t], whose value is [v] *)

(** [render S L]: the text in which exactly the occurrences of tokens in the
    set [S] have been replaced. *)
Definition render_item (S : str -> bool) (it : item) : str :=
  match it with
  | C c => [c]
  | K t v => if S t then v else t
  end.
Definition render (S : str -> bool) (L : list item) : str :=
  flat_map (render_item S) L.
Definition src (L : list item) : str := render (fun _ => false) L.
Definition dst (L : list item) : str := render (fun _ => true) L.

Fixpoint parse_go (T : table) (x : str) (skip : nat) : list item :=
  match x with
  | [] => []
  | c :: r =>
      match skip with
      | S k => parse_go T r k
      | O => match lookup_prefix T x with
             | Some e => K (fst e) (snd e) :: parse_go T r (pred (length (fst e)))
             | None => C c :: parse_go T r 0
             end
      end
  end.
Definition parse (T : table) (x : str) : list item := parse_go T x 0.

(** A pass in its two readings.  [l]: the entries in the order in which the
    implementation iterates (repetitions allowed); [T]: the token table of the
    specification. *)
Inductive mode : Type := Model | Spec.

Definition pass (m : mode) (l T : table) (x : str) : str :=
  match m with
  | Model => seq l x
  | Spec => sim T x
  end.

Definition entry_eqb (a b : entry) : bool :=
  str_eqb (fst a) (fst b) && str_eqb (snd a) (snd b).
Definition entry_mem (e : entry) (T : table) : bool := existsb (entry_eqb e) T.

(** Hygiene of one pass on one text (decidable, depends on inputs only):
    the table is well formed, the implementation iterates over entries of the
    table and over at least those whose token occurs in the text, and the
    substituted text contains no token of the table. *)
Definition pass_hyg (l T : table) (x : str) : bool :=
  wf_tableb T &&
  forallb (fun e => entry_mem e T) l &&
  forallb (fun t => negb (occursb t x) || str_mem t (tokens l)) (tokens T) &&
  token_free T (sim T x).

(* ------------------------------------------------------------------------ *)
(** * Part 2 — values and [utils.apply_function] *)

Inductive pyval : Type :=
| VStr (x : str)
| VList (l : list pyval)
| VDict (d : list (str * pyval))
| VOther (repr : str) (truthy : bool).  (* int, float, bool, None, ... as rendered by the harness *)

(** [apply_function(item, func)]: falsy items and non-strings are returned
    unchanged, strings are mapped, lists and dict values are visited. *)
Fixpoint apply_function (f : str -> str) (v : pyval) : pyval :=
  match v with
  | VStr [] => v
  | VStr x => VStr (f x)
  | VList l => VList (map (apply_function f) l)
  | VDict d =>
      VDict ((fix go (d : list (str * pyval)) : list (str * pyval) :=
                match d with
                | [] => []
                | (k, w) :: d' => (k, apply_function f w) :: go d'
                end) d)
  | VOther _ _ => v
  end.

(** all strings of a value, in visiting order *)
Fixpoint strings_of (v : pyval) : list str :=
  match v with
  | VStr x => [x]
  | VList l => flat_map strings_of l
  | VDict d =>
      (fix go (d : list (str * pyval)) : list str :=
         match d with
         | [] => []
         | (_, w) :: d' => strings_of w ++ go d'
         end) d
  | VOther _ _ => []
  end.

(** the value with every string erased: structure, keys and non-strings *)
Fixpoint skeleton (v : pyval) : pyval :=
  match v with
  | VStr _ => VStr []
  | VList l => VList (map skeleton l)
  | VDict d =>
      VDict ((fix go (d : list (str * pyval)) : list (str * pyval) :=
                match d with
                | [] => []
                | (k, w) :: d' => (k, skeleton w) :: go d'
                end) d)
  | VOther r b => VOther r b
  end.

Fixpoint pyval_eqb (a b : pyval) : bool :=
  match a, b with
  | VStr x, VStr y => str_eqb x y
  | VList l, VList l' =>
      (fix go (l l' : list pyval) : bool :=
         match l, l' with
         | [], [] => true
         | x :: r, y :: r' => pyval_eqb x y && go r r'
         | _, _ => false
         end) l l'
  | VDict d, VDict d' =>
      (fix go (d d' : list (str * pyval)) : bool :=
         match d, d' with
         | [], [] => true
         | (k, x) :: r, (k', y) :: r' => str_eqb k k' && pyval_eqb x y && go r r'
         | _, _ => false
         end) d d'
  | VOther r b, VOther r' b' => str_eqb r r' && Bool.eqb b b'
  | _, _ => false
  end.

(** Python truthiness *)
Definition truthy (v : pyval) : bool :=
  match v with
  | VStr [] => false | VStr _ => true
  | VList [] => false | VList _ => true
  | VDict [] => false | VDict _ => true
  | VOther _ b => b
  end.

(** every string of [v] satisfies [p] *)
Definition all_strings (p : str -> bool) (v : pyval) : bool := forallb p (strings_of v).

Definition as_text (v : pyval) : str := match v with VStr x => x | _ => [] end.

Fixpoint dict_get (k : str) (d : list (str * pyval)) : pyval :=
  match d with
  | [] => VStr []
  | (k', v) :: d' => if str_eqb k k' then v else dict_get k d'
  end.

(** [d[k] = v] for an existing key (order kept) *)
Fixpoint dict_set (k : str) (v : pyval) (d : list (str * pyval)) : list (str * pyval) :=
  match d with
  | [] => []
  | (k', w) :: d' => if str_eqb k k' then (k', v) :: d' else (k', w) :: dict_set k v d'
  end.

Definition apply_str (f : str -> str) (x : str) : str :=
  match x with [] => [] | _ => f x end.

Definition apply_dict (f : str -> str) (d : list (str * pyval)) : list (str * pyval) :=
  map (fun kv => (fst kv, apply_function f (snd kv))) d.

(* ------------------------------------------------------------------------ *)
(** * Part 3 — the passes and the staging of texts *)

(** ** Characters *)
Definition SPACE : N := 32%N.
Definition DOT : N := 46%N.
Definition SLASH : N := 47%N.
Definition STAR : N := 42%N.
Definition USCORE : N := 95%N.
Definition NL : N := 10%N.

(** ASCII reading of the regex class [\w] (DESIGN section 8: non-ASCII code
    points are generated only as data outside "$(...)" spans). *)
Definition isword (c : N) : bool :=
  (N.leb 48 c && N.leb c 57) || (N.leb 65 c && N.leb c 90) ||
  (N.leb 97 c && N.leb c 122) || N.eqb c USCORE.

(** ** Environment (studyenvironment.py, variable.py, pathdependency.py) *)
Inductive env_item : Type :=
| EVar (name value : str) (isstr : bool)     (* Variable(name, value); value rendered with str() *)
| EDep (name value : str).                   (* PathDependency(name, abspath) *)
Inductive env_op : Type :=
| EAdd (it : env_item)
| ERemove (name : str).

Record envt : Type := {
  e_labels : table;       (* StudyEnvironment.labels, insertion order *)
  e_deps : table;         (* .dependencies *)
  e_subs : table;         (* .substitutions *)
  e_tokens : bool         (* _tokens is non-empty (it only ever holds "$") *)
}.
Definition env_empty : envt :=
  {| e_labels := []; e_deps := []; e_subs := []; e_tokens := false |}.

Definition table_has (t : str) (T : table) : bool := str_mem t (tokens T).
Definition table_remove (t : str) (T : table) : table :=
  filter (fun e => negb (str_eqb t (fst e))) T.

(** [StudyEnvironment.add]: a string-valued Variable whose value contains the
    token character [$] of an already registered substitution is a *label*. *)
Definition env_add (E : envt) (it : env_item) : envt :=
  match it with
  | EDep n v =>
      {| e_labels := e_labels E; e_deps := e_deps E ++ [(tok n, v)];
         e_subs := e_subs E; e_tokens := e_tokens E |}
  | EVar n v isstr =>
      if isstr && e_tokens E && existsb (N.eqb DOLLAR) v
      then {| e_labels := e_labels E ++ [(tok n, v)]; e_deps := e_deps E;
              e_subs := e_subs E; e_tokens := e_tokens E |}
      else {| e_labels := e_labels E; e_deps := e_deps E;
              e_subs := e_subs E ++ [(tok n, v)]; e_tokens := true |}
  end.

(** [StudyEnvironment.remove]: dependencies, then substitutions, then labels. *)
Definition env_remove (E : envt) (n : str) : envt :=
  let t := tok n in
  if table_has t (e_deps E) then
    {| e_labels := e_labels E; e_deps := table_remove t (e_deps E);
       e_subs := e_subs E; e_tokens := e_tokens E |}
  else if table_has t (e_subs E) then
    {| e_labels := e_labels E; e_deps := e_deps E;
       e_subs := table_remove t (e_subs E); e_tokens := e_tokens E |}
  else
    {| e_labels := table_remove t (e_labels E); e_deps := e_deps E;
       e_subs := e_subs E; e_tokens := e_tokens E |}.

Definition env_build (ops : list env_op) : envt :=
  fold_left (fun E op => match op with EAdd it => env_add E it | ERemove n => env_remove E n end)
            ops env_empty.

(** [StudyEnvironment.find]: dependencies, substitutions, labels. *)
Definition env_find (E : envt) (n : str) : option str :=
  let t := tok n in
  let look (T : table) := find (fun e => str_eqb t (fst e)) T in
  match look (e_deps E) with
  | Some e => Some (snd e)
  | None => match look (e_subs E) with
            | Some e => Some (snd e)
            | None => option_map snd (look (e_labels E))
            end
  end.

(** all entries token |-> value of the environment, and the entry an item defines *)
Definition env_entries (E : envt) : table := e_labels E ++ e_deps E ++ e_subs E.
Definition item_entry (it : env_item) : entry :=
  match it with EVar n v _ => (tok n, v) | EDep n v => (tok n, v) end.

(** [apply_environment]: labels, then dependencies, then substitutions. *)
Definition env_pass (m : mode) (E : envt) (x : str) : str :=
  match x with
  | [] => []
  | _ => pass m (e_subs E) (e_subs E)
           (pass m (e_deps E) (e_deps E)
              (pass m (e_labels E) (e_labels E) x))
  end.

Definition hyg_env (E : envt) (x : str) : bool :=
  match x with
  | [] => true
  | _ =>
      pass_hyg (e_labels E) (e_labels E) x &&
      pass_hyg (e_deps E) (e_deps E) (sim (e_labels E) x) &&
      pass_hyg (e_subs E) (e_subs E) (sim (e_deps E) (sim (e_labels E) x))
  end.

(** ** Parameters (parameters.py) *)
Inductive label_spec : Type :=
| LFmt (fmt : str)             (* a label format, "%%" stands for the value *)
| LList (ls : list str).       (* one explicit label per row *)

Record param : Type := {
  p_key : str;
  p_name : str;                (* [] = not given *)
  p_values : list str;         (* str(value) of every row *)
  p_label : label_spec
}.

Definition PCT2 : str := s "%%".

(** [add_parameter]: falsy label -> "KEY.%%", falsy name -> KEY *)
Definition param_label (p : param) : label_spec :=
  match p_label p with
  | LFmt [] => LFmt (p_key p ++ DOT :: PCT2)
  | LList [] => LFmt (p_key p ++ DOT :: PCT2)
  | l => l
  end.
Definition param_name (p : param) : str :=
  match p_name p with [] => p_key p | n => n end.

Definition row_value (p : param) (i : nat) : str := nth i (p_values p) [].
(** [get_combinations]: list label -> its i-th entry, else format.replace("%%", str(value)) *)
Definition row_label (p : param) (i : nat) : str :=
  match param_label p with
  | LList ls => nth i ls []
  | LFmt fmt => replace PCT2 (row_value p i) fmt
  end.

Definition nrows (ps : list param) : nat :=
  match ps with [] => 0 | p :: _ => length (p_values p) end.

(** The token table of [Combination] for row [i], in the order in which
    [Combination.apply] iterates: labels, values, names. *)
Definition param_table (ps : list param) (i : nat) : table :=
  map (fun p => (tok (p_key p ++ s ".label"), row_label p i)) ps ++
  map (fun p => (tok (p_key p), row_value p i)) ps ++
  map (fun p => (tok (p_key p ++ s ".name"), param_name p)) ps.

(** parameter keys are pairwise distinct words ([\w+]: they are dict keys of the
    specification and are spliced into a regex) *)
Definition keys_okb (ps : list param) : bool :=
  str_nodupb (map p_key ps) && forallb (fun p => forallb isword (p_key p)) ps.

Definition param_pass (m : mode) (ps : list param) (i : nat) (x : str) : str :=
  pass m (param_table ps i) (param_table ps i) x.

Definition find_param (k : str) (ps : list param) : option param :=
  find (fun p => str_eqb k (p_key p)) ps.

(** [Combination.get_param_string(keys)] for sorted [keys] *)
Definition combo_string (ps : list param) (i : nat) (keys : list str) : str :=
  join [DOT] (map (fun k => match find_param k ps with
                            | Some p => row_label p i
                            | None => []
                            end) keys).

(** [re.findall(r"\$\(KEY(?:\.\w+)?\)", item)] is non-empty *)
Definition after_key (rest : str) : bool :=
  match rest with
  | c :: r' =>
      if N.eqb c RPAR then true
      else if N.eqb c DOT then
             let (w, r2) := span isword r' in
             match w, r2 with
             | _ :: _, d :: _ => N.eqb d RPAR
             | _, _ => false
             end
           else false
  | [] => false
  end.
Fixpoint usesb (key x : str) : bool :=
  match x with
  | [] => false
  | _ :: r =>
      (prefixb (DOLLAR :: LPAR :: key) x && after_key (skipn (2 + length key) x))
      || usesb key r
  end.

(** ** Steps *)
Record step : Type := {
  s_name : str;                       (* real name; contains no "$" (validity) *)
  s_desc : str;                       (* description *)
  s_run : list (str * pyval)          (* the run dict, keys in the harness' canonical order *)
}.

(** [apply_function(step.__dict__, f)] *)
Definition step_map (f : str -> str) (st : step) : step :=
  {| s_name := s_name st;
     s_desc := apply_str f (s_desc st);
     s_run := apply_dict f (s_run st) |}.

Definition step_strings (st : step) : list str :=
  s_desc st :: flat_map (fun kv => strings_of (snd kv)) (s_run st).

Definition run_text (k : string) (st : step) : str := as_text (dict_get (s k) (s_run st)).

(** [ParameterGenerator.get_used_parameters(step)], in parameter order *)
Definition direct_used (ps : list param) (st : step) : list str :=
  map p_key (filter (fun p => existsb (usesb (p_key p)) (step_strings st)) ps).

Definition dep_list (st : step) : list str :=
  match dict_get (s "depends") (s_run st) with
  | VList l => map as_text l
  | _ => []
  end.

Definition has_star (x : str) : bool := existsb (N.eqb STAR) x.

(** [re.sub(r"_\*|\*", "", x)] *)
Fixpoint strip_combos (x : str) : str :=
  match x with
  | [] => []
  | c :: r =>
      if N.eqb c STAR then strip_combos r
      else if N.eqb c USCORE then
             match r with
             | d :: r' => if N.eqb d STAR then strip_combos r' else c :: strip_combos r
             | [] => [c]
             end
           else c :: strip_combos r
  end.

Definition hub_of (st : step) : list str := map strip_combos (filter has_star (dep_list st)).
Definition ordinary_of (st : step) : list str := filter (fun d => negb (has_star d)) (dep_list st).

(** ** Workspace references: [re.findall(WSREGEX, text)] *)
Definition ws_class_extra : str := s "-!$%^&*()_+|~=`{}[]:;<>?,./".
Definition wsclassb (c : N) : bool := isword c || existsb (N.eqb c) ws_class_extra.
Definition DOT_WORKSPACE_RP : str := s ".workspace)".

(** largest [k] such that ".workspace)" is a prefix of [skipn k R] *)
Fixpoint last_split (R : str) : option nat :=
  match R with
  | [] => None
  | _ :: R' =>
      match last_split R' with
      | Some k => Some (S k)
      | None => if prefixb DOT_WORKSPACE_RP R then Some 0 else None
      end
  end.

(** At "$(": the greedy class run, backtracked to the last ".workspace)" that
    leaves a non-empty group. *)
Definition ws_match_at (x : str) : option str :=
  match x with
  | a :: b :: body =>
      if N.eqb a DOLLAR && N.eqb b LPAR then
        match last_split (fst (span wsclassb body)) with
        | Some (S k) => Some (firstn (S k) body)
        | _ => None
        end
      else None
  | _ => None
  end.

Fixpoint ws_findall_go (x : str) (skip : nat) : list str :=
  match x with
  | [] => []
  | _ :: r =>
      match skip with
      | S k => ws_findall_go r k
      | O => match ws_match_at x with
             | Some g => g :: ws_findall_go r (length g + 12)
             | None => ws_findall_go r 0
             end
      end
  end.
Definition ws_findall (x : str) : list str := ws_findall_go x 0.

Definition ws_tok (n : str) : str := tok (n ++ s ".workspace").
Definition WORKSPACE_TOK : str := tok (s "WORKSPACE").
Definition SOURCE : str := s "_source".

(** ["{} {}".format(cmd, restart)] *)
Definition ws_text (st : step) : str := run_text "cmd" st ++ SPACE :: run_text "restart" st.

(** ** Paths: [utils.make_safe_path] *)
(** one path component, as [make_safe_path] writes it: the SafePath model's
    [sanitize] (alphabet and replace rules regenerated from utils.py into
    Gen/SafePathData.v on every run) *)
Definition safe_comp (x : str) : str := MWF.Expand.SafePath.sanitize x.
(** [os.path.join(a, b)] for a component [b] that does not start with "/" *)
Definition pjoin (a b : str) : str :=
  match a with
  | [] => b
  | _ => if N.eqb (last a 0%N) SLASH then a ++ b else a ++ SLASH :: b
  end.
Definition msp (root : str) (comps : list str) : str :=
  fold_left (fun acc c => pjoin acc (safe_comp c)) comps root.

(** ** The study to be staged *)
Record case : Type := {
  c_root : str;                 (* output path *)
  c_shell : str;                (* batch["shell"], default /bin/bash *)
  c_env : list env_op;          (* environment construction as run_study performs it *)
  c_params : list param;
  c_steps : list step;          (* in specification order, as built by get_study_steps *)
  c_order : list nat            (* topological_sort() without _source: indices into c_steps *)
}.

Definition dummy_step : step := {| s_name := []; s_desc := []; s_run := [] |}.

(** [Study.add_step]: the environment is applied to every step on registration. *)
Definition steps_e (m : mode) (c : case) : list step :=
  let E := env_build (c_env c) in
  map (step_map (env_pass m E)) (c_steps c).

(** What staging learns from a step before expanding it. *)
Record pre : Type := {
  pr_step : step;               (* environment applied *)
  pr_caps : list str;           (* used_spaces: WSREGEX captures, in findall order *)
  pr_refs : list str;           (* referenced workspaces, canonical (sorted, no repetition) *)
  pr_rej : bool                 (* "Workspace for ... is being used before it would be generated" *)
}.

(** Model: the references are the regex captures, staging raises when one is
    unknown.  Spec: the references are the known steps whose workspace token
    occurs; a *well-formed* reference to an unknown step is rejected. *)
Definition refs_of (m : mode) (known caps : list str) (text : str) : list str :=
  match m with
  | Model => str_sort (str_dedup caps)
  | Spec => str_sort (str_dedup (filter (fun n => occursb (ws_tok n) text) known))
  end.
Definition rej_of (m : mode) (known caps : list str) : bool :=
  match m with
  | Model => existsb (fun n => negb (str_mem n known)) caps
  | Spec => existsb (fun n => wf_nameb n && negb (str_mem n known)) caps
  end.

Definition mk_pre (m : mode) (known : list str) (st : step) : pre :=
  let text := ws_text st in
  let caps := ws_findall text in
  {| pr_step := st; pr_caps := caps;
     pr_refs := refs_of m known caps text; pr_rej := rej_of m known caps |}.

Fixpoint pre_go (m : mode) (sts : list step) (known : list str) (ord : list nat) : list pre :=
  match ord with
  | [] => []
  | k :: ord' =>
      let st := nth k sts dummy_step in
      mk_pre m known st :: pre_go m sts (known ++ [s_name st]) ord'
  end.

Definition pre_list (m : mode) (c : case) : list pre :=
  pre_go m (steps_e m c) [SOURCE] (c_order c).

(** One instance to be generated. *)
Record desc : Type := {
  d_step : step;                (* environment applied, parameters not yet *)
  d_row : option nat;           (* the parameter row, [None] for an unparameterised step *)
  d_used : list str;            (* used_params of the step (sorted keys) *)
  d_refs : list str;            (* steps whose workspace the step refers to *)
  d_name : str;                 (* instance name *)
  d_ws : str;                   (* own workspace *)
  d_caps : list str;            (* used_spaces of the step *)
  d_dirs : list (str * str)     (* every known step -> the directory its workspace token denotes here *)
}.

(** [d'] is an instance of some step for the combination that instance [d]
    belongs to: it is unparameterised, or its row carries the same labels as
    [d]'s row for the parameters it uses (the same row in particular). *)
Definition same_combo (ps : list param) (d d' : desc) : bool :=
  match d_row d', d_row d with
  | None, _ => true
  | Some i', Some i => str_eqb (combo_string ps i (d_used d')) (combo_string ps i' (d_used d'))
  | Some _, None => false
  end.

Definition used_of (used : list (str * list str)) (n : str) : list str :=
  match find (fun e => str_eqb n (fst e)) used with
  | Some e => snd e
  | None => []
  end.

(** The directory that "$(n.workspace)" denotes in instance ([st], [row]). *)
Definition wsdir (root : str) (ps : list param) (used : list (str * list str))
           (hubs : list str) (row : option nat) (n : str) : str :=
  if str_eqb n SOURCE then root
  else if str_mem n hubs then msp root [n]
  else match used_of used n, row with
       | [], _ => msp root [n]
       | u, Some i => msp root [n; combo_string ps i u]
       | _, None => msp root [n]
       end.

Definition iname (ps : list param) (n : str) (u : list str) (row : option nat) : str :=
  match row with
  | None => n
  | Some i => n ++ USCORE :: combo_string ps i u
  end.
Definition own_ws (root : str) (ps : list param) (n : str) (u : list str) (row : option nat) : str :=
  match row with
  | None => msp root [n]
  | Some i => msp root [n; combo_string ps i u]
  end.

(** keep the first descriptor of every name ([DAG.add_node] ignores a name
    that is already present) *)
Fixpoint first_wins (seen : list str) (ds : list desc) : list desc * list str :=
  match ds with
  | [] => ([], seen)
  | d :: ds' =>
      if str_mem (d_name d) seen then first_wins seen ds'
      else let (r, seen') := first_wins (d_name d :: seen) ds' in (d :: r, seen')
  end.

Definition step_used (ps : list param) (used : list (str * list str)) (p : pre) : list str :=
  let st := pr_step p in
  let hubs := hub_of st in
  str_sort (str_dedup
    (direct_used ps st ++
     flat_map (used_of used) (ordinary_of st) ++
     flat_map (used_of used) (filter (fun n => negb (str_mem n hubs)) (pr_refs p)))).

Definition step_descs (root : str) (ps : list param) (used : list (str * list str))
           (p : pre) (u : list str) : list desc :=
  let st := pr_step p in
  let hubs := hub_of st in
  let known := map fst used in
  let mk (row : option nat) : desc :=
    {| d_step := st; d_row := row; d_used := u; d_refs := pr_refs p;
       d_name := iname ps (s_name st) u row;
       d_ws := own_ws root ps (s_name st) u row;
       d_caps := pr_caps p;
       d_dirs := map (fun n => (n, wsdir root ps used hubs row n)) known |} in
  match u with
  | [] => [mk None]
  | _ => map (fun i => mk (Some i)) (List.seq 0 (nrows ps))
  end.

(** [Study._stage]: steps in topological order; [None] = staging raised. *)
Fixpoint plan_go (root : str) (ps : list param) (used : list (str * list str))
         (seen : list str) (l : list pre) : option (list desc) :=
  match l with
  | [] => Some []
  | p :: l' =>
      if pr_rej p then None
      else
        let u := step_used ps used p in
        let (ds, seen') := first_wins seen (step_descs root ps used p u) in
        match plan_go root ps (used ++ [(s_name (pr_step p), u)]) seen' l' with
        | None => None
        | Some r => Some (ds ++ r)
        end
  end.

Definition plan (m : mode) (c : case) : option (list desc) :=
  plan_go (c_root c) (c_params c) [(SOURCE, [])] [SOURCE] (pre_list m c).

(** ** Texts of one instance *)
Definition dir_of (n : str) (dirs : list (str * str)) : str :=
  match find (fun e => str_eqb n (fst e)) dirs with
  | Some e => snd e
  | None => []
  end.
(** the implementation's iteration: one replace per capture, in findall order *)
Definition ws_l (d : desc) : table :=
  map (fun cap => (ws_tok cap, dir_of cap (d_dirs d))) (d_caps d).
(** the specification's table: the workspace token of every known step *)
Definition ws_T (d : desc) : table :=
  map (fun nd => (ws_tok (fst nd), snd nd)) (d_dirs d).
Definition rec_T (d : desc) : table := [(WORKSPACE_TOK, d_ws d)].

Definition ws_pass (m : mode) (d : desc) (x : str) : str := pass m (ws_l d) (ws_T d) x.
Definition rec_pass (m : mode) (d : desc) (x : str) : str := pass m (rec_T d) (rec_T d) x.

(** [StudyStep.apply_parameters(combo)] for a parameterised instance *)
Definition step_p (m : mode) (ps : list param) (d : desc) : step :=
  match d_row d with
  | None => d_step d
  | Some i => step_map (param_pass m ps i) (d_step d)
  end.

Record inst : Type := {
  i_name : str;
  i_desc : str;
  i_run : list (str * pyval);
  i_script : str;               (* text written by LocalScriptAdapter.write_script *)
  i_rscript : option str        (* restart script, when run["restart"] is non-empty *)
}.

(** "#!{0}\n\n{1}\n".format(shell, cmd) *)
Definition script_text (shell cmd : str) : str :=
  s "#!" ++ shell ++ NL :: NL :: cmd ++ [NL].

Definition inst_of (m : mode) (ps : list param) (shell : str) (d : desc) : inst :=
  let st := step_p m ps d in
  let cmd2 := ws_pass m d (run_text "cmd" st) in
  let rst2 := ws_pass m d (run_text "restart" st) in
  (* _StepRecord.__init__ *)
  let cmd3 := rec_pass m d cmd2 in
  let rst3 := rec_pass m d rst2 in
  (* generate_script substitutes $(WORKSPACE) in cmd once more; the
     specification substitutes once *)
  let cmd4 := match m with Model => rec_pass m d cmd3 | Spec => cmd3 end in
  {| i_name := d_name d;
     i_desc := s_desc st;
     i_run := dict_set (s "cmd") (VStr cmd4) (dict_set (s "restart") (VStr rst3) (s_run st));
     i_script := script_text shell cmd4;
     i_rscript := match rst3 with [] => None | _ => Some (script_text shell rst3) end |}.

(** The specification of a script's command text, pass by pass: [x0] is the
    text as written in the specification for the step of [d]. *)
Definition spec_field (c : case) (d : desc) (x0 : str) : str :=
  let x := env_pass Spec (env_build (c_env c)) x0 in
  match d_row d with
  | None => x
  | Some i => param_pass Spec (c_params c) i x
  end.
Definition spec_text (c : case) (d : desc) (x0 : str) : str :=
  rec_pass Spec d (ws_pass Spec d (spec_field c d x0)).

Inductive outcome : Type :=
| Raised                        (* staging raised an exception *)
| Staged (insts : list inst).

Definition stage (m : mode) (c : case) : outcome :=
  match plan m c with
  | None => Raised
  | Some ds => Staged (map (inst_of m (c_params c) (c_shell c)) ds)
  end.

(** ** Hygiene (the explicit hypothesis of the theorems; inputs only) *)
Definition hyg_steps (c : case) : bool :=
  let E := env_build (c_env c) in
  forallb (fun st => forallb (hyg_env E) (step_strings st)) (c_steps c).

Definition list_str_eqb (a b : list str) : bool :=
  (fix go (a b : list str) : bool :=
     match a, b with
     | [], [] => true
     | x :: a', y :: b' => str_eqb x y && go a' b'
     | _, _ => false
     end) a b.

(** the WSREGEX scanner is exact on this step: every capture is a clean name
    and the captures are exactly the known steps whose workspace token occurs *)
Definition hyg_pre (known : list str) (st : step) : bool :=
  let text := ws_text st in
  let caps := ws_findall text in
  forallb wf_nameb caps &&
  list_str_eqb (refs_of Model known caps text) (refs_of Spec known caps text).

Fixpoint hyg_pre_go (sts : list step) (known : list str) (ord : list nat) : bool :=
  match ord with
  | [] => true
  | k :: ord' =>
      let st := nth k sts dummy_step in
      hyg_pre known st && hyg_pre_go sts (known ++ [s_name st]) ord'
  end.

Definition hyg_inst (ps : list param) (d : desc) : bool :=
  (match d_row d with
   | None => true
   | Some i =>
       forallb (fun x => match x with
                         | [] => true
                         | _ => pass_hyg (param_table ps i) (param_table ps i) x
                         end) (step_strings (d_step d))
   end) &&
  let st := step_p Spec ps d in
  let c1 := run_text "cmd" st in
  let r1 := run_text "restart" st in
  pass_hyg (ws_l d) (ws_T d) c1 && pass_hyg (ws_l d) (ws_T d) r1 &&
  pass_hyg (rec_T d) (rec_T d) (ws_pass Spec d c1) &&
  pass_hyg (rec_T d) (rec_T d) (ws_pass Spec d r1).

(** ** The monitor *)
Definition opt_str_eqb (a b : option str) : bool :=
  match a, b with
  | None, None => true
  | Some x, Some y => str_eqb x y
  | _, _ => false
  end.

Definition inst_eqb (a b : inst) : bool :=
  str_eqb (i_name a) (i_name b) && str_eqb (i_desc a) (i_desc b) &&
  pyval_eqb (VDict (i_run a)) (VDict (i_run b)) &&
  str_eqb (i_script a) (i_script b) && opt_str_eqb (i_rscript a) (i_rscript b).

(** same instances (by name), in any order *)
Definition insts_eqb (a b : list inst) : bool :=
  Nat.eqb (length a) (length b) &&
  str_nodupb (map i_name b) &&
  forallb (fun x => existsb (inst_eqb x) b) a.

Definition outcome_eqb (a b : outcome) : bool :=
  match a, b with
  | Raised, Raised => true
  | Staged x, Staged y => insts_eqb x y
  | _, _ => false
  end.

(** Every token that is defined for the study. *)
Definition param_tokens (ps : list param) : list str :=
  flat_map (fun p => [tok (p_key p ++ s ".label"); tok (p_key p); tok (p_key p ++ s ".name")]) ps.
Definition env_tokens (E : envt) : list str :=
  tokens (e_labels E) ++ tokens (e_deps E) ++ tokens (e_subs E).
(** tokens substituted in every field *)
Definition field_tokens (c : case) : list str :=
  env_tokens (env_build (c_env c)) ++ param_tokens (c_params c).
(** tokens substituted in cmd / restart (hence in the scripts) *)
Definition script_tokens (c : case) : list str :=
  field_tokens c ++ WORKSPACE_TOK :: ws_tok SOURCE :: map (fun st => ws_tok (s_name st)) (c_steps c).

Definition free_of (ts : list str) (y : str) : bool :=
  forallb (fun t => negb (occursb t y)) ts.

Definition inst_free (c : case) (i : inst) : bool :=
  free_of (field_tokens c) (i_desc i) &&
  forallb (fun kv => all_strings (free_of (field_tokens c)) (snd kv)) (i_run i) &&
  free_of (script_tokens c) (as_text (dict_get (s "cmd") (i_run i))) &&
  free_of (script_tokens c) (as_text (dict_get (s "restart") (i_run i))) &&
  free_of (script_tokens c) (i_script i) &&
  match i_rscript i with None => true | Some r => free_of (script_tokens c) r end.

Definition obs_free (c : case) (o : outcome) : bool :=
  match o with
  | Raised => true
  | Staged l => forallb (inst_free c) l
  end.

(** C09_ok: the observed expansion is the specified one (simultaneous
    substitution of exactly the defined tokens, pass by pass, with the
    specified tables) and no defined token survives in it. *)
Definition C09_ok (c : case) (o : outcome) : bool :=
  outcome_eqb (stage Spec c) o && obs_free c o.

Definition hyg (c : case) : bool :=
  hyg_steps c &&
  hyg_pre_go (steps_e Spec c) [SOURCE] (c_order c) &&
  match plan Spec c with
  | None => true
  | Some ds => forallb (hyg_inst (c_params c)) ds
  end &&
  obs_free c (stage Spec c).

(** Signature of known finding K4a: a WSREGEX capture that is not a name
    (it swallowed "$", "(" or ")": adjacent workspace tokens). *)
Definition sig_K4a (c : case) : bool :=
  existsb (fun st => negb (forallb wf_nameb (ws_findall (ws_text st)))) (steps_e Model c).
(** Signature of known finding K4b: the input is outside the hygiene
    hypothesis (token text arises from substituted values). *)
Definition sig_K4b (c : case) : bool := negb (hyg c).
(** Signature of known finding K4c: a step whose name has a character outside
    the WSREGEX class (blank, quote, "@", "#", ...) and whose workspace token
    occurs in a step's cmd / restart: the regex never recognises that token. *)
Definition sig_K4c (c : case) : bool :=
  existsb (fun st => negb (forallb wsclassb (s_name st)) &&
                     existsb (fun st' => occursb (ws_tok (s_name st)) (ws_text st')) (steps_e Model c))
          (c_steps c).

(** ** Validity of a case (the domain on which the model claims to describe
    the implementation; checked by the harness for every generated case) *)
(** Characters of step names: words, ".", "-", the other characters of the
    WSREGEX class that are neither token syntax ("$", "(", ")"), nor the funnel
    mark "*", nor the path separator -- [make_safe_path] deletes them from
    directory names --, and a few characters OUTSIDE the class (blank, "'", "@",
    "#": see [sig_K4c]). *)
Definition step_name_extra : str := s ".-:+,=~!%^&|{}[];<>?` '@#".
Definition step_name_charb (c : N) : bool :=
  isword c || existsb (N.eqb c) step_name_extra.
Definition valid_step (names : list str) (st : step) : bool :=
  negb (str_eqb (s_name st) []) && forallb step_name_charb (s_name st) &&
  match dict_get (s "cmd") (s_run st), dict_get (s "restart") (s_run st) with
  | VStr _, VStr _ => true
  | _, _ => false
  end &&
  forallb (fun d => negb (existsb (N.eqb DOLLAR) d)) (dep_list st) &&
  negb (existsb (fun n => negb (str_eqb n (s_name st)) && prefixb (n ++ [USCORE]) (s_name st)) names).
Definition valid_param (n : nat) (p : param) : bool :=
  negb (str_eqb (p_key p) []) && forallb isword (p_key p) &&
  Nat.eqb (length (p_values p)) n &&
  match p_label p with
  | LList [] => true
  | LList ls => Nat.eqb (length ls) n
  | LFmt _ => true
  end.
Definition valid_case (c : case) : bool :=
  let names := map s_name (c_steps c) in
  str_nodupb names && negb (str_mem SOURCE names) &&
  forallb (valid_step names) (c_steps c) &&
  str_nodupb (map p_key (c_params c)) &&
  (Nat.ltb 0 (nrows (c_params c)) || Nat.eqb (length (c_params c)) 0) &&
  forallb (valid_param (nrows (c_params c))) (c_params c) &&
  forallb (fun k => Nat.ltb k (length (c_steps c))) (c_order c) &&
  Nat.eqb (length (c_order c)) (length (c_steps c)) &&
  nodupb (c_order c).

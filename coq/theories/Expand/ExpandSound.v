(** C08_sound_sharing: rows that agree on the parameters a text uses give the
    same expanded text.  [Combination.apply] (model: [apply_row]) is a sequence
    of [str.replace] passes; by the core law of C09 ([SubstProofs.seq_eq_sim_gen])
    it equals the simultaneous substitution [sim] whenever the substituted
    text contains no parameter token, and [sim] only looks at the entries whose
    token occurs in the text. *)
From MWF Require Import Base.Str Base.Util Expand.PyStr Expand.PyStrProofs Expand.Expand
     Expand.ExpandProofs Expand.ExpandInv Expand.ExpandC08.
From MWF Require Expand.Subst Expand.SubstProofs.
From Coq Require Import List NArith Bool Arith Lia.
Import ListNotations.

(* ------------------------------------------------------------------------ *)
(** * The token table of one row *)
Definition lab_entry (i : nat) (p : param) : str * str := (tok_lab (p_key p), plab p i).
Definition val_entry (i : nat) (p : param) : str * str := (tok_val (p_key p), pval p i).
Definition name_entry (p : param) : str * str := (tok_name (p_key p), pname p).

Definition ptable (ps : list param) (i : nat) : Subst.table :=
  map (lab_entry i) ps ++ map (val_entry i) ps ++ map name_entry ps.

(** the substituted text contains no parameter token (the hygiene of C09's
    core law for this pass) *)
Definition no_token_left (ps : list param) (i : nat) (x : str) : bool :=
  Subst.token_free (ptable ps i) (Subst.sim (ptable ps i) x).

Lemma fold_left_map_entries {A} (g : A -> str * str) l : forall x,
  fold_left (fun t p => replace (fst (g p)) (snd (g p)) t) l x = Subst.seq (map g l) x.
Proof. unfold Subst.seq. induction l; simpl; auto. Qed.

Lemma apply_row_seq ps i x : apply_row ps i x = Subst.seq (ptable ps i) x.
Proof.
  unfold apply_row, ptable. rewrite !SubstProofs.seq_app.
  rewrite <- !fold_left_map_entries. reflexivity.
Qed.

(* ------------------------------------------------------------------------ *)
(** * The table is well formed when the keys are distinct words *)
Lemma word_is_name c : is_keychar c = true -> Subst.name_charb c = true.
Proof.
  intros H. unfold Subst.name_charb.
  destruct (N.eqb c Subst.DOLLAR) eqn:E1; [apply N.eqb_eq in E1; subst; discriminate|].
  destruct (N.eqb c Subst.LPAR) eqn:E2; [apply N.eqb_eq in E2; subst; discriminate|].
  destruct (N.eqb c Subst.RPAR) eqn:E3; [apply N.eqb_eq in E3; subst; discriminate|].
  reflexivity.
Qed.

Lemma word_key_name k suffix :
  word_key k = true -> Subst.wf_nameb suffix = true -> Subst.wf_nameb (k ++ suffix) = true.
Proof.
  unfold word_key, Subst.wf_nameb. rewrite andb_true_iff, forallb_app. intros [_ H] Hs.
  rewrite Hs, andb_true_r. rewrite forallb_forall in *. intros c Hc; apply word_is_name; auto.
Qed.

Definition sfx_lab : str := Str.s ".label".
Definition sfx_name : str := Str.s ".name".

Lemma tok_val_tok k : tok_val k = Subst.tok k.
Proof. reflexivity. Qed.
Lemma tok_lab_tok k : tok_lab k = Subst.tok (k ++ sfx_lab).
Proof. unfold tok_lab, Subst.tok. rewrite <- app_assoc. reflexivity. Qed.
Lemma tok_name_tok k : tok_name k = Subst.tok (k ++ sfx_name).
Proof. unfold tok_name, Subst.tok. rewrite <- app_assoc. reflexivity. Qed.

Lemma tok_inj a b : Subst.tok a = Subst.tok b -> a = b.
Proof. unfold Subst.tok. intros H. inversion H. apply app_inv_tail in H1; auto. Qed.

Lemma word_no_dot k : word_key k = true -> ~ In c_dot k.
Proof.
  unfold word_key. rewrite andb_true_iff, forallb_forall. intros [_ H] Hi.
  specialize (H _ Hi). discriminate.
Qed.

Lemma NoDup_app_intro {A} (a b : list A) :
  NoDup a -> NoDup b -> (forall x, In x a -> ~ In x b) -> NoDup (a ++ b).
Proof.
  induction a as [|y a IH]; simpl; auto. intros Ha Hb Hd. inversion Ha; subst.
  constructor.
  - rewrite in_app_iff. intros [H|H]; auto. apply (Hd y); auto.
  - apply IH; auto.
Qed.

Lemma NoDup_map_inj {A B} (f : A -> B) l :
  (forall x y, In x l -> In y l -> f x = f y -> x = y) -> NoDup l -> NoDup (map f l).
Proof.
  induction l as [|a l IH]; simpl; intros Hf Hn; [constructor|]. inversion Hn; subst.
  constructor.
  - intros Hi. apply in_map_iff in Hi as [y [E Hy]]. apply H1.
    rewrite (Hf a y); auto.
  - apply IH; auto.
Qed.

Lemma ptable_tokens ps i :
  Subst.tokens (ptable ps i) =
  map (fun p => Subst.tok (p_key p ++ sfx_lab)) ps
  ++ map (fun p => Subst.tok (p_key p)) ps
  ++ map (fun p => Subst.tok (p_key p ++ sfx_name)) ps.
Proof.
  unfold Subst.tokens, ptable. rewrite !map_app, !map_map. simpl.
  f_equal; [|f_equal]; apply map_ext; intros p; auto using tok_lab_tok, tok_name_tok.
Qed.

Lemma params_ok_keys ps :
  params_ok ps = true -> NoDup (keys_of ps) /\ forall p, In p ps -> word_key (p_key p) = true.
Proof.
  unfold params_ok. rewrite andb_true_iff, forallb_forall. intros [H1 H2]. split.
  - apply str_nodupb_NoDup; auto.
  - intros p Hp. specialize (H2 p Hp). rewrite !andb_true_iff in H2. tauto.
Qed.

Lemma keys_inj ps p q : NoDup (keys_of ps) -> In p ps -> In q ps -> p_key p = p_key q -> p = q.
Proof.
  unfold keys_of. induction ps as [|a ps IH]; simpl; intros Hn Hp Hq E; [contradiction|].
  inversion Hn; subst. destruct Hp as [->|Hp], Hq as [->|Hq]; auto.
  - exfalso. apply H1. rewrite E. apply in_map; auto.
  - exfalso. apply H1. rewrite <- E. apply in_map; auto.
Qed.

Lemma last_char_neq (a b : str) (x y : N) : x <> y -> a ++ [x] <> b ++ [y].
Proof. intros Hn E. apply app_inj_tail in E as [_ E]. contradiction. Qed.

Lemma ptable_wf ps i : params_ok ps = true -> SubstProofs.wf_table (ptable ps i).
Proof.
  intros Hok. destruct (params_ok_keys ps Hok) as [Hnd Hw]. split.
  - intros t Ht. rewrite ptable_tokens in Ht. rewrite !in_app_iff, !in_map_iff in Ht.
    destruct Ht as [[p [<- Hp]]|[[p [<- Hp]]|[p [<- Hp]]]].
    + exists (p_key p ++ sfx_lab). split; auto. apply word_key_name; auto.
    + exists (p_key p). split; auto. rewrite <- (app_nil_r (p_key p)). apply word_key_name; auto.
    + exists (p_key p ++ sfx_name). split; auto. apply word_key_name; auto.
  - rewrite ptable_tokens.
    assert (I1 : forall (sfx : str) p q, In p ps -> In q ps ->
                   Subst.tok (p_key p ++ sfx) = Subst.tok (p_key q ++ sfx) -> p = q).
    { intros sfx p q Hp Hq E. apply tok_inj, app_inv_tail in E. eapply keys_inj; eauto. }
    assert (Hdot : forall p q (sfx : str), In q ps -> In c_dot sfx -> p_key p ++ sfx <> p_key q).
    { intros p q sfx Hq Hd E. apply (word_no_dot (p_key q)); auto. rewrite <- E, in_app_iff; auto. }
    assert (Hps : NoDup ps) by (unfold keys_of in Hnd; eapply NoDup_map_inv; exact Hnd).
    apply NoDup_app_intro; [|apply NoDup_app_intro|].
    + apply NoDup_map_inj; [intros p q; apply I1 | exact Hps].
    + apply NoDup_map_inj; [|exact Hps].
      intros p q Hp Hq E. apply (I1 [] p q); auto. rewrite !app_nil_r; auto.
    + apply NoDup_map_inj; [intros p q; apply I1 | exact Hps].
    + intros t Ht Ht'. apply in_map_iff in Ht as [p [<- Hp]]. apply in_map_iff in Ht' as [q [E Hq]].
      apply tok_inj in E. revert E. apply Hdot; auto. simpl; auto.
    + intros t Ht Ht'. apply in_map_iff in Ht as [p [<- Hp]].
      apply in_app_iff in Ht' as [Ht'|Ht']; apply in_map_iff in Ht' as [q [E Hq]]; apply tok_inj in E.
      * symmetry in E. revert E. apply Hdot; auto. simpl; auto.
      * unfold sfx_lab, sfx_name in E.
        change (Str.s ".label") with (Str.s ".labe" ++ [108%N]) in E.
        change (Str.s ".name") with (Str.s ".nam" ++ [101%N]) in E.
        rewrite !app_assoc in E. revert E. apply last_char_neq. discriminate.
Qed.

(* ------------------------------------------------------------------------ *)
(** * A token occurring in a text makes the scanner report the key as used *)
Lemma drop_prefix_app p r : drop_prefix p (p ++ r) = Some r.
Proof. induction p; simpl; auto. rewrite N.eqb_refl; auto. Qed.

Lemma uses_key_app k a x : uses_key k x = true -> uses_key k (a ++ x) = true.
Proof. induction a; simpl; auto. intros H. rewrite IHa, orb_true_r; auto. Qed.

Lemma key_at_uses k x : key_at k x = true -> uses_key k x = true.
Proof. destruct x; simpl; [unfold key_at; simpl; discriminate|]. intros ->; auto. Qed.

Lemma occurs_tok_uses k (sfx : str) x :
  (forall b, tail_ok (sfx ++ b) = true) ->
  occurs (c_dollar :: c_lpar :: k ++ sfx) x -> uses_key k x = true.
Proof.
  intros Ht [a [b ->]]. apply uses_key_app, key_at_uses. unfold key_at.
  change (c_dollar :: c_lpar :: k) with ([c_dollar; c_lpar] ++ k).
  change ((c_dollar :: c_lpar :: k ++ sfx) ++ b) with ([c_dollar; c_lpar] ++ (k ++ sfx) ++ b).
  rewrite <- !app_assoc, app_assoc, drop_prefix_app. apply Ht.
Qed.

Lemma token_occurs_uses ps i p t x :
  In p ps -> (t = fst (lab_entry i p) \/ t = fst (val_entry i p) \/ t = fst (name_entry p)) ->
  occurs t x -> uses_key (p_key p) x = true.
Proof.
  intros _ [ -> | [ -> | -> ] ]; simpl.
  - apply (occurs_tok_uses (p_key p) (Str.s ".label)")). intros b; reflexivity.
  - apply (occurs_tok_uses (p_key p) [c_rpar]). intros b; reflexivity.
  - apply (occurs_tok_uses (p_key p) (Str.s ".name)")). intros b; reflexivity.
Qed.

(* ------------------------------------------------------------------------ *)
(** * The sub-table of the parameters in [U] *)
Definition restrict (U : list str) (ps : list param) : list param :=
  filter (fun p => str_mem (p_key p) U) ps.

Lemma find_param_In ps p : NoDup (keys_of ps) -> In p ps -> find_param ps (p_key p) = Some p.
Proof.
  unfold find_param, keys_of. induction ps as [|a ps IH]; simpl; intros Hn Hp; [contradiction|].
  inversion Hn; subst. destruct Hp as [->|Hp].
  - rewrite str_eqb_refl; auto.
  - seqb (p_key p) (p_key a); auto. exfalso. apply H1. rewrite <- E. apply in_map; auto.
Qed.

Lemma restrict_agree ps U i j :
  NoDup (keys_of ps) -> agree ps U i j = true -> ptable (restrict U ps) i = ptable (restrict U ps) j.
Proof.
  intros Hn Ha. unfold ptable. f_equal; [|f_equal]; apply map_ext_in; intros p Hp;
    apply filter_In in Hp as [Hp Hk]; apply str_mem_In in Hk;
    destruct (agree_In _ _ _ _ Ha _ Hk) as [Hv Hl];
    unfold val_of, lab_of in *; rewrite (find_param_In ps p Hn Hp) in *.
  - unfold lab_entry; rewrite Hl; auto.
  - unfold val_entry; rewrite Hv; auto.
Qed.

Lemma ptable_In ps i e :
  In e (ptable ps i) <->
  exists p, In p ps /\ (e = lab_entry i p \/ e = val_entry i p \/ e = name_entry p).
Proof.
  unfold ptable. rewrite !in_app_iff, !in_map_iff. split.
  - intros [[p [<- Hp]]|[[p [<- Hp]]|[p [<- Hp]]]]; exists p; auto.
  - intros [p [Hp [ -> | [ -> | -> ] ]]]; eauto.
Qed.

(** [apply_row] restricted to the parameters a text uses *)
Theorem apply_row_restrict ps U i x :
  params_ok ps = true ->
  (forall k, In k (keys_of ps) -> uses_key k x = true -> In k U) ->
  no_token_left ps i x = true ->
  apply_row ps i x = Subst.seq (ptable (restrict U ps) i) x
  /\ apply_row ps i x = Subst.sim (ptable ps i) x.
Proof.
  intros Hok Hu Hfree. pose proof (ptable_wf ps i Hok) as Hwf.
  split.
  - rewrite apply_row_seq.
    rewrite (SubstProofs.seq_eq_sim_gen (ptable ps i) (ptable ps i) x); auto;
      [|apply incl_refl].
    symmetry. apply SubstProofs.seq_eq_sim_gen; auto.
    + intros e He. apply ptable_In in He as [p [Hp He]]. apply filter_In in Hp as [Hp _].
      apply ptable_In; eauto.
    + intros t Ht Ho. unfold Subst.tokens in Ht. apply in_map_iff in Ht as [e [<- He]].
      apply ptable_In in He as [p [Hp He]].
      assert (Hk : In (p_key p) U).
      { apply Hu; [apply in_map; auto|]. apply (token_occurs_uses ps i p (fst e) x Hp); auto.
        destruct He as [ -> | [ -> | -> ] ]; auto. }
      unfold Subst.tokens. apply in_map. apply ptable_In. exists p. split; auto.
      apply filter_In; split; auto. apply str_mem_In; auto.
  - rewrite apply_row_seq. apply SubstProofs.seq_eq_sim_gen; auto. apply incl_refl.
Qed.

(* ------------------------------------------------------------------------ *)
(** * [sim] only looks at the entries whose token occurs in the text *)
Lemma lookup_prefix_map {A} (f v : A -> str) qs x :
  Subst.lookup_prefix (map (fun q => (f q, v q)) qs) x =
  option_map (fun q => (f q, v q)) (find (fun q => prefixb (f q) x) qs).
Proof. induction qs as [|q qs IH]; simpl; auto. destruct (prefixb (f q) x); auto. Qed.

Lemma sim_go_ext {A} (f v v' : A -> str) qs : forall x skip,
  (forall q, In q qs -> occurs (f q) x -> v q = v' q) ->
  Subst.sim_go (map (fun q => (f q, v q)) qs) x skip =
  Subst.sim_go (map (fun q => (f q, v' q)) qs) x skip.
Proof.
  induction x as [|c r IH]; intros skip H; simpl; auto.
  assert (Hr : forall q, In q qs -> occurs (f q) r -> v q = v' q).
  { intros q Hq Ho. apply H; auto. apply (occurs_app_l (f q) [c] r); auto. }
  destruct skip as [|k]; [|apply IH; auto].
  rewrite !lookup_prefix_map. destruct (find (fun q => prefixb (f q) (c :: r)) qs) as [q|] eqn:E; simpl.
  - apply find_some in E as [Hq Hp]. apply prefixb_spec in Hp.
    rewrite (H q Hq (prefix_occurs (f q) [] (c :: r) Hp)). f_equal. apply IH; auto.
  - f_equal. apply IH; auto.
Qed.

Definition pidx (ps : list param) : list (nat * param) :=
  map (pair 0%nat) ps ++ map (pair 1%nat) ps ++ map (pair 2%nat) ps.
Definition pidx_tok (q : nat * param) : str :=
  match fst q with
  | O => tok_lab (p_key (snd q))
  | S O => tok_val (p_key (snd q))
  | _ => tok_name (p_key (snd q))
  end.
Definition pidx_val (i : nat) (q : nat * param) : str :=
  match fst q with
  | O => plab (snd q) i
  | S O => pval (snd q) i
  | _ => pname (snd q)
  end.

Lemma ptable_pidx ps i : ptable ps i = map (fun q => (pidx_tok q, pidx_val i q)) (pidx ps).
Proof. unfold ptable, pidx. rewrite !map_app, !map_map. reflexivity. Qed.

Lemma sim_agree ps U i j x :
  params_ok ps = true -> agree ps U i j = true ->
  (forall k, In k (keys_of ps) -> uses_key k x = true -> In k U) ->
  Subst.sim (ptable ps i) x = Subst.sim (ptable ps j) x.
Proof.
  intros Hok Ha Hu. destruct (params_ok_keys ps Hok) as [Hnd _].
  unfold Subst.sim. rewrite !ptable_pidx. apply sim_go_ext.
  intros [n p] Hq Ho. unfold pidx in Hq. rewrite !in_app_iff, !in_map_iff in Hq.
  assert (Hp : In p ps).
  { destruct Hq as [[p' [E Hp]]|[[p' [E Hp]]|[p' [E Hp]]]]; inversion E; subst; auto. }
  assert (Hk : In (p_key p) U).
  { apply Hu; [apply in_map; auto|].
    apply (token_occurs_uses ps i p (pidx_tok (n, p)) x Hp); auto.
    unfold pidx_tok; simpl. destruct n as [|[|n]]; auto. }
  destruct (agree_In _ _ _ _ Ha _ Hk) as [Hv Hl].
  unfold val_of, lab_of in *. rewrite (find_param_In ps p Hnd Hp) in *.
  unfold pidx_val; simpl. destruct n as [|[|n]]; auto.
Qed.

Lemma no_token_left_agree ps U i j x :
  params_ok ps = true -> agree ps U i j = true ->
  (forall k, In k (keys_of ps) -> uses_key k x = true -> In k U) ->
  no_token_left ps i x = no_token_left ps j x.
Proof.
  intros Hok Ha Hu. unfold no_token_left, Subst.token_free.
  rewrite (sim_agree ps U i j x Hok Ha Hu), !ptable_tokens. reflexivity.
Qed.

(** C08_sound_sharing for one text *)
Theorem sound_sharing_text ps U i j x :
  params_ok ps = true ->
  agree ps U i j = true ->
  (forall k, In k (keys_of ps) -> uses_key k x = true -> In k U) ->
  no_token_left ps i x = true ->
  apply_row ps i x = apply_row ps j x.
Proof.
  intros Hok Ha Hu Fi.
  assert (Fj : no_token_left ps j x = true) by (rewrite <- (no_token_left_agree ps U i j x); auto).
  destruct (apply_row_restrict ps U i x Hok Hu Fi) as [-> _].
  destruct (apply_row_restrict ps U j x Hok Hu Fj) as [-> _].
  rewrite (restrict_agree ps U i j); auto. apply (params_ok_keys ps Hok).
Qed.

(** C08_sound_sharing for the fields of a staged step: rows that agree on the
    step's used parameters expand every field of the step to the same text *)
Theorem sound_sharing_fields ap san sp um g t i j x :
  hygiene sp um -> SF ap san sp um g -> params_ok (sp_params sp) = true ->
  In t (sp_steps sp) -> In x (step_texts t) ->
  agree (sp_params sp) (used_in um (s_name t)) i j = true ->
  no_token_left (sp_params sp) i x = true ->
  apply_row (sp_params sp) i x = apply_row (sp_params sp) j x.
Proof.
  intros Hh Hsf Hok Ht Hx Ha Hf.
  apply (sound_sharing_text (sp_params sp) (used_in um (s_name t))); auto.
  intros k Hk Hu. apply (used_closure ap san sp um g t k Hh Hsf Ht). split; auto.
  left. apply existsb_exists. exists x; auto.
Qed.

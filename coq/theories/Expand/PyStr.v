(** Python [str] operations used by maestrowf's substitution code, over
    [str = list N] (code points).  Executable definitions only (stdlib only);
    lemmas are in PyStrProofs.v.

    All recursions are structural over the text; [replace] and the scanners
    built on it use a *skip counter* (number of characters of an already
    matched occurrence still to be dropped) instead of fuel. *)
From MWF Require Export Base.Str.
From Coq Require Import List NArith Bool Arith.
Import ListNotations.

(** [x.startswith(p)] *)
Fixpoint prefixb (p x : str) : bool :=
  match p, x with
  | [], _ => true
  | a :: p', b :: x' => N.eqb a b && prefixb p' x'
  | _ :: _, [] => false
  end.
Definition startswith (x p : str) : bool := prefixb p x.

(** [sub in x]  (Python [in] on strings; also [x.find(sub) != -1]). *)
Fixpoint occursb (sub x : str) : bool :=
  prefixb sub x ||
  match x with
  | [] => false
  | _ :: r => occursb sub r
  end.

(** [x.find(sub)]: lowest index of an occurrence, [None] for Python's -1. *)
Fixpoint find_from (sub x : str) (i : nat) : option nat :=
  if prefixb sub x then Some i
  else match x with
       | [] => None
       | _ :: r => find_from sub r (S i)
       end.
Definition str_find (x sub : str) : option nat := find_from sub x 0.

(** [x.replace(old, new)] for non-empty [old]: scan left to right, replace
    each leftmost non-overlapping occurrence.  [skip] = characters of the
    occurrence just replaced that are still to be dropped. *)
Fixpoint replace_go (old new x : str) (skip : nat) : str :=
  match x with
  | [] => []
  | c :: r =>
      match skip with
      | S k => replace_go old new r k
      | O => if prefixb old x
             then new ++ replace_go old new r (pred (length old))
             else c :: replace_go old new r 0
      end
  end.

(** [x.replace(old, new)].  For the empty [old] CPython inserts [new] before
    every character and at the end ("abc".replace("", "-") = "-a-b-c-"); the
    case is stated for completeness, every theorem about [replace] is guarded
    by [old <> []] (maestrowf's tokens are never empty: they contain "$("). *)
Definition replace (old new x : str) : str :=
  match old with
  | [] => new ++ flat_map (fun c => c :: new) x
  | _ :: _ => replace_go old new x 0
  end.

(** [sep.join(l)] *)
Fixpoint join (sep : str) (l : list str) : str :=
  match l with
  | [] => []
  | [a] => a
  | a :: l' => a ++ sep ++ join sep l'
  end.

(** Python's [<=] on strings: lexicographic by code point (used by
    [sorted(params)]). *)
Fixpoint str_leb (a b : str) : bool :=
  match a, b with
  | [], _ => true
  | _ :: _, [] => false
  | x :: a', y :: b' => if N.eqb x y then str_leb a' b' else N.ltb x y
  end.

Fixpoint str_insert (x : str) (l : list str) : list str :=
  match l with
  | [] => [x]
  | y :: l' => if str_leb x y then x :: l else y :: str_insert x l'
  end.
(** [sorted(l)] (stable insertion sort; any correct sort gives the same list
    up to the order of equal strings, which are indistinguishable). *)
Definition str_sort (l : list str) : list str := fold_right str_insert [] l.

Definition str_mem (x : str) (l : list str) : bool := existsb (str_eqb x) l.

Fixpoint str_nodupb (l : list str) : bool :=
  match l with
  | [] => true
  | x :: l' => negb (str_mem x l') && str_nodupb l'
  end.

(** order-preserving removal of later duplicates *)
Fixpoint str_dedup_acc (seen l : list str) : list str :=
  match l with
  | [] => []
  | x :: l' => if str_mem x seen then str_dedup_acc seen l'
               else x :: str_dedup_acc (x :: seen) l'
  end.
Definition str_dedup (l : list str) : list str := str_dedup_acc [] l.

(** [x.endswith(suf)] via the reversed strings. *)
Definition endswith (x suf : str) : bool := prefixb (rev suf) (rev x).

(** maximal prefix of characters satisfying [p], and the rest *)
Fixpoint span (p : N -> bool) (x : str) : str * str :=
  match x with
  | [] => ([], [])
  | c :: r => if p c then let (a, b) := span p r in (c :: a, b) else ([], x)
  end.

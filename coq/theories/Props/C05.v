(** C05 -- the study terminates and its final verdict and exit code are truthful.

    Model: Exec/ExecBase.v, Exec/ExecGen.v (GENERATED text of the decision logic of
    maestrowf/datastructures/core/executiongraph.py; [completion_gen] is
    [_check_study_completion]), Exec/ExecRun.v ([poll] = one iteration of
    Conductor.monitor_study).  Gen/ExitCodes.v is regenerated on every run from
    abstracts/enums/__init__.py, conductor.py and maestro.py (translate/tdata_exit.py),
    so the exit-code theorem is re-checked against what the code says now.

    Vocabulary (Exec/ExecVerdict.v, Exec/ExecLive.v, Exec/ExecPoll.v):
      [all_resolved g s]   every instance is in completed, failed or cancelled
      [all_completed g s]  every instance is in completed
      [cancel_done s]      a cancel request was processed and nothing is in flight
      [aborts c p]         the poll's status query answers ERROR (and it is no dry run)
      [reach_st c g s]     s is the initial state or the state after a poll on valid
                           input that returned RUNNING (what the monitor loop can be in)
      [valid_pin s p]      the reports of the poll mention in-progress instances only, once each
      [Phi g s]            the potential: sum over unresolved x of
                           (3 waiting | 2 in the ready queue | 1 in progress)
                           + remaining restart budget (rlimit - restarts, restartable steps with a finite limit)
      [state_at .. n], [status_at .. n]  state before / status returned by poll number n of
                           the unstopped loop on an infinite input stream [ps : nat -> pin]
      [running_upto .. n]  polls 0 .. n-1 all returned RUNNING (the real loop gets to poll n)
      [delivers_terminal c s p]  query OK, not a dry run, and some report for an in-progress
                           instance is FINISHED/FAILED/TIMEDOUT/HWFAILURE/CANCELLED/UNKNOWN
      [noisy c g p]        query OK, not a dry run, and some report is HWFAILURE, or TIMEDOUT for a
                           step with a restart command and restart limit 0 (= unlimited)
    The run-time monitor family 5 of Exec/ExecTrace.v (codes 51-55, 42) is evaluated on the
    implementation's and on the model's traces by harness/props/c05.py. *)
From MWF Require Import Base.Util Exec.ExecBase Exec.ExecGen Exec.ExecRun Exec.ExecGraph Exec.ExecInv
  Exec.ExecPoll Exec.ExecVerdict Exec.ExecLive Gen.ExitCodes.
From Coq Require Import ZArith.

(* ======================================================================== *)
(** * Safety of the verdict *)

(** what [_check_study_completion] returns, for every state satisfying the state invariant
    (in particular every reachable one): FINISHED exactly when no cancel was processed and
    every instance completed; CANCELLED exactly when (cancel processed and nothing in flight) or
    (everything resolved and something was cancelled); FAILURE exactly when everything is resolved,
    nothing was cancelled, something failed; RUNNING otherwise; never the abort status; and a
    final verdict is only given when nothing is in flight. *)
Theorem C05_verdict : forall g s, Inv g s ->
  (completion_gen g s = SFINISHED <-> canceled s = false /\ all_completed g s) /\
  (completion_gen g s = SCANCELLED <-> cancel_done s \/ (all_resolved g s /\ cancelled s <> [])) /\
  (completion_gen g s = SFAILURE <-> all_resolved g s /\ cancelled s = [] /\ failed s <> [] /\ ~ cancel_done s) /\
  (completion_gen g s = SRUNNING <-> ~ cancel_done s /\ ~ all_resolved g s) /\
  completion_gen g s <> SABORT /\
  (completion_gen g s <> SRUNNING -> inprog s = []).
Proof. exact verdict_all. Qed.
Print Assumptions C05_verdict.

(** the status a poll returns is that verdict on the state it leaves behind, unless the status
    query failed (then the loop aborts) *)
Theorem C05_poll_status : forall c g s p,
  snd (poll c g s p) = if aborts c p then SABORT else completion_gen g (fst (poll c g s p)).
Proof. exact poll_status. Qed.
Print Assumptions C05_poll_status.

(** the process exit code (both entry points: `conductor` and `maestro run -fg`) is 0 exactly
    for FINISHED; FAILURE and CANCELLED give distinct non-zero codes (2 and 3); an abort is non-zero *)
Theorem C05_exit_code :
  (forall r, exit_code r = 0%Z <-> r = SFINISHED) /\
  (forall r, exit_code_conductor r = exit_code_maestro_fg r) /\
  exit_code SFAILURE <> 0%Z /\ exit_code SCANCELLED <> 0%Z /\ exit_code SFAILURE <> exit_code SCANCELLED /\
  exit_code SABORT <> 0%Z /\
  exit_code SFINISHED = 0%Z /\ exit_code SFAILURE = 2%Z /\ exit_code SCANCELLED = 3%Z.
Proof. exact exit_code_all. Qed.
Print Assumptions C05_exit_code.

(* ======================================================================== *)
(** * Liveness *)

(** every reachable state satisfies the state invariant, the throttle bound and the liveness
    invariant [LInv]: a node that left INITIALIZED is in one of the sets or the ready queue;
    [failed] (and, while no cancel was processed, [cancelled]) is closed under children;
    the dependency table only shrinks from the parents *)
Theorem C05_reachable_invariants : forall c g s, WF g -> reach_st c g s ->
  Inv g s /\ Thr c s /\ LInv g s /\ (s = init g \/ completion_gen g s = SRUNNING).
Proof. exact reach_st_inv. Qed.
Print Assumptions C05_reachable_invariants.

(** no deadlock: in a reachable RUNNING state with nothing in flight, the next poll (query not
    ERROR) strictly decreases the potential: it submits, completes or resolves at least one node *)
Theorem C05_no_deadlock : forall c g s p, WF g -> reach_st c g s -> valid_pin s p = true ->
  inprog s = [] -> completion_gen g s = SRUNNING -> aborts c p = false ->
  Phi g (fst (poll c g s p)) < Phi g s.
Proof. exact no_deadlock_reachable. Qed.
Print Assumptions C05_no_deadlock.

(** a poll without HWFAILURE / unlimited-restart TIMEDOUT reports never increases the potential,
    and strictly decreases it when it delivers a terminal report to an in-progress job or runs
    with nothing in flight *)
Theorem C05_phi_decreases : forall c g s p, WF g -> reach_st c g s -> valid_pin s p = true -> noisy c g p = false ->
  Phi g (fst (poll c g s p)) <= Phi g s /\
  (delivers_terminal c s p = true -> Phi g (fst (poll c g s p)) < Phi g s) /\
  (inprog s = [] -> completion_gen g s = SRUNNING -> aborts c p = false -> Phi g (fst (poll c g s p)) < Phi g s).
Proof. exact phi_decreases_reachable. Qed.
Print Assumptions C05_phi_decreases.

(** without any hypothesis on the state: only a delivered HWFAILURE report can make the potential grow *)
Theorem C05_phi_monotone : forall c g s p, hw_delivered c p = false -> Phi g (fst (poll c g s p)) <= Phi g s.
Proof. exact poll_phi_le. Qed.
Print Assumptions C05_phi_monotone.

(** the potential is at most 3 per instance plus its restart limit *)
Theorem C05_phi_bound : forall g s, Phi g s <= sumf (fun x => 3 + rlimit (attr g x)) (seq 0 (length g)).
Proof. exact Phi_bound. Qed.
Print Assumptions C05_phi_bound.

(** termination: from every reachable state, on every infinite input stream that -- for as long
    as the loop is running ([running_upto n]: polls 0..n-1 all returned RUNNING) -- is valid, free
    of query errors and fair (whenever something is in flight, some later poll, if the loop gets
    that far, delivers a terminal report to an in-progress job), and that is eventually quiet
    (finitely many polls with HWFAILURE reports or TIMEDOUT reports for unlimited-restart steps):
    some poll returns a status other than RUNNING -- the monitor loop stops *)
Theorem C05_terminates : forall c g s (ps : nat -> pin), WF g -> reach_st c g s ->
  (forall n, running_upto c g s ps n -> valid_pin (state_at c g s ps n) (ps n) = true) ->
  (forall n, running_upto c g s ps n -> aborts c (ps n) = false) ->
  (forall n, running_upto c g s ps n -> inprog (state_at c g s ps n) <> [] ->
             exists m, n <= m /\
               (running_upto c g s ps m -> delivers_terminal c (state_at c g s ps m) (ps m) = true)) ->
  (exists N, forall m, N <= m -> noisy c g (ps m) = false) ->
  exists n, status_at c g s ps n <> SRUNNING.
Proof. exact terminates_reachable. Qed.
Print Assumptions C05_terminates.

(** quantitative form: while the loop runs on quiet input, the number of productive polls
    (nothing in flight, or a terminal report delivered) is at most the potential used up,
    hence at most Phi of the starting state *)
Theorem C05_productive_bound : forall c g s (ps : nat -> pin) n, WF g -> reach_st c g s ->
  completion_gen g s = SRUNNING ->
  (forall k, running_upto c g s ps k -> valid_pin (state_at c g s ps k) (ps k) = true) ->
  (forall k, running_upto c g s ps k -> aborts c (ps k) = false) ->
  (forall m, m < n -> noisy c g (ps m) = false /\ status_at c g s ps m = SRUNNING) ->
  count_productive c g s ps n + Phi g (state_at c g s ps n) <= Phi g s.
Proof. exact productive_bound_reachable. Qed.
Print Assumptions C05_productive_bound.

(** the unstopped stream is the model's [run_states] for as long as the loop runs *)
Theorem C05_stream_is_run : forall c g n s (ps : nat -> pin),
  (forall k, k < n -> status_at c g s ps k = SRUNNING) ->
  run_states c g s (map ps (seq 0 (S n))) =
  map (fun k => (state_at c g s ps (S k), status_at c g s ps k)) (seq 0 (S n)).
Proof. exact run_states_stream. Qed.
Print Assumptions C05_stream_is_run.

(** NOT PROVED (kept visible): C05_ran_all_enabled --
      at a termination with status FINISHED or FAILURE every instance whose parents all
      succeeded has an own ESubmit event in the trace.
    It needs the event ledger of Exec/ExecLedger.v coupled with [all_resolved]; the state-level
    half (every instance is completed or failed at such a termination, and failed/cancelled
    are closed under children) is contained in C05_verdict and C05_reachable_invariants; the
    trace-level statement is checked at run time by monitor code 55 on the implementation's
    and the model's traces. *)

(* ======================================================================== *)
(** * Non-vacuity: a concrete history satisfying every hypothesis of C05_terminates *)

(** two chained scheduled steps, throttle 1; the first suffers a hardware failure, then a timeout
    (restart 1 of 1), then finishes; the second finishes: statuses RUNNING x4, then FINISHED;
    the potential goes 7, 5, 5 (the hardware-failure poll), 4, 1, 0 *)
Example C05_ex_statuses :
  map (status_at ex_c ex_g (init ex_g) ex_ps) (seq 0 5) = [SRUNNING; SRUNNING; SRUNNING; SRUNNING; SFINISHED] /\
  map (fun n => Phi ex_g (state_at ex_c ex_g (init ex_g) ex_ps n)) (seq 0 6) = [7; 5; 5; 4; 1; 0].
Proof. exact ex_statuses. Qed.
Example C05_ex_wf : WF ex_g. Proof. exact ex_wf. Qed.
Example C05_ex_reach : reach_st ex_c ex_g (init ex_g). Proof. exact ex_reach. Qed.
Example C05_ex_valid : forall n, valid_pin (state_at ex_c ex_g (init ex_g) ex_ps n) (ex_ps n) = true.
Proof. exact ex_valid_all. Qed.
Example C05_ex_no_error : forall n, aborts ex_c (ex_ps n) = false. Proof. exact ex_no_error_all. Qed.
Example C05_ex_fair : forall n, inprog (state_at ex_c ex_g (init ex_g) ex_ps n) <> [] ->
  exists m, n <= m /\ delivers_terminal ex_c (state_at ex_c ex_g (init ex_g) ex_ps m) (ex_ps m) = true.
Proof. exact ex_fair_all. Qed.
Example C05_ex_quiet : exists N, forall m, N <= m -> noisy ex_c ex_g (ex_ps m) = false. Proof. exact ex_quiet. Qed.
Example C05_ex_noisy_prefix : noisy ex_c ex_g (ex_ps 1) = true. Proof. exact ex_not_quiet_before. Qed.
(** the theorem applied to this history *)
Example C05_ex_terminates : exists n, status_at ex_c ex_g (init ex_g) ex_ps n <> SRUNNING.
Proof. exact ex_terminates. Qed.
Example C05_ex_exit : exit_code (status_at ex_c ex_g (init ex_g) ex_ps 4) = 0%Z. Proof. vm_compute; reflexivity. Qed.

(** C16 -- scheduler output is interpreted per job id and never over-claims. *)
From MWF Require Import Base.Str Gen.SchedTables Sched.Manuals Sched.Parse Sched.ParseProofs.

Theorem C16_only_success_slurm : forall c, slurm_state c = FINISHED -> In c slurm_success.
Proof. exact slurm_only_success. Qed.
Print Assumptions C16_only_success_slurm.

(** C16 -- scheduler output is interpreted per job id and never over-claims.

    Model: Sched/Parse.v (check_jobs of the Slurm and LSF adapters, the three
    _state tables; tables / column indices / offsets / return-code maps are
    regenerated from /repo's source into Gen/SchedTables.v on every run, so every
    theorem below is re-checked against what the code says now).
    Specification side: Sched/Manuals.v (alive / success codes copied from the
    schedulers' manuals), the printers [print_squeue] / [print_sacct] /
    [print_bjobs] with their well-formedness predicates, and [last_state]:
    the state field of the LAST row whose id field EQUALS the queried id.
    The monitors [C16_ok_slurm] / [C16_ok_lsf] / [C16_ok_flux] (through
    [slurm_mon_ok] / [lsf_mon_ok] / [flux_mon_ok]) are what harness/props/c16.py
    evaluates, inside Coq, on the answers of the IMPLEMENTATION. *)
From MWF Require Import Base.Str Gen.SchedTables Sched.Manuals Sched.Parse Sched.ParseProofs
     Sched.ParseDict Sched.ParseSlurm Sched.ParseLsf Sched.ParseC16 Sched.ParseEngine.

(* ======================================================================== *)
(** * State tables *)

(** only the scheduler's success code is ever mapped to FINISHED *)
Theorem C16_only_success_slurm : forall c, slurm_state c = FINISHED -> In c slurm_success.
Proof. exact slurm_only_success. Qed.
Print Assumptions C16_only_success_slurm.

Theorem C16_only_success :
  (forall c, slurm_state c = FINISHED -> In c slurm_success) /\
  (forall c, lsf_state c = FINISHED -> In c lsf_success) /\
  (forall c, flux_state c = FINISHED -> In c flux_success) /\
  (* every flux interface version of /repo *)
  (forall v t d c, In (v, (t, d)) flux_tables -> lookup_state t d c = FINISHED -> In c flux_success).
Proof. exact only_success_all. Qed.
Print Assumptions C16_only_success.

(** a state code the manuals document as "job still alive" is never mapped to a
    state that makes the execution graph stop tracking (or restart) the step *)
Theorem C16_alive_not_terminal :
  (forall c, In c slurm_alive ->
     ~ In (slurm_state c) [FINISHED; FAILED; TIMEDOUT; HWFAILURE; CANCELLED; UNKNOWN]) /\
  (forall c, In c lsf_alive ->
     ~ In (lsf_state c) [FINISHED; FAILED; TIMEDOUT; HWFAILURE; CANCELLED; UNKNOWN]) /\
  (forall c, In c flux_alive ->
     ~ In (flux_state c) [FINISHED; FAILED; TIMEDOUT; HWFAILURE; CANCELLED; UNKNOWN]) /\
  (forall v t d c, In (v, (t, d)) flux_tables -> In c flux_alive ->
     ~ In (lookup_state t d c) [FINISHED; FAILED; TIMEDOUT; HWFAILURE; CANCELLED; UNKNOWN]).
Proof. exact alive_not_terminal_all. Qed.
Print Assumptions C16_alive_not_terminal.

(** the lists are not vacuous: the success codes do map to FINISHED *)
Example C16_success_maps_finished :
  forallb (fun c => State_eqb (slurm_state c) FINISHED) slurm_success
  && forallb (fun c => State_eqb (lsf_state c) FINISHED) lsf_success
  && forallb (fun c => State_eqb (flux_state c) FINISHED) flux_success = true.
Proof. exact success_maps_finished. Qed.

(** LSF: the adapter's refinement of a row's STAT by its exit reason
    ([lsf_effective], rules regenerated from the source) is the manual's
    ([lsf_row_code]): only EXIT is refined; EXIT + TERM_RUNLIMIT is TIMEDOUT,
    EXIT + TERM_OWNER is CANCELLED, any other EXIT is FAILED *)
Theorem C16_lsf_exit_refinement : forall stat reason,
  lsf_effective stat reason = lsf_row_code stat reason /\
  (stat <> s "EXIT" -> lsf_row_code stat reason = stat) /\
  lsf_state (lsf_row_code (s "EXIT") reason) =
    (if contains lsf_term_runlimit reason then TIMEDOUT
     else if contains lsf_term_owner reason then CANCELLED
     else FAILED).
Proof. exact lsf_row_code_spec. Qed.
Print Assumptions C16_lsf_exit_refinement.

(* ======================================================================== *)
(** * Return codes -- for ANY output text, well-formed or not *)

(** a query command that exits non-zero contributes a code other than OK and
    leaves the dictionary untouched (squeue, sacct); LSF's check_jobs then
    returns that code with every queried id at None; whenever LSF's code is
    not OK no entry of the dictionary is a state *)
Theorem C16_rc :
  (forall st out rc, rc <> 0%Z ->
     exists c, squeue_query st out rc = Some (c, st) /\ c <> JS_OK) /\
  (forall st out rc, rc <> 0%Z ->
     exists c, sacct_query st out rc = Some (c, st) /\ c <> JS_OK) /\
  (forall jl out rc code st, lsf_check_jobs jl out rc = Ret code st ->
     (rc <> 0%Z -> code <> JS_OK /\ st = init_status jl) /\
     (code <> JS_OK -> forall j v, In (j, v) st -> v = None)).
Proof. exact rc_queries. Qed.
Print Assumptions C16_rc.

(** Slurm's combined code: OK only if squeue or sacct exited 0; on a non-OK
    code no entry is a state; the code is OK iff one of the commands that were
    run returned OK, NOJOBS iff all of them returned NOJOBS, ERROR otherwise *)
Theorem C16_rc_slurm : forall jl sq_out sq_rc sa_out sa_rc code st,
  slurm_check_jobs jl sq_out sq_rc sa_out sa_rc = Ret code st ->
  (code = JS_OK -> sq_rc = 0%Z \/ sa_rc = 0%Z) /\
  (code <> JS_OK -> forall j v, In (j, v) st -> v = None) /\
  exists cs,
    (cs = [code_of sq_rc_map sq_rc_default sq_rc] \/
     cs = [code_of sq_rc_map sq_rc_default sq_rc; code_of sa_rc_map sa_rc_default sa_rc]) /\
    (code = JS_OK <-> In JS_OK cs) /\
    (code = JS_NOJOBS <-> ~ In JS_OK cs /\ forall c, In c cs -> c = JS_NOJOBS) /\
    (code = JS_ERROR <-> ~ In JS_OK cs /\ exists c, In c cs /\ c <> JS_NOJOBS).
Proof. exact rc_slurm. Qed.
Print Assumptions C16_rc_slurm.

(* ======================================================================== *)
(** * The specification function [last_state] *)

(** [last_state ps j = Some c]: the rows are [a ++ (j, c) :: b] and no row of
    [b] has id [j];  [None]: no row has id [j] *)
Theorem C16_last_state_some : forall ps j c,
  last_state ps j = Some c <->
  exists a b, ps = a ++ (j, c) :: b /\ forall p, In p b -> fst p <> j.
Proof. exact last_state_some. Qed.
Print Assumptions C16_last_state_some.

Theorem C16_last_state_none : forall ps j,
  last_state ps j = None <-> (forall p, In p ps -> fst p <> j).
Proof. exact last_state_none. Qed.
Print Assumptions C16_last_state_none.

(** rows of other ids (prefixes, extensions, job steps, other users' jobs)
    never influence the answer for [j] *)
Theorem C16_other_rows_irrelevant : forall a b i c j,
  i <> j -> last_state (a ++ (i, c) :: b) j = last_state (a ++ b) j.
Proof. exact last_state_other_row. Qed.
Print Assumptions C16_other_rows_irrelevant.

(* ======================================================================== *)
(** * Printer / parser round trips -- every table, every queried id list

    [wf_squeue] / [wf_sacct] / [wf_bjobs] (Sched/Parse.v) are the explicit
    conditions on the fields: a token is non-empty and contains no white space
    (hence no newline); padding is white space other than newline, of any
    width (at least one character between two tokens); a bjobs field contains
    neither '|' nor newline and no white space at either end, the id field is
    non-empty; blank / short lines are allowed anywhere; header lines contain
    no newline.  [wf_joblist]: no queried id is the empty string. *)

(** squeue: for every queried id the state of the last row whose id field
    equals it, None ("no information") if there is no such row; ids that were
    not queried are not keys *)
Theorem C16_roundtrip_squeue : forall jl t,
  wf_joblist jl = true -> wf_squeue t = true ->
  exists st,
    squeue_query (init_status jl) (print_squeue t) 0 = Some (JS_OK, st) /\
    (forall j, In j jl -> get st j = Some (option_map slurm_state (last_state (sq_pairs t) j))) /\
    (forall j, ~ In j jl -> get st j = None).
Proof. exact roundtrip_squeue. Qed.
Print Assumptions C16_roundtrip_squeue.

Theorem C16_roundtrip_sacct : forall jl t,
  wf_joblist jl = true -> wf_sacct t = true ->
  exists st,
    sacct_query (init_status jl) (print_sacct t) 0 = Some (JS_OK, st) /\
    (forall j, In j jl -> get st j = Some (option_map slurm_state (last_state (sa_pairs t) j))) /\
    (forall j, ~ In j jl -> get st j = None).
Proof. exact roundtrip_sacct. Qed.
Print Assumptions C16_roundtrip_sacct.

(** Slurm's check_jobs, any exit codes: the rows it gets to see are squeue's
    (if squeue exited 0) followed -- only if some queried id is still without
    a row -- by sacct's (if sacct exited 0); sacct is started in exactly that
    case (second component = number of commands started); never an exception *)
Theorem C16_roundtrip_slurm : forall jl sq sq_rc sa sa_rc,
  wf_joblist jl = true -> wf_squeue sq = true -> wf_sacct sa = true ->
  exists code st,
    slurm_run jl (print_squeue sq) sq_rc (print_sacct sa) sa_rc
      = (Ret code st, if slurm_missing jl sq sq_rc then 2 else 1) /\
    (forall j, In j jl ->
       get st j = Some (option_map slurm_state (last_state (slurm_seen jl sq sq_rc sa sa_rc) j))) /\
    (forall j, ~ In j jl -> get st j = None).
Proof. exact roundtrip_slurm. Qed.
Print Assumptions C16_roundtrip_slurm.

Theorem C16_slurm_seen_zero : forall jl sq sa,
  slurm_missing jl sq 0 = existsb (fun j => is_none (last_state (sq_pairs sq) j)) jl /\
  slurm_seen jl sq 0 sa 0 = sq_pairs sq ++ (if slurm_missing jl sq 0 then sa_pairs sa else []).
Proof. exact slurm_seen_zero. Qed.
Print Assumptions C16_slurm_seen_zero.

(** bjobs: the state code of a row is its STAT field, EXIT refined by the
    exit reason as the manual says ([bj_pairs] = rows of [C16_bjobs_row_code],
    [lsf_row_code], [C16_lsf_exit_refinement]) *)
Theorem C16_roundtrip_bjobs : forall jl t,
  wf_joblist jl = true -> wf_bjobs t = true -> lsf_nojob (print_bjobs t) = false ->
  exists st,
    lsf_check_jobs jl (print_bjobs t) 0 = Ret JS_OK st /\
    (forall j, In j jl -> get st j = Some (option_map lsf_state (last_state (bj_pairs t) j))) /\
    (forall j, ~ In j jl -> get st j = None).
Proof. exact roundtrip_bjobs. Qed.
Print Assumptions C16_roundtrip_bjobs.

Theorem C16_bjobs_row_code : forall r,
  bj_pair (BjRow r) = [(lf_text (b_id r), lsf_row_code (lf_text (b_stat r)) (lf_text (b_reason r)))].
Proof. exact bj_pair_row. Qed.
Print Assumptions C16_bjobs_row_code.

(** output starting with "No<white space>" ("No unfinished job found"): NOJOBS, no states *)
Theorem C16_bjobs_nojob : forall jl t,
  wf_joblist jl = true -> wf_bjobs t = true -> lsf_nojob (print_bjobs t) = true ->
  lsf_check_jobs jl (print_bjobs t) 0 = Ret JS_NOJOBS [].
Proof. exact bjobs_nojob. Qed.
Print Assumptions C16_bjobs_nojob.

(* ======================================================================== *)
(** * The monitors hold of the model on every input

    [C16_ok_slurm jl sq sq_rc sa sa_rc obs] / [C16_ok_lsf jl t rc obs] say of an
    answer [obs]: no exception; OK only if a command that was run exited 0,
    otherwise every entry is None; the code obeys the combination rule; every
    queried id has exactly the [last_state] answer and nothing else is a key; an
    id whose row carries an alive code has a non-terminal state; FINISHED only
    for a row carrying the success code. *)
Theorem C16_monitor_slurm : forall jl sq sq_rc sa sa_rc,
  wf_joblist jl = true -> wf_squeue sq = true -> wf_sacct sa = true ->
  C16_ok_slurm jl sq sq_rc sa sa_rc
    (slurm_check_jobs jl (print_squeue sq) sq_rc (print_sacct sa) sa_rc) = true.
Proof. exact slurm_monitor. Qed.
Print Assumptions C16_monitor_slurm.

Theorem C16_monitor_lsf : forall jl t rc,
  wf_joblist jl = true -> wf_bjobs t = true ->
  C16_ok_lsf jl t rc (lsf_check_jobs jl (print_bjobs t) rc) = true.
Proof. exact lsf_monitor. Qed.
Print Assumptions C16_monitor_lsf.

Theorem C16_monitor_flux : forall v t d code,
  In (v, (t, d)) flux_tables -> C16_ok_flux code (lookup_state t d code) = true.
Proof. exact flux_monitor_all. Qed.
Print Assumptions C16_monitor_flux.

(** exactly the boolean functions the correspondence run applies to the
    implementation's answers, here applied to the model's *)
Theorem C16_monitors_as_run :
  (forall jl sq sq_rc k1 sa sa_rc k2,
     slurm_mon_ok (jl, (sq, sq_rc, k1), (sa, sa_rc, k2),
                   slurm_run jl (print_squeue sq) sq_rc (print_sacct sa) sa_rc) = true) /\
  (forall jl t rc k, lsf_mon_ok (jl, (t, rc, k), lsf_check_jobs jl (print_bjobs t) rc) = true) /\
  (forall ver code, flux_mon_ok (ver, code, flux_state code) = true).
Proof. exact (conj slurm_mon_model (conj lsf_mon_model flux_mon_model)). Qed.
Print Assumptions C16_monitors_as_run.

(* ======================================================================== *)
(** * The engine's layer: ExecutionGraph.check_study_status

    [jm] maps the queried job ids (last job id of every in-progress step) to
    step names; [step_table jm st] is the code's
    [{jobmap[jobid]: status for jobid, status in job_status.items()}] applied to
    the adapter's table [st] (None = KeyError).  [jobmap_inj]: no two jobs
    belong to the same step. *)

(** a step whose job the adapter's table does not mention -- no key at all, or
    None -- comes back WITHOUT a state (absent or None), never as a state *)
Theorem C16_engine_absent : forall jm st tbl j step,
  jobmap_inj jm -> step_table jm st = Some tbl -> assoc_step jm j = Some step ->
  (get st j = None \/ get st j = Some None) ->
  get tbl step = None \/ get tbl step = Some None.
Proof. exact engine_absent. Qed.
Print Assumptions C16_engine_absent.

(** a step whose job the table holds a state for comes back with exactly that state *)
Theorem C16_engine_present : forall jm st tbl j step x,
  jobmap_inj jm -> step_table jm st = Some tbl -> assoc_step jm j = Some step ->
  get st j = Some (Some x) -> get tbl step = Some (Some x).
Proof. exact engine_present. Qed.
Print Assumptions C16_engine_present.

(** composed with Slurm's check_jobs: a queried job without a row in what
    squeue / sacct printed leaves its step with None *)
Theorem C16_engine_slurm_absent : forall jm sq sq_rc sa sa_rc code st tbl j step,
  jobmap_inj jm -> wf_joblist (map fst jm) = true -> wf_squeue sq = true -> wf_sacct sa = true ->
  slurm_check_jobs (map fst jm) (print_squeue sq) sq_rc (print_sacct sa) sa_rc = Ret code st ->
  step_table jm st = Some tbl -> assoc_step jm j = Some step ->
  last_state (slurm_seen (map fst jm) sq sq_rc sa sa_rc) j = None ->
  get tbl step = Some None.
Proof. exact engine_slurm_absent. Qed.
Print Assumptions C16_engine_slurm_absent.

(** the monitor of the engine layer ([C16_ok_engine], through [engine_mon_ok] what
    harness/props/c16_engine.py evaluates on what the REAL check_study_status
    returned) holds of the model; [wf_jobmap] (distinct ids, distinct steps)
    gives [jobmap_inj] *)
Theorem C16_monitor_engine :
  (forall jm code st tbl, jobmap_inj jm -> step_table jm st = Some tbl ->
     C16_ok_engine jm code st (Ret code tbl) = true) /\
  (forall jm, wf_jobmap jm = true -> jobmap_inj jm) /\
  (forall jm code st, engine_mon_ok (jm, (code, st), engine_run jm code st) = true).
Proof. exact (conj engine_monitor (conj wf_jobmap_inj engine_mon_model)). Qed.
Print Assumptions C16_monitor_engine.

Example C16_example_engine :
  wf_jobmap ex_jobmap = true /\
  engine_run ex_jobmap JS_OK [kv (s "12") CANCELLED; kv (s "123") FINISHING; kn (s "9")]
  = Ret JS_OK [kv (s "sim") CANCELLED; kv (s "post") FINISHING; kn (s "late")] /\
  engine_run ex_jobmap JS_OK [kv (s "123") FINISHING]
  = Ret JS_OK [kv (s "post") FINISHING].
Proof. exact ex_engine. Qed.

(* ======================================================================== *)
(** * Non-vacuity: the hypotheses are satisfiable -- ids that are prefixes of
      one another (12, 123, 1234), another user's job, a job-step row
      (12.batch), a truncated CANCELLED+, blank lines, padding *)
Example C16_example_wf :
  wf_joblist ex_jl && wf_squeue ex_sq && wf_sacct ex_sa && wf_bjobs ex_bj
  && negb (lsf_nojob (print_bjobs ex_bj)) = true.
Proof. vm_compute; reflexivity. Qed.

Example C16_example_slurm :
  slurm_run ex_jl (print_squeue ex_sq) 0 (print_sacct ex_sa) 0
  = (Ret JS_OK [kv (s "12") CANCELLED; kv (s "123") FINISHING; kn (s "9")], 2).
Proof. vm_compute; reflexivity. Qed.

Example C16_example_lsf :
  lsf_check_jobs ex_jl (print_bjobs ex_bj) 0
  = Ret JS_OK [kv (s "12") RUNNING; kv (s "123") TIMEDOUT; kn (s "9")].
Proof. vm_compute; reflexivity. Qed.

(** C04 -- one live job per step; resolved steps stay resolved; no orphans.

    Model and monitor as in Props/C01.v (Exec/ExecGen.v REGENERATED from /repo on
    every run; Exec/ExecTrace.v evaluated, inside Coq, on the IMPLEMENTATION's
    trace by harness/props/c04.py).  Ledger: live (node, job) pairs; succeeded
    nodes; nodes that ended unsuccessfully; the rows after the previous poll.
      code 4   a successful submission for a node that has a live job;
      code 41  a successful submission for a node that has succeeded;
      code 40  check_jobs queried a set of job ids other than the live set
               (each tracked step = its latest job, nothing else);
      code 42  FINISHED / FAILURE / CANCELLED returned while a job is live (orphan);
      code 43  any submit call (main or restart, whatever its outcome) for a node
               whose row was FINISHED / DRYRUN / FAILED / CANCELLED after the
               previous poll, or that ended unsuccessfully (own FAILED / UNKNOWN /
               CANCELLED report, TIMEDOUT without a successful restart in that
               poll, exhausted submission attempts);
      code 44  a row that was FINISHED (DRYRUN) after the previous poll is not
               FINISHED (DRYRUN) now; a row that was FAILED or CANCELLED is now
               something other than FAILED / CANCELLED;
      code 46  a node that succeeded whose row is not FINISHED;
      code 47  a row FINISHED for a node that has not succeeded.
    [prop_ok 4] = none of them occurs.  Hypotheses as in C01. *)
From MWF Require Import Exec.ExecBase Exec.ExecGen Exec.ExecRun Exec.ExecTrace
     Exec.ExecLedger Exec.ExecLedger2 Exec.ExecLedger3 Exec.ExecLedger6 Exec.ExecLedger8 Exec.ExecLedgerEx.

Theorem C04 : forall c g ps,
  wf_graph g = true -> valid_run c g (init g) ps = true ->
  prop_ok 4 c g ps (run c g (init g) ps) = true.
Proof. exact C04_holds. Qed.
Print Assumptions C04.

(** at most one live job per step, at every event; the queried set is the live set *)
Theorem C04_one_live : forall c g ps,
  wf_graph g = true -> valid_run c g (init g) ps = true ->
  ~ In 4 (viol_of c g ps (run c g (init g) ps)) /\ ~ In 40 (viol_of c g ps (run c g (init g) ps)).
Proof.
  exact (fun c g ps Hw V => conj (code_silent c g ps 4 Hw V ltac:(cbn; tauto))
                                 (code_silent c g ps 40 Hw V ltac:(cbn; tauto))).
Qed.
Print Assumptions C04_one_live.

(** resolved stays resolved: no submit call for a step that succeeded, failed or
    was cancelled; resolved rows keep their kind; FINISHED rows = succeeded steps *)
Theorem C04_stable : forall c g ps,
  wf_graph g = true -> valid_run c g (init g) ps = true ->
  forall k, In k [41; 43; 44; 46; 47] -> ~ In k (viol_of c g ps (run c g (init g) ps)).
Proof.
  exact (fun c g ps Hw V k Hk => code_silent_Y c g ps k Hw V ltac:(cbn in *; intuition (subst; auto 30))).
Qed.
Print Assumptions C04_stable.

(** no live job when a final study status is returned *)
Theorem C04_no_orphans : forall c g ps,
  wf_graph g = true -> valid_run c g (init g) ps = true ->
  ~ In 42 (viol_of c g ps (run c g (init g) ps)).
Proof. exact (fun c g ps Hw V => code_silent c g ps 42 Hw V ltac:(cbn; tauto)). Qed.
Print Assumptions C04_no_orphans.

(** completed, in-progress, ready and failed/cancelled are pairwise disjoint after every poll *)
Theorem C04_partition : forall c g ps s r,
  wf_graph g = true -> valid_run c g (init g) ps = true ->
  In (s, r) (run_states c g (init g) ps) ->
  (forall x, In x (completed s) -> ~ In x (inprog s)) /\
  (forall x, In x (completed s) -> ~ In x (ready s)) /\
  (forall x, In x (inprog s) -> ~ In x (ready s)) /\
  (forall x, In x (failed s) \/ In x (cancelled s) ->
             ~ In x (completed s) /\ ~ In x (inprog s) /\ ~ In x (ready s)) /\
  NoDup (inprog s) /\ NoDup (ready s).
Proof. exact C04_states. Qed.
Print Assumptions C04_partition.

(** Non-vacuity *)
Example C04_example :
  wf_graph ex_g && valid_run ex_c ex_g (init ex_g) ex_ps
  && Nat.eqb (n_submits (run ex_c ex_g (init ex_g) ex_ps)) 5
  && sstatus_eqb (last_status (run ex_c ex_g (init ex_g) ex_ps)) SFINISHED = true.
Proof. vm_compute; reflexivity. Qed.

(** the monitor rejects a job for a finished step, and a final status with a live job *)
Example C04_monitor_rejects :
  prop_ok 4 ex_c0 ex_g ex_ps0 ex_bad_obs_resubmit = false /\
  prop_ok 4 ex_c0 ex_g ex_ps0 ex_bad_obs_orphan = false.
Proof. split; vm_compute; reflexivity. Qed.

(** C18 -- the study handed from `maestro run` to the conductor is the same
    study; the snapshot written after each poll shows the same step states as
    the status file.

    PARTIAL BY NATURE.  The hand-off serialises the whole object graph with
    dill.  Whether [load (store D) = D] holds for a given study is runtime
    behaviour of dill / CPython that no model exhibits: it is the NAMED
    PREMISE of [C18_stage_function] and is exercised on every run by
    harness/props/c18.py (real store_study / store_batch in one process, real
    load_study / load_batch + stage in a fresh process, for generated studies
    incl. custom-generator tables with int/float/str/bool values and local /
    slurm / lsf / flux batch blocks; the snapshot of every poll of generated
    execution histories is re-loaded in a fresh process and compared with the
    status.csv of the same poll).  [C18_lossy_codec_refutes] shows the premise
    is not idle.  What IS proved: staging depends on nothing but the handed-over
    data (not even on the set-iteration order of the process that stages); the
    order of the hand-off calls in run_study guarantees that what is on disk is
    what the in-memory staging consumed; the two files written by one iteration
    of the monitor loop are projections of one and the same state.  The two
    call orders are read from the SOURCE TEXT of maestro.py / conductor.py with
    `ast` on every run and judged by the boolean checkers [handoff_ok] /
    [c18_body_case] the theorems below are about. *)
From MWF Require Import Base.Str Base.Util Expand.PyStr Expand.Expand Expand.ExpandProofs.
From MWF Require Import Handoff.Handoff Handoff.HandoffProofs.
From MWF Require Import Exec.ExecBase Exec.ExecGen Exec.ExecRun Handoff.Snapshot Handoff.SnapshotProofs.

(** The conductor process (any serialisation [store]/[load] that returns the
    stored data, own set-iteration order [pi']) obtains exactly the execution
    graph, configuration and batch block the `maestro run` process (order [pi])
    stages from the in-memory study. *)
Theorem C18_stage_function :
  forall (B : Type) (store : D -> B) (load : B -> option D) (pi pi' : an_oracle) (d : D),
    perm_oracle pi -> perm_oracle pi' ->
    load (store d) = Some d ->
    via_conductor store load pi' d = Some (stage_of pi d).
Proof. exact stage_function. Qed.
Print Assumptions C18_stage_function.

(** It suffices that the round trip preserves the fields staging reads. *)
Theorem C18_stage_fieldwise :
  forall (pi pi' : an_oracle) (d d' : D),
    perm_oracle pi -> perm_oracle pi' ->
    d_spec d' = d_spec d -> d_throttle d' = d_throttle d -> d_attempts d' = d_attempts d ->
    d_dry d' = d_dry d -> d_batch d' = d_batch d ->
    stage_of pi' d' = stage_of pi d.
Proof. exact stage_fieldwise. Qed.
Print Assumptions C18_stage_fieldwise.

(** The premise of C18_stage_function is not idle: a codec that loses one
    parameter row makes the conductor stage a different graph. *)
Theorem C18_lossy_codec_refutes :
  lossy_load ex_D <> Some ex_D /\
  via_conductor (fun d => d) lossy_load pi_id ex_D <> Some (stage_of pi_id ex_D).
Proof. exact lossy_codec_differs. Qed.
Print Assumptions C18_lossy_codec_refutes.

(** Order of the hand-off calls.  For every call sequence accepted by
    [handoff_ok] (store_study and store_batch before any staging / launch; no
    other call on the study between its store and its staging; staged at most
    once, never stored again), whatever the unknown calls ([mu]) and staging
    itself ([smu]) do to the study object: every graph staged in the `maestro
    run` process is the staging of the data that is on disk, and every launched
    conductor finds that data and the batch block on disk. *)
Theorem C18_store_before_stage :
  forall (mu smu : D -> D) (pi : an_oracle) (acts : list haction) (d : D),
    handoff_ok acts = true ->
    let h := hrun mu smu pi acts d in
    match h_disk h with
    | Some ds => Forall (fun g => g = stage_of pi ds) (h_staged h) /\
                 Forall (fun l => l = (Some ds, true)) (h_launched h)
    | None => h_staged h = [] /\ h_launched h = []
    end.
Proof. exact store_before_stage. Qed.
Print Assumptions C18_store_before_stage.

(** Both paths of run_study as they are now are accepted. *)
Theorem C18_run_study_order_ok :
  handoff_ok the_handoff_fg = true /\ handoff_ok the_handoff_detached = true.
Proof. exact the_handoff_ok. Qed.
Print Assumptions C18_run_study_order_ok.

(** Snapshot = status file.  Over the whole monitor loop of the Exec model
    (all graphs, configurations, start states and poll-input sequences): the
    k-th iteration leaves exactly the k-th reachable state [run_states] in the
    snapshot, and the status rows written in the same iteration are the rows of
    that very state -- no transition in between. *)
Theorem C18_snapshot_eq_status :
  forall (mu : st -> st) (c : cfg) (g : graph) (s : st) (ps : list pin),
    let ms := monitor mu c g the_body s ps in
    map (fun m => (m_st m, m_ret m)) ms = run_states c g s ps /\
    Forall (fun m => exists sk, m_pkl m = Some sk /\ m_csv m = Some (rows_of sk) /\ sk = m_st m) ms.
Proof. exact snapshot_eq_status. Qed.
Print Assumptions C18_snapshot_eq_status.

(** The same for ANY loop body accepted by the checker the harness evaluates on
    the call sequence extracted from conductor.py: the rows a reader of the
    snapshot computes are the rows in status.csv, after every iteration. *)
Theorem C18_snapshot_rows_any_body :
  forall (mu : st -> st) (c : cfg) (g : graph) (b : list maction) (s : st) (ps : list pin),
    c18_body_case b = true ->
    Forall (fun m => option_map rows_of (m_pkl m) = m_csv m) (monitor mu c g b s ps) /\
    map (fun m => (m_st m, m_ret m)) (monitor mu c g b s ps) = run_states c g s ps.
Proof. exact snapshot_rows_any_body. Qed.
Print Assumptions C18_snapshot_rows_any_body.

(** ---- non-vacuity -------------------------------------------------------- *)
(* a parameterised study with a funnel stages to 4 nodes; the identity codec
   satisfies the premises with two different iteration orders *)
Example C18_ex_stage_nontrivial : n_instances (stage_of pi_id ex_D) = 4.
Proof. vm_compute; reflexivity. Qed.
Example C18_ex_stage_function :
  via_conductor (fun d => d) (fun d => Some d) pi_rev ex_D = Some (stage_of pi_id ex_D).
Proof. exact (C18_stage_function D (fun d => d) (fun d => Some d) pi_id pi_rev ex_D perm_oracle_id perm_oracle_rev eq_refl). Qed.
(* the current loop body passes the checker; a body that touches the graph between the writes does not *)
Example C18_ex_body_ok : c18_body_case the_body = true.
Proof. vm_compute; reflexivity. Qed.
Example C18_ex_bad_body : body_ok [MCancel; MExec; MPickle; MMutate; MStatus] = false.
Proof. vm_compute; reflexivity. Qed.
Example C18_ex_bad_handoff : handoff_ok [HStage; HStoreStudy; HStoreBatch; HLaunch] = false.
Proof. vm_compute; reflexivity. Qed.
(* a three-poll history: snapshots and status files of a scheduled step followed by a local one *)
Example C18_ex_monitor :
  map (fun m => (m_ret m, m_csv m)) ex_monitor =
  [(SRUNNING, Some [(PENDING, [0], 0); (INITIALIZED, [], 0)]);
   (SRUNNING, Some [(RUNNING, [0], 0); (INITIALIZED, [], 0)]);
   (SFINISHED, Some [(FINISHED, [0], 0); (FINISHED, [1], 0)])].
Proof. vm_compute; reflexivity. Qed.

(** C02 -- failure and cancellation stop exactly the dependent sub-graph.

    Model: Exec/ExecBase.v (state, combinators), Exec/ExecGen.v (the decision logic of
    executiongraph.py, REGENERATED from /repo's source on every run), Exec/ExecRun.v ([poll] =
    one iteration of Conductor.monitor_study).  Vocabulary:
      run_trace c g (init g) ps   the polls of a run: per poll an [entry] with the state before
                                  ([e_pre]), the poll input ([e_pin]: cancel request, query code,
                                  reports, submission outcomes), the state after ([e_post]; its [evs]
                                  are the adapter calls of THIS poll, its records are the status rows)
                                  and the returned study status.  [run_trace_obs]: it projects to the
                                  observations [run] compares with the implementation.
      FC s y                      y is in failed_steps or cancelled_steps of state s
      reach g u d                 d is u or a descendant of u along the children table
      rown s' done w              w has an own cause in this poll: an unsuccessful report (FAILED /
                                  UNKNOWN / CANCELLED / TIMEDOUT) among the dispatched reports
                                  [done], or a failed submission event [ESubmit w _ _ None] in [evs s']
      popped g s' y               y was popped from the ready queue after a cancel request: the
                                  study is canceled, y is cancelled, all its parents completed.
    Hypotheses: [wf_graph g] (parents precede children, the two adjacency tables agree -- checked on
    every generated case); [valid_pins]: the reports of every poll mention only steps that are in
    progress, each at most once.  Any throttle, attempts, dry-run flag, restart limits, submission
    outcomes, query codes, lost/unknown/repeated reports, cancel requests anywhere.

    Monitor codes (Exec/ExecTrace.v, family 2, checked at run time on the implementation's and on
    the model's trace of every correspondence case):
      2   ESubmit of a descendant of a dead node      <->  C02_no_submit, C02_no_submit_same_poll
      21  descendants' rows FAILED/CANCELLED           <->  C02_marked, C02_marked_in_poll
      22  dead node's own row FAILED/CANCELLED/TIMEDOUT<->  C02_stays (st_fc), C02_marked_in_poll
      23  a FAILED/CANCELLED row has a cause            <->  C02_exact_poll, C02_exact
      24  the rest runs                                 <->  C02_rest_runs (state level).
    All five codes are PROVED silent on the model trace: C02_monitor. *)
From MWF Require Import Base.Util Exec.ExecBase Exec.ExecGen Exec.ExecRun Exec.ExecTrace Exec.ExecGraph
     Exec.ExecPoll Exec.ExecPoll2 Exec.ExecPoll3 Exec.ExecPoll4 Exec.ExecHist Exec.ExecC02 Exec.ExecMon2
     Exec.ExecC0206Ex.

(** THE MONITOR IS SILENT ON THE MODEL.  [prop_ok 2] is the predicate the correspondence run evaluates,
    inside Coq, on the IMPLEMENTATION's recorded trace of every case: none of the codes 2, 21, 22, 23,
    24 of Exec/ExecTrace.v is raised.  The monitor keeps its own ledger of "dead" nodes (own FAILED /
    UNKNOWN / CANCELLED report, TIMEDOUT not followed by a successful restart, submission attempts
    all failed) and of succeeded nodes, and checks at every adapter call and on every poll's status
    rows: no submission of a descendant of a dead node (2), every descendant's row FAILED/CANCELLED
    (21), the dead node's own row FAILED/CANCELLED/TIMEDOUT (22), every FAILED/CANCELLED row
    explained by a dead ancestor or by a cancel request (23), and at a FINISHED/FAILURE verdict every
    other node succeeded (24).  On the model's own trace this holds for every graph, configuration
    and history ([attempts >= 1] is what the ExecutionGraph constructor enforces). *)
Theorem C02_monitor : forall c g ps, wf_graph g = true -> 0 < attempts c ->
  valid_pins c g (init g) ps = true -> prop_ok 2 c g ps (run c g (init g) ps) = true.
Proof. exact C02_monitor_wf. Qed.
Print Assumptions C02_monitor.

(** The same facts, and more, stated on the states and adapter calls of the run: *)

(** Once a node is failed or cancelled at the end of a poll, neither it nor any of its
    descendants is submitted (main or restart script, scheduler or local) in any later poll. *)
Theorem C02_no_submit : forall c g ps, wf_graph g = true -> valid_pins c g (init g) ps = true ->
  forall tr1 e1 tr2 e2 tr3 u x k sc res,
  run_trace c g (init g) ps = tr1 ++ e1 :: tr2 ++ e2 :: tr3 ->
  FC (e_post e1) u -> reach g u x -> ~ In (ESubmit x k sc res) (evs (e_post e2)).
Proof. exact C02_no_submit_proof. Qed.
Print Assumptions C02_no_submit.

(** Within one poll: a node that is submitted in a poll is not a strict descendant of any node that
    is failed or cancelled at the end of that poll (so a report that kills u -- see
    C02_marked_in_poll -- excludes any submission of u's dependents in the same poll too). *)
Theorem C02_no_submit_same_poll : forall c g ps, wf_graph g = true -> valid_pins c g (init g) ps = true ->
  forall e u x k sc res, In e (run_trace c g (init g) ps) ->
  In (ESubmit x k sc res) (evs (e_post e)) -> FC (e_post e) u -> reach g u x -> u = x.
Proof. exact C02_no_submit_same_poll_proof. Qed.
Print Assumptions C02_no_submit_same_poll.

(** At the end of every poll, the whole sub-tree of a failed node -- and of a cancelled node,
    unless it was merely popped from the ready queue after a cancel request -- is in
    failed/cancelled, and every strict descendant's status row is FAILED or CANCELLED. *)
Theorem C02_marked : forall c g ps, wf_graph g = true -> valid_pins c g (init g) ps = true ->
  forall e u d, In e (run_trace c g (init g) ps) ->
  (In u (failed (e_post e)) \/
   (In u (cancelled (e_post e)) /\
    (canceled (e_post e) = false \/ ~ incl (parents (attr g u)) (completed (e_post e))))) ->
  reach g u d ->
  FC (e_post e) d /\ (u <> d -> fc_status (status (getrec (e_post e) d))).
Proof. exact C02_marked_proof. Qed.
Print Assumptions C02_marked.

(** In the very poll that delivers FAILED, UNKNOWN or CANCELLED for a step's job, the step and all
    its descendants end in failed/cancelled with status FAILED or CANCELLED. *)
Theorem C02_marked_in_poll : forall c g ps, wf_graph g = true -> valid_pins c g (init g) ps = true ->
  forall e x v d, In e (run_trace c g (init g) ps) ->
  dry c = false -> qcode (e_pin e) = QOK -> In (x, Some v) (reports (e_pin e)) ->
  v = FAILED \/ v = UNKNOWN \/ v = CANCELLED -> reach g x d ->
  FC (e_post e) d /\ fc_status (status (getrec (e_post e) d)).
Proof. exact C02_marked_in_poll_proof. Qed.
Print Assumptions C02_marked_in_poll.

(** ... and it stays so: in every later poll the node is still failed/cancelled, its row is
    FAILED, CANCELLED or TIMEDOUT, and it is neither completed nor in progress nor queued. *)
Theorem C02_stays : forall c g ps, wf_graph g = true -> valid_pins c g (init g) ps = true ->
  forall tr1 e1 tr2 e2 tr3 d,
  run_trace c g (init g) ps = tr1 ++ e1 :: tr2 ++ e2 :: tr3 ->
  FC (e_post e1) d ->
  FC (e_post e2) d /\ st_fc (status (getrec (e_post e2) d)) /\
  ~ In d (completed (e_post e2)) /\ ~ In d (inprog (e_post e2)) /\ ~ In d (ready (e_post e2)).
Proof. exact C02_stays_proof. Qed.
Print Assumptions C02_stays.

(** Nothing else is swept.  A node that is failed/cancelled after a poll was so before the poll, or
    was itself popped from the ready queue after a cancel request (all its parents completed), or
    lies in the sub-tree of a node w that got an unsuccessful report (FAILED / UNKNOWN / CANCELLED /
    TIMEDOUT, query code OK) or had a failed submission in this very poll -- and w itself is
    failed/cancelled at the end of the poll. *)
Theorem C02_exact_poll : forall c g ps, wf_graph g = true -> valid_pins c g (init g) ps = true ->
  forall e y, In e (run_trace c g (init g) ps) -> 0 < attempts c ->
  FC (e_post e) y ->
  FC (e_pre e) y \/
  popped g (e_post e) y \/
  exists w, rown (e_post e) (done_final c (e_pin e)) w /\ reach g w y /\ FC (e_post e) w.
Proof. exact C02_exact_poll_proof. Qed.
Print Assumptions C02_exact_poll.

(** Over the whole history: every failed/cancelled node has such a cause in one of the polls so far. *)
Theorem C02_exact : forall c g ps, wf_graph g = true -> valid_pins c g (init g) ps = true ->
  forall tr1 e tr2 y, 0 < attempts c ->
  run_trace c g (init g) ps = tr1 ++ e :: tr2 -> FC (e_post e) y ->
  exists e', In e' (tr1 ++ [e]) /\
    (popped g (e_post e') y \/
     exists w, rown (e_post e') (done_final c (e_pin e')) w /\ reach g w y /\ FC (e_post e') w).
Proof. exact C02_exact_proof. Qed.
Print Assumptions C02_exact.

(** The state invariant behind these statements, for every state after every poll: *)
Theorem C02_invariant : forall c g ps, wf_graph g = true -> valid_pins c g (init g) ps = true ->
  forall e, In e (run_trace c g (init g) ps) -> is_poll c g e.
Proof. exact hist_is_poll. Qed.
Print Assumptions C02_invariant.

(** The rest runs (state level).  When a poll returns FINISHED or FAILURE, every step is completed
    with row FINISHED (DRYRUN in a dry run) -- unless it is failed and lies in the sub-tree of a step
    w that got an unsuccessful report or had a failed submission in one of the polls so far.  So a
    step none of whose ancestors (nor itself) ended unsuccessfully has run to completion. *)
Theorem C02_rest_runs : forall c g ps, wf_graph g = true -> valid_pins c g (init g) ps = true ->
  forall tr1 e tr2 x, 0 < attempts c ->
  run_trace c g (init g) ps = tr1 ++ e :: tr2 ->
  e_stat e = SFINISHED \/ e_stat e = SFAILURE -> x < length g ->
  (In x (completed (e_post e)) /\ st_done (status (getrec (e_post e) x))) \/
  (In x (failed (e_post e)) /\
   exists e' w, In e' (tr1 ++ [e]) /\ rown (e_post e') (done_final c (e_pin e')) w /\ reach g w x /\
                FC (e_post e') w).
Proof. exact C02_rest_runs_proof. Qed.
Print Assumptions C02_rest_runs.

(** What is NOT proved here: that such a normal termination is eventually reached (C05's liveness,
    exec-live), and that a completed step had an own ESubmit and a FINISHED report (the ledger
    coupling of C01/C04, exec-ledger). *)

(** Non-vacuity.  Steps 0 -> 1 and an independent step 2: the hypotheses hold; poll 2 delivers
    FAILED to step 0, after it 0 and 1 are failed with rows FAILED while 2 keeps running; poll 3
    (a later poll) submits nothing for 1; the study ends with FAILURE after 2 finished. *)
Example C02_example :
  wf_graph ex2_g && valid_pins ex_cfg ex2_g (init ex2_g) ex2_ps
  && Nat.eqb (length (run_trace ex_cfg ex2_g (init ex2_g) ex2_ps)) 4
  && seteqb (failed (post_of ex_cfg ex2_g ex2_ps 1)) [0; 1]
  && status_is (post_of ex_cfg ex2_g ex2_ps 1) 0 FAILED && status_is (post_of ex_cfg ex2_g ex2_ps 1) 1 FAILED
  && status_is (post_of ex_cfg ex2_g ex2_ps 1) 2 RUNNING
  && negb (existsb (is_submit 1) (evs (post_of ex_cfg ex2_g ex2_ps 2)))
  && status_is (post_of ex_cfg ex2_g ex2_ps 3) 2 FINISHED
  && prop_ok 2 ex_cfg ex2_g ex2_ps (run ex_cfg ex2_g (init ex2_g) ex2_ps) = true.
Proof. vm_compute; reflexivity. Qed.

(** [run_trace] is the history the correspondence run observes. *)
Theorem C02_trace_is_run : forall c g ps s,
  map (fun e => (rev (evs (e_post e)), rows_of (e_post e), e_stat e)) (run_trace c g s ps) = run c g s ps.
Proof. exact run_trace_obs. Qed.
Print Assumptions C02_trace_is_run.

(** The trace monitor of the execution properties is COMPLETELY silent on the
    model's own observable trace.

    Model: Exec/ExecBase.v, Exec/ExecGen.v (decision logic of executiongraph.py,
    REGENERATED from /repo's source on every run), Exec/ExecRun.v ([poll], [run]).
    Monitor: Exec/ExecTrace.v -- [viol_of c g ps os] is the list of verdict codes
    the monitor raises on the observations [os] (per poll: adapter calls in order,
    status rows, returned status) read next to the poll inputs [ps];
    [prop_ok pid] = no code of property [pid]'s family occurs.  The same monitor is
    evaluated, inside Coq, on the IMPLEMENTATION's recorded traces by the
    correspondence run of every execution property.

    Hypotheses (all boolean / decidable, all checked on every generated case):
      wf_graph g                       parents precede children, adjacency tables agree;
      0 < attempts c                   at least one submission attempt is configured
                                       (with 0 a step "fails to submit" without any submit
                                       call: codes 23 and 55 would then be raised);
      valid_run c g (init g) ps        whenever a poll's query code is OK its reports mention
                                       only steps that are in progress when the poll starts,
                                       each at most once (the adapters key their answer by
                                       the queried ids); reports under NOJOBS / ERROR are
                                       unconstrained (neither the code nor the monitor reads them).
    Everything else is universally quantified: graphs, throttle, attempts, dry-run
    flag, restart limits, query codes, lost / unknown / repeated reports, submission
    outcomes, cancel requests at any poll. *)
From MWF Require Import Exec.ExecBase Exec.ExecGen Exec.ExecRun Exec.ExecTrace Exec.ExecPoll
     Exec.ExecLedger3 Exec.ExecMonAll Exec.ExecLedgerEx.

Theorem monitor_silent : forall c g ps,
  wf_graph g = true -> valid_run c g (init g) ps = true -> 0 < attempts c ->
  viol_of c g ps (run c g (init g) ps) = [].
Proof. exact (fun c g ps Hw V Ha => monitor_silent_valid_run c g ps Hw Ha V). Qed.
Print Assumptions monitor_silent.

(** every code the monitor can emit at all is in [all_codes] (for ANY observations) ... *)
Theorem monitor_emits_only : forall c g h k,
  In k (viol (monitor c g h)) -> In k all_codes.
Proof.
  exact (fun c g h k H => match monitor_codes c g h k (mon0 g) H with
                          | or_introl F => False_ind _ F | or_intror R => R end).
Qed.
Print Assumptions monitor_emits_only.

(** ... there are 43 of them ... *)
Example monitor_all_codes : all_codes =
  [73; 71; 173; 17; 40; 201; 1; 7; 2; 43; 19; 191; 192; 61; 62; 63; 4; 41; 3;
   21; 22; 23; 24; 44; 46; 47; 42; 66; 67; 12; 31; 203; 202; 205; 207; 72; 51; 52; 53; 54; 55; 171; 172].
Proof. reflexivity. Qed.

(** ... and every property's family consists of such codes *)
Example monitor_families_covered :
  forallb (fun pid => forallb (fun k => mem k all_codes) (family pid)) [1; 2; 3; 4; 5; 6; 7; 12; 17; 19; 20] = true.
Proof. vm_compute; reflexivity. Qed.

(** hence the monitor predicate of every execution property holds of the model *)
Theorem monitor_prop_ok : forall c g ps pid,
  wf_graph g = true -> valid_run c g (init g) ps = true -> 0 < attempts c ->
  prop_ok pid c g ps (run c g (init g) ps) = true.
Proof. exact (fun c g ps pid Hw V Ha => prop_ok_all_valid_run c g ps pid Hw Ha V). Qed.
Print Assumptions monitor_prop_ok.

Theorem monitor_prop_ok_each : forall c g ps,
  wf_graph g = true -> valid_run c g (init g) ps = true -> 0 < attempts c ->
  forallb (fun pid => prop_ok pid c g ps (run c g (init g) ps)) [1; 2; 3; 4; 5; 6; 7; 12; 17; 19; 20] = true.
Proof.
  exact (fun c g ps Hw V Ha =>
    proj2 (forallb_forall _ _) (fun pid _ => prop_ok_all_valid_run c g ps pid Hw Ha V)).
Qed.
Print Assumptions monitor_prop_ok_each.

(** the input hypothesis of the C02/C05/C06/... developments implies the one used here *)
Theorem valid_pins_valid_run : forall c g ps s,
  ExecPoll.valid_pins c g s ps = true -> valid_run c g s ps = true.
Proof. exact (fun c g ps s => ExecLedger12.vps_imp c g ps s). Qed.
Print Assumptions valid_pins_valid_run.

(** Non-vacuity: the diamond histories of Exec/ExecLedgerEx.v satisfy the hypotheses
    (failed attempt, restart after a timeout, NOJOBS answer, throttle 1, local step;
    a cancel request followed by a timeout; an unthrottled run) ... *)
Example monitor_examples :
  wf_graph ex_g && (0 <? attempts ex_c) && (0 <? attempts ex_c0)
  && valid_run ex_c ex_g (init ex_g) ex_ps
  && valid_run ex_c ex_g (init ex_g) ex_ps_cancel
  && valid_run ex_c0 ex_g (init ex_g) ex_ps0
  && Nat.eqb (n_submits (run ex_c ex_g (init ex_g) ex_ps)) 5
  && sstatus_eqb (last_status (run ex_c ex_g (init ex_g) ex_ps)) SFINISHED
  && sstatus_eqb (last_status (run ex_c ex_g (init ex_g) ex_ps_cancel)) SCANCELLED = true.
Proof. vm_compute; reflexivity. Qed.

(** ... the monitor is far from trivially silent: it rejects the bad traces ... *)
Example monitor_rejects :
  viol_of ex_c ex_g [mkpin false QOK [] []] ex_bad_obs <> [] /\
  viol_of ex_c ex_g ex_ps_cancel ex_bad_obs_cancel <> [] /\
  viol_of ex_c0 ex_g ex_ps0 ex_bad_obs_resubmit <> [] /\
  viol_of ex_c0 ex_g ex_ps0 ex_bad_obs_orphan <> [].
Proof. repeat split; vm_compute; discriminate. Qed.

(** ... and the hypothesis [0 < attempts c] cannot be dropped: with zero attempts the
    model's own trace raises 23, 24 and 55 (a FAILED step with no unsuccessful event) *)
Example monitor_needs_attempts :
  wf_graph ex_g1 = true /\ valid_run ex_c_noattempts ex_g1 (init ex_g1) [mkpin false QOK [] []] = true /\
  viol_of ex_c_noattempts ex_g1 [mkpin false QOK [] []]
          (run ex_c_noattempts ex_g1 (init ex_g1) [mkpin false QOK [] []]) = [23; 24; 55].
Proof. repeat split; vm_compute; reflexivity. Qed.

(** C07 -- after a cancel request nothing new is submitted; the cancel command
    gets exactly the live jobs; the study ends CANCELLED once they drain.

    Model and monitor as in Props/C01.v (Exec/ExecGen.v REGENERATED from /repo on
    every run, including cancel_study and the cancel branches of the launch loop
    and of the TIMEDOUT handling; Exec/ExecTrace.v is evaluated, inside Coq, on
    the IMPLEMENTATION's trace by harness/props/c07.py).  A cancel request is an
    INPUT of a poll ([cancel_req], the .cancel.lock file).
      code 73  a poll with a cancel request whose first adapter call is not cancel_jobs;
      code 7   an ESubmit (main or restart, any outcome) in or after a poll with a cancel request;
      code 71  ECancel js where js is not exactly the set of live jobs at that instant;
      code 72  a poll that ends with a cancel request seen and no live job, and
               returns neither CANCELLED nor aborts on a failed query.
    [prop_ok 7] = none of them occurs.  Hypotheses as in C01.  That the adapters'
    cancel_jobs([]) return a record (C07_no_crash) is the subject of the data
    check in harness/props/c07.py; liveness (the jobs do drain) is C05. *)
From MWF Require Import Exec.ExecBase Exec.ExecGen Exec.ExecRun Exec.ExecTrace
     Exec.ExecLedger Exec.ExecLedger2 Exec.ExecLedger3 Exec.ExecLedger6 Exec.ExecLedgerEx.

Theorem C07 : forall c g ps,
  wf_graph g = true -> valid_run c g (init g) ps = true ->
  prop_ok 7 c g ps (run c g (init g) ps) = true.
Proof. exact C07_holds. Qed.
Print Assumptions C07.

Theorem C07_no_submit_after : forall c g ps,
  wf_graph g = true -> valid_run c g (init g) ps = true ->
  ~ In 7 (viol_of c g ps (run c g (init g) ps)).
Proof. exact (fun c g ps Hw V => code_silent c g ps 7 Hw V ltac:(cbn; tauto)). Qed.
Print Assumptions C07_no_submit_after.

Theorem C07_cancel_arg : forall c g ps,
  wf_graph g = true -> valid_run c g (init g) ps = true ->
  ~ In 71 (viol_of c g ps (run c g (init g) ps)) /\ ~ In 73 (viol_of c g ps (run c g (init g) ps)).
Proof.
  exact (fun c g ps Hw V => conj (code_silent c g ps 71 Hw V ltac:(cbn; tauto))
                                 (code_silent c g ps 73 Hw V ltac:(cbn; tauto))).
Qed.
Print Assumptions C07_cancel_arg.

Theorem C07_ends_cancelled : forall c g ps,
  wf_graph g = true -> valid_run c g (init g) ps = true ->
  ~ In 72 (viol_of c g ps (run c g (init g) ps)).
Proof. exact (fun c g ps Hw V => code_silent c g ps 72 Hw V ltac:(cbn; tauto)). Qed.
Print Assumptions C07_ends_cancelled.

(** Non-vacuity: a cancel request while job 0 runs; the job then times out
    (node 0 has a restart script and budget): no restart, study CANCELLED *)
Example C07_example :
  wf_graph ex_g && valid_run ex_c ex_g (init ex_g) ex_ps_cancel
  && Nat.eqb (n_submits (run ex_c ex_g (init ex_g) ex_ps_cancel)) 1
  && sstatus_eqb (last_status (run ex_c ex_g (init ex_g) ex_ps_cancel)) SCANCELLED = true.
Proof. vm_compute; reflexivity. Qed.

(** the monitor rejects the restart submitted after the request *)
Example C07_monitor_rejects : prop_ok 7 ex_c ex_g ex_ps_cancel ex_bad_obs_cancel = false.
Proof. vm_compute; reflexivity. Qed.

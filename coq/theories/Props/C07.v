(** C07 -- after a cancel request nothing new is submitted; the cancel command
    gets exactly the live jobs; the study ends CANCELLED once they drain.

    Model and monitor as in Props/C01.v (Exec/ExecGen.v REGENERATED from /repo on
    every run, including cancel_study and the cancel branches of the launch loop
    and of the TIMEDOUT handling; Exec/ExecTrace.v is evaluated, inside Coq, on
    the IMPLEMENTATION's trace by harness/props/c07.py).  A cancel request is an
    INPUT of a poll ([cancel_req], the .cancel.lock file).
      code 73  a poll with a cancel request whose first adapter call is not cancel_jobs;
      code 7   an ESubmit (main or restart, any outcome) in or after a poll with a cancel request;
      code 71  ECancel js where js is not exactly the set of live jobs at that instant;
      code 72  a poll that ends with a cancel request seen and no live job, and
               returns neither CANCELLED nor aborts on a failed query.
    [prop_ok 7] = none of them occurs.  Hypotheses as in C01.  That the adapters'
    cancel_jobs([]) return a record (C07_no_crash) is the subject of the data
    check in harness/props/c07.py; liveness (the jobs do drain) is C05. *)
From MWF Require Import Exec.ExecBase Exec.ExecGen Exec.ExecRun Exec.ExecTrace
     Exec.ExecLedger Exec.ExecLedger2 Exec.ExecLedger3 Exec.ExecLedger6 Exec.ExecLedgerEx.

Theorem C07 : forall c g ps,
  wf_graph g = true -> valid_run c g (init g) ps = true ->
  prop_ok 7 c g ps (run c g (init g) ps) = true.
Proof. exact C07_holds. Qed.
Print Assumptions C07.

Theorem C07_no_submit_after : forall c g ps,
  wf_graph g = true -> valid_run c g (init g) ps = true ->
  ~ In 7 (viol_of c g ps (run c g (init g) ps)).
Proof. exact (fun c g ps Hw V => code_silent c g ps 7 Hw V ltac:(cbn; tauto)). Qed.
Print Assumptions C07_no_submit_after.

Theorem C07_cancel_arg : forall c g ps,
  wf_graph g = true -> valid_run c g (init g) ps = true ->
  ~ In 71 (viol_of c g ps (run c g (init g) ps)) /\ ~ In 73 (viol_of c g ps (run c g (init g) ps)).
Proof.
  exact (fun c g ps Hw V => conj (code_silent c g ps 71 Hw V ltac:(cbn; tauto))
                                 (code_silent c g ps 73 Hw V ltac:(cbn; tauto))).
Qed.
Print Assumptions C07_cancel_arg.

Theorem C07_ends_cancelled : forall c g ps,
  wf_graph g = true -> valid_run c g (init g) ps = true ->
  ~ In 72 (viol_of c g ps (run c g (init g) ps)).
Proof. exact (fun c g ps Hw V => code_silent c g ps 72 Hw V ltac:(cbn; tauto)). Qed.
Print Assumptions C07_ends_cancelled.

(** Non-vacuity: a cancel request while job 0 runs; the job then times out
    (node 0 has a restart script and budget): no restart, study CANCELLED *)
Example C07_example :
  wf_graph ex_g && valid_run ex_c ex_g (init ex_g) ex_ps_cancel
  && Nat.eqb (n_submits (run ex_c ex_g (init ex_g) ex_ps_cancel)) 1
  && sstatus_eqb (last_status (run ex_c ex_g (init ex_g) ex_ps_cancel)) SCANCELLED = true.
Proof. vm_compute; reflexivity. Qed.

(** the monitor rejects the restart submitted after the request *)
Example C07_monitor_rejects : prop_ok 7 ex_c ex_g ex_ps_cancel ex_bad_obs_cancel = false.
Proof. vm_compute; reflexivity. Qed.

(* ======================================================================== *)
(** * Liveness half: after a cancel request the study ends CANCELLED once the jobs drain
    (Exec/ExecDrain.v on top of the termination theorem C05_terminates, Exec/ExecLive.v).
    Vocabulary as in Props/C05.v: [reach_st] = states the monitor loop can be in;
    [state_at]/[status_at] = the unstopped loop on an infinite input stream;
    [running_upto n] = polls 0..n-1 all returned RUNNING (the real loop gets to poll n);
    [delivers_terminal] / [noisy] = a terminal report reaches an in-progress job /
    a HWFAILURE report or a TIMEDOUT report for an unlimited-restart step is delivered. *)
From MWF Require Import Exec.ExecGraph Exec.ExecPoll Exec.ExecVerdict Exec.ExecLive Exec.ExecDrain.

(** the flag set by a cancel request is never reset *)
Theorem C07_canceled_monotone : forall c g s p, canceled (fst (poll c g s p)) = cancel_req p || canceled s.
Proof. exact poll_canceled. Qed.
Print Assumptions C07_canceled_monotone.

(** from every reachable state: if a cancel request arrives with the next poll (or was processed
    before) and the input stream is -- for as long as the loop runs -- valid, free of query errors
    and fair (whenever something is in flight, some later poll delivers a terminal report to an
    in-progress job), and eventually quiet, then the loop stops, and the poll at which it stops
    returns CANCELLED (not merely "not RUNNING") *)
Theorem C07_drains : forall c g s (ps : nat -> pin), WF g -> reach_st c g s ->
  cancel_req (ps 0) = true \/ canceled s = true ->
  (forall n, running_upto c g s ps n -> valid_pin (state_at c g s ps n) (ps n) = true) ->
  (forall n, running_upto c g s ps n -> aborts c (ps n) = false) ->
  (forall n, running_upto c g s ps n -> inprog (state_at c g s ps n) <> [] ->
             exists m, n <= m /\
               (running_upto c g s ps m -> delivers_terminal c (state_at c g s ps m) (ps m) = true)) ->
  (exists N, forall m, N <= m -> noisy c g (ps m) = false) ->
  exists n, running_upto c g s ps n /\ status_at c g s ps n = SCANCELLED.
Proof. exact drains. Qed.
Print Assumptions C07_drains.

(** quantitative form: while the loop runs on quiet input after the request, the productive polls
    (nothing in flight, or a terminal report delivered) number at most the potential Phi of the
    state in which the request arrived (3 per unresolved instance + finite restart budgets at most) *)
Theorem C07_drain_bound : forall c g s (ps : nat -> pin) n, WF g -> reach_st c g s ->
  completion_gen g s = SRUNNING ->
  (forall k, running_upto c g s ps k -> valid_pin (state_at c g s ps k) (ps k) = true) ->
  (forall k, running_upto c g s ps k -> aborts c (ps k) = false) ->
  (forall m, m < n -> noisy c g (ps m) = false /\ status_at c g s ps m = SRUNNING) ->
  count_productive c g s ps n + Phi g (state_at c g s ps n) <= Phi g s.
Proof. exact productive_bound_reachable. Qed.
Print Assumptions C07_drain_bound.

(** Non-vacuity: two independent jobs in flight ([dr_s], reachable), a cancel request, then job 0
    reports FINISHED and job 1 TIMEDOUT (restart script and budget left: not restarted):
    RUNNING, RUNNING, CANCELLED; in-progress sets [0;1], [0;1], [1], [] *)
Example C07_drain_example :
  inprog dr_s = [0; 1] /\
  map (status_at dr_c dr_g dr_s dr_ps) (seq 0 3) = [SRUNNING; SRUNNING; SCANCELLED] /\
  map (fun n => inprog (state_at dr_c dr_g dr_s dr_ps n)) (seq 0 4) = [[0; 1]; [0; 1]; [1]; []] /\
  map (fun n => Phi dr_g (state_at dr_c dr_g dr_s dr_ps n)) (seq 0 4) = [4; 4; 3; 0].
Proof. exact dr_statuses. Qed.
(** every hypothesis of C07_drains holds of that history, and its conclusion follows *)
Example C07_drain_hyps :
  WF dr_g /\ reach_st dr_c dr_g dr_s /\ cancel_req (dr_ps 0) = true /\
  valid_stream dr_c dr_g dr_s dr_ps /\ no_error dr_c dr_g dr_s dr_ps /\ fair dr_c dr_g dr_s dr_ps /\
  quiet dr_c dr_g dr_ps.
Proof. exact (conj dr_wf (conj dr_reach (conj eq_refl (conj dr_valid (conj dr_no_error (conj dr_fair dr_quiet)))))). Qed.
Example C07_drain_applied :
  exists n, running_upto dr_c dr_g dr_s dr_ps n /\ status_at dr_c dr_g dr_s dr_ps n = SCANCELLED.
Proof. exact dr_drains. Qed.

(** C11 -- expanding the same specification is repeatable.

    Model: Expand/Expand.v ([stage]: Study.__init__/add_step, topological_sort,
    Study._stage, ExecutionGraph.add_step/add_connection), in which EVERY
    iteration of a Python set whose order could matter ([depends[step]],
    [hub_depends[step]], [step_combos[parent]]) goes through an order oracle
    [pi : list str -> list str]; Expand/OrderFree.v adds the dry-run submission
    order, the status listing and the script texts as functions of the staged
    graph ([derive]) and the monitor [C11_ok].  An oracle is admissible when it
    returns a permutation of its argument.  [ap] (Combination.apply, C09) and
    [san] (make_safe_path's component rule, C10) are arbitrary functions: the
    theorems hold for every substitution and every sanitiser.

    Determinism itself is free (the model is a function); the content is
    independence from the hash-order oracles and from the output root. *)
From Coq Require Import List NArith Bool Arith Permutation.
From MWF Require Import Base.Str Base.Util Expand.PyStr Expand.Expand
                        Expand.OrderFree Expand.OrderFree2 Expand.OrderFree3 Expand.OrderFree4.
Import ListNotations.

(* ======================================================================== *)
(** * Independence from the set-iteration order *)

(** [observe_result] = the used-parameter table and, for every node in [values]
    INSERTION ORDER: name, adjacency list, [_dependencies] (listed in node
    order), workspace relative to the root, restart limit, record params in
    dict order, description, cmd, restart, remaining string fields, depends.
    Full equality -- including the insertion order and including which error
    is raised when staging fails. *)
Theorem C11_order_free :
  forall (ap : list param -> nat -> str -> str) (san : str -> str) (pi pi' : an_oracle) (sp : spec),
    (forall l, Permutation (pi l) l) -> (forall l, Permutation (pi' l) l) ->
    observe_result (stage ap san pi sp) = observe_result (stage ap san pi' sp).
Proof. exact stage_order_free. Qed.
Print Assumptions C11_order_free.

(** the same with the derived observables: submission order of the dry run poll
    by poll, status rows (name, relative workspace, state, Params column),
    script texts in the order they are written *)
Theorem C11_order_free_extended :
  forall ap san (pi pi' : an_oracle) (sp : spec),
    (forall l, Permutation (pi l) l) -> (forall l, Permutation (pi' l) l) ->
    c11_model_gen ap san pi sp = c11_model_gen ap san pi' sp.
Proof. exact c11_model_order_free. Qed.
Print Assumptions C11_order_free_extended.

(** core, on the staged GRAPHS themselves (not only their observation): the
    instance names (and their order), the edge set in both representations, every
    per-instance record (absolute workspace included), the [workspaces] and
    [step_combos] tables *)
Theorem C11_core_order_free :
  forall ap san (pi pi' : an_oracle) (sp : spec) um st um' st',
    (forall l, Permutation (pi l) l) -> (forall l, Permutation (pi' l) l) ->
    stage ap san pi sp = Ok (um, st) -> stage ap san pi' sp = Ok (um', st') ->
    um = um'
    /\ g_names (st_g st) = g_names (st_g st')
    /\ (forall p, kids_of (st_g st) p = kids_of (st_g st') p)
    /\ (forall x p, In p (deps_of (st_g st) x) <-> In p (deps_of (st_g st') x))
    /\ (forall x, rec_of (st_g st) x = rec_of (st_g st') x)
    /\ st_ws st = st_ws st' /\ st_combos st = st_combos st'.
Proof. exact stage_core_order_free. Qed.
Print Assumptions C11_core_order_free.

(** whether staging raises, and what, does not depend on the order either *)
Theorem C11_errors_order_free :
  forall ap san (pi pi' : an_oracle) (sp : spec) e,
    (forall l, Permutation (pi l) l) -> (forall l, Permutation (pi' l) l) ->
    stage ap san pi sp = Err e -> stage ap san pi' sp = Err e.
Proof. exact stage_error_order_free. Qed.
Print Assumptions C11_errors_order_free.

(** the monitor the harness evaluates on the IMPLEMENTATION's expansions
    (recorded in fresh processes with different PYTHONHASHSEED) holds on any
    number of expansions of the model under arbitrary admissible oracles ... *)
Theorem C11_monitor_holds :
  forall ap san (sp : spec) (pis : list an_oracle),
    Forall (fun pi => forall l, Permutation (pi l) l) pis ->
    C11_ok (map (fun pi => c11_model_gen ap san pi sp) pis) = true.
Proof. exact C11_ok_model. Qed.
Print Assumptions C11_monitor_holds.

(** ... and it means what it says: all recorded expansions are equal *)
Theorem C11_monitor_meaning :
  forall l : list xobs, C11_ok l = true <-> (forall a b, In a l -> In b l -> a = b).
Proof. exact C11_ok_spec. Qed.
Print Assumptions C11_monitor_meaning.

(** the used-parameter set needs no oracle because it is only iterated through
    [sorted(...)], and [sorted] is canonical: any two enumerations of the same
    set sort to the same list ... *)
Theorem C11_sorted_canonical :
  forall l l' : list str, Permutation l l' -> str_sort l = str_sort l'.
Proof. exact str_sort_perm. Qed.
Print Assumptions C11_sorted_canonical.

(** ... so the combination string (instance names, workspace components) and
    the Params listing (record params, status column; Combination.get_param_values
    since the repair fbb1b94) are the same for every enumeration [U'] of the
    used-parameter set [U] *)
Theorem C11_used_set_order_free :
  forall (ps : list param) (U U' : list str) (i : nat), Permutation U U' ->
    combo_string ps U i = combo_string ps U' i /\ param_values ps U i = param_values ps U' i.
Proof. exact used_set_order_free. Qed.
Print Assumptions C11_used_set_order_free.

(** instance names under two used-parameter tables that enumerate the same sets *)
Theorem C11_names_used_table_order_free :
  forall (ps : list param) (um um' : usedmap) (x : str) (i : nat),
    Forall2 (fun a b => fst a = fst b /\ Permutation (snd a) (snd b)) um um' ->
    iname ps um x i = iname ps um' x i.
Proof. exact iname_perm. Qed.
Print Assumptions C11_names_used_table_order_free.

(* ======================================================================== *)
(** * Independence from the output root *)

(** staging under root [r'] instead of [sp_root sp]: same error, or graphs
    related node by node ([st_reloc]: equal names / adjacency lists /
    dependency sets, records related by [rec_reloc]), equal [step_combos],
    [workspaces] tables with the same keys and relocated directories *)
Theorem C11_relocatable :
  forall ap san (pi : an_oracle) (sp : spec) (r' : str),
    match stage ap san pi sp, stage ap san pi (set_root r' sp) with
    | Ok (um, st), Ok (um', st') =>
        um = um'
        /\ g_rel (rec_reloc (sp_root sp) r') (st_g st) (st_g st')
        /\ st_combos st = st_combos st'
        /\ ws_reloc (sp_root sp) r' (st_ws st) (st_ws st')
    | Err e, Err e' => e = e'
    | _, _ => False
    end.
Proof. exact stage_relocatable. Qed.
Print Assumptions C11_relocatable.

(** per instance: same workspace components; the absolute workspace is
    [root/components] on both sides ("differ only by the root prefix"); cmd and
    restart are obtained from the same text by the same replacements with
    relocated directories *)
Theorem C11_relocatable_instance :
  forall ap san (pi : an_oracle) (sp : spec) (r' : str) um st um' st' x ra,
    stage ap san pi sp = Ok (um, st) -> stage ap san pi (set_root r' sp) = Ok (um', st') ->
    rec_of (st_g st) x = Some ra ->
    exists rb, rec_of (st_g st') x = Some rb
      /\ r_wsc rb = r_wsc ra
      /\ r_ws ra = base (sp_root sp) (r_wsc ra) /\ r_ws rb = base r' (r_wsc ra)
      /\ txt_reloc (sp_root sp) r' (r_cmd ra) (r_cmd rb)
      /\ txt_reloc (sp_root sp) r' (r_restart ra) (r_restart rb).
Proof. exact stage_relocatable_ws. Qed.
Print Assumptions C11_relocatable_instance.

(** [base root comps] spelled out, for components as the sanitiser produces
    them (no "/") when none is empty, and a root that does not end in "/" *)
Theorem C11_base_is_root_prefix :
  forall (comps : list str) (r : str),
    root_ok r = true -> forallb plain_comp comps = true ->
    base r comps = r ++ flat_map (fun c => c_slash :: c) comps.
Proof. exact base_spelled. Qed.
Print Assumptions C11_base_is_root_prefix.

(** [txt_reloc] is not the full relation: between equal roots it is equality *)
Theorem C11_txt_reloc_same_root : forall r a b, txt_reloc r r a b -> a = b.
Proof. exact txt_reloc_same. Qed.
Print Assumptions C11_txt_reloc_same_root.

(** everything the root cannot reach is EQUAL: names in insertion order,
    adjacency table, dependency sets, relative workspaces, restart limits,
    params, description, resource fields, depends, and the error if any
    ([mask_result] blanks cmd and restart, nothing else) *)
Theorem C11_relocatable_observable :
  forall ap san (pi : an_oracle) (sp : spec) (r' : str),
    mask_result (observe_result (stage ap san pi (set_root r' sp)))
    = mask_result (observe_result (stage ap san pi sp)).
Proof. exact stage_relocatable_obs. Qed.
Print Assumptions C11_relocatable_observable.

(** MODELLING NOTE, --hashws: the model has [hash_ws] off.  With it on, the
    second workspace component (and the nickname / script file name) of a
    parameterised instance is [h combo] with [h = md5] applied to the
    combination string -- which never sees the root -- so for an ABSTRACT digest
    [h] the hashed workspace is again "the same components under another root".
    The implementation side of this is checked across processes by the harness
    (cases staged with hash_ws=True / use_tmp=True under different roots). *)
Theorem C11_hashed_workspace_relocatable :
  forall (san h : str -> str) (r r' x combo : str),
    exists comps, hashed_ws san h r x combo = base r comps
               /\ hashed_ws san h r' x combo = base r' comps.
Proof. exact hashed_ws_relocatable. Qed.
Print Assumptions C11_hashed_workspace_relocatable.

(** submission order, status listing and the names of the scripts written *)
Theorem C11_relocatable_listing :
  forall ap san (pi : an_oracle) (sp : spec) (r' : str),
    let x := c11_model_gen ap san pi sp in
    let x' := c11_model_gen ap san pi (set_root r' sp) in
    x_polls x' = x_polls x /\ x_status x' = x_status x
    /\ map sc_name (x_scripts x') = map sc_name (x_scripts x).
Proof. exact listing_relocatable. Qed.
Print Assumptions C11_relocatable_listing.

(** another process = another hash seed AND another root *)
Theorem C11_other_process :
  forall ap san (pi pi' : an_oracle) (sp : spec) (r' : str),
    (forall l, Permutation (pi l) l) -> (forall l, Permutation (pi' l) l) ->
    mask_result (observe_result (stage ap san pi' (set_root r' sp)))
    = mask_result (observe_result (stage ap san pi sp)).
Proof. exact stage_reloc_order_free. Qed.
Print Assumptions C11_other_process.

(* ======================================================================== *)
(** * Non-vacuity *)

(** the identity and the reversal are admissible oracles *)
Example C11_ex_oracle_id : forall l, Permutation (pi_id l) l.
Proof. exact perm_oracle_id. Qed.
Example C11_ex_oracle_rev : forall l, Permutation (pi_rev l) l.
Proof. exact perm_oracle_rev. Qed.

(** a study with 3 parameters x 2 rows; [post] has two ordinary parents and one
    funnel parent with two instances, and mentions two workspaces *)
Definition ex_sp : spec :=
  mkSpec (s "/R") 2
    [mkP (s "N") [] [s "1"; s "2"] (LT []);
     mkP (s "M") [] [s "x"; s "y"] (LT []);
     mkP (s "K") (s "kay") [s "5"; s "5"] (LT (s "k%%"))]
    [mkS (s "gen") (s "generate") [] (s "echo $(N) $(K.label) > $(WORKSPACE)/o") [] [];
     mkS (s "sim") (s "simulate") [] (s "run $(M)") (s "rerun $(M.name)") [(s "procs", s "$(N)")];
     mkS (s "aux") (s "auxiliary") [] (s "echo $(N)") [] [];
     mkS (s "post") (s "collect") [s "gen"; s "sim"; s "aux_*"]
         (s "cat $(gen.workspace)/o $(aux.workspace)") [] []].

(** it stages, into 1 + 2 + 2 + 2 + 2 nodes, submitted in two polls *)
Example C11_ex_stages :
  match c11_model pi_id ex_sp with
  | mkX (Ok o) polls rows scripts _ =>
      List.length (ob_nodes o) = 9%nat /\ map (@List.length str) polls = [6%nat; 2%nat]
      /\ List.length rows = 8%nat /\ List.length scripts = 8%nat
  | _ => False
  end.
Proof. vm_compute. repeat split. Qed.

(** the oracle really reaches the state: the [_dependencies] set of a [post]
    instance is built in a different order ... *)
Definition ex_deps (pi : an_oracle) : list str :=
  match stage_c pi ex_sp with
  | Ok (_, st) => deps_of (st_g st) (s "post_k5.M.x.N.1")
  | Err _ => []
  end.
Example C11_ex_oracle_matters :
  List.length (ex_deps pi_id) = 4%nat
  /\ hd [] (ex_deps pi_id) = s "gen_k5.N.1" /\ hd [] (ex_deps pi_rev) = s "sim_M.x.N.1"
  /\ ex_deps pi_rev <> ex_deps pi_id.
Proof. vm_compute. repeat (split; [reflexivity|]). intros H; discriminate H. Qed.

(** ... and the observable (hence the monitor) does not see it *)
Example C11_ex_monitor_true : C11_ok [c11_model pi_id ex_sp; c11_model pi_rev ex_sp; c11_model pi_id ex_sp] = true.
Proof. vm_compute; reflexivity. Qed.

(** the monitor is not constantly true: without replacing the root, two
    expansions under different roots differ (the scripts mention it) *)
Example C11_ex_monitor_false :
  C11_ok [c11_model pi_id ex_sp; c11_model pi_id (set_root (s "/elsewhere/out") ex_sp)] = false.
Proof. vm_compute; reflexivity. Qed.

(** relocation, concretely *)
Example C11_ex_relocated :
  match stage_c pi_id ex_sp, stage_c pi_rev (set_root (s "/elsewhere/out") ex_sp) with
  | Ok (_, st), Ok (_, st') =>
      match rec_of (st_g st) (s "gen_k5.N.2"), rec_of (st_g st') (s "gen_k5.N.2") with
      | Some ra, Some rb =>
          r_ws ra = s "/R/gen/k5.N.2" /\ r_ws rb = s "/elsewhere/out/gen/k5.N.2"
          /\ r_cmd ra = s "echo 2 k5 > /R/gen/k5.N.2/o"
          /\ r_cmd rb = s "echo 2 k5 > /elsewhere/out/gen/k5.N.2/o"
      | _, _ => False
      end
  | _, _ => False
  end.
Proof. vm_compute. repeat split. Qed.

(** sorting two enumerations of one set *)
Example C11_ex_sorted : str_sort [s "SIZE"; s "ITER"; s "B2"] = str_sort [s "B2"; s "SIZE"; s "ITER"]
                       /\ str_sort [s "SIZE"; s "ITER"; s "B2"] = [s "B2"; s "ITER"; s "SIZE"].
Proof. vm_compute; auto. Qed.

Example C11_ex_root_ok : root_ok (s "/R") = true /\ forallb plain_comp [s "gen"; s "k5.N.2"] = true.
Proof. vm_compute; auto. Qed.

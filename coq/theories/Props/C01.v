(** C01 -- a step is never launched before all of its dependencies succeeded.

    Model: Exec/ExecBase.v (state, combinators), Exec/ExecGen.v (the decision
    logic of executiongraph.py, REGENERATED from /repo's source on every run),
    Exec/ExecRun.v ([poll] = one iteration of Conductor.monitor_study, [run]).
    Monitor: Exec/ExecTrace.v.  [prop_ok 1 c g ps os] reads the OBSERVABLE trace
    [os] (per poll: adapter calls in order, status rows, returned status) next to
    the poll inputs [ps] and keeps a ledger: a node has SUCCEEDED once a FINISHED
    report was delivered for it under an OK query code, or it is a local step
    whose submission returned OK.  Code 1 is raised at an [ESubmit x ...] event
    (main or restart script, scheduler or local, successful or not) unless every
    parent of [x] has succeeded before that event.  The same [prop_ok 1] is
    evaluated, inside Coq, on the IMPLEMENTATION's recorded trace by
    harness/props/c01.py.

    Hypotheses: [wf_graph g] (parents precede children in insertion order, the
    two adjacency tables agree -- checked on every generated case);
    [valid_run c g (init g) ps]: whenever the query code is OK the reports
    mention only steps that are in progress, each at most once (the adapters key
    the dict by the queried ids).  Reports may be lost (None), unknown, repeated
    over polls, arrive in any order; any throttle, attempts, dry-run flag,
    restart limits; any submission outcomes; cancel requests anywhere. *)
From MWF Require Import Exec.ExecBase Exec.ExecGen Exec.ExecRun Exec.ExecTrace
     Exec.ExecLedger Exec.ExecLedger2 Exec.ExecLedger3 Exec.ExecLedgerEx.

Theorem C01 : forall c g ps,
  wf_graph g = true -> valid_run c g (init g) ps = true ->
  prop_ok 1 c g ps (run c g (init g) ps) = true.
Proof. exact C01_holds. Qed.
Print Assumptions C01.

(** the same, spelled out: code 1 never occurs in the monitor's verdict list *)
Theorem C01_no_code : forall c g ps,
  wf_graph g = true -> valid_run c g (init g) ps = true ->
  ~ In 1 (viol_of c g ps (run c g (init g) ps)).
Proof. exact C01_code. Qed.
Print Assumptions C01_no_code.

(** Non-vacuity: a diamond with a failed submission attempt, a timeout that is
    restarted, a NOJOBS answer, a throttle of 1 and a local step satisfies the
    hypotheses, submits five jobs and ends FINISHED ... *)
Example C01_example :
  wf_graph ex_g && valid_run ex_c ex_g (init ex_g) ex_ps
  && Nat.eqb (n_submits (run ex_c ex_g (init ex_g) ex_ps)) 5
  && sstatus_eqb (last_status (run ex_c ex_g (init ex_g) ex_ps)) SFINISHED = true.
Proof. vm_compute; reflexivity. Qed.

(** ... and the monitor is not trivially true: a trace in which node 1 is
    submitted together with its parent is rejected *)
Example C01_monitor_rejects : prop_ok 1 ex_c ex_g [mkpin false QOK [] []] ex_bad_obs = false.
Proof. vm_compute; reflexivity. Qed.

(** C06 -- timed-out steps are restarted only as configured and within budget.

    Model and vocabulary as in Props/C02.v: [run_trace c g (init g) ps] lists the polls of a run;
    for an entry [e], [evs (e_post e)] are the adapter calls of that poll
    ([ESubmit x Restart sched res] = a submission of x's RESTART script, [ESubmit x Main ...] = of
    its main script; [res = Some job] or [None] when the submission failed), [rows_of (e_post e)]
    are the status rows (state, job ids, restart count).  Static attributes of a step:
    [has_restart (attr g x)] (it declares a restart command), [rlimit (attr g x)] (restart limit,
    0 = unlimited).  [rpolls x tr] = number of polls in [tr] that contain a Restart submission of x
    (one restart attempt = one mark_restart success, spanning up to [attempts c] submit calls).
    Hypotheses: [wf_graph g]; [valid_pins]: reports mention only steps in progress, each at most
    once.  All restart limits, attempt counts, graphs, report and submission-outcome sequences.

    Monitor codes (Exec/ExecTrace.v, family 6; checked at run time on implementation and model
    traces):  61 <-> C06_only_if_restart_cmd;  62 <-> C06_after_report;  63 <-> C06_never_main;
              66 <-> C06_count;  67 <-> C06_budget.  All five are PROVED silent on the model trace:
              C06_monitor. *)
From MWF Require Import Base.Util Exec.ExecBase Exec.ExecGen Exec.ExecRun Exec.ExecTrace Exec.ExecGraph
     Exec.ExecPoll Exec.ExecPoll2 Exec.ExecPoll3 Exec.ExecPoll4 Exec.ExecHist Exec.ExecC02 Exec.ExecC06
     Exec.ExecMon6 Exec.ExecC0206Ex.

(** THE MONITOR IS SILENT ON THE MODEL.  [prop_ok 6] is the predicate the correspondence run
    evaluates, inside Coq, on the IMPLEMENTATION's recorded trace of every case (codes 61, 62, 63,
    66, 67 of Exec/ExecTrace.v never raised).  On the model's own trace it holds for every graph,
    configuration and history ([attempts >= 1] is what the ExecutionGraph constructor enforces). *)
Theorem C06_monitor : forall c g ps, wf_graph g = true -> 0 < attempts c ->
  valid_pins c g (init g) ps = true -> prop_ok 6 c g ps (run c g (init g) ps) = true.
Proof. exact C06_monitor_wf. Qed.
Print Assumptions C06_monitor.

(** The same facts stated on the states and adapter calls of the run: *)

(** The restart script is submitted only for steps that declare a restart command. *)
Theorem C06_only_if_restart_cmd : forall c g ps, wf_graph g = true -> valid_pins c g (init g) ps = true ->
  forall e x sc res, In e (run_trace c g (init g) ps) ->
  In (ESubmit x Restart sc res) (evs (e_post e)) -> has_restart (attr g x) = true.
Proof. exact C06_only_if_restart_cmd_proof. Qed.
Print Assumptions C06_only_if_restart_cmd.

(** ... and only in a poll (never a dry run) whose query returned OK and delivered TIMEDOUT for
    that step, which was in progress at the start of the poll. *)
Theorem C06_after_report : forall c g ps, wf_graph g = true -> valid_pins c g (init g) ps = true ->
  forall e x sc res, In e (run_trace c g (init g) ps) ->
  In (ESubmit x Restart sc res) (evs (e_post e)) ->
  has_restart (attr g x) = true /\ dry c = false /\ qcode (e_pin e) = QOK /\
  In (x, Some TIMEDOUT) (reports (e_pin e)) /\ In x (inprog (e_pre e)).
Proof. exact C06_restart_proof. Qed.
Print Assumptions C06_after_report.

(** The MAIN script is never submitted for a step in a poll that delivered TIMEDOUT to it. *)
Theorem C06_never_main : forall c g ps, wf_graph g = true -> valid_pins c g (init g) ps = true ->
  forall e x sc res, In e (run_trace c g (init g) ps) ->
  In (ESubmit x Main sc res) (evs (e_post e)) -> qcode (e_pin e) = QOK ->
  ~ In (x, Some TIMEDOUT) (reports (e_pin e)).
Proof. exact C06_never_main_proof. Qed.
Print Assumptions C06_never_main.

(** After every poll the restart counter is within the limit (a limit of 0 means unlimited), and
    it is 0 for steps without restart command. *)
Theorem C06_budget : forall c g ps, wf_graph g = true -> valid_pins c g (init g) ps = true ->
  forall e x, In e (run_trace c g (init g) ps) ->
  (0 < rlimit (attr g x) -> restarts (getrec (e_post e) x) <= rlimit (attr g x)) /\
  (has_restart (attr g x) = false -> restarts (getrec (e_post e) x) = 0).
Proof. exact C06_budget_proof. Qed.
Print Assumptions C06_budget.

(** The restart column of the status row equals the number of polls so far that contain a
    Restart submission of the step -- hence that number never exceeds a positive limit. *)
Theorem C06_count : forall c g ps, wf_graph g = true -> valid_pins c g (init g) ps = true ->
  forall tr1 e tr2 x, 0 < attempts c ->
  run_trace c g (init g) ps = tr1 ++ e :: tr2 ->
  row_restarts (rows_of (e_post e)) x = rpolls x (tr1 ++ [e]) /\
  (0 < rlimit (attr g x) -> rpolls x (tr1 ++ [e]) <= rlimit (attr g x)).
Proof. exact C06_count_proof. Qed.
Print Assumptions C06_count.

(** A TIMEDOUT report that is not followed by a restart.  Without restart command (or after a
    cancel request) the step is failed with row TIMEDOUT; with the budget used up it is failed
    with row FAILED; in every case either a restart job was obtained or the step is failed; and
    once failed, all its descendants are failed/cancelled with rows FAILED/CANCELLED (C02). *)
Theorem C06_exhausted : forall c g ps, wf_graph g = true -> valid_pins c g (init g) ps = true ->
  forall e x, In e (run_trace c g (init g) ps) ->
  dry c = false -> qcode (e_pin e) = QOK -> In (x, Some TIMEDOUT) (reports (e_pin e)) ->
  let s := e_pre e in let s' := e_post e in
  ((has_restart (attr g x) = false \/ canceled s = true \/ cancel_req (e_pin e) = true) ->
     In x (failed s') /\ status (getrec s' x) = TIMEDOUT) /\
  ((has_restart (attr g x) = true /\ canceled s = false /\ cancel_req (e_pin e) = false /\
    0 < rlimit (attr g x) /\ rlimit (attr g x) <= restarts (getrec s x)) ->
     In x (failed s') /\ status (getrec s' x) = FAILED) /\
  ((In x (failed s') /\ (status (getrec s' x) = TIMEDOUT \/ status (getrec s' x) = FAILED)) \/
   exists sc j, In (ESubmit x Restart sc (Some j)) (evs s')) /\
  (In x (failed s') -> forall d, reach g x d ->
     FC s' d /\ (x <> d -> fc_status (status (getrec s' d)))).
Proof. exact C06_exhausted_proof. Qed.
Print Assumptions C06_exhausted.

(** C06_rlimit_attach (rlimit x = configured limit iff the step has a restart command) is a
    statement about the expansion model and lives with C08 (Expand). *)

(** Non-vacuity.  Chain 0 -> 1 -> 2 plus step 3; step 0 has a restart command and limit 1.  The
    hypotheses hold; poll 2 delivers TIMEDOUT to 0 and contains a Restart submission of 0 (count
    1); poll 3 delivers TIMEDOUT again: no Restart submission, 0 is failed with row FAILED and
    restart count 1, 1 and 2 are swept; the monitor family 6 is silent on this trace. *)
Example C06_example :
  wf_graph ex6_g && valid_pins ex_cfg ex6_g (init ex6_g) ex6_ps
  && Nat.eqb (length (run_trace ex_cfg ex6_g (init ex6_g) ex6_ps)) 3
  && rsub_in 0 (evs (post_of ex_cfg ex6_g ex6_ps 1))
  && Nat.eqb (restarts (getrec (post_of ex_cfg ex6_g ex6_ps 1) 0)) 1
  && negb (rsub_in 0 (evs (post_of ex_cfg ex6_g ex6_ps 2)))
  && status_is (post_of ex_cfg ex6_g ex6_ps 2) 0 FAILED
  && Nat.eqb (restarts (getrec (post_of ex_cfg ex6_g ex6_ps 2) 0)) 1
  && subset [0; 1; 2; 3] (failed (post_of ex_cfg ex6_g ex6_ps 2))
  && status_is (post_of ex_cfg ex6_g ex6_ps 2) 1 FAILED && status_is (post_of ex_cfg ex6_g ex6_ps 2) 2 FAILED
  && prop_ok 6 ex_cfg ex6_g ex6_ps (run ex_cfg ex6_g (init ex6_g) ex6_ps) = true.
Proof. vm_compute; reflexivity. Qed.

(** ... and the monitor is not trivially true: a trace that restarts step 3 (no restart command)
    is rejected. *)
Example C06_monitor_rejects :
  prop_ok 6 ex_cfg ex6_g [mk_pin false QOK [] []]
    [([ESubmit 3 Restart true (Some 0)], map (fun _ => (INITIALIZED, [], 0)) ex6_g, SRUNNING)] = false.
Proof. vm_compute; reflexivity. Qed.

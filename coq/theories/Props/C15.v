(** C15 -- batch scripts request exactly the declared resources and launcher. *)
From MWF Require Import Base.Str Gen.HeaderData Sched.Header Sched.Launcher Sched.Readers.
Theorem C15_placeholder : True. Proof. exact I. Qed.
Print Assumptions C15_placeholder.

(** C15 -- batch scripts request exactly the declared resources and launcher.

    Vocabulary (all in [Sched.Readers], the specification side):
    - a [case] is a back-end, a batch block, a step (name, description, cmd,
      restart, resource dictionary) and the decomposition of cmd / restart into
      text pieces and launcher tokens of the documented forms;
    - [H15 c] (decidable) is the hygiene domain: the pieces spell the commands,
      counts are positive integers or decimal strings, printed values are
      shell-safe words, keys are unique;
    - [run_model c] is what [write_script] of the back-end's adapter produces
      (models [Sched.Header] / [Sched.Launcher], tied to /repo by the
      correspondence run): a script or an exception class;
    - [read_sbatch], [read_srun], [script_body], [first_line] read a script the
      way sbatch / srun / the shell do (written from their documented syntax);
    - [effective_slurm b st k] is what is in effect for resource key [k]: the
      step's value if declared, else the batch block's, else nothing;
    - [C15_holds c o] / [C15_ok c o] is the monitor that the check evaluates on
      the IMPLEMENTATION's scripts. *)
From MWF Require Import Base.Str Gen.HeaderData Sched.Header Sched.Launcher Sched.Readers Sched.JobNameProofs Sched.C15Proofs
  Sched.LsfProofs Sched.FluxProofs.
Import ListNotations.

(** ** The monitor holds of the model, for every case (Slurm, Local) *)
Theorem C15_monitor_slurm : forall c,
  c_be c = Slurm -> K6_batch_gpus c = false -> C15_ok c (run_model c) = true.
Proof. exact C15_ok_slurm. Qed.
Print Assumptions C15_monitor_slurm.

Theorem C15_monitor_local : forall c, c_be c = Local -> C15_ok c (run_model c) = true.
Proof. exact C15_ok_local. Qed.
Print Assumptions C15_monitor_local.

(** ** C15_local: a step with neither nodes nor procs (or any step under the
    local adapter) is not scheduled; its script is the shebang followed by the
    command verbatim; the same for the restart script. *)
Theorem C15_local : forall c,
  H15 c = true -> (c_be c = Slurm \/ c_be c = Local) ->
  (schedulable (c_step c) = false \/ c_be c = Local) ->
  exists sc, run_model c = OScript sc /\ sc_sched sc = false
    /\ first_line (sc_text sc) = shebang_of (c_batch c)
    /\ script_body (sc_text sc) = st_cmd (c_step c) ++ [nl]
    /\ match st_restart (c_step c), sc_restart sc with
       | [], None => True
       | _ :: _, Some (_, rt) =>
         first_line rt = shebang_of (c_batch c) /\ script_body rt = st_restart (c_step c) ++ [nl]
       | _, _ => False
       end.
Proof. exact C15_local_lemma. Qed.
Print Assumptions C15_local.

(** ** C15_header_slurm / C15_launcher_slurm / C15_reject, in one statement:
    a scheduled Slurm step is rejected with a diagnostic exactly when an
    allocation exceeds the step's totals (the code's rule, sums included);
    otherwise the generated script (and the restart script)
    - starts with the shebang,
    - reads back, for EVERY supported resource key, to exactly the effective
      value -- present iff in effect, each at most once ([header_reads]),
    - contains no launcher variable any more, and every launcher piece of the
      command has become an srun invocation that reads back to the requested
      tasks / nodes / cores per task ([launcher_reads]). *)
Theorem C15_slurm_scheduled : forall c,
  H15 c = true -> c_be c = Slurm -> K6_batch_gpus c = false -> schedulable (c_step c) = true ->
  (rejected c = true /\ run_model c = OExc Diag) \/
  (rejected c = false /\ exists sc, run_model c = OScript sc /\ sc_sched sc = true
     /\ header_reads c (sc_text sc) /\ launcher_reads c (c_cmd c) (sc_text sc)
     /\ match st_restart (c_step c), sc_restart sc with
        | [], None => True
        | _ :: _, Some (_, rt) => header_reads c rt /\ launcher_reads c (c_restart c) rt
        | _, _ => False
        end).
Proof. exact C15_sched_lemma. Qed.
Print Assumptions C15_slurm_scheduled.

(** [header_reads] and [launcher_reads], spelled out *)
Theorem C15_header_slurm : forall c text, header_reads c text ->
  first_line text = shebang_of (c_batch c) /\
  forall k, In k [RNodes; RTasks; RWalltime; RQueue; RBank; RReservation; RGpus; RExclusive; RQos] ->
    read_sbatch text k = effective_slurm (c_batch c) (c_step c) k
    /\ (count_key k (read_sbatch_all text) <= 1)%nat.
Proof. exact (fun c text H => H). Qed.
Print Assumptions C15_header_slurm.

Theorem C15_launcher_slurm : forall c ps text, launcher_reads c ps text ->
  containsb launcher_var (script_body text) = false /\
  match_body (launch_ok_slurm (c_step c)) (ps ++ [PText [nl]]) (script_body text) = true.
Proof. exact (fun c ps text H => H). Qed.
Print Assumptions C15_launcher_slurm.

Theorem C15_reject : forall c,
  H15 c = true -> c_be c = Slurm -> K6_batch_gpus c = false -> schedulable (c_step c) = true ->
  (run_model c = OExc Diag <-> rejected c = true) /\ run_model c <> OExc Internal.
Proof. exact C15_reject_lemma. Qed.
Print Assumptions C15_reject.

(** ** C15_total (Slurm, Local): never an internal error *)
Theorem C15_total_slurm_local : forall c, H15 c = true ->
  (c_be c = Slurm /\ (schedulable (c_step c) = true -> K6_batch_gpus c = false)) \/ c_be c = Local ->
  run_model c <> OExc Internal.
Proof. exact C15_total_lemma. Qed.
Print Assumptions C15_total_slurm_local.

(** ** LSF (extended): the same for bsub / jsrun.
    [effective_lsf]: the node count defaults to the adapter's documented 1;
    tasks and gpus are requested per jsrun call, never in the header;
    [lsf_walltime_ok]: an "H:M:S" walltime comes back as "[hour:]minute" with
    the same number of minutes (seconds rounded up), any other walltime
    unchanged.  jsrun has no node flag: a token's node count is only checked.
    Known findings excluded: K6b (no directive for qos / exclusive), K6c (a bare
    launcher variable in a step that declares nodes only). *)
Theorem C15_monitor_lsf : forall c,
  c_be c = Lsf -> K6_lsf_header c = false -> K6_lsf_nodes_only c = false -> C15_ok c (run_model c) = true.
Proof. exact C15_ok_lsf. Qed.
Print Assumptions C15_monitor_lsf.

Theorem C15_lsf_scheduled : forall c,
  H15 c = true -> c_be c = Lsf -> K6_lsf_header c = false -> K6_lsf_nodes_only c = false ->
  schedulable (c_step c) = true ->
  (rejected c = true /\ run_model c = OExc Diag) \/
  (rejected c = false /\ exists sc, run_model c = OScript sc /\ sc_sched sc = true
     /\ lsf_header_reads c (sc_text sc) /\ lsf_launcher_reads c (c_cmd c) (sc_text sc)
     /\ match st_restart (c_step c), sc_restart sc with
        | [], None => True
        | _ :: _, Some (_, rt) => lsf_header_reads c rt /\ lsf_launcher_reads c (c_restart c) rt
        | _, _ => False
        end).
Proof. exact C15_lsf_sched_lemma. Qed.
Print Assumptions C15_lsf_scheduled.

Theorem C15_header_lsf : forall c text, lsf_header_reads c text ->
  first_line text = shebang_of (c_batch c) /\
  (forall k, In k [RNodes; RTasks; RQueue; RBank; RReservation; RGpus; RExclusive; RQos] ->
     read_bsub text k = effective_lsf (c_batch c) (c_step c) k) /\
  lsf_walltime_ok (effective (c_batch c) (c_step c) RWalltime) (read_bsub text RWalltime) = true /\
  (forall k, In k [RWalltime; RNodes; RTasks; RQueue; RBank; RReservation; RGpus; RExclusive; RQos] ->
     (count_key k (read_bsub_all text) <= 1)%nat).
Proof. exact (fun c text H => H). Qed.
Print Assumptions C15_header_lsf.

Theorem C15_launcher_lsf : forall c ps text, lsf_launcher_reads c ps text ->
  containsb launcher_var (script_body text) = false /\
  match_body (launch_ok_lsf (c_step c)) (ps ++ [PText [nl]]) (script_body text) = true.
Proof. exact (fun c ps text H => H). Qed.
Print Assumptions C15_launcher_lsf.

Theorem C15_total_lsf : forall c, H15 c = true -> c_be c = Lsf ->
  (schedulable (c_step c) = true -> K6_lsf_header c = false /\ K6_lsf_nodes_only c = false) ->
  run_model c <> OExc Internal.
Proof. exact C15_total_lsf_lemma. Qed.
Print Assumptions C15_total_lsf.

(** ** Flux (extended).  The Flux header is informational ("#INFO (key) value";
    the resources themselves are passed to the Flux API at submission): the node
    line must name the effective node count (default 1), the walltime line the
    walltime in seconds ([flux_declared_seconds]: a number -- int or integral float,
    both admitted by the schema's "integer" -- or a digit text is minutes, otherwise
    [[H:]M:]S).  Every
    launcher piece becomes "flux run -n P -N N -c C [-g G] [-o opts]" reading back
    to the requested counts ([want_flux]). *)
Theorem C15_monitor_flux : forall c, c_be c = Flux -> C15_ok c (run_model c) = true.
Proof. exact C15_ok_flux. Qed.
Print Assumptions C15_monitor_flux.

Theorem C15_flux_scheduled : forall c,
  H15 c = true -> c_be c = Flux -> schedulable (c_step c) = true ->
  (rejected c = true /\ run_model c = OExc Diag) \/
  (rejected c = false /\ exists sc, run_model c = OScript sc /\ sc_sched sc = true
     /\ flux_header_reads_p c (sc_text sc) /\ flux_launcher_reads c (c_cmd c) (sc_text sc)
     /\ match st_restart (c_step c), sc_restart sc with
        | [], None => True
        | _ :: _, Some (_, rt) => flux_header_reads_p c rt /\ flux_launcher_reads c (c_restart c) rt
        | _, _ => False
        end).
Proof. exact C15_flux_sched_lemma. Qed.
Print Assumptions C15_flux_scheduled.

Theorem C15_header_flux : forall c text, flux_header_reads_p c text ->
  first_line text = shebang_of (c_batch c) /\
  read_flux_info text (s "nodes") = effective_flux_nodes (c_batch c) (c_step c) /\
  flux_walltime_ok (flux_declared_seconds (c_step c)) (read_flux_info text (s "walltime")) = true.
Proof. exact (fun c text H => H). Qed.
Print Assumptions C15_header_flux.

Theorem C15_launcher_flux : forall c ps text, flux_launcher_reads c ps text ->
  containsb launcher_var (script_body text) = false /\
  match_body (launch_ok_flux (c_batch c) (c_step c)) (ps ++ [PText [nl]]) (script_body text) = true.
Proof. exact (fun c ps text H => H). Qed.
Print Assumptions C15_launcher_flux.

(** ** C15_total: for every case of the domain, whatever the back-end, script
    generation never ends in an internal error (KeyError, TypeError, ...);
    the known findings are excluded where they apply. *)
Theorem C15_total : forall c, H15 c = true ->
  (schedulable (c_step c) = true ->
     K6_batch_gpus c = false /\ K6_lsf_header c = false /\ K6_lsf_nodes_only c = false) ->
  run_model c <> OExc Internal.
Proof. exact C15_total_all. Qed.
Print Assumptions C15_total.

(** the monitor, all back-ends *)
Theorem C15_monitor : forall c,
  K6_batch_gpus c = false -> K6_lsf_header c = false -> K6_lsf_nodes_only c = false ->
  C15_ok c (run_model c) = true.
Proof. exact C15_ok_all. Qed.
Print Assumptions C15_monitor.

(** ** Modelling fact: [write_script] is a function of (back-end, batch block,
    step).  The model carries no adapter-instance state, so the script of a
    step does not depend on which steps the same adapter wrote before.  The
    check's "sequence" stream holds the implementation to this: one adapter
    instance writes several steps in a row and every script must equal the
    model's for that step alone (and satisfy [C15_ok] with the step's OWN
    effective resources). *)
Theorem C15_stateless : forall c c',
  c_be c = c_be c' -> c_batch c = c_batch c' -> c_broker c = c_broker c' -> c_step c = c_step c' ->
  run_model c = run_model c'.
Proof. exact run_model_stateless. Qed.
Print Assumptions C15_stateless.

(** ** The scanner was written against these regex texts (T-data) *)
Theorem C15_regex_texts : regex_text_matches = true.
Proof. vm_compute; reflexivity. Qed.
Print Assumptions C15_regex_texts.

(** ** The Slurm job name has no character on which [\s+] splits
    ([is_py_space]: the code points Python's unicode [\s] matches, enumerated from
    the running interpreter into Gen/HeaderData.v [py_space_points]); LSF and Flux
    replace blanks only *)
Theorem C15_slurm_job_name_no_ws : forall name,
  forallb (fun c => negb (is_py_space c)) (slurm_job_name name) = true.
Proof. exact slurm_job_name_no_ws. Qed.
Print Assumptions C15_slurm_job_name_no_ws.

(** a tab and a no-break space: "a<TAB>b<NBSP>c d" *)
Example ex_job_name :
  let name := [97; 9; 98; 160; 99; 32; 100]%N in
  slurm_job_name name = s "a_b_c_d"
  /\ under name = [97; 9; 98; 160; 99; 95; 100]%N
  /\ is_py_space 9%N = true /\ is_py_space 160%N = true /\ is_py_space 8195%N = true /\ is_py_space 97%N = false.
Proof. vm_compute. repeat split; reflexivity. Qed.

(** ** Known finding K6a: the batch-level [gpus] never reaches the Slurm header *)
Definition k6a_witness : case :=
  {| c_be := Slurm;
     c_batch := {| b_kw := [(s "host", VStr (s "h")); (s "bank", VStr (s "b")); (s "queue", VStr (s "q"));
                            (s "gpus", VInt 2)]; b_args := [] |};
     c_broker := [];
     c_step := {| st_name := s "s1"; st_desc := s "d"; st_cmd := s "$(LAUNCHER) a.out"; st_restart := [];
                  st_res := [(s "nodes", VInt 1); (s "procs", VInt 2)] |};
     c_cmd := [PBare; PText (s " a.out")]; c_restart := [] |}.
Theorem C15_K6a_refuted : exists c,
  H15 c = true /\ c_be c = Slurm /\ K6_batch_gpus c = true /\ C15_holds c (run_model c) = false.
Proof. exists k6a_witness. vm_compute. repeat split; reflexivity. Qed.
Print Assumptions C15_K6a_refuted.

(** ** Non-vacuity: the hypotheses are satisfiable *)
Definition ex_sched : case :=
  {| c_be := Slurm;
     c_batch := {| b_kw := [(s "host", VStr (s "quartz")); (s "bank", VStr (s "baasic")); (s "queue", VStr (s "pbatch"));
                            (s "qos", VStr (s "normal"))]; b_args := [] |};
     c_broker := [];
     c_step := {| st_name := s "run sim"; st_desc := s "Run it";
                  st_cmd := s "$(LAUNCHER)[1n, 2p] a.out" ++ [10%N] ++ s "$(LAUNCHER) b.out; $(LAUNCHER)[1,2] c";
                  st_restart := s "$(LAUNCHER)[2p] a.out";
                  st_res := [(s "nodes", VInt 2); (s "procs", VStr (s "4")); (s "walltime", VStr (s "00:10:00"));
                             (s "cores per task", VInt 2); (s "exclusive", VBool true)] |};
     c_cmd := [PTok (TNP (s "1") (s "2") 1); PText (s " a.out" ++ [10%N]); PBare; PText (s " b.out; ");
               PTok (TLegacy (s "1") (s "2") 0); PText (s " c")];
     c_restart := [PTok (TP (s "2")); PText (s " a.out")] |}.
Example ex_sched_in_domain :
  H15 ex_sched = true /\ K6_batch_gpus ex_sched = false /\ schedulable (c_step ex_sched) = true
  /\ rejected ex_sched = false.
Proof. vm_compute. repeat split; reflexivity. Qed.

Definition ex_over : case :=
  {| c_be := Slurm; c_batch := c_batch ex_sched; c_broker := [];
     c_step := {| st_name := s "s"; st_desc := []; st_cmd := s "$(LAUNCHER)[2n,2p] a" ++ [10%N] ++ s "$(LAUNCHER)[1n,2p] b";
                  st_restart := []; st_res := [(s "nodes", VInt 2); (s "procs", VInt 4)] |};
     c_cmd := [PTok (TNP (s "2") (s "2") 0); PText (s " a" ++ [10%N]); PTok (TNP (s "1") (s "2") 0); PText (s " b")];
     c_restart := [] |}.
Example ex_over_rejected :
  H15 ex_over = true /\ rejected ex_over = true /\ run_model ex_over = OExc Diag.
Proof. vm_compute. repeat split; reflexivity. Qed.

Definition ex_local : case :=
  {| c_be := Local; c_batch := {| b_kw := [(s "shell", VStr (s "/bin/tcsh"))]; b_args := [] |}; c_broker := [];
     c_step := {| st_name := s "s"; st_desc := []; st_cmd := s "echo hi"; st_restart := []; st_res := [] |};
     c_cmd := [PText (s "echo hi")]; c_restart := [] |}.
Example ex_local_in_domain : H15 ex_local = true.
Proof. vm_compute. reflexivity. Qed.

(** ** Known findings K6b, K6c (LSF) *)
Definition lsf_batch : batch :=
  {| b_kw := [(s "host", VStr (s "h")); (s "bank", VStr (s "b")); (s "queue", VStr (s "q"))]; b_args := [] |}.
Definition k6b_witness : case :=
  {| c_be := Lsf; c_batch := lsf_batch; c_broker := [];
     c_step := {| st_name := s "s1"; st_desc := s "d"; st_cmd := s "$(LAUNCHER) a.out"; st_restart := [];
                  st_res := [(s "nodes", VInt 2); (s "procs", VInt 4); (s "qos", VStr (s "standby"))] |};
     c_cmd := [PBare; PText (s " a.out")]; c_restart := [] |}.
Theorem C15_K6b_refuted : exists c,
  H15 c = true /\ K6_lsf_header c = true /\ C15_holds c (run_model c) = false.
Proof. exists k6b_witness. vm_compute. repeat split; reflexivity. Qed.
Print Assumptions C15_K6b_refuted.

Definition k6c_witness : case :=
  {| c_be := Lsf; c_batch := lsf_batch; c_broker := [];
     c_step := {| st_name := s "s1"; st_desc := s "d"; st_cmd := s "$(LAUNCHER) a.out"; st_restart := [];
                  st_res := [(s "nodes", VInt 2)] |};
     c_cmd := [PBare; PText (s " a.out")]; c_restart := [] |}.
Theorem C15_K6c_refuted : exists c,
  H15 c = true /\ K6_lsf_nodes_only c = true /\ C15_holds c (run_model c) = false.
Proof. exists k6c_witness. vm_compute. repeat split; reflexivity. Qed.
Print Assumptions C15_K6c_refuted.

Definition ex_lsf : case :=
  {| c_be := Lsf; c_batch := lsf_batch; c_broker := [];
     c_step := {| st_name := s "run sim"; st_desc := s "d";
                  st_cmd := s "$(LAUNCHER)[2n, 4p] a.out; $(LAUNCHER) b.out"; st_restart := s "$(LAUNCHER)[2p] a.out";
                  st_res := [(s "nodes", VStr (s "2")); (s "procs", VInt 8); (s "walltime", VStr (s "01:29:31"));
                             (s "rs per node", VInt 4); (s "gpus", VInt 1); (s "bind", VStr (s "packed:2"))] |};
     c_cmd := [PTok (TNP (s "2") (s "4") 1); PText (s " a.out; "); PBare; PText (s " b.out")];
     c_restart := [PTok (TP (s "2")); PText (s " a.out")] |}.
Example ex_lsf_in_domain :
  H15 ex_lsf = true /\ K6_lsf_header ex_lsf = false /\ K6_lsf_nodes_only ex_lsf = false
  /\ schedulable (c_step ex_lsf) = true /\ rejected ex_lsf = false
  /\ read_bsub (match run_model ex_lsf with OScript sc => sc_text sc | _ => [] end) RWalltime = Some (s "01:30").
Proof. vm_compute. repeat split; reflexivity. Qed.

Definition ex_flux : case :=
  {| c_be := Flux;
     c_batch := {| b_kw := [(s "host", VStr (s "h")); (s "bank", VStr (s "b")); (s "queue", VStr (s "q"));
                            (s "nodes", VInt 3)];
                   b_args := [(s "mpi", s "spectrum")] |};
     c_broker := s "0.49.0";
     c_step := {| st_name := s "s1"; st_desc := s "d";
                  st_cmd := s "$(LAUNCHER)[2p] a.out; $(LAUNCHER) b.out"; st_restart := [];
                  st_res := [(s "nodes", VInt 2); (s "procs", VInt 8); (s "walltime", VStr (s "01:00:30"));
                             (s "gpus", VInt 1)] |};
     c_cmd := [PTok (TP (s "2")); PText (s " a.out; "); PBare; PText (s " b.out")];
     c_restart := [] |}.
Example ex_flux_in_domain :
  H15 ex_flux = true /\ schedulable (c_step ex_flux) = true /\ rejected ex_flux = false
  /\ read_flux_info (match run_model ex_flux with OScript sc => sc_text sc | _ => [] end) (s "walltime")
     = Some (s "3630.0").
Proof. vm_compute. repeat split; reflexivity. Qed.

(** an integral float walltime ([walltime: 30.0], admitted by the schema's "integer")
    is a number of minutes for Flux and stays in the domain *)
Definition ex_flux_float : case :=
  {| c_be := Flux; c_batch := c_batch ex_flux; c_broker := s "0.49.0";
     c_step := {| st_name := s "s1"; st_desc := s "d"; st_cmd := s "$(LAUNCHER) a.out"; st_restart := [];
                  st_res := [(s "nodes", VInt 1); (s "procs", VInt 1); (s "walltime", VFloat 30)] |};
     c_cmd := [PBare; PText (s " a.out")]; c_restart := [] |}.
Example ex_flux_float_in_domain :
  H15 ex_flux_float = true /\ rejected ex_flux_float = false
  /\ flux_declared_seconds (c_step ex_flux_float) = Some 1800%N
  /\ read_flux_info (match run_model ex_flux_float with OScript sc => sc_text sc | _ => [] end) (s "walltime")
     = Some (s "1800").
Proof. vm_compute. repeat split; reflexivity. Qed.

From Coq Require Import List NArith Bool Permutation.
From MWF Require Import Base.Str Expand.PyStr Expand.PyStrProofs Expand.Subst Expand.SubstProofs.
Import ListNotations.

Theorem C09_seq_eq_sim : forall (T l : table) (x : str),
  wf_tableb T = true -> Permutation l T ->
  token_free T (sim T x) = true ->
  seq l x = sim T x.
Proof. intros T l x H. apply seq_eq_sim. apply wf_tableb_spec. exact H. Qed.
Print Assumptions C09_seq_eq_sim.

(** C09 -- every defined token is substituted with the right value, and only those.

    Model: Expand/PyStr.v (Python [str.replace], [in], [startswith] over code
    points) and Expand/Subst.v (token tables, [seq] = the implementation's
    sequential [replace] loops, [sim] = the specification's simultaneous
    left-to-right substitution, [apply_function], the environment / parameter /
    workspace / $(WORKSPACE) passes, the staging of texts in both readings
    [stage Model] and [stage Spec], the hygiene predicate [hyg], the monitor
    [C09_ok]).  Proofs: Expand/PyStrProofs.v, SubstProofs.v, SubstPasses.v, SubstExists.v;
    concrete witnesses: SubstWitness.v.

    [C09_ok c o] says: the observed expansion [o] (every record's name,
    description, run dict, script text, restart script text) IS [stage Spec c]
    -- the study in which every field went through [sim] of exactly the defined
    token tables, pass by pass -- and no defined token occurs in it any more.
    harness/props/c09.py evaluates this same [C09_ok], inside Coq, on the texts
    written by the IMPLEMENTATION (real adapters' write_script), next to the
    correspondence [stage Model c = observed].

    Hypotheses.  [valid_case]: the domain of the model (distinct step names over
    [A-Za-z0-9_.-], parameter keys distinct words, row counts agree, the order is
    a duplicate-free enumeration of the steps).  [hyg]: the token-freeness
    hypothesis of the core law for every pass on every text of the study, and
    the WSREGEX scan is exact.  Its complement is the union of the two known
    findings: K4a ([sig_K4a]: a WSREGEX capture swallowed "$", "(" or ")") and
    K4b ([sig_K4b = negb hyg]: token text arises from substituted values); K4c
    ([sig_K4c]: a step name with a character outside the WSREGEX class, whose
    workspace token is therefore never recognised) lies inside K4b's signature
    and is told apart by its own.  Directory names come from the SafePath model
    ([msp] = make_safe_path through [SafePath.sanitize], alphabet regenerated
    from utils.py), so step names may hold characters that it deletes.
    The parameter token is the default "$" throughout: the T-code tie
    (translate/tcode_subst.py -> Expand/SubstGen.v) reads get_combinations'
    [Combination(self.token)] as [Combination()] under the hypothesis
    [pg_token = "$"]; generators built with a non-default parameter token are
    compared through the correspondence run only. *)
From MWF Require Import Base.Str Expand.PyStr Expand.Subst Expand.SubstProofs Expand.SubstPasses
     Expand.SubstExists Expand.SubstWitness.
From Coq Require Import Permutation.

(* ======================================================================== *)
(** * The core law: sequential [str.replace] = simultaneous substitution *)

(** For every token table [T] (token strings "$(" name ")" with names free of
    "$", "(", ")", pairwise distinct -- [wf_tableb]) and EVERY text [x]: if the
    simultaneous substitution [sim T x] contains no occurrence of a token of [T],
    then applying Python's [replace] for the entries of [T] in ANY order [l]
    yields exactly [sim T x].  (The general statement, not the fallback.) *)
Theorem seq_eq_sim : forall (T l : table) (x : str),
  wf_tableb T = true -> Permutation l T -> token_free T (sim T x) = true ->
  seq l x = sim T x.
Proof. exact core_seq_eq_sim. Qed.
Print Assumptions seq_eq_sim.

(** The same for a loop that visits only some entries (repetitions allowed), as
    long as it visits every token that occurs in the text: the workspace loop of
    [Study._stage] runs over the regex captures, not over all steps. *)
Theorem seq_eq_sim_subloop : forall (T l : table) (x : str),
  wf_tableb T = true ->
  (forall e, In e l -> In e T) ->
  (forall t, In t (tokens T) -> occursb t x = true -> In t (tokens l)) ->
  token_free T (sim T x) = true ->
  seq l x = sim T x.
Proof. exact core_seq_eq_sim_gen. Qed.
Print Assumptions seq_eq_sim_subloop.

(** Consequence 1: no defined token survives. *)
Theorem C09_no_token_survives : forall (T l : table) (x : str),
  wf_tableb T = true -> Permutation l T -> token_free T (sim T x) = true ->
  forall t, In t (tokens T) -> occursb t (seq l x) = false.
Proof. exact core_no_token_survives. Qed.
Print Assumptions C09_no_token_survives.

(** Consequence 2: the order of dict iteration is irrelevant (also serves C11). *)
Theorem C09_order_irrelevant : forall (T l1 l2 : table) (x : str),
  wf_tableb T = true -> Permutation l1 T -> Permutation l2 T ->
  token_free T (sim T x) = true -> seq l1 x = seq l2 x.
Proof. exact core_order_irrelevant. Qed.
Print Assumptions C09_order_irrelevant.

(** Consequence 3: text outside token occurrences is untouched.  The input
    splits into literal characters [C c] and token occurrences [K t v] with
    [(t, v)] an entry of the table; the input is the list with every [K t v]
    read as [t] ([src]), the output is the list with every [K t v] read as [v]
    ([dst]); and no token of the table starts at a literal character. *)
Theorem C09_untouched : forall (T l : table) (x : str),
  wf_tableb T = true -> Permutation l T -> token_free T (sim T x) = true ->
  exists L : list item,
    x = src L /\ seq l x = dst L /\
    (forall t v, In (K t v) L -> In (t, v) T) /\
    (forall L1 c L2, L = L1 ++ C c :: L2 -> lookup_prefix T (c :: src L2) = None).
Proof. exact core_untouched. Qed.
Print Assumptions C09_untouched.

Theorem C09_src_dst : forall L : list item,
  src L = flat_map (fun it => match it with C c => [c] | K t _ => t end) L /\
  dst L = flat_map (fun it => match it with C c => [c] | K _ v => v end) L.
Proof. exact src_dst_spec. Qed.
Print Assumptions C09_src_dst.

(** What [sim] is: a defined token at the head is replaced by ITS value ... *)
Theorem C09_sim_token : forall (T : table) (t v r : str),
  wf_tableb T = true -> In (t, v) T -> sim T (t ++ r) = v ++ sim T r.
Proof. exact core_sim_token. Qed.
Print Assumptions C09_sim_token.

(** ... a character at which no defined token starts is copied. *)
Theorem C09_sim_char : forall (T : table) (c : N) (r : str),
  (forall t, In t (tokens T) -> prefixb t (c :: r) = false) -> sim T (c :: r) = c :: sim T r.
Proof. exact core_sim_char. Qed.
Print Assumptions C09_sim_char.

(** The token-freeness hypothesis cannot be dropped (this is K4b in the small):
    with $(A) -> "$(B)", $(B) -> "1" the two orders of [replace] disagree with
    each other and one of them with [sim]. *)
Theorem seq_eq_sim_unconditional_refuted : exists (T l : table) (x : str),
  wf_tableb T = true /\ Permutation l T /\ seq l x <> sim T x /\ seq l x <> seq (rev l) x.
Proof. exact unconditional_core_refuted. Qed.
Print Assumptions seq_eq_sim_unconditional_refuted.

(* ======================================================================== *)
(** * The tables of the passes *)

(** Every variable, label and path dependency added to the environment (and
    not removed afterwards) is an entry "$(name)" |-> value of one of the three
    tables of the environment pass ([env_pass] = [sim] of labels, then
    dependencies, then substitutions: C09_env_pass_unfold). *)
Theorem C09_env_values : forall (ops1 : list env_op) (it : env_item) (ops2 : list env_op),
  (forall n, In (ERemove n) ops2 -> fst (item_entry it) <> tok n) ->
  In (item_entry it) (env_entries (env_build (ops1 ++ EAdd it :: ops2))).
Proof. exact env_build_defines. Qed.
Print Assumptions C09_env_values.

(** C09_values.  The table of the parameter pass for row [i] is well formed and
    maps $(K), $(K.label), $(K.name) to row [i]'s value / label / name ... *)
Theorem C09_values : forall (ps : list param) (i : nat) (p : param) (r : str),
  keys_okb ps = true -> In p ps ->
  sim (param_table ps i) (tok (p_key p) ++ r) = row_value p i ++ sim (param_table ps i) r /\
  sim (param_table ps i) (tok (p_key p ++ s ".label") ++ r) = row_label p i ++ sim (param_table ps i) r /\
  sim (param_table ps i) (tok (p_key p ++ s ".name") ++ r) = param_name p ++ sim (param_table ps i) r.
Proof. exact param_table_values. Qed.
Print Assumptions C09_values.

(** ... and only those: where none of these tokens starts, the character is copied. *)
Theorem C09_values_only : forall (ps : list param) (i : nat) (c : N) (r : str),
  (forall p, In p ps ->
     prefixb (tok (p_key p)) (c :: r) = false /\
     prefixb (tok (p_key p ++ s ".label")) (c :: r) = false /\
     prefixb (tok (p_key p ++ s ".name")) (c :: r) = false) ->
  sim (param_table ps i) (c :: r) = c :: sim (param_table ps i) r.
Proof. exact param_table_only. Qed.
Print Assumptions C09_values_only.

(** [Combination.apply] (three loops over the row's dicts) computes it. *)
Theorem C09_values_model : forall (ps : list param) (i : nat) (x : str),
  keys_okb ps = true ->
  token_free (param_table ps i) (sim (param_table ps i) x) = true ->
  param_pass Model ps i x = sim (param_table ps i) x.
Proof. exact param_pass_model. Qed.
Print Assumptions C09_values_model.

Theorem C09_valid_keys : forall c, valid_case c = true -> keys_okb (c_params c) = true.
Proof. exact valid_case_keys. Qed.
Print Assumptions C09_valid_keys.

(** The workspace pass of an instance [d] maps the token $(n.workspace) of every
    step [n] staged before it to the directory recorded for [n] in [d] ... *)
Theorem C09_ws_lookup : forall (d : desc) (n r : str),
  wf_tableb (ws_T d) = true -> In n (map fst (d_dirs d)) ->
  sim (ws_T d) (ws_tok n ++ r) = dir_of n (d_dirs d) ++ sim (ws_T d) r.
Proof. exact ws_pass_lookup. Qed.
Print Assumptions C09_ws_lookup.

(** C09_ws_ordinary ... which, for a step that is not a funnel parent, is the
    workspace of the instance [d'] of that step for the SAME combination
    ([same_combo]: [d'] is the step's only, unparameterised instance, or its row
    gives the same combination string -- the labels of the parameters [d'] uses,
    joined by "." -- as [d]'s row; the same row in particular).  Holds of the
    plan in either reading [m]. *)
Theorem C09_ws_ordinary : forall (m : mode) (c : case) (ds : list desc) (d d' : desc),
  valid_case c = true -> plan m c = Some ds -> In d ds -> In d' ds ->
  ~ In (s_name (d_step d')) (hub_of (d_step d)) ->
  In (s_name (d_step d')) (map fst (d_dirs d)) ->
  same_combo (c_params c) d d' = true ->
  dir_of (s_name (d_step d')) (d_dirs d) = d_ws d'.
Proof. exact plan_ws_ordinary. Qed.
Print Assumptions C09_ws_ordinary.

(** ... and such an instance exists: for every planned instance [d] and every
    step [n] that [d]'s step depends on ordinarily or whose workspace it refers
    to (and that is not a funnel parent), the plan holds an instance [d'] of [n]
    for the same combination, and $(n.workspace) denotes ITS workspace. *)
Theorem C09_ws_ordinary_exists : forall (m : mode) (c : case) (ds : list desc) (d : desc) (n : str),
  valid_case c = true -> plan m c = Some ds -> In d ds ->
  n <> SOURCE -> In n (map fst (d_dirs d)) -> ~ In n (hub_of (d_step d)) ->
  (In n (ordinary_of (d_step d)) \/ In n (d_refs d)) ->
  exists d', In d' ds /\ s_name (d_step d') = n /\ same_combo (c_params c) d d' = true /\
             dir_of n (d_dirs d) = d_ws d'.
Proof. exact plan_ws_ordinary_exists. Qed.
Print Assumptions C09_ws_ordinary_exists.

Theorem C09_same_combo_row : forall (ps : list param) (d d' : desc),
  d_row d' = d_row d -> same_combo ps d d' = true.
Proof. exact same_combo_same_row. Qed.
Print Assumptions C09_same_combo_row.

Theorem C09_same_combo_labels : forall (ps : list param) (d d' : desc) (i i' : nat),
  d_row d = Some i -> d_row d' = Some i' ->
  (forall k p, In k (d_used d') -> find_param k ps = Some p -> row_label p i = row_label p i') ->
  same_combo ps d d' = true.
Proof. exact same_combo_labels. Qed.
Print Assumptions C09_same_combo_labels.

(** C09_ws_funnel: for a funnel parent ("p_*" / "p*" in depends) it is the
    step's root directory root/p ([msp] = make_safe_path). *)
Theorem C09_ws_funnel : forall (m : mode) (c : case) (ds : list desc) (d : desc) (n : str),
  valid_case c = true -> plan m c = Some ds -> In d ds ->
  In n (hub_of (d_step d)) -> n <> SOURCE -> In n (map fst (d_dirs d)) ->
  dir_of n (d_dirs d) = msp (c_root c) [n].
Proof. exact plan_ws_funnel. Qed.
Print Assumptions C09_ws_funnel.

(** $(WORKSPACE) is the instance's own directory, which is root/step or
    root/step/combination and goes with the instance's name. *)
Theorem C09_own_workspace : forall (d : desc) (r : str),
  sim (rec_T d) (WORKSPACE_TOK ++ r) = d_ws d ++ sim (rec_T d) r.
Proof. exact rec_pass_lookup. Qed.
Print Assumptions C09_own_workspace.

Theorem C09_own_workspace_dir : forall (m : mode) (c : case) (ds : list desc) (d : desc),
  plan m c = Some ds -> In d ds ->
  d_ws d = own_ws (c_root c) (c_params c) (s_name (d_step d)) (d_used d) (d_row d) /\
  d_name d = iname (c_params c) (s_name (d_step d)) (d_used d) (d_row d).
Proof. exact plan_own_ws. Qed.
Print Assumptions C09_own_workspace_dir.

(* ======================================================================== *)
(** * The study: passes, recursion, and the monitor *)

(** C09_recursion: [apply_function] reaches every string at every depth of
    lists and dicts, each exactly once and in place (empty strings are falsy and
    stay empty), and leaves structure, dict keys and non-strings alone. *)
Theorem C09_recursion : forall (f : str -> str) (v : pyval),
  strings_of (apply_function f v) = map (apply_str f) (strings_of v) /\
  skeleton (apply_function f v) = skeleton v.
Proof. exact recursion_pyval. Qed.
Print Assumptions C09_recursion.

Theorem C09_recursion_step : forall (f : str -> str) (st : step),
  step_strings (step_map f st) = map (apply_str f) (step_strings st) /\
  s_name (step_map f st) = s_name st /\
  map fst (s_run (step_map f st)) = map fst (s_run st).
Proof. exact recursion_step. Qed.
Print Assumptions C09_recursion_step.

(** C09_passes: under the hypotheses the implementation's reading of staging
    yields, for every planned instance [d] of a step written as [st0] in the
    specification, the script
      "#!shell\n\n" ++ rec_pass (ws_pass (param_pass (row of d) (env_pass cmd))) ++ "\n"
    with every pass the simultaneous substitution [sim] of its table
    ([spec_text] / [spec_field] unfold to exactly that composition). *)
Theorem C09_passes : forall (c : case) (ds : list desc),
  valid_case c = true -> hyg c = true -> plan Spec c = Some ds ->
  stage Model c = Staged (map (inst_of Spec (c_params c) (c_shell c)) ds) /\
  forall d, In d ds -> exists st0,
    In st0 (c_steps c) /\ s_name st0 = s_name (d_step d) /\
    let i := inst_of Spec (c_params c) (c_shell c) d in
    i_script i = script_text (c_shell c) (spec_text c d (run_text "cmd" st0)) /\
    i_rscript i = match spec_text c d (run_text "restart" st0) with
                  | [] => None
                  | _ => Some (script_text (c_shell c) (spec_text c d (run_text "restart" st0)))
                  end.
Proof. exact script_passes. Qed.
Print Assumptions C09_passes.

Theorem C09_spec_text_unfold : forall (c : case) (d : desc) (x0 : str),
  spec_text c d x0 =
  sim (rec_T d) (sim (ws_T d)
    (match d_row d with
     | None => env_pass Spec (env_build (c_env c)) x0
     | Some i => sim (param_table (c_params c) i) (env_pass Spec (env_build (c_env c)) x0)
     end)).
Proof. exact spec_text_unfold. Qed.
Print Assumptions C09_spec_text_unfold.

Theorem C09_env_pass_unfold : forall (E : envt) (x : str),
  env_pass Spec E x = match x with
                      | [] => []
                      | _ => sim (e_subs E) (sim (e_deps E) (sim (e_labels E) x))
                      end.
Proof. exact env_pass_unfold. Qed.
Print Assumptions C09_env_pass_unfold.

(** The two readings of staging agree on every hygienic study ... *)
Theorem C09_model_eq_spec : forall c : case, hyg c = true -> stage Model c = stage Spec c.
Proof. exact stage_model_eq_spec. Qed.
Print Assumptions C09_model_eq_spec.

(** ... hence the monitor holds: C09 for the model. *)
Theorem C09 : forall c : case, valid_case c = true -> hyg c = true -> C09_ok c (stage Model c) = true.
Proof. exact C09_main. Qed.
Print Assumptions C09.

(* ======================================================================== *)
(** * Known findings: the full statement (without [hyg]) is false *)

(** Full statement:  forall c, valid_case c = true -> C09_ok c (stage Model c) = true.
    K4a: WSREGEX's character class contains "$", "(", ")" and "/", so
    "$(a.workspace)/$(a.workspace)" (and "$(P)/$(a.workspace)") is scanned as
    ONE workspace name and staging raises instead of substituting. *)
Theorem C09_K4a_refuted : exists c : case,
  valid_case c = true /\ sig_K4a c = true /\
  stage Model c = Raised /\ C09_ok c (stage Model c) = false.
Proof. exact K4a_refuted. Qed.
Print Assumptions C09_K4a_refuted.

Theorem C09_K4a_param_refuted : exists c : case,
  valid_case c = true /\ sig_K4a c = true /\ c_params c <> [] /\
  stage Model c = Raised /\ C09_ok c (stage Model c) = false.
Proof. exact K4a_param_refuted. Qed.
Print Assumptions C09_K4a_param_refuted.

(** K4b: a value that is itself token text is substituted again by a later
    pass ($(WORKSPACE) inside a parameter value) or survives ($(VAR1) inside a
    parameter value: the environment pass ran earlier). *)
Theorem C09_K4b_refuted : exists c : case,
  valid_case c = true /\ sig_K4a c = false /\ sig_K4b c = true /\
  C09_ok c (stage Model c) = false.
Proof. exact K4b_refuted. Qed.
Print Assumptions C09_K4b_refuted.

(** K4c: the WSREGEX class has no blank (nor quote, "@", "#"): for a step named
    "run sim" the token $(run sim.workspace) is never recognised and survives
    in the script, silently. *)
Theorem C09_K4c_refuted : exists c : case,
  valid_case c = true /\ sig_K4a c = false /\ sig_K4c c = true /\
  C09_ok c (stage Model c) = false.
Proof. exact K4c_refuted. Qed.
Print Assumptions C09_K4c_refuted.

(* ======================================================================== *)
(** * Non-vacuity: the hypotheses are satisfiable, with every kind of token *)
Example C09_hypotheses_satisfiable :
  valid_case good_case = true /\ hyg good_case = true /\ sig_K4a good_case = false /\
  script_of (s "a_P.2") (stage Model good_case) =
    Some (script_text (s "/bin/bash") (s "echo 2 data $(date) > /out/a/P.2/o")) /\
  script_of (s "b_P.2") (stage Model good_case) =
    Some (script_text (s "/bin/bash") (s "cat /out/a/P.2/o # P.2 size")) /\
  script_of (s "c") (stage Model good_case) =
    Some (script_text (s "/bin/bash") (s "ls /out/a /out")).
Proof. exact good_facts. Qed.

(** ... also with a funnel parent whose name make_safe_path rewrites
    ("run:sim" lives in /out/runsim), un-parameterised and parameterised consumer *)
Example C09_unsafe_name_satisfiable :
  valid_case colon_case = true /\ hyg colon_case = true /\ sig_K4c colon_case = false /\
  script_of (s "collect") (stage Model colon_case) =
    Some (script_text (s "/bin/bash") (s "ls /out/runsim")) /\
  script_of (s "compare_P.2") (stage Model colon_case) =
    Some (script_text (s "/bin/bash") (s "cmp 2 /out/runsim")) /\
  script_of (s "run:sim_P.2") (stage Model colon_case) =
    Some (script_text (s "/bin/bash") (s "sim 2")).
Proof. exact colon_facts. Qed.

Example C09_core_law_hypotheses_satisfiable :
  let T := [(s "$(A)", s "1"); (s "$(A.label)", s "A.1")] in
  wf_tableb T = true /\ token_free T (sim T (s "x$(A)$(A.label)$(B)")) = true /\
  sim T (s "x$(A)$(A.label)$(B)") = s "x1A.1$(B)".
Proof. exact core_example. Qed.

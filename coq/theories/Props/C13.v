From MWF Require Import Base.Str Spec.Json Spec.Schema Gen.SpecData Spec.Verify Spec.SpecProofs.
From Coq Require Import List ZArith.
Theorem C13_enums : forall x, In x priority_enum ->
  exists p u, priority_from_str x = Some p /\ urgency_of p flux_urgency_table = Some u /\ (0 <= u <= 31)%Z.
Proof. exact enums_ok. Qed.
Print Assumptions C13_enums.

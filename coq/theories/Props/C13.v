(** C13 -- malformed specifications are rejected cleanly; accepted ones are usable.

    Model: Spec/Verify.v ([verify_and_build] = yaml load, [verify], the three
    consumers, run_study's reserved names, [Study.add_step] per step) over
    Spec/Json.v documents (unbounded) and the schema REGENERATED from
    maestrowf/specification/schemas/yamlspecification.json (Gen/SpecData.v).
    Outcomes: [Accept steps] | [Reject (Diag _)] (ValidationError / ValueError)
    | [Reject Internal] (KeyError / TypeError / AttributeError ...).
    [C13_ok] is the monitor the harness evaluates on the IMPLEMENTATION's
    outcome for every generated document; [C13_monitor] is the theorem that the
    model always satisfies it.

    [build d] is the pipeline on a loaded document (what yaml.load returned),
    [verify_and_build doc = build (yaml_load doc)] on a document as written.

    Known finding K5 (hypothesis [nodupkeys doc = true] of [C13_monitor]): a
    mapping that repeats a key is merged silently by the YAML loader before
    verification can see it -- [C13_K5_refuted]. *)
From Coq Require Import List ZArith NArith Bool Arith.
From MWF Require Import Base.Str Spec.Json Spec.Schema Gen.SpecData Spec.Verify
  Spec.SchemaProofs Spec.SpecProofs Spec.SpecAccept Spec.SpecReject Spec.SpecExamples.
Import ListNotations.

(* =========================================================== core theorems *)

(** The pipeline never ends in an internal error, whatever the document. *)
Theorem C13_never_internal : forall doc : jv, verify_and_build doc <> Reject Internal.
Proof. exact written_never_internal. Qed.
Print Assumptions C13_never_internal.

(** [verify] accepts => every key the consumers index (name, description, run,
    run.cmd/depends, values, label, dependency name/path/url, ...) is present
    with the type the consumer needs: get_study_environment, get_study_steps,
    get_parameters and Study.add_step are total (never Internal) on it; and
    [verify] itself never crashes. *)
Theorem C13_keys_safe : forall (sp : spec) (u : unit), verify sp = Ok u ->
  get_study_environment (sp_env sp) <> Err Internal /\
  get_study_steps (sp_study sp) <> Err Internal /\
  get_parameters (sp_globals sp) <> Err Internal /\
  (forall steps nodes, get_study_steps (sp_study sp) = Ok steps ->
                       mfold add_step steps nodes <> Err Internal).
Proof. exact consumers_total. Qed.
Print Assumptions C13_keys_safe.

Theorem C13_verify_total : forall sp : spec, verify sp <> Err Internal.
Proof. exact verify_never_internal. Qed.
Print Assumptions C13_verify_total.

(** Accepted => the built study's step list is the document's step names, in
    order: nothing dropped, nothing renamed, nothing added. *)
Theorem C13_no_drop : forall (doc : jv) (ns : list str),
  verify_and_build doc = Accept ns -> ns = step_names (yaml_load doc).
Proof. exact written_no_drop. Qed.
Print Assumptions C13_no_drop.

(** Every string of the schema's priority enum is understood by
    StepPriority.from_str and has a Flux urgency in 0..31 (both regenerated
    from the source); the numeric branch ceil(x * scale) stays in range for the
    schema's 0 <= x <= 1. *)
Theorem C13_enums : forall x : str, In x priority_enum ->
  exists p u, priority_from_str x = Some p /\ urgency_of p flux_urgency_table = Some u /\ (0 <= u <= 31)%Z.
Proof. exact enums_ok. Qed.
Print Assumptions C13_enums.

Theorem C13_enums_numeric : forall n d : Z, (0 < d)%Z -> (0 <= n <= d)%Z ->
  (0 <= flux_urgency_num n d <= flux_urgency_scale)%Z.
Proof. exact urgency_num_range. Qed.
Print Assumptions C13_enums_numeric.

(** environment.Script._verify (regenerated: which [re] function on which
    pattern) is what the model's [wordy] was written against: an env.sources
    line is usable iff it CONTAINS a word character. *)
Theorem C13_script_form : script_verify_form = script_form_expected.
Proof. exact script_form_ok. Qed.
Print Assumptions C13_script_form.

(** The monitor holds on the model for every document that does not repeat a
    key: never Internal; accepted => the loaded document breaks no documented
    rule ([malformed] = schema violation at any depth, duplicate step names,
    self / undefined / forward dependency, value lists of different lengths,
    duplicate or empty variable / label / dependency names) and the step list
    is the document's. *)
Theorem C13_monitor : forall doc : jv, nodupkeys doc = true -> C13_ok doc (verify_and_build doc) = true.
Proof. exact monitor_holds. Qed.
Print Assumptions C13_monitor.

(* ======================================================= extended theorems *)

(** Every malformed (loaded) document is rejected WITH A DIAGNOSTIC. *)
Theorem C13_reject_malformed : forall d : jv, malformed d = true -> exists dg, build d = Reject (Diag dg).
Proof. exact malformed_rejected. Qed.
Print Assumptions C13_reject_malformed.

(** Schema classes, at ANY position [p] the schema can be navigated to
    (through properties / patternProperties / items): replacing the value at
    [p] by one its sub-schema does not admit is rejected with a diagnostic. *)
Theorem C13_reject_at : forall (d : jv) (p : path) (sc : schema) (x : jv),
  value_at d p <> None -> schema_at DOC p = Some sc -> valid sc x = false ->
  exists dg, build (set_at d p x) = Reject (Diag dg).
Proof. exact reject_invalid_at. Qed.
Print Assumptions C13_reject_at.

(** class "delete a required key" *)
Theorem C13_reject_delete_required : forall (d : jv) (p : path) (sc : schema) (l : list (str * jv)) (k : str),
  value_at d p = Some (JObj l) -> schema_at DOC p = Some sc -> In k (required_of sc) ->
  exists dg, build (set_at d p (JObj (remove_key k l))) = Reject (Diag dg).
Proof. exact reject_delete_required. Qed.
Print Assumptions C13_reject_delete_required.

(** class "empty string for a string that must not be empty" *)
Theorem C13_reject_empty_string : forall (d : jv) (p : path) (sc : schema),
  value_at d p <> None -> schema_at DOC p = Some sc -> (1 <= min_length_of sc)%nat ->
  exists dg, build (set_at d p (JStr [])) = Reject (Diag dg).
Proof. exact reject_empty_string. Qed.
Print Assumptions C13_reject_empty_string.

(** class "unknown key" in a closed mapping (step, run, parameter, env, path / git dependency) *)
Theorem C13_reject_unknown_key : forall (d : jv) (p : path) (sc : schema) (l : list (str * jv)) (k : str) (x : jv),
  value_at d p = Some (JObj l) -> schema_at DOC p = Some sc ->
  closed_of sc = true -> pattern_all_of sc = None -> ~ In k (map fst (props_of sc)) ->
  exists dg, build (set_at d p (JObj (l ++ [(k, x)]))) = Reject (Diag dg).
Proof. exact reject_unknown_key. Qed.
Print Assumptions C13_reject_unknown_key.

(** class "wrong JSON type at a schema-typed position" *)
Theorem C13_reject_wrong_type : forall (d : jv) (p : path) (sc : schema) (t : jty) (x : jv),
  value_at d p <> None -> schema_at DOC p = Some sc -> type_of sc = Some t -> has_type t x = false ->
  exists dg, build (set_at d p x) = Reject (Diag dg).
Proof. exact reject_wrong_type. Qed.
Print Assumptions C13_reject_wrong_type.

(** ... and at an anyOf position (nodes, procs, walltime, priority, ...): a
    value no alternative admits *)
Theorem C13_reject_no_alternative : forall (d : jv) (p : path) (sc : schema) (ss : list schema) (x : jv),
  value_at d p <> None -> schema_at DOC p = Some sc -> In (KAnyOf ss) sc ->
  forallb (fun a => negb (valid a x)) ss = true ->
  exists dg, build (set_at d p x) = Reject (Diag dg).
Proof. exact reject_no_alternative. Qed.
Print Assumptions C13_reject_no_alternative.

(** class "label list" (label / value-list mismatch): a parameter label must be a string *)
Theorem C13_reject_label_list : forall (d : jv) (name : str) (ll : list jv),
  value_at d [PKey (s "global.parameters"); PKey name; PKey (s "label")] <> None ->
  exists dg, build (set_at d [PKey (s "global.parameters"); PKey name; PKey (s "label")] (JArr ll)) = Reject (Diag dg).
Proof. exact reject_label_list. Qed.
Print Assumptions C13_reject_label_list.

(** class "duplicate step name" (or a step named like the internal source node) *)
Theorem C13_reject_dup_step : forall d : jv, ~ NoDup (source_name :: step_names d) ->
  exists dg, build d = Reject (Diag dg).
Proof. exact reject_dup_step_names. Qed.
Print Assumptions C13_reject_dup_step.

(** ... as a mutation: repeating the i-th step at the end of the study *)
Theorem C13_reject_repeat_step : forall (l : list (str * jv)) (i : nat) (st : jv),
  has_key (s "study") l = true -> nth_error (doc_steps (JObj l)) i = Some st ->
  exists dg, build (set_study (JObj l) (doc_steps (JObj l) ++ [st])) = Reject (Diag dg).
Proof. exact reject_repeat_step. Qed.
Print Assumptions C13_reject_repeat_step.

(** class "self dependency" (x, x_*, x* ...) *)
Theorem C13_reject_self_dependency : forall (d st : jv) (dep : str),
  In st (doc_steps d) -> In dep (step_depends st) -> strip_stars dep = str_of (field (s "name") st) ->
  exists dg, build d = Reject (Diag dg).
Proof. exact reject_self_dependency. Qed.
Print Assumptions C13_reject_self_dependency.

(** class "dependency on an undefined step" *)
Theorem C13_reject_undefined_dependency : forall (d st : jv) (dep : str),
  In st (doc_steps d) -> In dep (step_depends st) ->
  ~ In (strip_stars dep) (source_name :: step_names d) ->
  exists dg, build d = Reject (Diag dg).
Proof. exact reject_undefined_dependency. Qed.
Print Assumptions C13_reject_undefined_dependency.

(** class "value lists of different lengths" *)
Theorem C13_reject_param_length : forall (d : jv) (n m : nat),
  In n (param_lengths d) -> In m (param_lengths d) -> n <> m ->
  exists dg, build d = Reject (Diag dg).
Proof. exact reject_param_length_mismatch. Qed.
Print Assumptions C13_reject_param_length.

(** class "duplicate variable / label / dependency name" (in the loaded document) *)
Theorem C13_reject_dup_env_name : forall d : jv, ~ NoDup (env_names d) ->
  exists dg, build d = Reject (Diag dg).
Proof. exact reject_dup_env_names. Qed.
Print Assumptions C13_reject_dup_env_name.

(** FULL statement of C13_stageable (DESIGN 5): accepted /\ H8 (hygiene of C08:
    no external dependencies to acquire, plain names, no workspace references)
    => [Study.stage] returns an execution graph.
    PROVED PART: accepted => node names are unique and every dependency of the
    i-th step names the source node or one of the first i steps, never the step
    itself -- the graph handed to [stage] is topologically ordered by insertion,
    so its cycle check passes and every parent it looks up exists.
    MISSING: the expansion performed by [stage] itself (parameter combinations,
    workspace substitution; model Expand/, property C08) and its file-system
    effects are not composed with this model; the harness stages every accepted
    document inside the hygiene domain for real and counts a step without a
    staged instance as dropped. *)
Theorem C13_stageable_partial : forall (d : jv) (ns : list str),
  build d = Accept ns ->
  NoDup (source_name :: ns) /\
  forall i st dep, nth_error (doc_steps d) i = Some st -> In dep (step_depends st) ->
    In (strip_stars dep) (source_name :: firstn i ns) /\ strip_stars dep <> str_of (field (s "name") st).
Proof. exact accepted_topological. Qed.
Print Assumptions C13_stageable_partial.

(** Known finding K5: FULL statement of the monitor theorem is
    [forall doc, C13_ok doc (verify_and_build doc) = true]; it is refuted by a
    document whose env.variables repeats a key (signature [sig_K5]). *)
Theorem C13_K5_refuted : exists doc : jv,
  sig_K5 doc (verify_and_build doc) = true /\ C13_ok doc (verify_and_build doc) = false.
Proof. exact K5_refuted. Qed.
Print Assumptions C13_K5_refuted.

(* ============================================================ non-vacuity *)
Example ex_accepted : build ex_doc = Accept [s "a"; s "b"] /\ malformed ex_doc = false /\ nodupkeys ex_doc = true.
Proof. vm_compute. repeat split; reflexivity. Qed.

(** the hypotheses of the schema classes are satisfiable on [ex_doc] *)
Example ex_delete_required :
  match value_at ex_doc p_run0, schema_at DOC p_run0 with
  | Some (JObj _), Some sc => mem_str (s "cmd") (required_of sc)
  | _, _ => false
  end = true /\
  build (set_at ex_doc p_run0 (JObj (remove_key (s "cmd") (obj_items (field (s "run") (ex_step (s "a") [])))))) =
  Reject (Diag DSchemaStep).
Proof. vm_compute. split; reflexivity. Qed.
Example ex_empty_string :
  match value_at ex_doc p_cmd0, schema_at DOC p_cmd0 with
  | Some _, Some sc => Nat.leb 1 (min_length_of sc)
  | _, _ => false
  end = true /\ build (set_at ex_doc p_cmd0 (JStr [])) = Reject (Diag DSchemaStep).
Proof. vm_compute. split; reflexivity. Qed.
Example ex_unknown_key :
  match value_at ex_doc p_step1, schema_at DOC p_step1 with
  | Some (JObj _), Some sc =>
      closed_of sc && match pattern_all_of sc with None => true | _ => false end &&
      negb (mem_str (s "bogus") (map fst (props_of sc)))
  | _, _ => false
  end = true.
Proof. vm_compute. reflexivity. Qed.
Example ex_wrong_type :
  match value_at ex_doc p_cmd0, schema_at DOC p_cmd0 with
  | Some _, Some sc => match type_of sc with Some t => negb (has_type t (JInt 5)) | None => false end
  | _, _ => false
  end = true /\ build (set_at ex_doc p_cmd0 (JInt 5)) = Reject (Diag DSchemaStep).
Proof. vm_compute. split; reflexivity. Qed.
Example ex_no_alternative :
  match schema_at DOC p_prio0 with
  | Some [KAnyOf ss] => forallb (fun a => negb (valid a (JStr (s "urgent")))) ss
  | _ => false
  end = true.
Proof. vm_compute. reflexivity. Qed.
Example ex_semantic :
  build (set_study ex_doc (doc_steps ex_doc ++ [ex_step (s "a") []])) = Reject (Diag DDupStep) /\
  build (set_study ex_doc [ex_step (s "a") [s "a_*"]]) = Reject (Diag DSelfDep) /\
  build (set_study ex_doc [ex_step (s "a") [s "nope"]]) = Reject (Diag DUnknownDep) /\
  build (set_study ex_doc [ex_step (s "b") [s "a"]; ex_step (s "a") []]) = Reject (Diag DUnknownDep).
Proof. vm_compute. repeat split; reflexivity. Qed.
Example ex_priority_enum_nonempty : priority_enum <> [].
Proof. exact priority_enum_nonempty. Qed.

(* ============================== C13_stageable: composition with the Expand model *)
(** "An accepted specification can be staged": the specification model composed
    with the expansion model [Expand.stage] (the model of Study._stage proved
    correct for C08).  [to_expand_spec render envsub root rlimit d]
    (Spec/SpecStage.v) is the specification the code hands to Study._stage for
    the loaded document [d] -- parameters (key, name, values, label) and steps
    (name, description, depends, cmd, restart, remaining run strings) -- for
    EVERY rendering [render] of parameter values ([str(v)]) and EVERY
    environment substitution [envsub] on the texts; [ap], [san] (the parameter
    substitution and the path sanitiser, owned by C09 / C10) and the set
    iteration order [pi] are arbitrary too.
    Hypotheses, all decidable and stated on the translated specification:
      [hygb]      hygiene H8 of C08 (parameter keys without regex
                  metacharacters, rectangular table, instance naming injective
                  and never equal to a step name -- K2/K2b excluded, every
                  dependency names a step);
      [wsrefs_ok] every "$(x.workspace)" reference of a step names a node that
                  comes before the step in the staging order -- the test
                  study.py itself makes ("Workspace for 'x' is being used before
                  it would be generated": a deliberate Exception raised at
                  staging time, class Diag, never a KeyError; observed on /repo
                  for a missing step, the step itself and a non-ancestor).
                  [C13_stageable_needs_refs] shows it cannot be dropped;
                  [C13_stageable_norefs] / [C13_stageable_parentrefs] are the
                  instances "no reference at all" (the harness's valid stream)
                  and "references to direct dependencies only".
    Conclusion: [stage] returns a graph (no error case of the model: Study
    constructor, fuel of the topological sort, unknown parent / workspace in
    the used-parameter pass, missing workspace / combination list / edge source
    in the expansion pass), over exactly the accepted steps, and the C08 monitor
    holds of it.  This supersedes [C13_stageable_partial] (kept above).  Not
    covered: the file-system effects of staging and acquiring env.dependencies
    (not in either model). *)
From MWF Require Import Expand.PyStr Expand.Expand Expand.ExpandProofs Spec.SpecStage Spec.SpecStage4.

Theorem C13_stageable :
  forall (render : jv -> str) (envsub : str -> str) (root : str) (rlimit : nat)
         (ap : list param -> nat -> str -> str) (san : str -> str) (pi : an_oracle)
         (doc : jv) (ns : list str),
  verify_and_build doc = Accept ns ->
  perm_oracle pi ->
  hygb (to_expand_spec render envsub root rlimit (yaml_load doc)) = true ->
  wsrefs_ok (to_expand_spec render envsub root rlimit (yaml_load doc)) = true ->
  exists um st,
    stage ap san pi (to_expand_spec render envsub root rlimit (yaml_load doc)) = Expand.Ok (um, st)
    /\ Expand.step_names (to_expand_spec render envsub root rlimit (yaml_load doc)) = ns
    /\ C08_ok (to_expand_spec render envsub root rlimit (yaml_load doc))
              (observe_result (stage ap san pi (to_expand_spec render envsub root rlimit (yaml_load doc)))) = true.
Proof. exact written_stageable. Qed.
Print Assumptions C13_stageable.

(** the same on a loaded document (what yaml.load returned) *)
Theorem C13_stageable_loaded :
  forall (render : jv -> str) (envsub : str -> str) (root : str) (rlimit : nat)
         (ap : list param -> nat -> str -> str) (san : str -> str) (pi : an_oracle)
         (d : jv) (ns : list str),
  build d = Accept ns ->
  perm_oracle pi ->
  hygb (to_expand_spec render envsub root rlimit d) = true ->
  wsrefs_ok (to_expand_spec render envsub root rlimit d) = true ->
  exists um st,
    stage ap san pi (to_expand_spec render envsub root rlimit d) = Expand.Ok (um, st)
    /\ Expand.step_names (to_expand_spec render envsub root rlimit d) = ns
    /\ C08_ok (to_expand_spec render envsub root rlimit d)
              (observe_result (stage ap san pi (to_expand_spec render envsub root rlimit d))) = true.
Proof. exact accepted_stageable. Qed.
Print Assumptions C13_stageable_loaded.

(** accepted => the study the constructor is given is constructible (the
    model's [Err 1] is excluded by acceptance alone) *)
Theorem C13_constructible :
  forall (render : jv -> str) (envsub : str -> str) (root : str) (rlimit : nat) (d : jv) (ns : list str),
  build d = Accept ns ->
  construct_ok [SOURCE] (sp_steps (to_expand_spec render envsub root rlimit d)) = true.
Proof. exact accepted_constructible. Qed.
Print Assumptions C13_constructible.

(** no workspace reference at all (the domain in which the harness stages every
    accepted document for real) *)
Theorem C13_stageable_norefs :
  forall (render : jv -> str) (envsub : str -> str) (root : str) (rlimit : nat)
         (ap : list param -> nat -> str -> str) (san : str -> str) (pi : an_oracle)
         (doc : jv) (ns : list str),
  verify_and_build doc = Accept ns ->
  perm_oracle pi ->
  hygb (to_expand_spec render envsub root rlimit (yaml_load doc)) = true ->
  no_wsrefs (to_expand_spec render envsub root rlimit (yaml_load doc)) = true ->
  exists um st,
    stage ap san pi (to_expand_spec render envsub root rlimit (yaml_load doc)) = Expand.Ok (um, st).
Proof. exact written_stageable_norefs. Qed.
Print Assumptions C13_stageable_norefs.

(** workspace references to direct dependencies ("_source" when there is none) *)
Theorem C13_stageable_parentrefs :
  forall (render : jv -> str) (envsub : str -> str) (root : str) (rlimit : nat)
         (ap : list param -> nat -> str -> str) (san : str -> str) (pi : an_oracle)
         (doc : jv) (ns : list str),
  verify_and_build doc = Accept ns ->
  perm_oracle pi ->
  hygb (to_expand_spec render envsub root rlimit (yaml_load doc)) = true ->
  wsrefs_parents (to_expand_spec render envsub root rlimit (yaml_load doc)) = true ->
  exists um st,
    stage ap san pi (to_expand_spec render envsub root rlimit (yaml_load doc)) = Expand.Ok (um, st).
Proof. exact written_stageable_parentrefs. Qed.
Print Assumptions C13_stageable_parentrefs.

(** the reference hypothesis is necessary: an accepted document inside H8 whose
    step reads "$(nosuch.workspace)" is not staged (model: [Err 2]; code: the
    deliberate Exception above) *)
Theorem C13_stageable_needs_refs :
  verify_and_build ex_badref_doc = Accept [s "a"]
  /\ hygb (to_expand_spec render_simple (fun x => x) (s "/R") 0 (yaml_load ex_badref_doc)) = true
  /\ wsrefs_ok (to_expand_spec render_simple (fun x => x) (s "/R") 0 (yaml_load ex_badref_doc)) = false
  /\ stage_c pi_id (to_expand_spec render_simple (fun x => x) (s "/R") 0 (yaml_load ex_badref_doc)) = Expand.Err 2.
Proof. exact stageable_needs_refs. Qed.
Print Assumptions C13_stageable_needs_refs.

(** non-vacuity of C13_stageable: [ex_stage_doc] (a step expanded over SIZE, a
    dependent step expanded over SIZE x ITER that reads its parent's workspace, a
    funnel step reading the funnelled workspace) is accepted, repeats no key, is
    inside H8 with admissible references, and its staging is computed: the
    instance names are those the real Study.stage produces for the same text *)
Example ex_stageable :
  verify_and_build ex_stage_doc = Accept [s "make"; s "run"; s "post"]
  /\ nodupkeys ex_stage_doc = true
  /\ hygb (to_expand_spec render_simple (fun x => x) (s "/R") 1 (yaml_load ex_stage_doc)) = true
  /\ wsrefs_ok (to_expand_spec render_simple (fun x => x) (s "/R") 1 (yaml_load ex_stage_doc)) = true
  /\ match stage_c pi_id (to_expand_spec render_simple (fun x => x) (s "/R") 1 (yaml_load ex_stage_doc)) with
     | Expand.Ok (um, st) => g_names (st_g st)
     | Expand.Err _ => []
     end = [s "_source"; s "make_SIZE.10"; s "make_SIZE.20";
            s "run_ITER.1.SIZE.10"; s "run_ITER.2.SIZE.10"; s "run_ITER.3.SIZE.20"; s "post"].
Proof. vm_compute. repeat split; reflexivity. Qed.
Example ex_stageable_oracle : perm_oracle pi_id /\ perm_oracle pi_rev.
Proof. exact (conj perm_oracle_id perm_oracle_rev). Qed.

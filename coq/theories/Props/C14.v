From MWF Require Import Base.Util Dag.DagModel.
Theorem C14_placeholder : True. Proof. exact I. Qed.
Print Assumptions C14_placeholder.

(** C14 -- The workflow graph stays acyclic and its orderings are exact.

    Model: Dag/DagModel.v (maestrowf/datastructures/dag.py as it is in /repo now).
    Vocabulary (all defined in DagModel.v):
      graph            = adjacency_table in insertion order, [list (node * successors)]
      keys g           = the nodes;  succs g x = adjacency_table[x];  edge g a b = b in succs g a
      reachable g a b  = a path of zero or more edges from a to b
      graph_acyclic g  = no node has an edge to a node that reaches it back
      wf g             = keys are distinct and every edge ends at a key
      run [] ops       = (how the call ended, table) after every operation of [ops]
      C14_ok           = the monitor the check evaluates on the IMPLEMENTATION's observables *)
From MWF Require Import Base.Util Dag.DagModel Dag.DagLists Dag.DetectProofs Dag.OpsProofs
     Dag.BfsProofs Dag.TopoProofs Dag.DfsProofs Dag.MonitorProofs Dag.StepProofs.

(* ---- the cycle detector (core) ------------------------------------------ *)

(** [detect_cycle()] answers True only when a cycle exists (any table). *)
Theorem detect_sound_true : forall g, detect_cycle g = Some true -> graph_cyclic g.
Proof. exact detect_cycle_true. Qed.
Print Assumptions detect_sound_true.

(** [detect_cycle()] answers False only when there is none (any table). *)
Theorem detect_sound_false : forall g, detect_cycle g = Some false -> graph_acyclic g.
Proof. exact detect_cycle_false. Qed.
Print Assumptions detect_sound_false.

(** the model's recursion budget (= number of nodes) is always enough, so on
    well-formed tables the two answers are exact *)
Theorem detect_exact : forall g, wf g ->
  (detect_cycle g = Some true <-> graph_cyclic g) /\
  (detect_cycle g = Some false <-> graph_acyclic g).
Proof. exact detect_cycle_iff. Qed.
Print Assumptions detect_exact.

(* ---- never a cycle (core) ------------------------------------------------ *)

(** For EVERY sequence of add_node / add_edge / remove_edge calls on a fresh
    DAG, after every call -- whether it returned or raised -- the table is
    well-formed and acyclic (and the model never ran out of fuel). *)
Theorem C14_acyclic_always : forall ops : list op,
  Forall (fun kg : rkind * graph =>
            wf (snd kg) /\ graph_acyclic (snd kg) /\ fst kg <> KFuel)
         (run [] ops).
Proof. exact acyclic_always. Qed.
Print Assumptions C14_acyclic_always.

(** A refused [add_edge] -- self edge, missing source, missing destination,
    duplicate, or closing a cycle (the destination already reaches the source)
    -- leaves the table (hence also [values], which only add_node writes)
    exactly as it was. *)
Theorem C14_refusal_unchanged : forall g a b, wf g -> graph_acyclic g ->
  (a = b \/ ~ In a (keys g) \/ ~ In b (keys g) \/ In b (succs g a) \/ reachable g b a) ->
  snd (add_edge g a b) = g.
Proof. exact refusal_unchanged. Qed.
Print Assumptions C14_refusal_unchanged.

(** ... and so does every [add_edge] that does not end with "edge added". *)
Theorem C14_raise_unchanged : forall g a b, wf g -> graph_acyclic g ->
  fst (add_edge g a b) <> KOk -> snd (add_edge g a b) = g.
Proof. exact not_ok_unchanged. Qed.
Print Assumptions C14_raise_unchanged.

(* ---- no false refusals (extended) ---------------------------------------- *)

(** An edge between two existing, distinct nodes that is new and closes no
    cycle IS added: appended to the source's list, nothing else changes. *)
Theorem C14_accepts_valid : forall g a b, wf g -> graph_acyclic g ->
  a <> b -> In a (keys g) -> In b (keys g) -> ~ In b (succs g a) -> ~ reachable g b a ->
  add_edge g a b = (KOk, upd_adj g a (fun l => l ++ [b])).
Proof. exact accepts_valid. Qed.
Print Assumptions C14_accepts_valid.

Theorem C14_added_edge_shape : forall g a b, In a (keys g) ->
  succs (upd_adj g a (fun l => l ++ [b])) a = succs g a ++ [b] /\
  (forall x, x <> a -> succs (upd_adj g a (fun l => l ++ [b])) x = succs g x) /\
  keys (upd_adj g a (fun l => l ++ [b])) = keys g.
Proof. exact added_edge_present. Qed.
Print Assumptions C14_added_edge_shape.

(* ---- dependents are exact (core) ----------------------------------------- *)

(** [bfs_subtree(s)[0]], on ANY well-formed table (acyclic or not): it returns
    (fuel suffices), lists no node twice and lists exactly the nodes reachable
    from [s]. *)
Theorem C14_bfs_exact : forall g s, wf g -> In s (keys g) ->
  exists l, bfs_subtree g s = TOk l /\ NoDup l /\ (forall x, In x l <-> reachable g s x).
Proof. exact bfs_subtree_exact. Qed.
Print Assumptions C14_bfs_exact.

(** the same for any successor function and any successor-closed universe
    (this is the form the execution-graph model uses for its sweeps) *)
Theorem C14_bfs_exact_gen : forall (sc : nat -> list nat) (s : nat) (U : list nat),
  (forall x c, In x U -> In c (sc x) -> In c U) ->
  forall fuel, In s U -> length U <= fuel ->
  exists l, bfs sc fuel s = Some l /\ NoDup l /\ (forall x, In x l <-> reach sc s x).
Proof. exact bfs_exact_gen. Qed.
Print Assumptions C14_bfs_exact_gen.

(* ---- topological order (extended) ---------------------------------------- *)

(** On an acyclic table [topological_sort()] returns a permutation of the
    nodes in which every edge goes forward. *)
Theorem C14_topo : forall g, wf g -> graph_acyclic g ->
  exists l, topological_sort g = TOk l /\ Permutation l (keys g) /\
            (forall a b, edge g a b -> before l a b).
Proof. exact topological_sort_perm. Qed.
Print Assumptions C14_topo.

(* ---- dfs_subtree (extended) ----------------------------------------------- *)

(** On an acyclic table [dfs_subtree(s)[0]] returns and covers exactly the
    reachable set (it may list a node below a diamond more than once: see
    [C14_dfs_may_repeat]). *)
Theorem C14_dfs_covers : forall g s, wf g -> graph_acyclic g -> In s (keys g) ->
  exists l, dfs_subtree g s = TOk l /\ (forall x, In x l <-> reachable g s x).
Proof. exact dfs_subtree_covers. Qed.
Print Assumptions C14_dfs_covers.

(* ---- the monitor ---------------------------------------------------------- *)

(** What [C14_ok n g0 steps = true] says about ANY list of (operation,
    observable) pairs -- in particular the implementation's: after every step
    the observed table is well-formed, has the keys of [values], is acyclic,
    is the table [expected] from the previous one (refused => unchanged,
    valid => added), is unchanged if the call raised, detect_cycle() said
    False, topological_sort() is a forward permutation, every bfs_subtree is
    duplicate-free and exactly the reachable set, every dfs_subtree covers it. *)
Theorem C14_monitor_meaning : forall n steps g0,
  C14_ok n g0 steps = true -> steps_good n g0 steps.
Proof. exact C14_ok_sound. Qed.
Print Assumptions C14_monitor_meaning.

(** [expected] in words, for add_edge *)
Theorem C14_expected_add_edge : forall g a b, wf g ->
  (a <> b /\ In a (keys g) /\ In b (keys g) /\ ~ In b (succs g a) /\ ~ reachable g b a ->
   expected g (AddEdge a b) = upd_adj g a (fun l => l ++ [b])) /\
  (a = b \/ ~ In a (keys g) \/ ~ In b (keys g) \/ In b (succs g a) \/ reachable g b a ->
   expected g (AddEdge a b) = g).
Proof. exact expected_add_edge. Qed.
Print Assumptions C14_expected_add_edge.

(** The model satisfies the monitor on EVERY operation sequence, for every
    alphabet size [n] whose traversals are observed. *)
Theorem C14_model_ok : forall n (ops : list op),
  C14_ok n [] (combine ops (model_trace n [] ops)) = true.
Proof. exact C14_ok_model. Qed.
Print Assumptions C14_model_ok.

(** ... also in the setup + branches format of the correspondence cases. *)
Theorem C14_model_case_ok : forall n setup (brs : list (list op)),
  monitor_ok (mkCase n setup (final [] setup)
                     (map (fun ops => combine ops (model_trace n (final [] setup) ops)) brs)) = true.
Proof. exact monitor_ok_model. Qed.
Print Assumptions C14_model_case_ok.

(* ---- the DAG API of a Study object: add_step ------------------------------ *)

(** For EVERY sequence of Study.add_step calls (any depends lists: valid,
    naming the step itself or an unknown step at any position, duplicates) and
    inherited add_node / add_edge / remove_edge calls on a fresh Study object
    (its table is born as [_source] alone; [_source] is name [n]), after every
    call -- returned or raised -- the table is well-formed (every edge ends at
    a node) and acyclic. *)
Theorem C14_study_acyclic_always : forall n (ops : list sop),
  Forall (fun kg : rkind * graph =>
            wf (snd kg) /\ graph_acyclic (snd kg) /\ fst kg <> KFuel)
         (srun n (study_start n) ops).
Proof. exact study_acyclic_always. Qed.
Print Assumptions C14_study_acyclic_always.

(** a step whose name is taken is rejected and nothing changes *)
Theorem C14_add_step_taken_unchanged : forall src g x deps,
  In x (keys g) -> add_step src g x deps = (KValueError, g).
Proof. exact add_step_taken_unchanged. Qed.
Print Assumptions C14_add_step_taken_unchanged.

(** otherwise the table after add_step -- returned or raised -- is
    [expected_step]: the node, and the edges of the dependencies listed before
    the first one that is the step itself or unknown (or [_source -> step]) *)
Theorem C14_add_step_expected : forall src g x deps, wf g /\ graph_acyclic g ->
  snd (add_step src g x deps) = expected_step src g x deps.
Proof. exact add_step_expected. Qed.
Print Assumptions C14_add_step_expected.

(** what [C14_study_ok] (the monitor of the Study stream) means on ANY observables *)
Theorem C14_study_monitor_meaning : forall n src steps g0,
  C14_study_ok n src g0 steps = true -> ssteps_good n src g0 steps.
Proof. exact C14_study_ok_sound. Qed.
Print Assumptions C14_study_monitor_meaning.

(** and the model satisfies it on every sequence *)
Theorem C14_study_model_ok : forall n (ops : list sop),
  smonitor_ok (mkSCase n (combine ops (model_strace n n (study_start n) ops))) = true.
Proof. exact C14_study_ok_model. Qed.
Print Assumptions C14_study_model_ok.

(* ---- non-vacuity ---------------------------------------------------------- *)

(** a diamond 0 -> {1,2} -> 3 built by the operations *)
Definition ex_ops : list op :=
  [AddNode 0; AddNode 1; AddNode 2; AddNode 3;
   AddEdge 0 1; AddEdge 0 2; AddEdge 1 3; AddEdge 2 3].
Definition ex_g : graph := final [] ex_ops.

Example ex_g_value : ex_g = [(0, [1; 2]); (1, [3]); (2, [3]); (3, [])].
Proof. vm_compute. reflexivity. Qed.

Example ex_wf_acyclic : wfb ex_g = true /\ is_acyclic ex_g = true.
Proof. vm_compute. split; reflexivity. Qed.

(** hypotheses of [C14_refusal_unchanged]: a cycle-closing edge 3 -> 0 is refused by raising *)
Example ex_refused_cycle : add_edge ex_g 3 0 = (KCycle, ex_g).
Proof. vm_compute. reflexivity. Qed.
Example ex_refused_self : add_edge ex_g 1 1 = (KRefused, ex_g).
Proof. vm_compute. reflexivity. Qed.
Example ex_refused_dangling_src : add_edge ex_g 7 1 = (KValueError, ex_g).
Proof. vm_compute. reflexivity. Qed.
Example ex_refused_dangling_dst : add_edge ex_g 1 7 = (KRefused, ex_g).
Proof. vm_compute. reflexivity. Qed.
Example ex_refused_duplicate : add_edge ex_g 0 1 = (KRefused, ex_g).
Proof. vm_compute. reflexivity. Qed.

(** hypotheses of [C14_accepts_valid] are satisfiable: 1 -> 2 is accepted *)
Example ex_accepted :
  add_edge ex_g 1 2 = (KOk, [(0, [1; 2]); (1, [3; 2]); (2, [3]); (3, [])]).
Proof. vm_compute. reflexivity. Qed.

Example ex_bfs : bfs_subtree ex_g 0 = TOk [0; 1; 2; 3].
Proof. vm_compute. reflexivity. Qed.

Example ex_topo : topological_sort ex_g = TOk [0; 2; 1; 3].
Proof. vm_compute. reflexivity. Qed.

(** dfs_subtree repeats the node below the diamond; bfs_subtree does not *)
Example C14_dfs_may_repeat : dfs_subtree ex_g 0 = TOk [0; 1; 3; 2; 3].
Proof. vm_compute. reflexivity. Qed.

(** the detector does answer True on a table holding a cycle (so
    [detect_sound_true] is not vacuous), and the monitor rejects an observable
    in which a refused cycle-creating edge stayed in the table (the pinned
    tree's behaviour before the repair) *)
Example ex_detect_true : detect_cycle [(0, [1]); (1, [0])] = Some true.
Proof. vm_compute. reflexivity. Qed.

Example ex_monitor_rejects_leftover_edge :
  let g := [(0, [1]); (1, [])] in
  let bad := [(0, [1]); (1, [0])] in
  C14_ok 2 g [(AddEdge 1 0,
               mkObs bad [0; 1] 2 1 (TErr 9) [TErr 9; TErr 9] [TErr 9; TErr 9])] = false.
Proof. vm_compute. reflexivity. Qed.

(** ... and accepts the model's own trace of the example (an instance of [C14_model_ok]) *)
Example ex_monitor_accepts :
  C14_ok 4 [] (combine (ex_ops ++ [AddEdge 3 0; RemoveEdge 0 1; RemoveEdge 0 1])
                       (model_trace 4 [] (ex_ops ++ [AddEdge 3 0; RemoveEdge 0 1; RemoveEdge 0 1]))) = true.
Proof. vm_compute. reflexivity. Qed.

(** Study.add_step: step 1 depends on [0; 1] -- the edge 0 -> 1 is made, then
    the self-dependency raises; node 1 and the edge stay (well-formed); a
    variant that deleted node 1 but left the edge is rejected by the monitor *)
Example ex_add_step_self_late :
  srun 2 (study_start 2) [SAddStep 0 []; SAddStep 1 [0; 1]]
  = [(KOk, [(2, [0]); (0, [])]); (KValueError, [(2, [0]); (0, [1]); (1, [])])].
Proof. vm_compute. reflexivity. Qed.

Example ex_study_monitor_rejects_dangling_edge :
  C14_study_ok 2 2 [(2, [0]); (0, [])]
    [(SAddStep 1 [0; 1],
      mkObs [(2, [0]); (0, [1])] [2; 0] 1 9 (TErr 1) [TErr 1; TErr 1] [TErr 1; TErr 1])] = false.
Proof. vm_compute. reflexivity. Qed.

(** C19 (model side) -- locally executed steps really run, once per attempt, in order, and
    their exit code decides.

    A local step is a node x with [scheduled (attr g x) = false]: LocalScriptAdapter.submit
    runs its script synchronously, so the ESubmit event IS the execution and the scripted
    outcome ([true] = exit code 0, consumed from [subs]) IS the exit code.
    Model: Exec/ExecBase.v + ExecGen.v (generated from executiongraph.py) + ExecRun.v.
    Proofs: Exec/ExecLocal.v (poll level through the macro-step replay of Exec/ExecSteps.v and
    the invariant preservation of Exec/ExecPoll.v).
    PARTIAL by nature (DESIGN.md section 5): that Popen(...).communicate() waits for the child
    and reports its code, and the cwd / captured .out/.err files (C19_cwd_and_files), are
    runtime behaviour exercised by the end-to-end correspondence run, not modelled here.

    Monitor codes (ExecTrace.v, [family 19] = 19 191 192), checked at run time on
    implementation and model traces:
      19   the sched flag of every ESubmit is the node's [scheduled] attribute
                                     <- C19_once_per_attempt (event shape), ExecPoll3.poll_events
      191  at most [attempts c] submissions of a node per poll   <- C19_once_per_attempt (per call)
      192  no submission of a node after a successful one in the same poll
                                     <- C19_once_per_attempt (the success is the last event) *)
From MWF Require Import Base.Util Exec.ExecBase Exec.ExecGen Exec.ExecRun Exec.ExecTrace Exec.ExecGraph
  Exec.ExecInv Exec.ExecPoll Exec.ExecFault Exec.ExecLocal.

(** ** Once per attempt.  The adapter calls of one (non-restart) _execute_record call outside a
    dry run, for ANY node: the script is generated; then the step is submitted k times without
    success and -- if [ok] -- once more with success, which ends the loop
    ([loop_events x false sch k ok j] = k times [ESubmit x Main sch None], then
    [ESubmit x Main sch (Some j)] if ok).  Never more than [attempts c] submissions; all
    attempts are used only when every one failed; the outcomes are the next entries of the
    outcome stream: k times [false], then (if ok) [true] (an exhausted stream counts as true). *)
Theorem C19_once_per_attempt : forall c g x s, dry c = false ->
  let s' := execute_record_gen c g x false s in
  exists k ok,
    rev (evs s') = rev (evs s) ++ EGen x :: loop_events x false (scheduled (attr g x)) k ok (next_job s) /\
    (if ok then k < attempts c else k = attempts c) /\
    firstn k (subs s) = repeat false k /\ (ok = true -> nth k (subs s) true = true) /\
    nsubmits x (loop_events x false (scheduled (attr g x)) k ok (next_job s)) = k + (if ok then 1 else 0) /\
    k + (if ok then 1 else 0) <= attempts c /\
    (if ok then (if scheduled (attr g x) then In x (inprog s') else In x (completed s') /\ ~ In x (inprog s'))
     else ~ In x (inprog s') /\ forall y, In y (bfs_subtree g x) -> In y (failed s')).
Proof. exact execute_record_attempts. Qed.
Print Assumptions C19_once_per_attempt.

(** ** Verdict, per call.  For a local step: exit code 0 of some attempt => FINISHED, completed,
    untracked, at once; every attempt failing => the step and its whole bfs_subtree are FAILED
    and in [failed], nothing is completed. *)
Theorem C19_verdict : forall c g x s, dry c = false -> scheduled (attr g x) = false -> x < length (recs s) ->
  let s' := execute_record_gen c g x false s in
  exists k ok,
    rev (evs s') = rev (evs s) ++ EGen x :: loop_events x false false k ok (next_job s) /\
    (if ok then k < attempts c else k = attempts c) /\
    firstn k (subs s) = repeat false k /\ (ok = true -> nth k (subs s) true = true) /\
    ~ In x (inprog s') /\
    (if ok
     then status (getrec s' x) = FINISHED /\ In x (completed s') /\ failed s' = failed s
     else completed s' = completed s /\
          forall y, In y (bfs_subtree g x) ->
                    In y (failed s') /\ (y < length (recs s) -> status (getrec s' y) = FAILED)).
Proof. exact local_execute_verdict. Qed.
Print Assumptions C19_verdict.

(** ** Verdict, within the same poll: from any state satisfying the invariant, for any valid
    poll input -- if the poll's log shows a successful execution of the local step x, then at
    the END of that poll x is FINISHED, completed and untracked (nothing later in the poll
    undoes it); if it shows only failed executions of x, then at the end of that poll x and its
    whole subtree are FAILED and in [failed]. *)
Theorem C19_verdict_same_poll : forall c g p, WF g -> forall s, Inv g s -> valid_pin s p = true ->
  forall x j, scheduled (attr g x) = false ->
  In (ESubmit x Main false (Some j)) (evs (fst (poll c g s p))) ->
  status (getrec (fst (poll c g s p)) x) = FINISHED /\ In x (completed (fst (poll c g s p))) /\
  ~ In x (inprog (fst (poll c g s p))).
Proof. exact poll_local_verdict. Qed.
Print Assumptions C19_verdict_same_poll.

Theorem C19_failure_same_poll : forall c g p, WF g -> forall s, Inv g s -> valid_pin s p = true ->
  forall x, scheduled (attr g x) = false ->
  In (ESubmit x Main false None) (evs (fst (poll c g s p))) ->
  (forall j, ~ In (ESubmit x Main false (Some j)) (evs (fst (poll c g s p)))) ->
  forall y, In y (bfs_subtree g x) ->
  In y (failed (fst (poll c g s p))) /\ status (getrec (fst (poll c g s p)) y) = FAILED.
Proof. exact poll_local_failure. Qed.
Print Assumptions C19_failure_same_poll.

(** ** Order.  The launch step only makes adapter calls for the head x of the queue, whose
    parents are all completed and which is not yet completed itself (invariant field i_anc). *)
Theorem C19_order : forall c g s, Inv g s ->
  let s' := launch_body_gen c g s in
  exists new, evs s' = new ++ evs s /\
    forall e, In e new -> exists x, ev_node e = Some x /\ In x (ready s) /\
                                    incl (parents (attr g x)) (completed s) /\ ~ In x (completed s).
Proof. exact launch_order. Qed.
Print Assumptions C19_order.

(** ... hence, for every poll from a state satisfying the invariant: every node submitted
    during the poll has all its parents completed.  Local execution is synchronous, so a
    parent completed = its script has run to completion with exit code 0
    (C19_verdict_same_poll), before the dependent starts. *)
Theorem C19_order_poll : forall c g p, WF g -> forall s, Inv g s -> valid_pin s p = true ->
  forall x k sc res, In (ESubmit x k sc res) (evs (fst (poll c g s p))) ->
  incl (parents (attr g x)) (completed (fst (poll c g s p))).
Proof. exact poll_order. Qed.
Print Assumptions C19_order_poll.

(** ** Run level: every executed poll of every run from the initial state whose answers are
    valid ([valid_pins]: each answer mentions tracked steps only, each at most once). *)
Theorem C19_run_order : forall c g ps t, WF g -> valid_pins c g (init g) ps = true ->
  In t (run_steps c g (init g) ps) ->
  forall x k sc res, In (ESubmit x k sc res) (evs (st_post t)) ->
  incl (parents (attr g x)) (completed (st_post t)).
Proof. exact run_order. Qed.
Print Assumptions C19_run_order.

Theorem C19_run_verdict : forall c g ps t, WF g -> valid_pins c g (init g) ps = true ->
  In t (run_steps c g (init g) ps) ->
  forall x j, scheduled (attr g x) = false -> In (ESubmit x Main false (Some j)) (evs (st_post t)) ->
  status (getrec (st_post t) x) = FINISHED /\ In x (completed (st_post t)) /\ ~ In x (inprog (st_post t)).
Proof. exact run_local_verdict. Qed.
Print Assumptions C19_run_verdict.

Theorem C19_run_failure : forall c g ps t, WF g -> valid_pins c g (init g) ps = true ->
  In t (run_steps c g (init g) ps) ->
  forall x, scheduled (attr g x) = false ->
  In (ESubmit x Main false None) (evs (st_post t)) ->
  (forall j, ~ In (ESubmit x Main false (Some j)) (evs (st_post t))) ->
  forall y, In y (bfs_subtree g x) -> In y (failed (st_post t)) /\ status (getrec (st_post t) y) = FAILED.
Proof. exact run_local_failure. Qed.
Print Assumptions C19_run_failure.

(** ** Non-vacuity: the chain 0 -> 1 -> 2 of local steps, two attempts.
    Poll 1: step 0 fails once (exit code <> 0) and then succeeds -> FINISHED at once.
    Poll 2: step 1 fails twice -> FAILED together with its dependent 2, study FAILURE. *)
Import LocalEx.
Example C19_ex_hyps : WF gl /\ valid_pins c2 gl (init gl) [pin_subs [false; true; true]; pin_subs [false; false]] = true.
Proof. exact (conj wf_gl eq_refl). Qed.

Example C19_ex_run :
  run c2 gl (init gl) [pin_subs [false; true; true]; pin_subs [false; false]; pin_subs []] =
  [([ECheck []; EGen 0; ESubmit 0 Main false None; ESubmit 0 Main false (Some 0)],
    [(FINISHED, [0], 0); (INITIALIZED, [], 0); (INITIALIZED, [], 0)], SRUNNING);
   ([ECheck []; EGen 1; ESubmit 1 Main false None; ESubmit 1 Main false None],
    [(FINISHED, [0], 0); (FAILED, [], 0); (FAILED, [], 0)], SFAILURE)].
Proof. vm_compute. reflexivity. Qed.

(** C20 -- scheduler query faults never corrupt step states.

    Model: Exec/ExecBase.v + ExecGen.v (generated from executiongraph.py) + ExecRun.v
    ([poll] = one iteration of Conductor.monitor_study).  Proofs: Exec/ExecFault.v.
    All statements hold for ALL graphs, configurations, states and poll inputs.

    Monitor codes (ExecTrace.v, [family 20] = 201 202 203 205 207 40), evaluated at run
    time on the implementation's and on the model's trace by the correspondence run:
      201  no EGen/ESubmit in a poll whose query failed     <- C20_error_aborts (event list)
      202  rows after a failed query = rows before          <- C20_error_aborts (recs unchanged)
      203  status is ABORT iff the query failed (real run)  <- C20_abort_iff_error
           (201, 202, 203 are PROVED silent on every model trace: C20_monitor_silent)
      205  NOJOBS / missing / None / non-terminal report:
           the row is unchanged and the job stays live      <- C20_nojobs_keeps, C20_partial_frame
      207  RUNNING report: only the state column changes    <- C20_running_only_state
      40   the set of queried job ids = the live jobs       <- ledger coupling, see C04 *)
From MWF Require Import Base.Util Exec.ExecBase Exec.ExecGen Exec.ExecRun Exec.ExecTrace Exec.ExecGraph
  Exec.ExecInv Exec.ExecPoll Exec.ExecFault Exec.ExecLocal.

(** ** QERROR: the poll aborts; records, sets, queue and dependency table are those of the
    pre-state; the cancel flag is set only by a simultaneous cancel request; the only
    adapter calls are that cancel (if any) and the query itself. *)
Theorem C20_error_aborts : forall c g s p, dry c = false -> qcode p = QERROR ->
  let s' := fst (poll c g s p) in
  snd (poll c g s p) = SABORT /\
  recs s' = recs s /\ completed s' = completed s /\ inprog s' = inprog s /\ failed s' = failed s /\
  cancelled s' = cancelled s /\ ready s' = ready s /\ deps s' = deps s /\ next_job s' = next_job s /\
  canceled s' = (cancel_req p || canceled s) /\
  rev (evs s') = (if cancel_req p then [ECancel (map (lastjob s) (inprog s))] else []) ++
                 [ECheck (map (lastjob s) (inprog s))] /\
  forallb (fun e => negb (match e with ESubmit _ _ _ _ | EGen _ => true | _ => false end)) (evs s') = true.
Proof. exact poll_error_fields. Qed.
Print Assumptions C20_error_aborts.

(** ... and nothing else aborts a poll *)
Theorem C20_abort_iff_error : forall c g s p,
  snd (poll c g s p) = SABORT <-> (dry c = false /\ qcode p = QERROR).
Proof. exact poll_abort_iff. Qed.
Print Assumptions C20_abort_iff_error.

(** ** QNOJOBS: the reports of the poll are never looked at -- the poll equals the poll with an
    empty report list, equals the poll an OK query with an empty answer gives, and is
    "staging + launching + completion check" applied to the state found at query time
    (whose records and sets are the pre-state's). *)
Theorem C20_nojobs_keeps : forall c g s p, qcode p = QNOJOBS ->
  poll c g s p = poll c g s {| cancel_req := cancel_req p; qcode := QNOJOBS; reports := []; psubs := psubs p |} /\
  poll c g s p = poll c g s {| cancel_req := cancel_req p; qcode := QOK; reports := []; psubs := psubs p |} /\
  poll c g s p = stage_launch c g (at_query c s p) /\
  recs (at_query c s p) = recs s /\ completed (at_query c s p) = completed s /\
  inprog (at_query c s p) = inprog s /\ failed (at_query c s p) = failed s /\
  cancelled (at_query c s p) = cancelled s /\ ready (at_query c s p) = ready s /\ deps (at_query c s p) = deps s.
Proof. exact nojobs_keeps. Qed.
Print Assumptions C20_nojobs_keeps.

(** ** QOK with missing / None / non-terminal non-RUNNING entries.
    [quiet o]: the entry is None or a state that is neither terminal nor RUNNING. *)

(** erasure: any set of quiet entries may be deleted from the answer -- the poll (state,
    events, status) is the same; the reported jobs are processed normally *)
Theorem C20_partial : forall c g (keep : nat * option State -> bool) s p,
  (forall r, In r (reports p) -> keep r = false -> quiet (snd r) = true) ->
  poll c g s p = poll c g s {| cancel_req := cancel_req p; qcode := qcode p;
                               reports := filter keep (reports p); psubs := psubs p |}.
Proof. exact poll_erase. Qed.
Print Assumptions C20_partial.

Theorem C20_partial_dispatch : forall c g (keep : nat * option State -> bool) reps s,
  (forall r, In r reps -> keep r = false -> quiet (snd r) = true) ->
  dispatch_gen c g reps s = dispatch_gen c g (filter keep reps) s.
Proof. exact dispatch_erase. Qed.
Print Assumptions C20_partial_dispatch.

(** frame: in a state satisfying the invariant, a tracked step x whose delivered entries
    are all quiet (in particular: no entry at all, or NOJOBS, or a dry run) keeps its
    record through the WHOLE poll, stays tracked, and enters none of the resolved sets --
    whatever the other reports, the cancel flag and the submission outcomes are.
    [delivered c p] = the reports that reach the dispatch (reports p if the query is OK
    in a real run, else none). *)
Theorem C20_partial_frame : forall c g s p x, WF g -> Inv g s ->
  (forall r, In r (reports p) -> In (fst r) (inprog s)) ->
  In x (inprog s) ->
  (forall o, In (x, o) (delivered c p) -> quiet o = true) ->
  let s' := fst (poll c g s p) in
  getrec s' x = getrec s x /\ In x (inprog s') /\
  ~ In x (completed s') /\ ~ In x (failed s') /\ ~ In x (cancelled s') /\ ~ In x (ready s').
Proof. exact poll_frame. Qed.
Print Assumptions C20_partial_frame.

(** RUNNING reports (monitor code 207): a tracked step x whose delivered entries are quiet or
    RUNNING, at least one of them RUNNING, ends the poll with status RUNNING, the same job ids
    and restart count, still tracked and in none of the resolved sets. *)
Theorem C20_running_only_state : forall c g s p x, WF g -> Inv g s ->
  (forall r, In r (reports p) -> In (fst r) (inprog s)) ->
  In x (inprog s) ->
  (forall o, In (x, o) (delivered c p) -> quiet o = true \/ o = Some RUNNING) ->
  In (x, Some RUNNING) (delivered c p) ->
  let s' := fst (poll c g s p) in
  status (getrec s' x) = RUNNING /\ jobs (getrec s' x) = jobs (getrec s x) /\
  restarts (getrec s' x) = restarts (getrec s x) /\ In x (inprog s') /\
  ~ In x (completed s') /\ ~ In x (failed s') /\ ~ In x (cancelled s') /\ ~ In x (ready s').
Proof. exact poll_running. Qed.
Print Assumptions C20_running_only_state.

(** ** Run level: every executed poll of every run ([run_steps] lists them: pre-state, input,
    post-state, status; [run] is its image under the observation map). *)
Theorem C20_run_is_steps : forall c g ps s, run c g s ps = map obs_of_step (run_steps c g s ps).
Proof. exact run_steps_run. Qed.
Print Assumptions C20_run_is_steps.

Theorem C20_run_error : forall c g s ps t, dry c = false -> In t (run_steps c g s ps) -> qcode (st_pin t) = QERROR ->
  st_res t = SABORT /\ rows_of (st_post t) = rows_of (st_pre t) /\
  completed (st_post t) = completed (st_pre t) /\ inprog (st_post t) = inprog (st_pre t) /\
  failed (st_post t) = failed (st_pre t) /\ cancelled (st_post t) = cancelled (st_pre t) /\
  ready (st_post t) = ready (st_pre t) /\ deps (st_post t) = deps (st_pre t) /\
  rev (evs (st_post t)) = fault_events (st_pre t) (st_pin t).
Proof. exact run_error. Qed.
Print Assumptions C20_run_error.

Theorem C20_run_error_is_last : forall c g s ps pre t post, dry c = false ->
  run_steps c g s ps = pre ++ t :: post -> qcode (st_pin t) = QERROR -> post = [].
Proof. exact run_error_last. Qed.
Print Assumptions C20_run_error_is_last.

Theorem C20_run_abort_only_on_error : forall c g s ps t, In t (run_steps c g s ps) ->
  (st_res t = SABORT <-> dry c = false /\ qcode (st_pin t) = QERROR).
Proof. exact run_abort_only_on_error. Qed.
Print Assumptions C20_run_abort_only_on_error.

Theorem C20_run_nojobs : forall c g s ps t, In t (run_steps c g s ps) -> qcode (st_pin t) = QNOJOBS ->
  (st_post t, st_res t) = stage_launch c g (at_query c (st_pre t) (st_pin t)).
Proof. exact run_nojobs. Qed.
Print Assumptions C20_run_nojobs.

(** deleting all quiet entries from every answer / all entries of every NOJOBS answer of a
    history leaves the whole observable run unchanged *)
Theorem C20_run_partial : forall c g ps s, run c g s ps = run c g s (map erase_quiet ps).
Proof. exact run_erase. Qed.
Print Assumptions C20_run_partial.

Theorem C20_run_nojobs_erasable : forall c g ps s, run c g s ps = run c g s (map drop_nojobs ps).
Proof. exact run_drop_nojobs. Qed.
Print Assumptions C20_run_nojobs_erasable.

(** the frame at every executed poll of a run whose answers mention tracked steps only.
    Conditional on the poll-level preservation of the invariant (Exec/ExecPoll.v, property
    C02/C06 area), which enters as an explicit premise. *)
Theorem C20_run_partial_frame : forall c g,
  (forall s p s1 r, Inv g s -> valid_reports s p -> poll c g s p = (s1, r) -> Inv g s1) ->
  forall ps s x t, WF g -> Inv g s ->
  (forall t, In t (run_steps c g s ps) -> valid_reports (st_pre t) (st_pin t)) ->
  In t (run_steps c g s ps) -> In x (inprog (st_pre t)) ->
  (forall o, In (x, o) (delivered c (st_pin t)) -> quiet o = true) ->
  getrec (st_post t) x = getrec (st_pre t) x /\ In x (inprog (st_post t)) /\
  ~ In x (completed (st_post t)) /\ ~ In x (failed (st_post t)) /\ ~ In x (cancelled (st_post t)).
Proof. exact run_frame. Qed.
Print Assumptions C20_run_partial_frame.

(** ... and unconditionally, with the preservation theorem of Exec/ExecPoll.v plugged in: every
    executed poll of every run from the initial state whose answers are valid ([valid_pins]:
    each answer mentions tracked steps only, each at most once). *)
Theorem C20_run_partial_frame_valid : forall c g ps t x, WF g -> valid_pins c g (init g) ps = true ->
  In t (run_steps c g (init g) ps) -> In x (inprog (st_pre t)) ->
  (forall o, In (x, o) (delivered c (st_pin t)) -> quiet o = true) ->
  getrec (st_post t) x = getrec (st_pre t) x /\ In x (inprog (st_post t)) /\
  ~ In x (completed (st_post t)) /\ ~ In x (failed (st_post t)) /\ ~ In x (cancelled (st_post t)).
Proof. exact run_frame_valid. Qed.
Print Assumptions C20_run_partial_frame_valid.

Theorem C20_run_running_valid : forall c g ps t x, WF g -> valid_pins c g (init g) ps = true ->
  In t (run_steps c g (init g) ps) -> In x (inprog (st_pre t)) ->
  (forall o, In (x, o) (delivered c (st_pin t)) -> quiet o = true \/ o = Some RUNNING) ->
  In (x, Some RUNNING) (delivered c (st_pin t)) ->
  status (getrec (st_post t) x) = RUNNING /\ jobs (getrec (st_post t) x) = jobs (getrec (st_pre t) x) /\
  restarts (getrec (st_post t) x) = restarts (getrec (st_pre t) x) /\ In x (inprog (st_post t)) /\
  ~ In x (completed (st_post t)) /\ ~ In x (failed (st_post t)) /\ ~ In x (cancelled (st_post t)).
Proof. exact run_running_valid. Qed.
Print Assumptions C20_run_running_valid.

(** ** The monitor on the model's own trace: the codes 201, 202, 203 of [family 20] are never
    raised on the trace of ANY run of the model from the initial state -- any graph (no
    well-formedness needed), configuration, history of poll inputs.  (205, 207 and 40 compare
    rows / queried ids with the ledger of live jobs; their silence is the ledger coupling of
    Exec/ExecLedger*.v, property C04.) *)
Theorem C20_monitor_silent : forall c g ps k, k = 201 \/ k = 202 \/ k = 203 ->
  ~ In k (viol_of c g ps (run c g (init g) ps)).
Proof. exact model_trace_c20_codes. Qed.
Print Assumptions C20_monitor_silent.

(** ** Non-vacuity: a concrete graph (0 -> 2 <- 1), the state after the first poll (0 and 1
    in progress), answers with faults. *)
Import FaultEx.
Example C20_ex_hyps : WF g3 /\ Inv g3 s1 /\ inprog s1 = [0; 1] /\
  (forall r, In r (reports p_partial) -> In (fst r) (inprog s1)) /\ In 0 (inprog s1) /\
  (forall o, In (0, o) (delivered c0 p_partial) -> quiet o = true).
Proof. exact (conj wf_g3 (conj inv_s1 (conj inprog_s1 (conj valid_partial (conj tracked_0 quiet_partial))))). Qed.

(** step 1 finishes, step 0 (entries None and PENDING) is untouched, the poll goes on *)
Example C20_ex_partial :
  let '(s', r) := poll c0 g3 s1 p_partial in
  (rows_of s', inprog s', completed s', r) =
  ([(PENDING, [0], 0); (FINISHED, [1], 0); (INITIALIZED, [], 0)], [0], [1], SRUNNING).
Proof. vm_compute. reflexivity. Qed.

Example C20_ex_error :
  run c0 g3 (init g3) [pin_of QOK []; pin_of QERROR [(0, Some FINISHED)]; pin_of QOK []] =
  [([ECheck []; EGen 0; ESubmit 0 Main true (Some 0); EGen 1; ESubmit 1 Main true (Some 1)],
    [(PENDING, [0], 0); (PENDING, [1], 0); (INITIALIZED, [], 0)], SRUNNING);
   ([ECheck [0; 1]], [(PENDING, [0], 0); (PENDING, [1], 0); (INITIALIZED, [], 0)], SABORT)].
Proof. vm_compute. reflexivity. Qed.

Example C20_ex_nojobs :
  run c0 g3 (init g3) [pin_of QOK []; pin_of QNOJOBS [(0, Some FINISHED); (1, Some FAILED)]] =
  run c0 g3 (init g3) [pin_of QOK []; pin_of QNOJOBS []].
Proof. vm_compute. reflexivity. Qed.

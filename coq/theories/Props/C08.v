From MWF Require Import Base.Str Base.Util Expand.PyStr Expand.Expand Expand.ExpandProofs.
Theorem C08_order_free_tmp : forall ap san pi pi' sp,
  perm_oracle pi -> perm_oracle pi' ->
  observe_result (stage ap san pi sp) = observe_result (stage ap san pi' sp).
Proof. exact stage_order_free. Qed.
Print Assumptions C08_order_free_tmp.

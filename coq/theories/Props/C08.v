(** C08 -- parameter expansion creates exactly the right instances and edges.

    Model: [stage ap san pi sp] (Expand.v) = Study.__init__/add_step + Study._stage
    + ExecutionGraph.add_step/add_connection; [ap] = Combination.apply, [san] =
    make_safe_path's component rule, [pi] = the iteration order of every Python
    set.  [um] = the used-parameter table of phase 1, [st_g st] = the
    ExecutionGraph.  [iname ps um s i] = name of the instance of step [s] for
    row [i]; [kids_of g p] = adjacency_table[p]; [deps_of g x] = _dependencies[x];
    [rec_of g x] = values[x].  Hygiene H8 = [hygiene sp um] (decided by [hygb]):
    dependencies name steps; instance naming is injective on (step, class of
    rows agreeing on the used parameters) and never yields a step's name
    (fails for K2 / K2b, see the [_refuted] theorems).
    Modelling fact: [stage] is a Gallina FUNCTION of the specification -- staging
    does not depend on earlier stagings of the same Study object (the management
    tables depends / hub_depends / step_combos / used_params / workspaces kept on
    the object are re-initialised or overwritten per step before they are read).
    This is tied to the code by the harness' re-stage stream: a share of the
    specifications is staged 2-4 times on the SAME Study object (configure_study
    repeated, or toggled dry_run / throttle / hash_ws / use_tmp in between) and
    every staging under the model's configuration must equal [stage sp].
    The monitor the harness evaluates on the IMPLEMENTATION's graph is [C08_ok]
    ([c08_monitor]); [C08_monitor_holds] proves it of every staging of the model. *)
From MWF Require Import Base.Str Base.Util Expand.PyStr Expand.Expand Expand.ExpandProofs
     Expand.ExpandInv Expand.ExpandC08 Expand.ExpandSound Expand.ExpandWitness Expand.ExpandFinal.
From Coq Require Import List NArith Bool Arith.
Import ListNotations.

(** the used-parameter table is the closure the property speaks of: a key is
    used by a step iff the step mentions it, or an ordinary parent uses it, or
    a step whose workspace it references (not as a funnel) uses it *)
Theorem C08_used_closure : forall ap san pi sp um st t k,
  perm_oracle pi -> hygiene sp um -> stage ap san pi sp = Ok (um, st) -> In t (sp_steps sp) ->
  (In k (used_in um (s_name t)) <->
   In k (keys_of (sp_params sp)) /\
   (existsb (uses_key k) (step_texts t) = true
    \/ (exists d, In d (deps_ord t) /\ In k (used_in um d))
    \/ (exists w, In w (step_wsrefs t) /\ ~ In w (deps_hub t) /\ In k (used_in um w)))).
Proof. exact final_C08_used_closure. Qed.
Print Assumptions C08_used_closure.

(** instances are shared exactly between rows that agree (value and label) on
    all parameters the step uses *)
Theorem C08_sharing : forall ap san pi sp um st t i j,
  perm_oracle pi -> hygiene sp um -> stage ap san pi sp = Ok (um, st) ->
  In t (sp_steps sp) -> valid_row sp um (s_name t) i -> valid_row sp um (s_name t) j ->
  (iname (sp_params sp) um (s_name t) i = iname (sp_params sp) um (s_name t) j
   <-> agree (sp_params sp) (used_in um (s_name t)) i j = true).
Proof. exact final_C08_sharing. Qed.
Print Assumptions C08_sharing.

(** an instance depends on the same-row instance of each ordinary dependency,
    on all instances of each funnel dependency, on "_source" iff it has
    neither -- and on nothing else (set equality, for the adjacency table and
    for [_dependencies]) *)
Theorem C08_edges : forall ap san pi sp um st t i p,
  perm_oracle pi -> hygiene sp um -> stage ap san pi sp = Ok (um, st) ->
  In t (sp_steps sp) -> valid_row sp um (s_name t) i ->
  let x := iname (sp_params sp) um (s_name t) i in
  let expected :=
    (deps_ord t = [] /\ deps_hub t = [] /\ p = SOURCE)
    \/ (exists d, In d (deps_ord t) /\ p = iname (sp_params sp) um d i)
    \/ (exists h j, In h (deps_hub t) /\ In j (rows_of (sp_params sp) um h)
                    /\ p = iname (sp_params sp) um h j) in
  (In x (kids_of (st_g st) p) <-> expected) /\ (In p (deps_of (st_g st) x) <-> expected).
Proof. exact final_C08_edges. Qed.
Print Assumptions C08_edges.

(** a step that uses no parameter is instantiated exactly once, under its own name *)
Theorem C08_unparam : forall ap san pi sp um st t,
  perm_oracle pi -> hygiene sp um -> stage ap san pi sp = Ok (um, st) ->
  In t (sp_steps sp) -> used_in um (s_name t) = [] ->
  all_instances sp um (s_name t) = [s_name t]
  /\ In (s_name t) (g_names (st_g st))
  /\ (forall i, iname (sp_params sp) um (s_name t) i = s_name t)
  /\ NoDup (g_names (st_g st)).
Proof. exact final_C08_unparam. Qed.
Print Assumptions C08_unparam.

(** for every step and every row there is exactly one node named after the
    instance (names are duplicate-free and there is no other node but
    "_source"); it carries that row's values of the used parameters and is the
    record [add_instance] builds for a row [j] that agrees with [i] *)
Theorem C08_total : forall ap san pi sp um st,
  perm_oracle pi -> hygiene sp um -> stage ap san pi sp = Ok (um, st) ->
  NoDup (g_names (st_g st))
  /\ (forall y, In y (g_names (st_g st)) ->
        y = SOURCE \/ exists t i, In t (sp_steps sp) /\ valid_row sp um (s_name t) i
                                  /\ y = iname (sp_params sp) um (s_name t) i)
  /\ (forall t i, In t (sp_steps sp) -> valid_row sp um (s_name t) i ->
        In (iname (sp_params sp) um (s_name t) i) (g_names (st_g st))
        /\ exists j r, valid_row sp um (s_name t) j
             /\ agree (sp_params sp) (used_in um (s_name t)) j i = true
             /\ rec_of (st_g st) (iname (sp_params sp) um (s_name t) i) = Some r
             /\ rec_from ap san sp um t j r
             /\ r_params r = param_values (sp_params sp) (used_in um (s_name t)) i).
Proof. exact final_C08_total. Qed.
Print Assumptions C08_total.

(** rows that agree on the parameters a step uses expand every field of the
    step to the same text (so sharing the instance loses nothing), provided
    the keys are distinct words and the substituted text contains no
    parameter token (the hypothesis of C09's core law; it excludes values
    that contain token text, K4b) *)
Theorem C08_sound_sharing : forall ap san pi sp um st t i j x,
  perm_oracle pi -> hygiene sp um -> stage ap san pi sp = Ok (um, st) ->
  params_ok (sp_params sp) = true ->
  In t (sp_steps sp) -> In x (step_texts t) ->
  agree (sp_params sp) (used_in um (s_name t)) i j = true ->
  no_token_left (sp_params sp) i x = true ->
  apply_row (sp_params sp) i x = apply_row (sp_params sp) j x.
Proof. exact final_C08_sound_sharing. Qed.
Print Assumptions C08_sound_sharing.

(** every child was inserted after its parent (well-formedness of the
    execution DAG: [parents x < x] in insertion order) *)
Theorem C08_topological : forall ap san pi sp um st p c,
  perm_oracle pi -> hygiene sp um -> stage ap san pi sp = Ok (um, st) ->
  In c (kids_of (st_g st) p) ->
  (index_of p (g_names (st_g st)) < index_of c (g_names (st_g st)))%nat
  /\ In p (g_names (st_g st)) /\ In c (g_names (st_g st)).
Proof. exact final_C08_topological. Qed.
Print Assumptions C08_topological.

(** the restart limit attached to an instance is the configured limit if the
    step has a restart command, else 0 (cited by C06) *)
Theorem C06_rlimit_attach : forall ap san pi sp um st t i,
  perm_oracle pi -> hygiene sp um -> stage ap san pi sp = Ok (um, st) ->
  In t (sp_steps sp) -> valid_row sp um (s_name t) i ->
  exists r, rec_of (st_g st) (iname (sp_params sp) um (s_name t) i) = Some r
            /\ r_rlimit r = match s_restart t with [] => 0%nat | _ => sp_rlimit sp end.
Proof. exact final_C06_rlimit_attach. Qed.
Print Assumptions C06_rlimit_attach.

(** the monitor evaluated by the harness on the implementation's graph holds of
    every staging of the model inside H8, for every iteration order of the sets *)
Theorem C08_monitor_holds : forall ap san pi sp,
  perm_oracle pi -> hygb sp = true ->
  C08_ok sp (observe_result (stage ap san pi sp)) = true.
Proof. exact final_C08_monitor_holds. Qed.
Print Assumptions C08_monitor_holds.

(** the boolean hygiene decides the propositional one *)
Theorem C08_hygb_sound : forall sp um, plan sp = Some um -> hygb sp = true -> hygiene sp um.
Proof. exact final_C08_hygb_sound. Qed.
Print Assumptions C08_hygb_sound.

(** K2 (known finding, outside H8): labels "a.b","c" and "a","b.c" give the
    same instance name for two rows that differ on used parameters; one
    instance is lost and the monitor is false on the staged graph *)
Theorem C08_sharing_refuted : exists sp,
  sig_label_join sp = true /\ hygb sp = false /\ C08_ok sp (c08_model sp) = false.
Proof. exact final_C08_sharing_refuted. Qed.
Print Assumptions C08_sharing_refuted.

(** K2b (known finding, outside H8): an instance name equal to another step's name *)
Theorem C08_total_refuted : exists sp,
  sig_name_clash sp = true /\ hygb sp = false /\ C08_ok sp (c08_model sp) = false.
Proof. exact final_C08_total_refuted. Qed.
Print Assumptions C08_total_refuted.

(** non-vacuity: a study inside H8 that stages to nine nodes (three rows, two
    parameters, an ordinary and a funnel dependency, an unparameterised step) *)
Example C08_nonvacuous :
  hygb w_valid = true
  /\ (exists um st, stage_c pi_id w_valid = Ok (um, st) /\ length (st_g st) = 9%nat)
  /\ C08_ok w_valid (c08_model w_valid) = true.
Proof. exact final_C08_nonvacuous. Qed.
Print Assumptions C08_nonvacuous.

(** non-vacuity of C08_sound_sharing: rows 0 and 2 of the example agree on N
    (not on NX) and expand a text that uses only N identically *)
Example C08_sound_sharing_nonvacuous :
  let ps := sp_params w_valid in
  let x := Str.s "cat $(N) $(N.label)" in
  params_ok ps = true /\ agree ps [Str.s "N"] 0 2 = true /\ agree ps [Str.s "NX"] 0 2 = false
  /\ no_token_left ps 0 x = true
  /\ apply_row ps 0 x = Str.s "cat 1 N.1" /\ apply_row ps 2 x = Str.s "cat 1 N.1".
Proof. exact final_C08_sound_sharing_nonvacuous. Qed.
Print Assumptions C08_sound_sharing_nonvacuous.

(** the hypothesis [no_token_left] of C08_sound_sharing cannot be dropped: a
    value that is itself token text (finding K4b, recorded under C09) makes two
    rows that agree on every parameter the text uses expand it differently *)
Example C08_sound_sharing_needs_hyp :
  let ps := w_k4b_params in
  let x := Str.s "$(A)" in
  params_ok ps = true /\ agree ps [Str.s "A"] 0 1 = true
  /\ (forall k, In k (keys_of ps) -> uses_key k x = true -> In k [Str.s "A"])
  /\ no_token_left ps 0 x = false
  /\ apply_row ps 0 x <> apply_row ps 1 x.
Proof. exact final_C08_sound_sharing_needs_hyp. Qed.
Print Assumptions C08_sound_sharing_needs_hyp.

(** the label token is the ParameterGenerator's own ([ParameterGenerator(ltoken=...)],
    custom pgen): the default label KEY.<token> and every template are
    instantiated by replacing THAT token; a template without it gives one
    constant label (then rows collide: outside H8) *)
Example C08_label_token :
  labels_of (mkP (Str.s "N") [] [Str.s "1"; Str.s "2"] (LTK (Str.s "##") [])) = [Str.s "N.1"; Str.s "N.2"]
  /\ labels_of (mkP (Str.s "N") [] [Str.s "1"; Str.s "2"] (LT [])) = [Str.s "N.1"; Str.s "N.2"]
  /\ labels_of (mkP (Str.s "N") [] [Str.s "1"; Str.s "2"] (LTK (Str.s "##") (Str.s "n##-##"))) = [Str.s "n1-1"; Str.s "n2-2"]
  /\ labels_of (mkP (Str.s "N") [] [Str.s "1"; Str.s "2"] (LTK (Str.s "##") (Str.s "n%%"))) = [Str.s "n%%"; Str.s "n%%"].
Proof. exact final_C08_label_token. Qed.
Print Assumptions C08_label_token.

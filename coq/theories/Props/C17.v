(** C17 -- a dry run generates everything and executes nothing.

    Model: Exec/ExecBase.v + ExecGen.v (generated from executiongraph.py) + ExecRun.v.
    Proofs: Exec/ExecDry.v.  All statements hold for ALL graphs, throttles, attempt
    counts, restart settings, poll inputs (query codes, reports, submission outcomes).

    Monitor codes (ExecTrace.v, [family 17] = 17 171 172 173), evaluated at run time on the
    implementation's and on the model's trace by the correspondence run:
      17   no ECheck / ESubmit in a dry run                       <- C17_no_effects
      173  a cancel in a dry run cancels an empty job list        <- C17_no_effects
      171  a final status of a dry run (no cancel seen) is FINISHED
           with every row DRYRUN                                  <- C17_all_dryrun_finished
      172  a dry run (no cancel seen) takes at most length g + 1
           polls                                                  <- C17_all_dryrun_finished
    All four codes are PROVED silent on every dry model trace: C17_monitor_ok. *)
From MWF Require Import Base.Str Base.Util Exec.ExecBase Exec.ExecGen Exec.ExecRun Exec.ExecTrace Exec.ExecGraph
  Exec.ExecInv Exec.ExecFault Exec.ExecDry Gen.CtorEffects Exec.ExecDryProcs Exec.ExecDryProcsProofs.

(** ** No effects.  One dry poll from ANY state: the adapter is only asked to generate
    scripts, or -- on a cancel request -- to cancel the jobs of the tracked steps; nothing
    becomes tracked and no job id is drawn. *)
Theorem C17_no_effects_poll : forall c g s p, dry c = true ->
  let s' := fst (poll c g s p) in
  (forall e, In e (evs s') ->
     match e with
     | EGen _ => True
     | ECancel js => js = map (lastjob s) (inprog s)
     | ECheck _ | ESubmit _ _ _ _ => False
     end) /\
  inprog s' = inprog s /\ next_job s' = next_job s.
Proof. exact dry_poll_no_effects. Qed.
Print Assumptions C17_no_effects_poll.

(** Every executed poll of every dry run from the initial state: nothing is ever tracked
    (so a cancel request cancels the empty job list), no job id is ever drawn, and every
    adapter call is EGen or ECancel [] -- no ESubmit, no ECheck. *)
Theorem C17_no_effects : forall c g ps t, dry c = true -> In t (run_steps c g (init g) ps) ->
  inprog (st_pre t) = [] /\ inprog (st_post t) = [] /\ next_job (st_post t) = 0 /\
  forallb (fun e => match e with EGen _ => true | ECancel [] => true | _ => false end) (evs (st_post t)) = true.
Proof. exact dry_run_no_effects. Qed.
Print Assumptions C17_no_effects.

(** ** Progress.  A dry poll without a cancel request keeps the dry-run invariant [Dry]
    (ExecDry.v: nothing tracked / failed / cancelled; row x is DRYRUN iff x is completed,
    else INITIALIZED; ...); it either returns FINISHED with every instance completed or
    returns RUNNING having completed at least one more instance. *)
Theorem C17_poll_progress : forall c g s p, WF g -> dry c = true -> cancel_req p = false -> Dry g s ->
  let s' := fst (poll c g s p) in
  let r := snd (poll c g s p) in
  Dry g s' /\ incl (completed s) (completed s') /\
  ((r = SFINISHED /\ (forall x, x < length g -> In x (completed s'))) \/
   (r = SRUNNING /\ length (completed s) < length (completed s'))).
Proof. exact dry_poll_progress. Qed.
Print Assumptions C17_poll_progress.

(** ** Termination and verdict.  A dry run without cancel requests, for every throttle /
    attempts / restart setting / scheduler answers: never more than [length g + 1] polls;
    every status is RUNNING or FINISHED (never FAILURE, CANCELLED, ABORT); FINISHED comes with
    every row DRYRUN; and given [length g + 1] poll inputs it does end FINISHED. *)
Theorem C17_all_dryrun_finished : forall c g ps, WF g -> dry c = true -> Forall (fun p => cancel_req p = false) ps ->
  length (run c g (init g) ps) <= length g + 1 /\
  (forall o, In o (run c g (init g) ps) ->
     snd o = SRUNNING \/ (snd o = SFINISHED /\ Forall (fun r => fst (fst r) = DRYRUN) (snd (fst o)))) /\
  (length g < length ps ->
   exists pre evs rows, run c g (init g) ps = pre ++ [(evs, rows, SFINISHED)] /\
                        length rows = length g /\ Forall (fun r => fst (fst r) = DRYRUN) rows).
Proof. exact dry_run_terminates. Qed.
Print Assumptions C17_all_dryrun_finished.

(** ** Scripts.  The events of a dry poll are exactly the EGen calls of the instances it
    completes, in completion order. *)
Theorem C17_poll_scripts : forall c g s p, dry c = true -> cancel_req p = false -> Dry g s ->
  let s' := fst (poll c g s p) in
  exists l, rev (evs s') = map EGen l /\ completed s' = completed s ++ l.
Proof. exact dry_poll_gens. Qed.
Print Assumptions C17_poll_scripts.

(** In a complete dry run the EGen calls enumerate the instances without repetition: each
    instance's scripts are generated exactly once. *)
Theorem C17_scripts_once : forall c g ps, WF g -> dry c = true ->
  Forall (fun p => cancel_req p = false) ps -> length g < length ps ->
  let G := flat_map (fun o : obs => gens (fst (fst o))) (run c g (init g) ps) in
  NoDup G /\ (forall x, In x G <-> x < length g) /\ length G = length g.
Proof. exact dry_run_scripts. Qed.
Print Assumptions C17_scripts_once.

(** C17_same_scripts.  The real run to compare with: the run of the same graph under the
    IDEAL scheduler -- [ideal_pins cr g s n] are the poll inputs in which there is no cancel
    request, the query answers OK with every tracked job FINISHED ([ipin]), and every
    submission succeeds -- so every instance is generated exactly once there too (no restarts).
    For the same throttle (any value), any attempts >= 1, and any dry-run poll inputs without
    a cancel request: the sequence of script generations of the real run ([gens_all] = the
    EGen arguments of the whole run, in order) equals that of the dry run.
    (Proof: ExecDry.v Part 4, a lock-step simulation -- same queue, same dependency table,
    same slot arithmetic in every poll; the real run needs one more poll to collect the last
    FINISHED reports, in which nothing is generated.) *)
Theorem C17_same_scripts : forall cr cd g, WF g -> dry cr = false -> dry cd = true ->
  throttle cd = throttle cr -> 0 < attempts cr ->
  forall ps, Forall (fun p => cancel_req p = false) ps ->
  gens_all (run cr g (init g) (ideal_pins cr g (init g) (length ps))) = gens_all (run cd g (init g) ps).
Proof. exact same_scripts. Qed.
Print Assumptions C17_same_scripts.

(** ... poll by poll: the simulation relation [Sim] (ExecDry.v) is kept and the two polls
    generate the same scripts in the same order; the real run finishes only if the dry run does *)
Theorem C17_same_scripts_poll : forall cr cd g, dry cr = false -> dry cd = true ->
  throttle cd = throttle cr -> 0 < attempts cr ->
  forall sr sd pd, Sim g sr sd -> cancel_req pd = false ->
  Sim g (fst (poll cr g sr (ipin sr))) (fst (poll cd g sd pd)) /\
  gens (rev (evs (fst (poll cr g sr (ipin sr))))) = gens (rev (evs (fst (poll cd g sd pd)))) /\
  (snd (poll cr g sr (ipin sr)) = SRUNNING \/
   (snd (poll cr g sr (ipin sr)) = SFINISHED /\ snd (poll cd g sd pd) = SFINISHED)).
Proof. exact sim_poll. Qed.
Print Assumptions C17_same_scripts_poll.

(** in BOTH modes _execute_record generates the script before anything else happens to the
    step: the first new event of a non-restart execution is EGen x; in a dry run it is the only one *)
Theorem C17_gen_first : forall c g x s,
  exists new, evs (execute_record_gen c g x false s) = new ++ EGen x :: evs s /\
              (forall y, ~ In (EGen y) new) /\ (dry c = true -> new = []).
Proof. exact execute_record_gen_first. Qed.
Print Assumptions C17_gen_first.

(** ** The monitor on the model's own trace.  [prop_ok 17] is the predicate the correspondence
    run evaluates on the IMPLEMENTATION's recorded trace (no code of [family 17] raised by the
    trace monitor of ExecTrace.v).  It holds of every dry run of the model from the initial
    state: every well-formed graph, configuration and history of poll inputs -- cancel
    requests, query faults, reports and submission outcomes included. *)
Theorem C17_monitor_ok : forall c g ps, WF g -> dry c = true ->
  prop_ok 17 c g ps (run c g (init g) ps) = true.
Proof. exact model_prop_ok_17. Qed.
Print Assumptions C17_monitor_ok.

(** ** Non-vacuity: the graph 0 -> 2 <- 1 in a dry run. *)
Import FaultEx.
Definition c_dry (t : nat) : cfg := {| throttle := t; attempts := 2; dry := true |}.

Example C17_ex_hyps : WF g3 /\ Dry g3 (init g3).
Proof. exact (conj wf_g3 (Dry_init g3)). Qed.

(** unthrottled: two polls; the faulty answers of the (never asked) scheduler are irrelevant *)
Example C17_ex_run :
  run (c_dry 0) g3 (init g3) [pin_of QERROR []; pin_of QNOJOBS [(0, Some FAILED)]; pin_of QOK []] =
  [([EGen 0; EGen 1], [(DRYRUN, [], 0); (DRYRUN, [], 0); (INITIALIZED, [], 0)], SRUNNING);
   ([EGen 2], [(DRYRUN, [], 0); (DRYRUN, [], 0); (DRYRUN, [], 0)], SFINISHED)].
Proof. vm_compute. reflexivity. Qed.

(** throttle 1: three polls = length g3 *)
Example C17_ex_run_throttled :
  map (fun o : obs => (fst (fst o), snd o)) (run (c_dry 1) g3 (init g3) [pin_of QOK []; pin_of QOK []; pin_of QOK []; pin_of QOK []]) =
  [([EGen 0], SRUNNING); ([EGen 1], SRUNNING); ([EGen 2], SFINISHED)].
Proof. vm_compute. reflexivity. Qed.

(** the ideal real run of the same graph, throttle 1: same generation order as the dry run *)
Example C17_ex_same_scripts :
  let cr := {| throttle := 1; attempts := 1; dry := false |} in
  gens_all (run cr g3 (init g3) (ideal_pins cr g3 (init g3) 5)) = [0; 1; 2] /\
  gens_all (run (c_dry 1) g3 (init g3) [pin_of QOK []; pin_of QOK []; pin_of QOK []; pin_of QOK []; pin_of QOK []]) = [0; 1; 2] /\
  length (run cr g3 (init g3) (ideal_pins cr g3 (init g3) 5)) = 4.
Proof. vm_compute. repeat split. Qed.

(** a cancel request in a dry run cancels nothing *)
Example C17_ex_cancel :
  map (fun o : obs => (fst (fst o), snd o))
      (run (c_dry 1) g3 (init g3) [pin_of QOK []; {| cancel_req := true; qcode := QOK; reports := []; psubs := [] |}]) =
  [([EGen 0], SRUNNING); ([ECancel []], SCANCELLED)].
Proof. vm_compute. reflexivity. Qed.

(** ** The adapter side: constructing an adapter and generating a script start nothing.

    execute_ready_steps constructs the scheduler adapter on every pass, dry or not, and
    _execute_record calls its write_script before the dry-run return; the Exec model records of all
    that the one event [EGen x].  Gen/CtorEffects.v -- REGENERATED from the current source on every
    run by translate/tdata_ctor_effects.py (fail-closed) -- lists, per adapter class the plug-in
    registry registers, the names of all callees reachable from its constructor
    ([gen_ctor_callees]) and from write_script ([gen_scriptgen_callees]): closure over
    super().__init__, self.m(..), module-level functions; imported names under their original
    name.  ExecDryProcs.v classifies names: [proc_doors] (start_process, Popen, run, call,
    check_output, system, exec*, spawn*, posix_spawn, fork, ...), [proc_handle_calls],
    [engine_calls] (submit, check_jobs, cancel_jobs), [broker_calls] (the Flux interface's
    broker-facing methods and flux-core bindings), [dynamic_calls] (getattr, eval, __import__, ...:
    callees a syntactic scan cannot name) and [broker_reads] = [get_flux_version].

    For EVERY registered adapter: no callee of the constructor is a door to a process, a process-handle
    call, an engine call, a broker call or a dynamic call. *)
Theorem C17_ctor_effect_free : forall k cs n, In (k, cs) gen_ctor_callees -> In n cs ->
  ~ In n proc_doors /\ ~ In n proc_handle_calls /\ ~ In n engine_calls /\ ~ In n broker_calls /\ ~ In n dynamic_calls.
Proof. exact ctor_effect_free. Qed.
Print Assumptions C17_ctor_effect_free.

(** ... and the same for script generation, which moreover makes no broker read. *)
Theorem C17_scriptgen_effect_free : forall k cs n, In (k, cs) gen_scriptgen_callees -> In n cs ->
  ~ In n proc_doors /\ ~ In n proc_handle_calls /\ ~ In n engine_calls /\ ~ In n broker_calls /\ ~ In n dynamic_calls /\
  ~ In n broker_reads.
Proof. exact scriptgen_effect_free. Qed.
Print Assumptions C17_scriptgen_effect_free.

(** The one thing a constructor does ask of a scheduler: the Flux adapter reads the broker's version
    (it is written into the script header) -- no other adapter's constructor makes a broker read.
    (Observed at run time as well: harness/props/c17_procs.py clause p3 counts these reads in every
    Flux dry run and rejects every other Flux call.) *)
Theorem C17_ctor_broker_read_only_flux : forall k cs n, In (k, cs) gen_ctor_callees -> In n cs -> In n broker_reads ->
  k = s "flux".
Proof. exact ctor_broker_read_only_flux. Qed.
Print Assumptions C17_ctor_broker_read_only_flux.

(** The small model: [ctor_effects k] / [scriptgen_effects k] = the classified callees of the adapter
    registered under key [k].  For every key: script generation has no effect; construction has no
    effect unless the key is "flux", whose only effect is the version read. *)
Theorem C17_adapter_effects : forall k,
  scriptgen_effects k = [] /\
  (k <> s "flux" -> ctor_effects k = []) /\
  ctor_effects (s "flux") = [CBrokerRead (s "get_flux_version")].
Proof. exact (fun k => conj (scriptgen_effects_nil k) (conj (ctor_effects_nil k) ctor_effects_flux)). Qed.
Print Assumptions C17_adapter_effects.

(** Non-vacuity: the tables are those of the four adapters (same keys in all three tables), none of the
    callee lists is empty, and the classification is not blind: a constructor calling start_process
    (seeded change C17-m14) or write_script calling submit would be classified. *)
Example C17_ex_adapter_tables :
  keys_ok = true /\
  In (s "slurm") (map fst gen_ctor_callees) /\ In (s "lsf") (map fst gen_ctor_callees) /\
  In (s "flux") (map fst gen_ctor_callees) /\ In (s "local") (map fst gen_ctor_callees) /\
  forallb (fun kc => negb (Nat.eqb (length (snd kc)) 0)) (gen_ctor_callees ++ gen_scriptgen_callees) = true.
Proof. vm_compute. intuition. Qed.

Example C17_ex_classify :
  effects_of [s "add_batch_parameter"; s "start_process"; s "communicate"; s "submit"; s "getattr"; s "get_flux_version"] =
  [CProc (s "start_process"); CProc (s "communicate"); CEngine (s "submit"); CDynamic (s "getattr");
   CBrokerRead (s "get_flux_version")] /\
  table_ok [(s "slurm", [s "pop"; s "start_process"])] = false.
Proof. vm_compute. split; reflexivity. Qed.

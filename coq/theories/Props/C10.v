(** C10 -- every step instance has its own workspace inside the study directory.

    Model: Expand/SafePath.v (make_safe_path, posixpath.join/normpath, the
    workspace / script / output paths of Study._stage, _StepRecord and the four
    script adapters; alphabet, replace rules, file-name templates and workspace
    shapes are T-data regenerated from /repo on every run; md5 is an argument
    [h], never modelled).  Strings are lists of Unicode code points: every
    theorem below is about ALL strings.

    [C10_ok] is the monitor the check evaluates on the IMPLEMENTATION's
    workspaces and paths; [C10_monitor] / [C10_monitor_complement] prove it of
    the model, the other theorems are its readable parts.

    Known findings K1a-K1c lie outside the hygiene hypothesis; each has a
    [..._refuted] witness below. *)
From MWF Require Import Base.Str Gen.SafePathData Expand.SafePath Expand.SafePathProofs.

(** ** core: the sanitiser *)

(** Every character of a sanitised path component is in the alphabet the source
    declares, is not the space, and is not '/'. *)
Theorem safe_chars : forall (x : str) (c : N),
  In c (sanitize x) -> In c safe_alphabet /\ c <> SPACE /\ c <> SLASH.
Proof. exact safe_chars_lemma. Qed.
Print Assumptions safe_chars.

(** ** core: inside the study directory (normalisation = [npath], the normal
    form posixpath.normpath computes: number of leading slashes, components) *)

(** What "strictly inside after normalisation" means. *)
Theorem C10_inside_meaning : forall d p : str,
  inside d p = true <->
  exists r, r <> [] /\ npath p = (fst (npath d), snd (npath d) ++ r).
Proof. exact inside_spec. Qed.
Print Assumptions C10_inside_meaning.

(** [npath] really is a normal form: some ".." (none for an absolute path)
    followed by slash-free components other than "", ".", ".."; and
    re-normalising the text posixpath.normpath returns changes nothing. *)
Theorem C10_normal_form : forall x : str,
  exists k rest,
    snd (npath x) = repeat dotdot k ++ rest /\
    (Nat.ltb 0 (fst (npath x)) = true -> k = 0) /\
    Forall (fun c => ~ In SLASH c /\ c <> [] /\ c <> dot /\ c <> dotdot) rest.
Proof. exact npath_normal. Qed.
Print Assumptions C10_normal_form.

Theorem C10_normalisation_idempotent : forall x : str,
  npath (normpath x) = npath x /\ normpath (normpath x) = normpath x.
Proof. exact normpath_idem. Qed.
Print Assumptions C10_normalisation_idempotent.

(** Appending a slash-free component other than "", ".", ".." to ANY path
    appends exactly that component to its normal form. *)
Theorem C10_join_normal_form : forall a b : str,
  ~ In SLASH b -> b <> [] -> b <> dot -> b <> dotdot ->
  npath (join2 a b) = (fst (npath a), snd (npath a) ++ [b]).
Proof. exact join_normal_form. Qed.
Print Assumptions C10_join_normal_form.

(** make_safe_path(root, c1, ..., cn), n >= 1, with no sanitised component
    "", "." or "..": strictly inside root -- for every root string. *)
Theorem C10_inside_path : forall (root : str) (args : list str),
  args <> [] ->
  Forall (fun a => sanitize a <> [] /\ sanitize a <> dot /\ sanitize a <> dotdot) args ->
  inside root (make_safe_path root args) = true.
Proof. exact inside_path_lemma. Qed.
Print Assumptions C10_inside_path.

(** The workspace of an instance is root/c1 or root/c1/c2 (sanitised
    components) and lies strictly inside the study directory. *)
Theorem C10_inside : forall (h : str -> str) (st : study) (i : inst),
  (forall c, In c (ws_key h (s_hashws st) i) -> c <> [] /\ c <> dot /\ c <> dotdot) ->
  (exists c1 rest, ws_key h (s_hashws st) i = c1 :: rest /\ List.length rest <= 1 /\
                   workspace h st i = join (s_root st) (c1 :: rest)) /\
  inside (s_root st) (workspace h st i) = true.
Proof. exact inside_lemma. Qed.
Print Assumptions C10_inside.

(** ** core: distinct instances are separated (H10: sanitisation injective on
    the step names and on each step's combination strings -- on their digests
    with --hashws --, no component "", ".", "..", no '/' in the name the file
    names are made from; with a temp directory: per-instance digests distinct) *)
Theorem C10_distinct : forall (h : str -> str) (st : study) (i j : inst),
  H10 h st -> In i (s_insts st) -> In j (s_insts st) -> iname i <> iname j ->
  workspace h st i <> workspace h st j /\
  script_path h st i <> script_path h st j /\
  (* neither workspace is the other one or a directory above it ... *)
  inside_eq (workspace h st i) (workspace h st j) = false /\
  (* ... or above any file written for the other instance *)
  (forall f, In f (files h st j) -> inside_eq (workspace h st i) f = false) /\
  (* no file is shared (not even up to normalisation) *)
  (forall f g, In f (files h st i) -> In g (files h st j) -> npath f <> npath g).
Proof. exact distinct_H10. Qed.
Print Assumptions C10_distinct.

(** The sanitiser is the identity, hence injective, on strings over the kept
    characters that contain no replaced character: H10's injectivity
    hypotheses hold for every study whose names and labels are "clean". *)
Theorem C10_sanitize_injective_on_clean : forall x y : str,
  clean x -> clean y -> sanitize x = sanitize y -> x = y.
Proof. exact sanitize_inj_clean. Qed.
Print Assumptions C10_sanitize_injective_on_clean.

(** ** extended: everything written for a step is a file directly in its
    workspace; only scripts are diverted, to <tmp>/<digest>, with --usetmp *)
Theorem C10_writes_inside : forall (h : str -> str) (st : study) (i : inst),
  ~ In SLASH (sname h (s_hashws st) i) ->
  NoDup (i_pids i) /\ Forall is_pid (i_pids i) ->
  forall f, In f (files h st i) ->
  exists dir name,
    f = join2 dir name /\ ~ In SLASH name /\ good name /\ child dir f = true /\
    (dir = workspace h st i \/
     (s_tmp st <> [] /\ dir = join2 (s_tmp st) (h (iname i)) /\
      In f (o_scripts (model_iobs h st i)))).
Proof. exact writes_inside. Qed.
Print Assumptions C10_writes_inside.

(** With --hashws the file names of a parameterised instance come from the
    digest and are free of '/' whatever the labels contain. *)
Theorem C10_hashws_names_safe : forall (h : str -> str) (st : study) (i : inst) (c : str),
  s_hashws st = true -> i_combo i = Some c -> is_digest (h c) ->
  ~ In SLASH (sname h (s_hashws st) i).
Proof. exact sname_digest. Qed.
Print Assumptions C10_hashws_names_safe.

(** The sanitiser leaves digests (non-empty lower-case hex strings) alone, so
    with --hashws H10's hypothesis on the combination strings is exactly
    "the digest function is injective on them". *)
Theorem C10_hashws_digest_injective : forall (h : str -> str) (a b : str),
  is_digest (h a) -> is_digest (h b) -> (h a = h b -> a = b) ->
  sanitize (wkey h true a) = sanitize (wkey h true b) -> a = b.
Proof. exact hashws_combos_injective. Qed.
Print Assumptions C10_hashws_digest_injective.

(** ** submission (the "submit" stream of the check)
    Modelling fact: [_StepRecord._execute] passes the workspace as [cwd] to
    [adapter.submit]; each back-end must start a job (a submit that raises on a
    legal, existing workspace starts none), make the workspace the working
    directory of that job (the [cwd=] keyword of the launched process, or the
    [-D] / [--chdir] / [-cwd] option of sbatch / bsub, or [jobspec.cwd] for
    Flux), declare stdout / stderr targets (header [--output] / [--error] /
    [-o] / [-e] lines, jobspec attributes) that resolve to files DIRECTLY in the
    workspace -- plain names made from [step.name], the digest under --hashws,
    exactly as [C10_writes_inside] states for scripts and local output -- and
    point the launcher at the script that was written (for a shell=True command
    line: the word a POSIX shell reads).  [submit_ok] is the monitor evaluated
    on what the REAL adapters hand to the (stubbed, cwd-checking) process layer /
    fake flux module for steps that vary every optional run key, workspaces with
    the shell-special characters the sanitiser keeps and raw labels with '/',
    "..", blanks under --hashws; of the model it holds for every workspace: *)
Theorem C10_submit_in_workspace : forall (ws : str) (names : list str) (script : str),
  Forall (fun n => ~ In SLASH n /\ n <> [] /\ n <> dot /\ n <> dotdot) names ->
  submit_ok (model_sobs ws names script) = true.
Proof. exact submit_model_ok. Qed.
Print Assumptions C10_submit_in_workspace.

(** ** the monitor *)

(** Under H10 the model satisfies the monitor (all five conjuncts). *)
Theorem C10_monitor : forall (h : str -> str) (st : study),
  H10 h st -> C10_ok (model_obs h st) = true.
Proof. exact H10_model_ok. Qed.
Print Assumptions C10_monitor.

(** The monitor holds on the whole complement of the known-finding signatures:
    [h10b] = well-formed, not sig_collide, not sig_slash, not sig_degenerate. *)
Theorem C10_monitor_complement : forall (h : str -> str) (st : study),
  h10b h st = true -> C10_ok (model_obs h st) = true.
Proof. exact h10b_model_ok. Qed.
Print Assumptions C10_monitor_complement.

(** ** known findings: the full statement (without the hygiene hypothesis) is
    false of the faithful model *)

Theorem C10_K1a_collide_refuted : exists h st,
  wf_study h st = true /\ sig_collide h st = true /\ C10_ok (model_obs h st) = false.
Proof. exists noh, k1a_study. exact k1a_refuted. Qed.
Print Assumptions C10_K1a_collide_refuted.

Theorem C10_K1b_slash_refuted : exists h st,
  wf_study h st = true /\ sig_slash h st = true /\
  sig_collide h st = false /\ sig_degenerate h st = false /\
  C10_ok (model_obs h st) = false.
Proof. exists noh, k1b_study. exact k1b_refuted. Qed.
Print Assumptions C10_K1b_slash_refuted.

Theorem C10_K1c_dots_refuted : exists h st,
  wf_study h st = true /\ sig_degenerate h st = true /\
  sig_collide h st = false /\ sig_slash h st = false /\
  C10_ok (model_obs h st) = false.
Proof. exists noh, k1c_study. exact k1c_refuted. Qed.
Print Assumptions C10_K1c_dots_refuted.

Theorem C10_K1c_empty_refuted : exists h st,
  wf_study h st = true /\ sig_degenerate h st = true /\
  sig_collide h st = false /\ sig_slash h st = false /\
  C10_ok (model_obs h st) = false.
Proof. exists noh, k1c_study_empty. exact k1c_refuted_empty. Qed.
Print Assumptions C10_K1c_empty_refuted.

(** ** non-vacuity: H10 holds of ordinary studies (three instances; plain, and
    with hashed workspaces + temp directory + digest table) *)
Example C10_H10_satisfiable : H10 noh ex_study /\ List.length (s_insts ex_study) = 3.
Proof. exact ex_satisfiable. Qed.
Example C10_H10_satisfiable_hash :
  H10 (lookup ex_table) ex_study_hash /\ s_hashws ex_study_hash = true /\ s_tmp ex_study_hash <> [].
Proof. exact ex_satisfiable_hash. Qed.

(** C03 -- the number of in-flight jobs never exceeds the throttle; with no
    throttle every step is submitted in the poll in which it becomes ready.

    Model and monitor as in Props/C01.v (Exec/ExecGen.v is REGENERATED from
    /repo's executiongraph.py on every run; Exec/ExecTrace.v is the monitor that
    harness/props/c03.py also evaluates, inside Coq, on the IMPLEMENTATION's
    recorded trace).  The monitor's ledger holds the LIVE jobs: submitted through
    the scheduler and not yet reported FINISHED / FAILED / TIMEDOUT / HWFAILURE /
    CANCELLED / UNKNOWN under an OK query code.  It is updated event by event, in
    emission order, so the bound is checked at every instant: inside the launch
    loop and inside the restart handling of the report dispatch.
      code 3   at a successful scheduler submission: throttle > 0 and the number
               of live jobs including the new one exceeds the throttle;
      code 31  at the end of a poll with throttle = 0 (not a dry run, query not
               failed): some step all of whose parents had succeeded when the
               reports of this poll had been delivered is still INITIALIZED
               (neither submitted, nor marked cancelled/failed).
    [prop_ok 3] = neither code occurs.  Hypotheses as in C01. *)
From MWF Require Import Exec.ExecBase Exec.ExecGen Exec.ExecRun Exec.ExecTrace
     Exec.ExecLedger Exec.ExecLedger2 Exec.ExecLedger3 Exec.ExecLedger6 Exec.ExecLedgerEx.

Theorem C03 : forall c g ps,
  wf_graph g = true -> valid_run c g (init g) ps = true ->
  prop_ok 3 c g ps (run c g (init g) ps) = true.
Proof. exact C03_holds. Qed.
Print Assumptions C03.

(** the two halves, spelled out *)
Theorem C03_bound : forall c g ps,
  wf_graph g = true -> valid_run c g (init g) ps = true ->
  ~ In 3 (viol_of c g ps (run c g (init g) ps)).
Proof. exact (fun c g ps Hw V => code_silent c g ps 3 Hw V ltac:(cbn; tauto)). Qed.
Print Assumptions C03_bound.

Theorem C03_unthrottled : forall c g ps,
  wf_graph g = true -> valid_run c g (init g) ps = true ->
  ~ In 31 (viol_of c g ps (run c g (init g) ps)).
Proof. exact (fun c g ps Hw V => code_silent c g ps 31 Hw V ltac:(cbn; tauto)). Qed.
Print Assumptions C03_unthrottled.

(** the state-level reading of the bound: after every poll of a valid run the
    in-progress set has at most [throttle] members (and the invariant holds) *)
Theorem C03_inprog_bound : forall c g ps s r,
  wf_graph g = true -> valid_run c g (init g) ps = true ->
  In (s, r) (run_states c g (init g) ps) ->
  throttle c > 0 -> length (inprog s) <= throttle c.
Proof. exact C03_states. Qed.
Print Assumptions C03_inprog_bound.

(** Non-vacuity: throttle 1 on a diamond -- node 2 waits one poll for its slot;
    five submissions, FINISHED *)
Example C03_example_throttled :
  wf_graph ex_g && valid_run ex_c ex_g (init ex_g) ex_ps
  && Nat.eqb (n_submits (run ex_c ex_g (init ex_g) ex_ps)) 5
  && sstatus_eqb (last_status (run ex_c ex_g (init ex_g) ex_ps)) SFINISHED = true.
Proof. vm_compute; reflexivity. Qed.

(** no throttle: nodes 1 and 2 are submitted in the poll that delivers FINISHED for node 0 *)
Example C03_example_unthrottled :
  wf_graph ex_g && valid_run ex_c0 ex_g (init ex_g) ex_ps0
  && Nat.eqb (n_submits (run ex_c0 ex_g (init ex_g) ex_ps0)) 4
  && sstatus_eqb (last_status (run ex_c0 ex_g (init ex_g) ex_ps0)) SFINISHED = true.
Proof. vm_compute; reflexivity. Qed.

(** the monitor rejects two live jobs under throttle 1, and an unthrottled poll
    that leaves a staged step INITIALIZED *)
Example C03_monitor_rejects :
  prop_ok 3 ex_c ex_g [mkpin false QOK [] []] ex_bad_obs = false /\
  prop_ok 3 ex_c0 ex_g ex_ps0 ex_bad_obs0 = false.
Proof. split; vm_compute; reflexivity. Qed.

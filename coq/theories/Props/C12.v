(** C12 -- the status table is complete, consistent and always readable.

    Models: Status/Rows.v (ExecutionGraph.status_subtree / write_status rows),
    Status/Csv.v (",".join / "\n".join  versus  Conductor.get_status +
    utils.csvtable_to_dict), Status/Lock.v (interleavings of the lock-guarded
    writer and readers).  The monitor evaluated on the implementation's real
    status.csv in every correspondence case is [Rows.C12_ok] -- the predicate of
    [C12_status_readable] below. *)
From Coq Require Import List Arith Bool NArith Permutation.
From MWF Require Import Base.Util Base.Str Status.Csv Status.CsvProofs Status.Rows Status.RowsProofs
  Status.Lock Status.LockProofs Status.AtomicTable Status.LockCase Status.ExecRows Status.Consist
  Gen.StatusData Status.TData Status.StatusOps Status.StatusGen Status.StatusGenProofs.
From MWF Require Exec.ExecBase Exec.ExecRun Status.ExecJobs.
Import ListNotations.

(* ------------------------------------------------------------------------- *)
(** * complete: every instance exactly once  (core)                            *)
(* ------------------------------------------------------------------------- *)

(** For EVERY graph (any size, any shape) whose keys are distinct, whose edges
    end at keys and in which every node is reachable from the source: the
    order [status_subtree] yields is duplicate-free and a permutation of the
    step instances (every key of [values] but "_source"). *)
Theorem C12_rows_once : forall (g : graph) (src : nat),
  wfb g src = true ->
  (forall x, In x (keys g) -> reach (succs g) src x) ->
  NoDup (status_order g src) /\ Permutation (status_order g src) (instances g src).
Proof. exact rows_once. Qed.
Print Assumptions C12_rows_once.

(** ... hence the Step Name column is a duplicate-free permutation of the
    instance names (distinct names: they are the keys of [values]). *)
Theorem C12_rows_once_names : forall (g : graph) (src : nat) (recs : list rec),
  wfb g src = true ->
  (forall x, In x (keys g) -> reach (succs g) src x) ->
  NoDup (map (name_of recs) (instances g src)) ->
  NoDup (map (hd []) (status_rows g src recs)) /\
  Permutation (map (hd []) (status_rows g src recs)) (map (name_of recs) (instances g src)).
Proof. exact rows_once_names. Qed.
Print Assumptions C12_rows_once_names.

(** The reachability hypothesis is what staging guarantees (every instance is
    connected to an earlier node, at least to the source) -- the decidable form
    that is evaluated on the real graph in every correspondence case. *)
Theorem C12_rows_once_staged : forall (g : graph) (src : nat) (recs : list rec),
  wfb g src = true -> stagedb g src = true ->
  NoDup (map (name_of recs) (instances g src)) ->
  NoDup (map (hd []) (status_rows g src recs)) /\
  Permutation (map (hd []) (status_rows g src recs)) (map (name_of recs) (instances g src)).
Proof. exact rows_once_staged. Qed.
Print Assumptions C12_rows_once_staged.

(** DAG.bfs_subtree is exact: never out of fuel, no duplicates, precisely the
    reachable nodes. *)
Theorem C12_bfs_exact : forall (g : graph) (src : nat),
  NoDup (bfs g src) /\ forall x, In x (bfs g src) <-> reach (succs g) src x.
Proof. exact bfs_exact. Qed.
Print Assumptions C12_bfs_exact.

(* ------------------------------------------------------------------------- *)
(** * always readable: the printer / parser round trip  (core)                 *)
(* ------------------------------------------------------------------------- *)

(** For ALL tables (>= 2 distinct columns, rectangular) whose cells contain
    none of [,] [\n] [\r] (H12): what [get_status] returns for what
    [write_status] wrote is exactly the column dictionary of the table. *)
Theorem C12_roundtrip : forall (header : list str) (rows : list (list str)),
  table_wf header rows = true -> H12 header rows = true ->
  parse (render header rows) = PTable (columns header rows).
Proof. exact roundtrip. Qed.
Print Assumptions C12_roundtrip.

(** The statement WITHOUT H12 is false (known finding K3): a comma in a cell
    makes the reader raise KeyError, a line break tears the row. *)
Theorem C12_roundtrip_refuted :
  exists header rows,
    table_wf header rows = true /\
    parse (render header rows) <> PTable (columns header rows).
Proof. exact roundtrip_refuted. Qed.
Print Assumptions C12_roundtrip_refuted.

Theorem C12_roundtrip_refuted_comma :
  table_wf k3_hdr k3_comma_rows = true /\ sig_comma k3_hdr k3_comma_rows = true /\
  parse (render k3_hdr k3_comma_rows) = PKeyError.
Proof. exact roundtrip_refuted_comma. Qed.
Print Assumptions C12_roundtrip_refuted_comma.

Theorem C12_roundtrip_refuted_newline :
  table_wf k3_hdr k3_nl_rows = true /\ sig_newline k3_hdr k3_nl_rows = true /\
  parse (render k3_hdr k3_nl_rows)
  = PTable [(s "Step Name", [s "a"; s "2"]); (s "Params", [s "X:1"])].
Proof. exact roundtrip_refuted_newline. Qed.
Print Assumptions C12_roundtrip_refuted_newline.

(** H12 is exactly the complement of the two K3 signatures. *)
Theorem C12_H12_iff_no_signature : forall header rows,
  H12 header rows = negb (sig_comma header rows || sig_newline header rows).
Proof. exact H12_iff_no_signature. Qed.
Print Assumptions C12_H12_iff_no_signature.

(** T-data: the header literal, the cell / line / parameter separators, the
    row width, the reader's split / strip arguments and the two open modes, as
    REGENERATED from /repo's source on every run, are the ones the models above
    and below are about. *)
Theorem C12_tdata : tdata_ok = true.
Proof. exact tdata_matches_models. Qed.
Print Assumptions C12_tdata.

(** T-code: the text REGENERATED on every run from the source of
    ExecutionGraph.status_subtree / write_status, utils.csvtable_to_dict and
    Conductor.get_status (Status/StatusGen.v, translate/tcode_status.py) IS the
    model the theorems of this file are about: the traversal, the text handed
    to the file (header, column order, "--" / LAST job id, workspace shortening,
    restart count, parameter rendering, separators), the reader, and the file /
    lock operations in program order with their Timeout handlers. *)
Theorem C12_writer_is_generated : forall g src recs,
  status_subtree_gen g src = status_order g src /\
  write_status_text_gen (status_subtree_gen g src) (fun k => lift (rec_of recs k)) = status_text g src recs.
Proof. exact (fun g src recs => conj (status_subtree_is_generated g src) (write_status_is_status_text g src recs)). Qed.
Print Assumptions C12_writer_is_generated.

Theorem C12_reader_is_generated : forall file timed_out,
  csvtable_to_dict_gen (read_text file) = parse file /\
  get_status_gen (option_map read_text (Some file)) timed_out = reader_answer (Some file) timed_out.
Proof. exact (fun file t => conj (reader_is_parse file) (get_status_is_generated (Some file) t)). Qed.
Print Assumptions C12_reader_is_generated.

Theorem C12_lock_discipline_is_generated :
  writer_events_gen = writer_program /\ writer_on_timeout_gen = HPass /\
  reader_events_gen = reader_program /\ reader_on_timeout_gen = HPass.
Proof.
  exact (conj writer_events_is_generated (conj writer_timeout_is_generated
        (conj reader_events_is_generated reader_timeout_is_generated))).
Qed.
Print Assumptions C12_lock_discipline_is_generated.

(* ------------------------------------------------------------------------- *)
(** * consistent: what a row shows                                             *)
(* ------------------------------------------------------------------------- *)

(** The [i]-th row is (name, latest job id or "--", shortened workspace, state,
    five timing cells, restart count, "k:v;k:v" parameters) of the CURRENT
    record of the [i]-th node in status order. *)
Theorem C12_row_content : forall (g : graph) (src : nat) (recs : list rec) (i : nat),
  i < List.length (status_order g src) ->
  let r := rec_of recs (nth i (status_order g src) 0) in
  nth i (status_rows g src recs) [] =
  [ r_name r; last (r_jobids r) (s "--"); ws_short r; r_state r;
    time_cell r 0; time_cell r 1; time_cell r 2; time_cell r 3; time_cell r 4;
    dec (r_restarts r);
    join [semicolon] (map (fun kv => fst kv ++ [colon] ++ snd kv) (r_params r)) ].
Proof. exact row_content. Qed.
Print Assumptions C12_row_content.

(** The same against a static table (name, workspace, parameters: fixed by
    staging) and a dynamic table (state, job ids, restart count: what polls
    change): the row of node [k] shows [k]'s state, the LAST of [k]'s job ids
    and [k]'s restart count. *)
Theorem C12_consistent : forall g src statics dyn i,
  i < List.length (status_order g src) ->
  let k := nth i (status_order g src) 0 in
  k < List.length statics -> List.length statics = List.length dyn ->
  let row := nth i (status_rows_dyn g src statics dyn) [] in
  let st := nth k statics (mkStatic [] [] []) in
  let d := nth k dyn (mkDyn [] [] 0%N []) in
  nth 0 row [] = sr_name st /\
  nth 1 row [] = last (d_jobids d) (s "--") /\
  nth 3 row [] = d_state d /\
  nth 9 row [] = dec (d_restarts d) /\
  nth 10 row [] = join [semicolon] (map (fun kv => fst kv ++ [colon] ++ snd kv) (sr_params st)).
Proof. exact row_dyn_consistent. Qed.
Print Assumptions C12_consistent.

(** TRACE LEVEL (execution model of Exec/ExecBase.v, ExecGen.v, ExecRun.v = the
    polling logic of ExecutionGraph; nodes 0..n-1 without the source).  For
    EVERY configuration, graph and sequence of poll inputs, after EVERY poll:
    the job-id list of each instance is exactly the list of identifiers the
    scheduler adapter returned for its successful submissions so far, in order
    ([acck] = those submissions, accumulated over the adapter traces of the polls). *)
Theorem C12_jobs_coupled_every_poll : forall c g ps sk acck,
  In (sk, acck) (ExecJobs.run_acc c g (ExecBase.init g) [] ps) ->
  List.length (ExecBase.recs sk) = List.length g /\
  forall x, x < List.length g ->
    ExecBase.jobs (ExecBase.getrec sk x) = ExecJobs.jobs_of acck x.
Proof. exact ExecJobs.run_jobs. Qed.
Print Assumptions C12_jobs_coupled_every_poll.

(** [run_acc] visits exactly the states of [ExecRun.run_states] (the poll loop). *)
Theorem C12_run_acc_states : forall c g ps s acc,
  map fst (ExecJobs.run_acc c g s acc ps) = map fst (ExecRun.run_states c g s ps).
Proof. exact ExecJobs.run_acc_states. Qed.
Print Assumptions C12_run_acc_states.

(** ... hence, through rows, printer and parser: in the table the status
    command reads back after any poll of any history, every instance's Job ID is
    the identifier of its LAST successful submission at the adapter, "--" if
    there was none ([job_column_ok], the trace-level monitor evaluated on the
    implementation's status.csv after every poll of the generated histories).
    This ties the Job ID column to the ADAPTER trace (an observable independent
    of the records); [C12_consistent_trace] below ties State / Job ID / Number
    Restarts to the execution model's state after the same polls. *)
Theorem C12_consistent_jobid_trace : forall c eg ps sk acck (rg : graph) statics times,
  In (sk, acck) (ExecJobs.run_acc c eg (ExecBase.init eg) [] ps) ->
  instances rg 0 = seq 1 (List.length eg) ->
  let recs := exec_recs statics times sk in
  valid rg 0 recs = true -> H12_rows rg 0 recs = true ->
  jobs_coupled rg 0 recs (shift acck) = true /\
  job_column_ok rg 0 recs (shift acck) (snd (model_obs rg 0 recs)) = true.
Proof. exact consistent_trace. Qed.
Print Assumptions C12_consistent_jobid_trace.

(** State, Job ID and Number Restarts together, against the execution model:
    after EVERY poll of EVERY history the table the status command reads back
    shows, for every instance, exactly the state / latest job id / restart count
    of the model's record -- what the reports delivered so far dictate through
    the dispatch logic of execute_ready_steps.  [shown_ok] is the monitor
    evaluated (with the model's rows computed inside Coq from the poll inputs
    the real run saw) on the implementation's status.csv after every poll. *)
Theorem C12_consistent_trace : forall c eg ps sk r (name : nat -> str) statics times (rg : graph),
  In (sk, r) (ExecRun.run_states c eg (ExecBase.init eg) ps) ->
  let n := List.length (ExecBase.recs sk) in
  let recs := exec_recs statics times sk in
  (forall x, x < n -> sr_name (nth x statics (mkStatic [] [] [])) = name x) ->
  instances rg 0 = seq 1 n ->
  valid rg 0 recs = true -> H12_rows rg 0 recs = true ->
  shown_ok name (ExecRun.rows_of sk) (snd (model_obs rg 0 recs)) = true.
Proof. exact consistent_every_poll. Qed.
Print Assumptions C12_consistent_trace.

Theorem C12_exec_row_content : forall statics times sk x,
  x < List.length (ExecBase.recs sk) ->
  let row := row_of (rec_of (exec_recs statics times sk) (S x)) in
  let r := ExecBase.getrec sk x in
  nth 1 row [] = last (map job_str (ExecBase.jobs r)) (s "--") /\
  nth 3 row [] = state_name (ExecBase.status r) /\
  nth 9 row [] = dec (N.of_nat (ExecBase.restarts r)).
Proof. exact exec_row_content. Qed.
Print Assumptions C12_exec_row_content.

(** The same monitor against ANY record table that is coupled with the trace. *)
Theorem C12_job_column : forall g src recs subs,
  valid g src recs = true -> H12_rows g src recs = true ->
  jobs_coupled g src recs subs = true ->
  job_column_ok g src recs subs (snd (model_obs g src recs)) = true.
Proof. exact job_column_model. Qed.
Print Assumptions C12_job_column.

(* ------------------------------------------------------------------------- *)
(** * the monitor: rows + printer + parser together                            *)
(* ------------------------------------------------------------------------- *)

(** On a staged graph with distinct instance names and cells within H12, what
    the status command reads back from what the conductor wrote is the status
    header over a rectangular table with a duplicate-free Step Name column
    whose rows are exactly one row per instance holding its current fields:
    [C12_ok] -- the predicate evaluated on the implementation's status.csv. *)
Theorem C12_status_readable : forall (g : graph) (src : nat) (recs : list rec),
  valid g src recs = true -> H12_rows g src recs = true ->
  C12_ok g src recs (snd (model_obs g src recs)) = true.
Proof. exact C12_ok_model. Qed.
Print Assumptions C12_status_readable.

(* ------------------------------------------------------------------------- *)
(** * never torn: the lock discipline                                          *)
(* ------------------------------------------------------------------------- *)

(** ANY number of processes, ANY jobs (writes chunked in any way), ANY schedule
    (including Timeout branches wherever a lock is held): a [get_status] call
    ends with the empty answer, or with the initial file, or with the WHOLE text
    of one of the write jobs.  Mutual exclusion of FileLock itself is the
    assumption built into [Lock.step] (one holder cell). *)
Theorem C12_atomic : forall (f0 : option str) (progs : nat -> list job) (sch : list move)
                            (i : nat) (a : answer),
  In (i, a) (answers (run locked sch (init f0 progs))) ->
  a = AEmpty \/
  exists t, a = AText t /\
    (f0 = Some t \/ exists j cs, In (JWrite cs) (progs j) /\ t = List.concat cs).
Proof. exact atomic. Qed.
Print Assumptions C12_atomic.

(** Sharper: the text delivered is THE LAST completely written table at the
    time of the read (the previous one if the writer has not begun or took its
    Timeout branch, the new one once it has released). *)
Theorem C12_atomic_latest : forall f0 progs sch i a cm,
  In (i, a, cm) (log (run locked sch (init f0 progs))) ->
  a = AEmpty \/ exists t, a = AText t /\ cm = Some t.
Proof. exact atomic_latest. Qed.
Print Assumptions C12_atomic_latest.

(** At rest (nobody in the critical section) status.csv IS the last completely
    written table -- also after any number of writer Timeouts. *)
Theorem C12_atomic_quiescent : forall f0 progs sch,
  let s := run locked sch (init f0 progs) in
  lock s = None -> file s = committed s.
Proof. exact quiescent_complete. Qed.
Print Assumptions C12_atomic_quiescent.

(** The empty answer has exactly the two documented causes: no status.csv yet,
    or a Timeout (whatever the discipline). *)
Theorem C12_atomic_empty_only_timeout : forall d t0 progs sch i a,
  no_give_up sch = true ->
  In (i, a) (answers (run d sch (init (Some t0) progs))) -> a <> AEmpty.
Proof. exact no_timeout_no_empty. Qed.
Print Assumptions C12_atomic_empty_only_timeout.

(** Composition: if every write is the text of an in-hygiene record table of the
    staged graph, every non-empty answer parses to a table [C12_ok] accepts for
    one of those record tables. *)
Theorem C12_atomic_table : forall g src f0 progs sch i a,
  (forall t, f0 = Some t -> good_text g src t) ->
  (forall j cs, In (JWrite cs) (progs j) -> good_text g src (List.concat cs)) ->
  In (i, a) (answers (run locked sch (init f0 progs))) ->
  a = AEmpty \/
  exists t recs, a = AText t /\ valid g src recs = true /\ H12_rows g src recs = true /\
                 t = status_text g src recs /\ C12_ok g src recs (parse t) = true.
Proof. exact atomic_table. Qed.
Print Assumptions C12_atomic_table.

(** Without the discipline the model tears (so the theorems above are about the
    lock, not about a model that cannot tear). *)
Theorem C12_atomic_needs_writer_lock :
  answers (run (mkDisc false true) demo_schedule (init (Some demo_old) demo_progs))
  = [(1, AText (s "H,K" ++ [10%N]))].
Proof. exact writer_unlocked_tears. Qed.
Print Assumptions C12_atomic_needs_writer_lock.

Theorem C12_atomic_needs_reader_lock :
  answers (run (mkDisc true false) demo_schedule (init (Some demo_old) demo_progs))
  = [(1, AText (s "H,K" ++ [10%N]))].
Proof. exact reader_unlocked_tears. Qed.
Print Assumptions C12_atomic_needs_reader_lock.

(* ------------------------------------------------------------------------- *)
(** * non-vacuity                                                              *)
(* ------------------------------------------------------------------------- *)

(** a diamond with a parameterised step: source 0 -> 1 -> {2, 3} -> 4 *)
Definition ex_g : graph := [(0, [1]); (1, [2; 3]); (2, [4]); (3, [4]); (4, [])].
Definition ex_rec (n : string) (js : list str) (st : string) (k : N) (ps : list (str * str)) : rec :=
  mkRec (s n) js (s "/out/study" ++ [47%N] ++ s n) (s st)
        [s "--:--:--"; s "--:--:--"; s "--"; s "--"; s "--"] k ps.
Definition ex_recs : list rec :=
  [dummy_rec; ex_rec "setup" [s "11"] "FINISHED" 0 [];
   ex_rec "sim_X.1" [s "12"; s "14"] "RUNNING" 1 [(s "X", s "1")];
   ex_rec "sim_X.2" [s "13"] "TIMEDOUT" 0 [(s "X", s "2")];
   ex_rec "post" [] "INITIALIZED" 0 []].

Example ex_hypotheses : valid ex_g 0 ex_recs = true /\ H12_rows ex_g 0 ex_recs = true.
Proof. vm_compute. auto. Qed.

Example ex_reachable : forall x, In x (keys ex_g) -> reach (succs ex_g) 0 x.
Proof. apply staged_reach. vm_compute. reflexivity. Qed.

Example ex_order : status_order ex_g 0 = [1; 2; 3; 4].
Proof. vm_compute. reflexivity. Qed.

Example ex_row : nth 1 (status_rows ex_g 0 ex_recs) []
  = [s "sim_X.1"; s "14"; s "study/sim_X.1"; s "RUNNING"; s "--:--:--"; s "--:--:--"; s "--"; s "--";
     s "--"; s "1"; s "X:1"].
Proof. vm_compute. reflexivity. Qed.

Example ex_monitor_accepts : C12_ok ex_g 0 ex_recs (snd (model_obs ex_g 0 ex_recs)) = true.
Proof. vm_compute. reflexivity. Qed.

(** the monitor rejects a table with a missing row, a duplicated row, a stale
    state, a stale job id, and every non-table outcome *)
Definition ex_table_of (rows : list (list str)) : presult := parse (render status_header rows).

Example ex_monitor_rejects_missing :
  C12_ok ex_g 0 ex_recs (ex_table_of (tl (status_rows ex_g 0 ex_recs))) = false.
Proof. vm_compute. reflexivity. Qed.

Example ex_monitor_rejects_duplicate :
  C12_ok ex_g 0 ex_recs
         (ex_table_of (hd [] (status_rows ex_g 0 ex_recs) :: status_rows ex_g 0 ex_recs)) = false.
Proof. vm_compute. reflexivity. Qed.

Definition ex_recs_stale_state : list rec :=
  [dummy_rec; ex_rec "setup" [s "11"] "RUNNING" 0 [];
   ex_rec "sim_X.1" [s "12"; s "14"] "RUNNING" 1 [(s "X", s "1")];
   ex_rec "sim_X.2" [s "13"] "TIMEDOUT" 0 [(s "X", s "2")];
   ex_rec "post" [] "INITIALIZED" 0 []].

Example ex_monitor_rejects_stale_state :
  C12_ok ex_g 0 ex_recs (snd (model_obs ex_g 0 ex_recs_stale_state)) = false.
Proof. vm_compute. reflexivity. Qed.

Definition ex_recs_stale_job : list rec :=
  [dummy_rec; ex_rec "setup" [s "11"] "FINISHED" 0 [];
   ex_rec "sim_X.1" [s "12"] "RUNNING" 1 [(s "X", s "1")];
   ex_rec "sim_X.2" [s "13"] "TIMEDOUT" 0 [(s "X", s "2")];
   ex_rec "post" [] "INITIALIZED" 0 []].

Example ex_monitor_rejects_stale_job :
  C12_ok ex_g 0 ex_recs (snd (model_obs ex_g 0 ex_recs_stale_job)) = false.
Proof. vm_compute. reflexivity. Qed.

Example ex_monitor_rejects_errors :
  C12_ok ex_g 0 ex_recs PKeyError = false /\ C12_ok ex_g 0 ex_recs PIndexError = false /\
  C12_ok ex_g 0 ex_recs (parse []) = false.
Proof. vm_compute. auto. Qed.

(** the lock theorems' hypotheses are satisfiable, with readers getting the old
    table, the new table, and the empty answer after a Timeout *)
Example ex_lock_old : answers (run locked [(1, false, 0); (1, false, 0); (0, false, 0); (1, false, 0);
                                           (0, false, 0); (1, false, 3); (1, false, 99); (1, false, 0)]
                                   (init (Some demo_old) demo_progs)) = [(1, AText demo_old)].
Proof. exact locked_early_old. Qed.

Example ex_lock_new : answers (run locked demo_schedule_patient (init (Some demo_old) demo_progs))
                      = [(1, AText (List.concat demo_new_chunks))].
Proof. exact locked_patient_new. Qed.

Example ex_lock_timeout : answers (run locked demo_schedule (init (Some demo_old) demo_progs))
                          = [(1, AEmpty)].
Proof. exact locked_same_schedule_empty. Qed.

Example ex_good_text : good_text ex_g 0 (status_text ex_g 0 ex_recs).
Proof. exists ex_recs. split; [|split]; [vm_compute; reflexivity|vm_compute; reflexivity|reflexivity]. Qed.

(** the Timeout scenario the harness replays against the real FileLock, on the
    demo tables: {} while the lock is held elsewhere, then the old, then the new
    table; the writer's Timeout leaves the old file *)
Example ex_scenario :
  scenario_model demo_old demo_new_chunks
  = ([AEmpty; AText demo_old; AText (List.concat demo_new_chunks)], Some demo_old,
     Some (List.concat demo_new_chunks)).
Proof. vm_compute. reflexivity. Qed.

Example ex_scenario_case :
  lock_case_ok (demo_old, demo_new_chunks,
                ([None; Some (parse demo_old); Some (parse (List.concat demo_new_chunks))],
                 demo_old, List.concat demo_new_chunks)) = true.
Proof. vm_compute. reflexivity. Qed.

(** a history of the execution model: n0 (restartable) -> n1; poll 1 submits n0
    (job 0), poll 2 delivers TIMEDOUT and the restart is submitted (job 1), poll
    3 delivers FINISHED and n1 is submitted (job 2) *)
Definition ex_eg : ExecBase.graph :=
  [ExecBase.Build_sattr [] [1] true true 1; ExecBase.Build_sattr [0] [] true false 0].
Definition ex_cfg : ExecBase.cfg := ExecBase.Build_cfg 0 1 false.
Definition ex_pins : list ExecBase.pin :=
  [ExecBase.Build_pin false ExecBase.QOK [] [true];
   ExecBase.Build_pin false ExecBase.QOK [(0, Some ExecBase.TIMEDOUT)] [true];
   ExecBase.Build_pin false ExecBase.QOK [(0, Some ExecBase.FINISHED)] [true]].
Definition ex_rg : graph := [(0, [1]); (1, [2]); (2, [])].
Definition ex_statics : list static_rec :=
  [mkStatic (s "n0") (s "/o/n0") []; mkStatic (s "n1") (s "/o/n1") []].
Definition ex_times (_ : nat) : list str := [s "--"; s "--"; s "--"; s "--"; s "--"].
Definition ex_last : ExecBase.st * list (nat * nat) :=
  last (ExecJobs.run_acc ex_cfg ex_eg (ExecBase.init ex_eg) [] ex_pins) (ExecBase.init ex_eg, []).

Example ex_history_reached : In ex_last (ExecJobs.run_acc ex_cfg ex_eg (ExecBase.init ex_eg) [] ex_pins).
Proof. vm_compute. auto. Qed.

Example ex_history_trace : snd ex_last = [(0, 0); (0, 1); (1, 2)].
Proof. vm_compute. reflexivity. Qed.

Example ex_history_hypotheses :
  instances ex_rg 0 = seq 1 (List.length ex_eg) /\
  valid ex_rg 0 (exec_recs ex_statics ex_times (fst ex_last)) = true /\
  H12_rows ex_rg 0 (exec_recs ex_statics ex_times (fst ex_last)) = true.
Proof. vm_compute. auto. Qed.

Example ex_history_rows :
  map (fun r => (nth 0 r [], nth 1 r [], nth 3 r [], nth 9 r []))
      (status_rows ex_rg 0 (exec_recs ex_statics ex_times (fst ex_last)))
  = [(s "n0", s "1", s "FINISHED", s "1"); (s "n1", s "2", s "PENDING", s "0")].
Proof. vm_compute. reflexivity. Qed.

(** the trace-level monitor rejects a table showing a stale job id *)
Example ex_job_column_rejects_stale :
  job_column_ok ex_rg 0 (exec_recs ex_statics ex_times (fst ex_last)) [(1, 0); (1, 1); (2, 2); (1, 7)]
                (snd (model_obs ex_rg 0 (exec_recs ex_statics ex_times (fst ex_last)))) = false.
Proof. vm_compute. reflexivity. Qed.

Example ex_history_shown :
  shown_ok node_name (ExecRun.rows_of (fst ex_last))
           (snd (model_obs ex_rg 0 (exec_recs ex_statics ex_times (fst ex_last)))) = true.
Proof. vm_compute. reflexivity. Qed.

(** [shown_ok] rejects a table whose State column is stale (n0 still TIMEDOUT
    although FINISHED was delivered) *)
Example ex_history_shown_rejects_stale :
  shown_ok node_name (ExecRun.rows_of (fst ex_last))
           (parse (render status_header
                     [[s "n0"; s "1"; s "n0"; s "TIMEDOUT"; s "--"; s "--"; s "--"; s "--"; s "--"; s "1"; []];
                      [s "n1"; s "2"; s "n1"; s "PENDING"; s "--"; s "--"; s "--"; s "--"; s "--"; s "0"; []]]))
  = false.
Proof. vm_compute. reflexivity. Qed.

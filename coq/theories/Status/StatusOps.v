(** Combinators the text GENERATED from the status path of /repo is composed of
    (Status/StatusGen.v, by translate/tcode_status.py):
      ExecutionGraph.status_subtree / write_status   (executiongraph.py)
      utils.csvtable_to_dict, Conductor.get_status   (utils.py, conductor.py)
    One combinator per Python construct the translator understands; their
    meaning is fixed here, hand-written, and Status/StatusGenProofs.v proves the
    generated compositions EQUAL to the models the C12 theorems are about
    (Rows.v, Csv.v, Lock.v).  Model-side definitions only. *)
From Coq Require Import List Arith Bool NArith.
From MWF Require Import Base.Util Base.Str Status.Csv Status.Rows Status.Lock.
Import ListNotations.

(* ------------------------------------------------------------------------- *)
(** * the record as write_status sees it                                       *)
(* ------------------------------------------------------------------------- *)

(** a _StepRecord: the fields the status row model knows, plus the attributes a
    slip could pick instead *)
Record xrec : Type := mkX { x_rec : rec; x_restart_limit : N }.

Definition lift (r : rec) : xrec := mkX r 0%N.

Definition attr_name (v : xrec) : str := r_name (x_rec v).                 (* value.name *)
Definition attr_jobid (v : xrec) : list str := r_jobids (x_rec v).         (* value.jobid, through str *)
Definition attr_workspace (v : xrec) : str := r_ws (x_rec v).              (* value.workspace.value *)
Definition attr_status_name (v : xrec) : str := r_state (x_rec v).         (* value.status.name *)
Definition attr_run_time (v : xrec) : str := time_cell (x_rec v) 0.
Definition attr_elapsed_time (v : xrec) : str := time_cell (x_rec v) 1.
Definition attr_time_start (v : xrec) : str := time_cell (x_rec v) 2.
Definition attr_time_submitted (v : xrec) : str := time_cell (x_rec v) 3.
Definition attr_time_end (v : xrec) : str := time_cell (x_rec v) 4.
Definition attr_restarts (v : xrec) : N := r_restarts (x_rec v).           (* value.restarts *)
Definition attr_restart_limit (v : xrec) : N := x_restart_limit v.         (* value.restart_limit *)
Definition attr_params (v : xrec) : list (str * str) := r_params (x_rec v). (* value.params.items() *)

(* ------------------------------------------------------------------------- *)
(** * Python expressions                                                       *)
(* ------------------------------------------------------------------------- *)

Definition nonempty {A} (l : list A) : bool := match l with [] => false | _ :: _ => true end.

Definition py_str (t : str) : str := t.                     (* str(x) of a str *)
Definition py_str_int (n : N) : str := dec n.               (* str(n) of a non-negative int *)
Definition item_last (l : list str) : str := last l [].     (* l[-1]  (guarded by `if l`) *)
Definition item_first (l : list str) : str := hd [] l.      (* l[0] *)
Definition last_n {A} (n : nat) (l : list A) : list A := skipn (List.length l - n) l.   (* l[-n:] *)
Definition list_append {A} (l : list A) (x : A) : list A := l ++ [x].                   (* l.append(x) *)

Definition py_join (sep : str) (l : list str) : str := join sep l.          (* sep.join(l) *)

(** t.split(sep) for a one-character separator (the translator refuses others) *)
Definition py_split (sep : str) (t : str) : list str :=
  match sep with [c] => split_on c t | _ => [t] end.

(** t.strip(chars) *)
Definition in_chars (chars : str) (c : N) : bool := existsb (N.eqb c) chars.

Fixpoint py_lstrip (chars : str) (t : str) : str :=
  match t with
  | [] => []
  | c :: t' => if in_chars chars c then py_lstrip chars t' else t
  end.

Fixpoint py_rstrip (chars : str) (t : str) : str :=
  match t with
  | [] => []
  | c :: t' =>
    match py_rstrip chars t' with
    | [] => if in_chars chars c then [] else [c]
    | r => c :: r
    end
  end.

Definition py_strip (chars : str) (t : str) : str := py_rstrip chars (py_lstrip chars t).

(** fmt.format(args..) for a format made of literal text and "{}" fields *)
Fixpoint py_format (fmt : str) (args : list str) : str :=
  match fmt with
  | [] => []
  | c :: rest =>
    match rest with
    | d :: rest' =>
      if N.eqb c 123%N && N.eqb d 125%N then
        match args with
        | a :: args' => a ++ py_format rest' args'
        | [] => py_format rest' []
        end
      else c :: py_format rest args
    | [] => [c]
    end
  end.

(** os.path *)
Definition os_sep : str := [slash].
Definition os_path_join (parts : list str) : str := path_join parts.
Definition os_path_normpath (p : str) : str := normpath p.
Definition os_path_split_tail (p : str) : str := last (split_on slash p) [].            (* os.path.split(p)[1] *)
Definition os_path_split_head (p : str) : str :=                                         (* os.path.split(p)[0], unnormalised *)
  join [slash] (removelast (split_on slash p)).

(* ------------------------------------------------------------------------- *)
(** * loops of write_status / status_subtree                                   *)
(* ------------------------------------------------------------------------- *)

(** [for key in order: <body updating the carried list>] *)
Definition for_each {A S} (l : list A) (init : S) (body : A -> S -> S) : S :=
  fold_left (fun st a => body a st) l init.

(** DAG.bfs_subtree(src)[0] (dag.py itself is regenerated by translate/tcode_dag.py
    for C14; Rows.bfs is the same algorithm, RowsProofs.bfs_exact) *)
Definition bfs_subtree_path (g : graph) (src : nat) : list nat := bfs g src.

(** DAG.dfs_subtree: NOT modelled -- unreachable while [_status_order] is 'bfs'
    (StatusGenProofs.status_subtree_is_generated breaks if that changes) *)
Definition dfs_subtree_path (g : graph) (src : nat) : list nat := [].

(* ------------------------------------------------------------------------- *)
(** * csvtable_to_dict                                                         *)
(* ------------------------------------------------------------------------- *)

Definition py_readlines (t : str) : list str := readlines t.               (* fstream.readlines() *)

(** [x = lines.pop(0)]: IndexError on an empty list *)
Definition pop_first {R} (l : list str) (err : R) (k : str -> list str -> R) : R :=
  match l with [] => err | x :: l' => k x l' end.

(** the header loop [for item in hdr: indices[i] = item; table[item] = []; i += 1]:
    the index map is the header list itself *)
Definition header_loop (hdr : list str) : list str * table := (hdr, tbl_init hdr).

(** [table[indices[i]].append(v)]: KeyError when [i] is not an index *)
Definition tbl_append_at (indices : list str) (i : nat) (v : str) (t : table) : option table :=
  match nth_error indices i with
  | Some k => Some (tbl_append k v t)
  | None => None
  end.

(** [for i in range(len(cells)): <body i cells[i]>] *)
Fixpoint cells_loop_from (i : nat) (cells : list str) (t : table)
         (body : nat -> str -> table -> option table) : option table :=
  match cells with
  | [] => Some t
  | c :: cs =>
    match body i c t with
    | Some t' => cells_loop_from (S i) cs t' body
    | None => None
    end
  end.
Definition cells_loop (cells : list str) (t : table) body : option table :=
  cells_loop_from 0 cells t body.

(** [for line in lines: <body line>] *)
Fixpoint rows_loop (lines : list str) (t : table) (body : str -> table -> option table) : option table :=
  match lines with
  | [] => Some t
  | l :: ls =>
    match body l t with
    | Some t' => rows_loop ls t' body
    | None => None
    end
  end.

(** [return table] / an escaping KeyError *)
Definition return_table (r : option table) : presult :=
  match r with Some t => PTable t | None => PKeyError end.

(* ------------------------------------------------------------------------- *)
(** * the lock discipline as an ordered event list                             *)
(* ------------------------------------------------------------------------- *)

(** how a lock is asked for.  ASSUMPTION of the interleaving model (Lock.v) and of
    the "after every poll the file shows that poll's table" reading of C12: a
    process WAITS for a held lock ([AcqWait]: `acquire(timeout=<positive>)`, it
    gives up only after that time; Lock.step's [give_up]).  A non-blocking
    attempt ([AcqTry]: `acquire(blocking=False)` / `timeout=0`) drops the write
    of a poll whenever a reader holds the lock even briefly -- safe in the sense
    of C12_atomic, but not what the source is modelled as. *)
Inductive acq : Type :=
| AcqWait                              (* acquire(timeout=<positive number>) *)
| AcqForever                           (* acquire() / `with lock:`  (never Timeout) *)
| AcqTry.                              (* acquire(blocking=False) / acquire(timeout=0) *)

Inductive levent : Type :=
| EExists (file : str)                 (* os.path.exists(join(dir, file)) *)
| EAcquire (lockfile : str) (how : acq)   (* enter `with FileLock(join(dir, lockfile)).acquire(..)` / `with lock` *)
| EOpen (file : str) (mode : str)      (* enter `with open(join(dir, file), mode)` *)
| EWrite                               (* f.write(text) *)
| ERead                                (* csvtable_to_dict(f) *)
| EClose                               (* leave `with open` *)
| ERelease.                            (* leave `with lock` *)

Inductive handler : Type :=
| HPass                                (* try: .. except Timeout: pass *)
| HNone.                               (* a Timeout would escape *)

Definition lock_file : str := s ".status.lock".
Definition status_file : str := s "status.csv".

(** what the model of Lock.v does, per program point, in these terms *)
Definition pc_events (p : pc) (todo : list job) (f : option str) : list levent :=
  match p with
  | Idle => match todo with JRead :: _ => [EExists status_file] | _ => [] end
  | WAcq _ => [EAcquire lock_file AcqWait]
  | WOpen _ => [EOpen status_file (s "w+")]
  | WWrite (_ :: _) _ => [EWrite]
  | WWrite [] _ => [EClose; ERelease]
  | RAcq => [EAcquire lock_file AcqWait]
  | ROpen => [EOpen status_file (s "r")]
  | RRead acc =>
    match f with
    | Some t => match skipn (List.length acc) t with [] => [EClose; ERelease] | _ => [ERead] end
    | None => []
    end
  end.

(** process 0 alone, never giving up, reading in one chunk: the events of its
    program points until it cannot move *)
Fixpoint solo_trace (d : disc) (fuel : nat) (st : state) : list levent :=
  match fuel with
  | O => []
  | S fuel' =>
    let (p, todo) := procs st 0 in
    match step d 0 false (match file st with Some t => List.length t | None => 0 end) st with
    | Some st' => pc_events p todo (file st) ++ solo_trace d fuel' st'
    | None => []
    end
  end.

Definition solo_progs (j : job) (i : nat) : list job := match i with 0 => [j] | _ => [] end.

(** THE WRITER PROGRAM of Lock.v: one write job (one chunk) run alone *)
Definition writer_program : list levent :=
  solo_trace locked 8 (init (Some (s "old")) (solo_progs (JWrite [s "new"]))).

(** THE READER PROGRAM of Lock.v: one read job run alone on an existing file *)
Definition reader_program : list levent :=
  solo_trace locked 8 (init (Some (s "old")) (solo_progs JRead)).

(** how the model's reader answers: no file / Timeout -> {} , else the parse *)
Definition reader_answer (file : option str) (timed_out : bool) : option presult :=
  match file with
  | None => None
  | Some t => if timed_out then None else Some (parse t)
  end.

(** Tie between the hand-written models of the status path (Rows.v, Csv.v,
    Lock.v), which every theorem of Props/C12.v is about, and the text GENERATED
    from the current source (StatusGen.v, by translate/tcode_status.py): each
    generated definition is EQUAL to the model's.  The theorems of Props/C12.v
    therefore hold of the functions regenerated from the source, and an edit of
    write_status / status_subtree / csvtable_to_dict / get_status that changes
    what they do changes StatusGen.v and breaks one of these obligations.

    The proofs do not restate the generated text: loop bodies are picked out of
    the goal, so only the meaning of the text matters. *)
From Coq Require Import List Arith Bool NArith Lia.
From MWF Require Import Base.Util Base.Str Status.Csv Status.Rows Status.Lock Status.StatusOps
  Status.StatusGen.
Import ListNotations.

(* ------------------------------------------------------------------------- *)
(** * the combinators                                                          *)
(* ------------------------------------------------------------------------- *)

Lemma in_chars_nl : forall c, in_chars [nl] c = N.eqb c nl.
Proof. intro c. unfold in_chars. simpl. apply orb_false_r. Qed.

Lemma py_lstrip_nl : forall t, py_lstrip [nl] t = lstrip_nl t.
Proof.
  induction t as [|c t IH]; [reflexivity|]. cbn [py_lstrip lstrip_nl].
  rewrite in_chars_nl. destruct (N.eqb c nl); [exact IH|reflexivity].
Qed.

Lemma py_rstrip_nl : forall t, py_rstrip [nl] t = rstrip_nl t.
Proof.
  induction t as [|c t IH]; [reflexivity|]. cbn [py_rstrip rstrip_nl].
  rewrite in_chars_nl, IH. reflexivity.
Qed.

Lemma py_strip_nl : forall t, py_strip [nl] t = strip_nl t.
Proof. intro t. unfold py_strip, strip_nl. rewrite py_lstrip_nl, py_rstrip_nl. reflexivity. Qed.

Lemma py_format_pair : forall a b, py_format (s "{}:{}") [a; b] = a ++ [colon] ++ b.
Proof. intros a b. cbn. rewrite app_nil_r. reflexivity. Qed.

Lemma for_each_append : forall {A B} (f : A -> B) (l : list A) (init : list B),
  for_each l init (fun a st => list_append st (f a)) = init ++ map f l.
Proof.
  intros A B f. unfold for_each, list_append.
  induction l as [|a l IH]; intro init; simpl; [rewrite app_nil_r; reflexivity|].
  rewrite IH, <- app_assoc. reflexivity.
Qed.

Lemma for_each_ext : forall {A S} (l : list A) (init : S) (f h : A -> S -> S),
  (forall a st, f a st = h a st) -> for_each l init f = for_each l init h.
Proof.
  intros A S l. unfold for_each. induction l as [|a l IH]; intros init f h H; [reflexivity|].
  simpl. rewrite H. apply IH, H.
Qed.

(* ------------------------------------------------------------------------- *)
(** * write_status: one row                                                    *)
(* ------------------------------------------------------------------------- *)

(** the job id cell: "--", or the LAST identifier *)
Lemma jobid_cell_is_model : forall v,
  (if nonempty (attr_jobid v) then py_str (item_last (attr_jobid v)) else s "--") = jobid_str (x_rec v).
Proof.
  intro v. unfold attr_jobid, jobid_str, py_str, item_last.
  destruct (r_jobids (x_rec v)) as [|j l]; [reflexivity|]. simpl nonempty. cbv iota.
  generalize j. induction l as [|j' l IH]; intro j0; [reflexivity|].
  change (last (j0 :: j' :: l) []) with (last (j' :: l) []).
  change (last (j0 :: j' :: l) (s "--")) with (last (j' :: l) (s "--")). apply IH.
Qed.

(** the workspace cell *)
Lemma ws_cell_is_model : forall v,
  (if nonempty (attr_params v)
   then os_path_join (last_n 2 (py_split os_sep (os_path_normpath (attr_workspace v))))
   else os_path_split_tail (attr_workspace v)) = ws_short (x_rec v).
Proof.
  intro v. unfold attr_params, attr_workspace, ws_short. destruct (r_params (x_rec v)); reflexivity.
Qed.

(** the parameter cell *)
Lemma params_cell_is_model : forall v,
  py_join (s ";") (map (fun '(param, value) => py_format (s "{}:{}") [param; value]) (attr_params v))
  = params_str (x_rec v).
Proof.
  intro v. unfold attr_params, params_str, py_join. f_equal. apply map_ext.
  intros [a b]. apply py_format_pair.
Qed.

(* ------------------------------------------------------------------------- *)
(** * write_status / status_subtree                                            *)
(* ------------------------------------------------------------------------- *)

Theorem status_subtree_is_generated : forall g src, status_subtree_gen g src = status_order g src.
Proof. reflexivity. Qed.

(** the text handed to the file = header line and one line per record, joined
    by "\n": exactly [Csv.render status_header] of [Rows.row_of] of each record *)
Theorem write_status_text_is_generated : forall order values,
  write_status_text_gen order values
  = render status_header (map (fun k => row_of (x_rec (values k))) order).
Proof.
  intros order values. unfold write_status_text_gen. cbv zeta.
  match goal with
  | |- py_join _ (for_each _ ?init ?body) = _ =>
    rewrite (for_each_ext order init body
               (fun key st => list_append st (render_row (row_of (x_rec (values key))))))
  end.
  - rewrite (for_each_append (fun key => render_row (row_of (x_rec (values key))))).
    unfold render, py_join. rewrite map_map. reflexivity.
  - intros key st. f_equal.
    rewrite jobid_cell_is_model, ws_cell_is_model, params_cell_is_model.
    reflexivity.
Qed.

(** ... hence, over the order status_subtree yields and the records of the
    graph: the model text of Rows.v *)
Theorem write_status_is_status_text : forall g src recs,
  write_status_text_gen (status_subtree_gen g src) (fun k => lift (rec_of recs k)) = status_text g src recs.
Proof.
  intros g src recs. rewrite write_status_text_is_generated, status_subtree_is_generated. reflexivity.
Qed.

(* ------------------------------------------------------------------------- *)
(** * csvtable_to_dict / get_status                                            *)
(* ------------------------------------------------------------------------- *)

Lemma skipn_nth_error : forall {A} i (l : list A),
  skipn i l = match nth_error l i with Some x => x :: skipn (S i) l | None => [] end.
Proof.
  intros A. induction i as [|i IH]; intros l; destruct l as [|a l]; try reflexivity.
  simpl skipn at 1. simpl nth_error. rewrite IH. reflexivity.
Qed.

Fixpoint add_with (f : str -> str) (h : list str) (cs : list str) (t : table) {struct cs} : option table :=
  match cs with
  | [] => Some t
  | c :: cs' => match h with [] => None | k :: ks => add_with f ks cs' (tbl_append k (f c) t) end
  end.

Lemma cells_loop_is_add_with : forall hdr (f : str -> str) cells i t,
  cells_loop_from i cells t (fun i cell t => tbl_append_at hdr i (f cell) t)
  = add_with f (skipn i hdr) cells t.
Proof.
  intros hdr f. induction cells as [|c cs IH]; intros i t; [reflexivity|].
  cbn [cells_loop_from]. unfold tbl_append_at at 1. rewrite (skipn_nth_error i hdr).
  destruct (nth_error hdr i) as [k|]; [|reflexivity]. cbn [add_with]. apply IH.
Qed.

Lemma add_cells_is_add_with : forall cells hdr t, add_cells hdr cells t = add_with strip_nl hdr cells t.
Proof.
  induction cells as [|c cs IH]; intros hdr t; [reflexivity|].
  simpl. destruct hdr as [|k ks]; [reflexivity|]. apply IH.
Qed.

Lemma add_with_ext : forall f h, (forall c, f c = h c) ->
  forall cells hdr t, add_with f hdr cells t = add_with h hdr cells t.
Proof.
  intros f h H. induction cells as [|c cs IH]; intros hdr t; [reflexivity|].
  simpl. destruct hdr as [|k ks]; [reflexivity|]. rewrite H. apply IH.
Qed.

Lemma rows_loop_is_add_lines : forall hdr lines t,
  rows_loop lines t (fun line t =>
    cells_loop (py_split (s ",") line) t (fun i cell t => tbl_append_at hdr i (py_strip [10%N] cell) t))
  = add_lines hdr lines t.
Proof.
  intros hdr. induction lines as [|l ls IH]; intro t; [reflexivity|].
  cbn [rows_loop add_lines]. unfold cells_loop.
  rewrite (cells_loop_is_add_with hdr (py_strip [10%N])).
  change (skipn 0 hdr) with hdr. change (py_split (s ",") l) with (split_on comma l).
  rewrite add_cells_is_add_with.
  rewrite (add_with_ext (py_strip [10%N]) strip_nl) by (intro c; apply (py_strip_nl c)).
  destruct (add_with strip_nl hdr (split_on comma l) t); [apply IH|reflexivity].
Qed.

(** the reader on the delivered text = the parser model on the delivered lines *)
Theorem csvtable_to_dict_is_generated : forall text,
  csvtable_to_dict_gen text = parse_lines (readlines text).
Proof.
  intro text. unfold csvtable_to_dict_gen, parse_lines, py_readlines, pop_first. cbv zeta.
  destruct (readlines text) as [|h rest]; [reflexivity|].
  change (py_strip [10%N] h) with (py_strip [nl] h). rewrite py_strip_nl.
  change (py_split (s ",") (strip_nl h)) with (split_on comma (strip_nl h)).
  unfold header_loop. rewrite rows_loop_is_add_lines.
  destruct (add_lines (split_on comma (strip_nl h)) rest (tbl_init (split_on comma (strip_nl h)))); reflexivity.
Qed.

(** ... hence, on a file opened in text mode "r": [Csv.parse] *)
Theorem reader_is_parse : forall file, csvtable_to_dict_gen (read_text file) = parse file.
Proof. intro file. rewrite csvtable_to_dict_is_generated. reflexivity. Qed.

(** get_status: {} without a file or after a Timeout, else the parse *)
Theorem get_status_is_generated : forall file timed_out,
  get_status_gen (option_map read_text file) timed_out = reader_answer file timed_out.
Proof.
  intros [t|] timed_out; [|reflexivity]. simpl. destruct timed_out; [reflexivity|].
  rewrite reader_is_parse. reflexivity.
Qed.

(* ------------------------------------------------------------------------- *)
(** * the lock discipline                                                      *)
(* ------------------------------------------------------------------------- *)

(** the file and lock operations of write_status, in program order, are the
    writer program of the interleaving model (Lock.step under [locked], one
    process alone), and a Timeout is swallowed *)
Theorem writer_events_is_generated : writer_events_gen = writer_program.
Proof. vm_compute. reflexivity. Qed.

Theorem writer_timeout_is_generated : writer_on_timeout_gen = HPass.
Proof. reflexivity. Qed.

(** ... and those of get_status are the reader program *)
Theorem reader_events_is_generated : reader_events_gen = reader_program.
Proof. vm_compute. reflexivity. Qed.

Theorem reader_timeout_is_generated : reader_on_timeout_gen = HPass.
Proof. reflexivity. Qed.

(** the open modes are the ones Csv.v models: "w+" (truncate, text) / "r" (text,
    universal newlines) *)
Theorem open_modes_are_modelled :
  In (EOpen status_file (s "w+")) writer_events_gen /\ In (EOpen status_file (s "r")) reader_events_gen.
Proof. split; vm_compute; tauto. Qed.

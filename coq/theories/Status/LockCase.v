(** Correspondence case for the Timeout scenario of Status/Lock.v: what the real
    [Conductor.get_status] / [write_status] did while a helper process held
    .status.lock, against [Lock.scenario_model]; and the monitor of C12_atomic on
    the implementation's answers.  Model-side definitions only. *)
From Coq Require Import List Arith Bool NArith.
From MWF Require Import Base.Util Base.Str Status.Csv Status.Lock.
Import ListNotations.

(** (old text, chunks of the new text,
     (what the three get_status calls returned: None = {} ; status.csv after the
      writer's Timeout ; status.csv at the end)) *)
Definition lock_case : Type := (str * list str * (list (option presult) * str * str))%type.

Definition ans_view (a : answer) : option presult :=
  match a with AEmpty => None | AText t => Some (parse t) | AError => Some POther end.

Definition opres_eqb (a b : option presult) : bool :=
  match a, b with
  | None, None => true
  | Some x, Some y => presult_eqb x y
  | _, _ => false
  end.

Fixpoint opres_list_eqb (a b : list (option presult)) : bool :=
  match a, b with
  | [], [] => true
  | x :: a', y :: b' => opres_eqb x y && opres_list_eqb a' b'
  | _, _ => false
  end.

Definition ofile_eqb (m : option str) (t : str) : bool :=
  match m with Some x => str_eqb x t | None => false end.

Definition lock_case_agrees (c : lock_case) : bool :=
  let '(old, chunks, (answers_impl, mid_impl, end_impl)) := c in
  let '(ans, mid, fin) := scenario_model old chunks in
  opres_list_eqb (map ans_view ans) answers_impl && ofile_eqb mid mid_impl && ofile_eqb fin end_impl.

(** the monitor (the conclusion of C12_atomic / C12_atomic_quiescent): every
    answer is {} or the dictionary of one of the two COMPLETE tables, and the
    file at rest is one of the two complete texts *)
Definition lock_case_monitor (c : lock_case) : bool :=
  let '(old, chunks, (answers_impl, mid_impl, end_impl)) := c in
  let new := List.concat chunks in
  forallb (fun a => match a with
                    | None => true
                    | Some p => presult_eqb p (parse old) || presult_eqb p (parse new)
                    end) answers_impl
  && (str_eqb mid_impl old || str_eqb mid_impl new)
  && (str_eqb end_impl old || str_eqb end_impl new).

Definition lock_case_ok (c : lock_case) : bool := lock_case_agrees c && lock_case_monitor c.

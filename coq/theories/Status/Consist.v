(** Trace-level consistency of the status table (C12_consistent, Job ID column):
    the execution model's records (Status/ExecJobs.v: coupled with the adapter
    trace after every poll of every history) shown through the row, printer and
    parser models (Rows.v, Csv.v).

    Node numbering: the execution model numbers the step instances 0..n-1 (no
    source); the status graph has the source at 0 and instance [x] at [S x]. *)
From Coq Require Import List Arith Bool NArith Lia.
From MWF Require Import Base.Util Base.Str Status.Csv Status.CsvProofs Status.Rows Status.RowsProofs
  Status.ExecRows.
From MWF Require Exec.ExecBase Exec.ExecRun Status.ExecJobs.
Import ListNotations.

(** what a poll changes, read off the execution model's state *)
Definition exec_dyn (times : nat -> list str) (sk : ExecBase.st) (x : nat) : dyn_rec :=
  let r := ExecBase.getrec sk x in
  mkDyn (state_name (ExecBase.status r)) (map job_str (ExecBase.jobs r))
        (N.of_nat (ExecBase.restarts r)) (times x).

(** the record table behind the status rows: a dummy for the source, then one
    record per instance *)
Definition exec_recs (statics : list static_rec) (times : nat -> list str) (sk : ExecBase.st)
  : list rec :=
  dummy_rec :: map (fun x => mk_rec (nth x statics (mkStatic [] [] []), exec_dyn times sk x))
                   (seq 0 (List.length (ExecBase.recs sk))).

(** the adapter trace in the status graph's numbering *)
Definition shift (l : list (nat * nat)) : list (nat * nat) := map (fun p => (S (fst p), snd p)) l.

Lemma subs_of_shift : forall l x, subs_of (shift l) (S x) = ExecJobs.jobs_of l x.
Proof.
  induction l as [|[y j] l IH]; intro x; [reflexivity|].
  unfold subs_of, ExecJobs.jobs_of, shift in *. simpl.
  destruct (Nat.eqb y x); simpl; rewrite IH; reflexivity.
Qed.

Lemma rec_of_exec : forall statics times sk x,
  x < List.length (ExecBase.recs sk) ->
  rec_of (exec_recs statics times sk) (S x)
  = mk_rec (nth x statics (mkStatic [] [] []), exec_dyn times sk x).
Proof.
  intros statics times sk x Hx. unfold rec_of, exec_recs. simpl nth.
  rewrite (nth_map_lt _ _ x dummy_rec 0) by (rewrite seq_length; exact Hx).
  rewrite seq_nth by exact Hx. reflexivity.
Qed.

(** EVERY history (any configuration, any graph of the execution model, any
    sequence of poll inputs): after every poll, the record table read off the
    model's state is coupled with the adapter trace, hence -- on a staged status
    graph over these instances, within H12 -- the table the status command reads
    back shows for every instance, as Job ID, the identifier returned for that
    instance's LAST successful submission ("--" if none). *)
Theorem consistent_trace : forall c eg ps sk acck (rg : graph) statics times,
  In (sk, acck) (ExecJobs.run_acc c eg (ExecBase.init eg) [] ps) ->
  instances rg 0 = seq 1 (List.length eg) ->
  let recs := exec_recs statics times sk in
  valid rg 0 recs = true -> H12_rows rg 0 recs = true ->
  jobs_coupled rg 0 recs (shift acck) = true /\
  job_column_ok rg 0 recs (shift acck) (snd (model_obs rg 0 recs)) = true.
Proof.
  intros c eg ps sk acck rg statics times Hin Hinst recs Hv Hh.
  destruct (ExecJobs.run_jobs c eg ps sk acck Hin) as [HL HJ].
  assert (Hc : jobs_coupled rg 0 recs (shift acck) = true).
  { unfold jobs_coupled. apply forallb_forall. intros k Hk. rewrite Hinst in Hk.
    apply in_seq in Hk. destruct k as [|x]; [lia|].
    assert (Hx : x < List.length eg) by lia.
    subst recs. rewrite rec_of_exec by (rewrite HL; exact Hx).
    simpl r_jobids. rewrite subs_of_shift, (HJ x Hx). apply strs_eqb_eq. reflexivity. }
  split; [exact Hc|]. apply job_column_model; assumption.
Qed.

(** the row of instance [x] shows the model's state, latest job and restart count *)
Theorem exec_row_content : forall statics times sk x,
  x < List.length (ExecBase.recs sk) ->
  let row := row_of (rec_of (exec_recs statics times sk) (S x)) in
  let r := ExecBase.getrec sk x in
  nth 1 row [] = last (map job_str (ExecBase.jobs r)) (s "--") /\
  nth 3 row [] = state_name (ExecBase.status r) /\
  nth 9 row [] = dec (N.of_nat (ExecBase.restarts r)).
Proof.
  intros statics times sk x Hx row r. subst row. rewrite rec_of_exec by exact Hx.
  repeat split.
Qed.

(* ------------------------------------------------------------------------- *)
(** * the whole row against the model's state: [shown_ok]                      *)
(* ------------------------------------------------------------------------- *)

Lemma nth_rows_of : forall sk x,
  nth x (ExecRun.rows_of sk) row_dflt
  = (ExecBase.status (ExecBase.getrec sk x), ExecBase.jobs (ExecBase.getrec sk x),
     ExecBase.restarts (ExecBase.getrec sk x)).
Proof.
  intros sk x. unfold ExecRun.rows_of, ExecBase.getrec.
  change row_dflt with ((fun r => (ExecBase.status r, ExecBase.jobs r, ExecBase.restarts r)) ExecBase.dflt_rec).
  rewrite map_nth. reflexivity.
Qed.

(** For EVERY state [sk] of the execution model (in particular the state after
    any poll of any history): on a staged status graph over its instances, with
    the instances' names in place and cells within H12, the table the status
    command reads back shows for every instance exactly the state, latest job id
    and restart count of the model's record. *)
Theorem exec_rows_shown : forall (name : nat -> str) statics times sk (rg : graph),
  let n := List.length (ExecBase.recs sk) in
  let recs := exec_recs statics times sk in
  (forall x, x < n -> sr_name (nth x statics (mkStatic [] [] [])) = name x) ->
  instances rg 0 = seq 1 n ->
  valid rg 0 recs = true -> H12_rows rg 0 recs = true ->
  shown_ok name (ExecRun.rows_of sk) (snd (model_obs rg 0 recs)) = true.
Proof.
  intros name statics times sk rg n recs Hname Hinst Hv Hh.
  destruct (valid_parts rg 0 recs Hv) as (Hwf & Hreach & _).
  destruct (rows_once rg 0 Hwf Hreach) as [_ Hp].
  unfold model_obs. simpl snd. rewrite (status_roundtrip rg 0 recs Hh). unfold shown_ok.
  assert (Hcl : col_len (columns status_header (status_rows rg 0 recs))
                = List.length (status_rows rg 0 recs)) by (simpl; apply map_length).
  rewrite Hcl, table_rows_columns.
  2:{ apply Forall_forall. intros r Hr. unfold status_rows in Hr. apply in_map_iff in Hr.
      destruct Hr as (k & <- & _). reflexivity. }
  assert (Hlen : List.length (ExecRun.rows_of sk) = n) by (unfold ExecRun.rows_of; apply map_length).
  apply andb_true_iff. split.
  - apply Nat.eqb_eq. unfold status_rows. rewrite map_length, (Permutation.Permutation_length Hp), Hinst, seq_length.
    symmetry. exact Hlen.
  - apply forallb_forall. intros x Hx. rewrite Hlen in Hx. apply in_seq in Hx.
    assert (Hxn : x < n) by lia.
    rewrite nth_rows_of. unfold shows. apply existsb_exists.
    exists (row_of (rec_of recs (S x))). split.
    + unfold status_rows. apply (in_map (fun k0 => row_of (rec_of recs k0))).
      eapply Permutation.Permutation_in; [apply Permutation.Permutation_sym, Hp|].
      rewrite Hinst. apply in_seq. lia.
    + subst recs. rewrite rec_of_exec by exact Hxn. simpl nth.
      rewrite (Hname x Hxn), !str_eqb_refl. reflexivity.
Qed.

(** ... in particular after EVERY poll of EVERY history: the table shows what the
    reports delivered so far dictate through the dispatch logic (the row triple
    of [ExecRun.run]'s observation for that poll is [rows_of] of this state) *)
Theorem consistent_every_poll : forall c eg ps sk r (name : nat -> str) statics times (rg : graph),
  In (sk, r) (ExecRun.run_states c eg (ExecBase.init eg) ps) ->
  let n := List.length (ExecBase.recs sk) in
  let recs := exec_recs statics times sk in
  (forall x, x < n -> sr_name (nth x statics (mkStatic [] [] [])) = name x) ->
  instances rg 0 = seq 1 n ->
  valid rg 0 recs = true -> H12_rows rg 0 recs = true ->
  shown_ok name (ExecRun.rows_of sk) (snd (model_obs rg 0 recs)) = true.
Proof. intros c eg ps sk r name statics times rg _. apply exec_rows_shown. Qed.

(** T-data obligations of C12: the literals regenerated from /repo's source on
    every run (Gen/StatusData.v, translate/tdata_status.py) are the ones the
    hand-written codec and row models were proved against.  A change of the
    header, of a separator, of the row width, of the reader's split/strip
    arguments or of an open mode breaks one of these equalities. *)
From Coq Require Import List Arith Bool NArith.
From MWF Require Import Base.Util Base.Str Gen.StatusData Status.Csv Status.Rows.
Import ListNotations.

Definition tdata_ok : bool :=
  str_eqb gen_header_text status_header_text
  && str_eqb gen_header_text (render_row status_header)
  && str_eqb gen_cell_sep [comma] && str_eqb gen_line_sep [nl]
  && str_eqb gen_param_sep [semicolon]
  && str_eqb gen_param_fmt (s "{}" ++ [colon] ++ s "{}")
  && Nat.eqb gen_row_width (List.length status_header)
  && Nat.eqb gen_row_width (List.length (row_of dummy_rec))
  && str_eqb gen_reader_sep [comma] && str_eqb gen_reader_strip [nl]
  && strs_eqb gen_open_modes [s "w+"; s "r"].

Lemma tdata_matches_models : tdata_ok = true.
Proof. vm_compute. reflexivity. Qed.

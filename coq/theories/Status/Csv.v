(** Executable model of the status-table codec of maestrowf, as the code is in
    /repo now.

    Writer  = the tail of [ExecutionGraph.write_status]
              (datastructures/core/executiongraph.py):
                [_ = ",".join(cells)] per row, header literal first,
                [stat_file.write("\n".join(status))] on a file opened ["w+"]
                (text mode; on POSIX no newline translation on output).
    Reader  = [Conductor.get_status] (conductor.py): [open(stat_path, "r")]
              (text mode, newline=None: UNIVERSAL NEWLINES on input, i.e. every
              "\r\n" and every lone "\r" arrives as "\n") handed to
              [utils.csvtable_to_dict]:
                [lines = fstream.readlines()]   -- split after every "\n",
                                                   terminators kept, no empty
                                                   last line; ONLY "\n" splits
                                                   (not \v \f \x1c-\x1e \x85
                                                   U+2028 U+2029: those are
                                                   str.splitlines, not file
                                                   iteration)
                [lines.pop(0).strip("\n").split(",")]   -- IndexError on an
                                                   empty file
                [table[item] = []] in header order (an OrderedDict)
                per line: [line.split(",")], cell [i] goes, after
                [.strip("\n")], to column [indices[i]] -- KeyError when the
                line has more cells than the header.

    Strings are [list N] of code points.  The file is modelled as the text that
    was written (the UTF-8 codec is the identity on strings of Unicode scalar
    values; lone surrogates cannot be encoded and are outside the model, the
    correspondence run only generates encodable text).

    Model-side definitions only; the proofs are in CsvProofs.v. *)
From Coq Require Import List Arith Bool NArith.
From MWF Require Import Base.Util Base.Str.
Import ListNotations.

Definition comma : N := 44%N.
Definition nl : N := 10%N.
Definition cr : N := 13%N.

(** Python [sep.join(l)] *)
Fixpoint join (sep : str) (l : list str) : str :=
  match l with
  | [] => []
  | x :: l' => match l' with [] => x | _ :: _ => x ++ sep ++ join sep l' end
  end.

(* ------------------------------------------------------------------------- *)
(** * The printer                                                              *)
(* ------------------------------------------------------------------------- *)

(** [",".join(cells)] *)
Definition render_row (cells : list str) : str := join [comma] cells.

(** what [write_status] hands to [stat_file.write]: header line, then one line
    per row, joined by "\n", NO trailing newline *)
Definition render (header : list str) (rows : list (list str)) : str :=
  join [nl] (render_row header :: map render_row rows).

(** The header literal of [write_status], as cells. *)
Definition status_header : list str :=
  [s "Step Name"; s "Job ID"; s "Workspace"; s "State"; s "Run Time";
   s "Elapsed Time"; s "Start Time"; s "Submit Time"; s "End Time";
   s "Number Restarts"; s "Params"].

(** ... and as the text that is in the source. *)
Definition status_header_text : str :=
  s "Step Name,Job ID,Workspace,State,Run Time,Elapsed Time,Start Time,Submit Time,End Time,Number Restarts,Params".

(* ------------------------------------------------------------------------- *)
(** * The reader                                                               *)
(* ------------------------------------------------------------------------- *)

(** text-mode input with [newline=None]: "\r\n" -> "\n", lone "\r" -> "\n".
    [prev_cr]: the previous character was a "\r" (already delivered as "\n"). *)
Fixpoint universal_nl (prev_cr : bool) (t : str) : str :=
  match t with
  | [] => []
  | c :: t' =>
    if N.eqb c cr then nl :: universal_nl true t'
    else if N.eqb c nl then
           (if prev_cr then universal_nl false t' else nl :: universal_nl false t')
    else c :: universal_nl false t'
  end.

(** what [open(path, "r").read()] delivers for a file holding [file] *)
Definition read_text (file : str) : str := universal_nl false file.

(** [fstream.readlines()] on the delivered text *)
Fixpoint readlines (t : str) : list str :=
  match t with
  | [] => []
  | c :: t' =>
    if N.eqb c nl then [nl] :: readlines t'
    else match readlines t' with
         | [] => [[c]]
         | l :: ls => (c :: l) :: ls
         end
  end.

(** [x.split(",")] -- explicit separator: always at least one piece *)
Fixpoint split_on (sep : N) (t : str) : list str :=
  match t with
  | [] => [[]]
  | c :: t' =>
    if N.eqb c sep then [] :: split_on sep t'
    else match split_on sep t' with
         | [] => [[c]]                       (* unreachable *)
         | x :: xs => (c :: x) :: xs
         end
  end.

(** [x.strip("\n")] *)
Fixpoint lstrip_nl (t : str) : str :=
  match t with
  | [] => []
  | c :: t' => if N.eqb c nl then lstrip_nl t' else t
  end.

Fixpoint rstrip_nl (t : str) : str :=
  match t with
  | [] => []
  | c :: t' =>
    match rstrip_nl t' with
    | [] => if N.eqb c nl then [] else [c]
    | r => c :: r
    end
  end.

Definition strip_nl (t : str) : str := rstrip_nl (lstrip_nl t).

(** the OrderedDict [table]: keys in first-insertion order *)
Definition table := list (str * list str).

(** [table[k] = []] *)
Fixpoint tbl_reset (k : str) (t : table) : table :=
  match t with
  | [] => [(k, [])]
  | (k', v) :: t' => if str_eqb k' k then (k', []) :: t' else (k', v) :: tbl_reset k t'
  end.

(** [table[k].append(v)] ([k] is always a key: it comes from [indices]) *)
Fixpoint tbl_append (k : str) (v : str) (t : table) : table :=
  match t with
  | [] => []
  | (k', col) :: t' =>
    if str_eqb k' k then (k', col ++ [v]) :: t' else (k', col) :: tbl_append k v t'
  end.

Definition tbl_init (hdr : list str) : table :=
  fold_left (fun t k => tbl_reset k t) hdr [].

(** [for i in range(len(_)): table[indices[i]].append(_[i].strip("\n"))];
    [hdr] is the part of the header from position [i] on; [None] = KeyError
    ([indices[i]] missing: more cells than header columns) *)
Fixpoint add_cells (hdr : list str) (cells : list str) (t : table) {struct cells} : option table :=
  match cells with
  | [] => Some t
  | c :: cs =>
    match hdr with
    | [] => None
    | k :: ks => add_cells ks cs (tbl_append k (strip_nl c) t)
    end
  end.

Fixpoint add_lines (hdr : list str) (lines : list str) (t : table) : option table :=
  match lines with
  | [] => Some t
  | l :: ls =>
    match add_cells hdr (split_on comma l) t with
    | Some t' => add_lines hdr ls t'
    | None => None
    end
  end.

(** how [Conductor.get_status] ends when the file exists and the lock was
    obtained *)
Inductive presult : Type :=
| PTable (cols : table)      (* the returned OrderedDict: (key, column) in order *)
| PIndexError                (* [lines.pop(0)] on an empty file *)
| PKeyError                  (* a line with more cells than the header *)
| POther.                    (* anything else: never produced by the model, only
                                used for the implementation's side of a
                                correspondence case *)

Definition parse_lines (lines : list str) : presult :=
  match lines with
  | [] => PIndexError
  | h :: rest =>
    let hdr := split_on comma (strip_nl h) in
    match add_lines hdr rest (tbl_init hdr) with
    | Some t => PTable t
    | None => PKeyError
    end
  end.

(** [csvtable_to_dict(open(stat_path, "r"))] for a file holding [file] *)
Definition parse (file : str) : presult := parse_lines (readlines (read_text file)).

(* ------------------------------------------------------------------------- *)
(** * The specification of the table a (header, rows) pair denotes             *)
(* ------------------------------------------------------------------------- *)

(** column [i] = the [i]-th cell of every row, under the [i]-th header name *)
Fixpoint columns (header : list str) (rows : list (list str)) : table :=
  match header with
  | [] => []
  | h :: hs => (h, map (hd []) rows) :: columns hs (map (@tl str) rows)
  end.

(* ------------------------------------------------------------------------- *)
(** * Hygiene                                                                  *)
(* ------------------------------------------------------------------------- *)

Definition has (c : N) (t : str) : bool := existsb (N.eqb c) t.

(** H12 for one cell: none of [,] ["\n"] ["\r"] *)
Definition cell_ok (t : str) : bool :=
  negb (has comma t) && negb (has nl t) && negb (has cr t).

Definition H12 (header : list str) (rows : list (list str)) : bool :=
  forallb cell_ok header && forallb (forallb cell_ok) rows.

Fixpoint str_mem (x : str) (l : list str) : bool :=
  match l with [] => false | y :: l' => str_eqb x y || str_mem x l' end.

Fixpoint str_nodupb (l : list str) : bool :=
  match l with [] => true | x :: l' => negb (str_mem x l') && str_nodupb l' end.

(** shape of a table: at least two columns (so that no rendered line is empty:
    a one-column table whose last cell is "" loses its last row, and the
    zero-row one-column table with header "" is the empty file), distinct
    column names (dictionary keys), rectangular.  The status table has 11
    distinct columns and rows of 11 cells by construction (Rows.v). *)
Definition table_wf (header : list str) (rows : list (list str)) : bool :=
  (2 <=? List.length header) && str_nodupb header
  && forallb (fun r => List.length r =? List.length header) rows.

(** Known-finding signatures (K3): a cell contains a comma / a line break. *)
Definition sig_comma (header : list str) (rows : list (list str)) : bool :=
  existsb (has comma) header || existsb (existsb (has comma)) rows.

Definition sig_newline (header : list str) (rows : list (list str)) : bool :=
  existsb (fun c => has nl c || has cr c) header
  || existsb (existsb (fun c => has nl c || has cr c)) rows.

(* ------------------------------------------------------------------------- *)
(** * Structural equalities used by the correspondence check                   *)
(* ------------------------------------------------------------------------- *)

Fixpoint strs_eqb (a b : list str) : bool :=
  match a, b with
  | [], [] => true
  | x :: a', y :: b' => str_eqb x y && strs_eqb a' b'
  | _, _ => false
  end.

Fixpoint table_eqb (a b : table) : bool :=
  match a, b with
  | [], [] => true
  | (k, c) :: a', (k', c') :: b' => str_eqb k k' && strs_eqb c c' && table_eqb a' b'
  | _, _ => false
  end.

Definition presult_eqb (a b : presult) : bool :=
  match a, b with
  | PTable x, PTable y => table_eqb x y
  | PIndexError, PIndexError => true
  | PKeyError, PKeyError => true
  | POther, POther => true
  | _, _ => false
  end.

(** Executable model of the row construction of
    [ExecutionGraph.write_status] / [ExecutionGraph.status_subtree]
    (maestrowf/datastructures/core/executiongraph.py), as the code is in /repo
    now, the observable of a status write + read, and the monitor [C12_ok].

    Node names are [nat] (index in [values] insertion order; the harness uses 0
    for "_source").  The graph is [adjacency_table] in insertion order.  The
    record table [recs] is indexed by node ([nth k recs]); the entry of the
    source is a dummy that is never shown.

    [status_subtree] = [bfs_subtree("_source")[0]] minus "_source" (the
    [_status_order] attribute is 'bfs' and nothing in the package changes it);
    it is cached on first use, which is invisible as long as the graph is not
    modified after the first status write (it never is: staging completes before
    the first poll) -- the correspondence run writes several times per graph.

    [bfs_scan]/[bfs_loop] are the text of Dag/DagModel.v (DAG.bfs_subtree),
    copied so that this area stands alone.

    Timing cells (Run Time, Elapsed Time, Start/Submit/End Time) are not
    modelled: they are opaque strings handed in with the record ([r_times]).

    Model-side definitions only; proofs are in RowsProofs.v. *)
From Coq Require Import List Arith Bool NArith.
From MWF Require Import Base.Util Base.Str Status.Csv.
Import ListNotations.

(* ------------------------------------------------------------------------- *)
(** * the graph and DAG.bfs_subtree                                            *)
(* ------------------------------------------------------------------------- *)

Definition graph := list (nat * list nat).

Definition keys (g : graph) : list nat := map fst g.

Fixpoint lookup (g : graph) (v : nat) : option (list nat) :=
  match g with
  | [] => None
  | (k, l) :: g' => if Nat.eqb k v then Some l else lookup g' v
  end.

(** [adjacency_table[v]] *)
Definition succs (g : graph) (v : nat) : list nat :=
  match lookup g v with Some l => l | None => [] end.

(** the [for node in self.adjacency_table[root]] loop *)
Fixpoint bfs_scan (cs q p : list nat) {struct cs} : list nat * list nat :=
  match cs with
  | [] => (q, p)
  | c :: cs' =>
    if mem c p then bfs_scan cs' q p
    else bfs_scan cs' (q ++ [c]) (p ++ [c])
  end.

(** [while queue:] -- one unit of fuel per dequeued node *)
Fixpoint bfs_loop (sc : nat -> list nat) (fuel : nat) (q p : list nat) {struct fuel}
  : option (list nat) :=
  match q with
  | [] => Some p
  | root :: q' =>
    match fuel with
    | O => None
    | S f => let (q2, p2) := bfs_scan (sc root) q' p in bfs_loop sc f q2 p2
    end
  end.

(** enough for every graph (RowsProofs.bfs_total): a node is dequeued at most
    once and every dequeued node is the start node or the target of an edge *)
Definition bfs_fuel (g : graph) : nat := S (List.length (flat_map snd g)).

Definition bfs (g : graph) (src : nat) : list nat :=
  match bfs_loop (succs g) (bfs_fuel g) [src] [src] with
  | Some p => p
  | None => []                (* never: RowsProofs.bfs_total *)
  end.

(** [ExecutionGraph.status_subtree] *)
Definition status_order (g : graph) (src : nat) : list nat :=
  filter (fun k => negb (Nat.eqb k src)) (bfs g src).

(** the step instances: every key of [values] but the source *)
Definition instances (g : graph) (src : nat) : list nat :=
  filter (fun k => negb (Nat.eqb k src)) (keys g).

(** keys distinct, every edge ends at a key, the source is a key *)
Definition wfb (g : graph) (src : nat) : bool :=
  nodupb (keys g) && mem src (keys g)
  && forallb (fun kl => forallb (fun c => mem c (keys g)) (snd kl)) g.

(** what staging guarantees: every instance has a parent that was inserted
    before it (possibly the source) *)
Definition stagedb (g : graph) (src : nat) : bool :=
  forallb (fun x => Nat.eqb x src
                    || existsb (fun p => (p <? x) && mem x (succs g p)) (keys g))
          (keys g).

(* ------------------------------------------------------------------------- *)
(** * records and the fields of a row                                          *)
(* ------------------------------------------------------------------------- *)

Record rec : Type := mkRec {
  r_name : str;                  (* step.real_name (= the key in [values]) *)
  r_jobids : list str;           (* [str(j)] for j in record.jobid, oldest first *)
  r_ws : str;                    (* record.workspace.value *)
  r_state : str;                 (* record.status.name *)
  r_times : list str;            (* run_time, elapsed_time, time_start, time_submitted, time_end *)
  r_restarts : N;                (* record.restarts *)
  r_params : list (str * str)    (* record.params.items(), values through [str] *)
}.

Definition dummy_rec : rec := mkRec [] [] [] [] [] 0%N [].

Definition slash : N := 47%N.
Definition dot : N := 46%N.
Definition colon : N := 58%N.
Definition semicolon : N := 59%N.

(** [str(n)] for a non-negative int *)
Fixpoint uint_str (u : Decimal.uint) : str :=
  match u with
  | Decimal.Nil => []
  | Decimal.D0 u' => 48%N :: uint_str u'
  | Decimal.D1 u' => 49%N :: uint_str u'
  | Decimal.D2 u' => 50%N :: uint_str u'
  | Decimal.D3 u' => 51%N :: uint_str u'
  | Decimal.D4 u' => 52%N :: uint_str u'
  | Decimal.D5 u' => 53%N :: uint_str u'
  | Decimal.D6 u' => 54%N :: uint_str u'
  | Decimal.D7 u' => 55%N :: uint_str u'
  | Decimal.D8 u' => 56%N :: uint_str u'
  | Decimal.D9 u' => 57%N :: uint_str u'
  end.

Definition dec (n : N) : str := uint_str (N.to_uint n).

(** [jobid_str]: ["--"], or [str(value.jobid[-1])] *)
Definition jobid_str (r : rec) : str := last (r_jobids r) (s "--").

(** [";".join(["{}:{}".format(param, value) for ...])] *)
Definition params_str (r : rec) : str :=
  join [semicolon] (map (fun kv => fst kv ++ [colon] ++ snd kv) (r_params r)).

(** posixpath.normpath.  [stack] is [new_comps] reversed. *)
Fixpoint norm_comps (absolute : bool) (comps : list str) (stack : list str) : list str :=
  match comps with
  | [] => rev stack
  | c :: cs =>
    if str_eqb c [] || str_eqb c [dot] then norm_comps absolute cs stack
    else if negb (str_eqb c [dot; dot])
            || (negb absolute && match stack with [] => true | _ => false end)
            || match stack with t :: _ => str_eqb t [dot; dot] | [] => false end
         then norm_comps absolute cs (c :: stack)
         else match stack with
              | _ :: st' => norm_comps absolute cs st'
              | [] => norm_comps absolute cs stack
              end
  end.

Definition initial_slashes (p : str) : nat :=
  match p with
  | a :: b :: c :: _ =>
    if N.eqb a slash then
      (if N.eqb b slash then (if N.eqb c slash then 1 else 2) else 1)
    else 0
  | [a; b] => if N.eqb a slash then (if N.eqb b slash then 2 else 1) else 0
  | [a] => if N.eqb a slash then 1 else 0
  | [] => 0
  end.

Definition normpath (p : str) : str :=
  match p with
  | [] => [dot]
  | _ =>
    let k := initial_slashes p in
    let comps := norm_comps (negb (Nat.eqb k 0)) (split_on slash p) [] in
    match repeat slash k ++ join [slash] comps with
    | [] => [dot]
    | r => r
    end
  end.

(** [l[-2:]] *)
Definition last_two {A} (l : list A) : list A := skipn (List.length l - 2) l.

(** [os.path.join] applied to the parts, none of which contains a slash *)
Fixpoint path_join_from (acc : str) (parts : list str) : str :=
  match parts with
  | [] => acc
  | b :: ps =>
    path_join_from (match acc with [] => b | _ => acc ++ [slash] ++ b end) ps
  end.

Definition path_join (parts : list str) : str :=
  match parts with [] => [] | a :: ps => path_join_from a ps end.

(** the Workspace cell: the last two components of the normalised path when
    the step is parameterised, else [os.path.split(ws)[1]] *)
Definition ws_short (r : rec) : str :=
  match r_params r with
  | _ :: _ => path_join (last_two (split_on slash (normpath (r_ws r))))
  | [] => last (split_on slash (r_ws r)) []
  end.

Definition time_cell (r : rec) (i : nat) : str := nth i (r_times r) [].

(** the list [_] of [write_status], in its order *)
Definition row_of (r : rec) : list str :=
  [r_name r; jobid_str r; ws_short r; r_state r;
   time_cell r 0; time_cell r 1; time_cell r 2; time_cell r 3; time_cell r 4;
   dec (r_restarts r); params_str r].

Definition rec_of (recs : list rec) (k : nat) : rec := nth k recs dummy_rec.

(** the rows of the status table *)
Definition status_rows (g : graph) (src : nat) (recs : list rec) : list (list str) :=
  map (fun k => row_of (rec_of recs k)) (status_order g src).

(** the text [write_status] writes *)
Definition status_text (g : graph) (src : nat) (recs : list rec) : str :=
  render status_header (status_rows g src recs).

(* ------------------------------------------------------------------------- *)
(** * HOOK for the execution model (trace-level C12_consistent)                *)
(* ------------------------------------------------------------------------- *)

(** What never changes after staging ... *)
Record static_rec : Type := mkStatic {
  sr_name : str; sr_ws : str; sr_params : list (str * str)
}.

(** ... and what a poll changes: (state name, job ids oldest first, restarts)
    plus the opaque timing cells. *)
Record dyn_rec : Type := mkDyn {
  d_state : str; d_jobids : list str; d_restarts : N; d_times : list str
}.

Definition mk_rec (sd : static_rec * dyn_rec) : rec :=
  let (st, d) := sd in
  mkRec (sr_name st) (d_jobids d) (sr_ws st) (d_state d) (d_times d) (d_restarts d)
        (sr_params st).

(** HOOK: the status table for the per-node dynamic table [dyn] (one entry per
    node in [values] order, entry of the source ignored).  The coordinator's
    C12_consistent instantiates [dyn] with the projection of the execution
    model's state; [RowsProofs.row_dyn_content] says which cell shows what. *)
Definition status_rows_dyn (g : graph) (src : nat)
           (statics : list static_rec) (dyn : list dyn_rec) : list (list str) :=
  status_rows g src (map mk_rec (combine statics dyn)).

(* ------------------------------------------------------------------------- *)
(** * observable and monitor                                                   *)
(* ------------------------------------------------------------------------- *)

(** One status write followed by one status read:
    (text of status.csv, what [Conductor.get_status] returned). *)
Definition obs : Type := (str * presult)%type.

Definition model_obs (g : graph) (src : nat) (recs : list rec) : obs :=
  let t := status_text g src recs in (t, parse t).

Definition obs_eqb (a b : obs) : bool :=
  str_eqb (fst a) (fst b) && presult_eqb (snd a) (snd b).

(** rows of a returned dictionary (inverse of [Csv.columns]) *)
Fixpoint zip_cons (col : list str) (rows : list (list str)) : list (list str) :=
  match col, rows with
  | c :: col', r :: rows' => (c :: r) :: zip_cons col' rows'
  | _, _ => []
  end.

Fixpoint table_rows (t : table) (n : nat) : list (list str) :=
  match t with
  | [] => repeat [] n
  | (_, col) :: t' => zip_cons col (table_rows t' n)
  end.

Definition col_len (t : table) : nat :=
  match t with [] => 0 | (_, c) :: _ => List.length c end.

Definition rect (t : table) : bool :=
  forallb (fun kc => List.length (snd kc) =? col_len t) t.

Fixpoint count_row (r : list str) (l : list (list str)) : nat :=
  match l with
  | [] => 0
  | x :: l' => (if strs_eqb r x then 1 else 0) + count_row r l'
  end.

(** equal as multisets *)
Definition same_rows (a b : list (list str)) : bool :=
  forallb (fun r => count_row r a =? count_row r b) (a ++ b).

(** the rows the table must show, in [values] order *)
Definition expected_rows (g : graph) (src : nat) (recs : list rec) : list (list str) :=
  map (fun k => row_of (rec_of recs k)) (instances g src).

(** THE MONITOR.  What the status command got back is a table with the status
    header, rectangular, whose Step Name column has no duplicate, and whose rows
    are -- as a multiset -- exactly one row per step instance holding that
    instance's current fields. *)
Definition C12_ok (g : graph) (src : nat) (recs : list rec) (parsed : presult) : bool :=
  match parsed with
  | PTable t =>
    strs_eqb (map fst t) status_header
    && rect t
    && str_nodupb (match t with (_, c) :: _ => c | [] => [] end)
    && same_rows (table_rows t (col_len t)) (expected_rows g src recs)
  | _ => false
  end.

(** the theorems' hypotheses as booleans (evaluated on every correspondence
    case): a staged graph with distinct instance names ... *)
Definition valid (g : graph) (src : nat) (recs : list rec) : bool :=
  wfb g src && stagedb g src
  && str_nodupb (map (fun k => r_name (rec_of recs k)) (instances g src)).

(** ... and H12 on the cells of the rows *)
Definition H12_rows (g : graph) (src : nat) (recs : list rec) : bool :=
  H12 status_header (status_rows g src recs).

(** known-finding signatures on a case *)
Definition sig_comma_rows (g : graph) (src : nat) (recs : list rec) : bool :=
  sig_comma status_header (status_rows g src recs).
Definition sig_newline_rows (g : graph) (src : nat) (recs : list rec) : bool :=
  sig_newline status_header (status_rows g src recs).

(** a correspondence case: input and the implementation's observable *)
Definition case : Type := (graph * list rec * obs)%type.

Definition case_agrees (c : case) : bool :=
  let '(g, recs, o) := c in obs_eqb (model_obs g 0 recs) o.

Definition case_monitor (c : case) : bool :=
  let '(g, recs, o) := c in
  impb (valid g 0 recs && H12_rows g 0 recs) (C12_ok g 0 recs (snd o)).

Definition case_ok (c : case) : bool := case_agrees c && case_monitor c.

(** "the monitor is false on the implementation's observable although the case
    is a staged graph, and a K3 signature holds" *)
Definition case_known_comma (c : case) : bool :=
  let '(g, recs, o) := c in
  valid g 0 recs && negb (C12_ok g 0 recs (snd o)) && sig_comma_rows g 0 recs.

Definition case_known_newline (c : case) : bool :=
  let '(g, recs, o) := c in
  valid g 0 recs && negb (C12_ok g 0 recs (snd o)) && sig_newline_rows g 0 recs.

(* ------------------------------------------------------------------------- *)
(** * trace-level consistency of the Job ID column                             *)
(* ------------------------------------------------------------------------- *)

(** [subs]: the successful submissions seen at the scheduler adapter since the
    study started, oldest first, as (node, job number) -- an observable of the
    adapter, not of the records.  The adapter hands the job identifier
    [str(job number)] back to maestrowf. *)
Definition subs_of (subs : list (nat * nat)) (x : nat) : list nat :=
  map snd (filter (fun p => Nat.eqb (fst p) x) subs).

Definition last_sub (subs : list (nat * nat)) (x : nat) : option nat :=
  fold_left (fun acc p => if Nat.eqb (fst p) x then Some (snd p) else acc) subs None.

Definition job_str (j : nat) : str := dec (N.of_nat j).

Definition jobid_cell (o : option nat) : str :=
  match o with Some j => job_str j | None => s "--" end.

(** THE TRACE-LEVEL MONITOR.  In the table the status command got back, the row
    of every instance shows, as Job ID, the identifier the scheduler returned
    for that instance's LAST successful submission -- "--" when there was none. *)
Definition job_column_ok (g : graph) (src : nat) (recs : list rec) (subs : list (nat * nat))
           (parsed : presult) : bool :=
  match parsed with
  | PTable t =>
    let rows := table_rows t (col_len t) in
    forallb (fun k => existsb (fun r => str_eqb (nth 0 r []) (r_name (rec_of recs k))
                                        && str_eqb (nth 1 r []) (jobid_cell (last_sub subs k))) rows)
            (instances g src)
  | _ => false
  end.

(** the coupling between records and adapter trace that the execution model
    maintains (Status/Consist.v proves it of every poll sequence) *)
Definition jobs_coupled (g : graph) (src : nat) (recs : list rec) (subs : list (nat * nat)) : bool :=
  forallb (fun k => strs_eqb (r_jobids (rec_of recs k)) (map job_str (subs_of subs k)))
          (instances g src).

(** a poll of an execution history: the case, and the submissions so far *)
Definition hcase : Type := (case * list (nat * nat))%type.

(** the monitor part: [C12_ok] and the trace-level Job ID column, on the
    implementation's table *)
Definition hcase_monitor (h : hcase) : bool :=
  let '((g, recs, o), subs) := h in
  case_monitor (g, recs, o)
  && impb (valid g 0 recs && H12_rows g 0 recs) (job_column_ok g 0 recs subs (snd o)).

(** ... plus agreement of the model with the implementation (text, dictionary)
    and of the implementation's records with the adapter trace *)
Definition hcase_ok (h : hcase) : bool :=
  let '((g, recs, o), subs) := h in
  case_agrees (g, recs, o) && hcase_monitor h
  && impb (valid g 0 recs && H12_rows g 0 recs) (jobs_coupled g 0 recs subs).

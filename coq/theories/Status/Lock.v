(** Interleaving semantics of the accesses to status.csv, as the code is in
    /repo now.

    Writer  = the tail of [ExecutionGraph.write_status]
              (datastructures/core/executiongraph.py):
                [lock = FileLock(join(path, ".status.lock"))]
                [try: with lock.acquire(timeout=10):]
                [       with open(stat_path, "w+") as f: f.write(text)]
                [except Timeout: pass]
              i.e.  acquire ; open-and-truncate ; write the text in one or more
              chunks (buffered text I/O flushes in pieces) ; close ; release --
              or, when the lock is not obtained in time, NOTHING (the previous
              file stays).
    Reader  = [Conductor.get_status] (conductor.py):
                [_ = {}]
                [if os.path.exists(stat_path):]          -- outside the lock
                [  try: with lock.acquire(timeout=10):]
                [         with open(stat_path, "r") as f: _ = csvtable_to_dict(f)]
                [  except Timeout: pass]
                [return _]
              i.e.  exists? ; acquire ; open ; read up to end-of-file in one or
              more chunks ; release -- or the empty answer when there is no file
              or the lock is not obtained in time.

    Any number of processes run any number of such jobs each; a schedule says
    which process moves next, whether a process waiting for a HELD lock gives up
    now (filelock raises Timeout only after a failed attempt), and how many
    characters a read chunk delivers.

    ASSUMPTION (named in DESIGN.md section 3 and in the evidence): mutual
    exclusion of [FileLock] on one path is provided by the filelock package and
    the OS ([lock] below is a single holder cell).  The discipline flags
    [wlock]/[rlock] exist so that the model can also exhibit what happens when a
    critical section is NOT inside the lock (torn reads: LockProofs, Props/C12
    examples); the theorems are about [locked], the discipline the structural
    check of harness/props/c12.py finds in the source.

    Model-side definitions only; proofs are in LockProofs.v. *)
From Coq Require Import List Arith Bool NArith.
From MWF Require Import Base.Util Base.Str.
Import ListNotations.

(** what a process does next, one after the other *)
Inductive job : Type :=
| JWrite (chunks : list str)       (* write_status; the text is [concat chunks] *)
| JRead.                           (* get_status *)

(** how a [get_status] call ends *)
Inductive answer : Type :=
| AText (t : str)      (* csvtable_to_dict ran on a stream that delivered [t] *)
| AEmpty               (* {} : no status.csv, or [except Timeout: pass] *)
| AError.              (* open() raised although the file had existed: never
                          (LockProofs.atomic) *)

Inductive pc : Type :=
| Idle                                   (* between two jobs *)
| WAcq (cs : list str)                   (* writer waiting for the lock *)
| WOpen (cs : list str)                  (* in the critical section, before open(.., "w+") *)
| WWrite (cs : list str) (full : str)    (* file open; [cs] still to be written;
                                            [full] (ghost) = the whole text of this job *)
| RAcq                                   (* reader (the file existed) waiting for the lock *)
| ROpen                                  (* in the critical section, before open(.., "r") *)
| RRead (acc : str).                     (* file open; [acc] delivered so far *)

(** does a process at this point own the critical section? *)
Definition holds (p : pc) : bool :=
  match p with
  | WOpen _ | WWrite _ _ | ROpen | RRead _ => true
  | _ => false
  end.

Record state : Type := mkState {
  file : option str;                    (* status.csv: absent, or its content *)
  lock : option nat;                    (* .status.lock: free, or the holder *)
  procs : nat -> pc * list job;         (* program counter and remaining jobs *)
  log : list (nat * answer * option str);
     (* newest first: (process, how its get_status ended, [committed] then) *)
  committed : option str
     (* GHOST: the text of the most recent write job that ran to completion;
        before any, the initial file *)
}.

Definition setp (i : nat) (p : pc * list job) (f : nat -> pc * list job) : nat -> pc * list job :=
  fun j => if Nat.eqb j i then p else f j.

Definition with_proc (s : state) (i : nat) (p : pc * list job) : state :=
  mkState (file s) (lock s) (setp i p (procs s)) (log s) (committed s).
Definition with_file (s : state) (f : option str) : state :=
  mkState f (lock s) (procs s) (log s) (committed s).
Definition with_lock (s : state) (l : option nat) : state :=
  mkState (file s) l (procs s) (log s) (committed s).
Definition with_committed (s : state) (c : option str) : state :=
  mkState (file s) (lock s) (procs s) (log s) c.
Definition with_answer (s : state) (i : nat) (a : answer) : state :=
  mkState (file s) (lock s) (procs s) ((i, a, committed s) :: log s) (committed s).

(** the discipline: are the writer's / the reader's file accesses inside
    [with lock.acquire(..)] ? *)
Record disc : Type := mkDisc { wlock : bool; rlock : bool }.
Definition locked : disc := mkDisc true true.

Definition release (uses : bool) (s : state) : state :=
  if uses then with_lock s None else s.

(** One move of process [i].  [give_up]: a process waiting for a held lock
    takes its Timeout branch now (otherwise it keeps waiting: no move).  [k]: a
    read chunk delivers [k+1] characters (fewer at the end of the file).
    [None] = process [i] cannot move. *)
Definition step (d : disc) (i : nat) (give_up : bool) (k : nat) (s : state) : option state :=
  let (p, todo) := procs s i in
  match p with
  | Idle =>
    match todo with
    | [] => None
    | JWrite cs :: todo' => Some (with_proc s i (WAcq cs, todo'))
    | JRead :: todo' =>
      match file s with
      | None => Some (with_answer (with_proc s i (Idle, todo')) i AEmpty)    (* not os.path.exists *)
      | Some _ => Some (with_proc s i (RAcq, todo'))
      end
    end
  | WAcq cs =>
    if wlock d then
      match lock s with
      | None => Some (with_lock (with_proc s i (WOpen cs, todo)) (Some i))
      | Some _ => if give_up then Some (with_proc s i (Idle, todo))          (* except Timeout: pass *)
                  else None
      end
    else Some (with_proc s i (WOpen cs, todo))
  | WOpen cs =>                                                              (* open(.., "w+") truncates *)
    Some (with_file (with_proc s i (WWrite cs (List.concat cs), todo)) (Some []))
  | WWrite (ch :: cs) full =>
    Some (with_file (with_proc s i (WWrite cs full, todo))
                    (Some (match file s with Some t => t ++ ch | None => ch end)))
  | WWrite [] full =>                                                        (* close; release *)
    Some (with_committed (release (wlock d) (with_proc s i (Idle, todo))) (Some full))
  | RAcq =>
    if rlock d then
      match lock s with
      | None => Some (with_lock (with_proc s i (ROpen, todo)) (Some i))
      | Some _ => if give_up then Some (with_answer (with_proc s i (Idle, todo)) i AEmpty)
                  else None
      end
    else Some (with_proc s i (ROpen, todo))
  | ROpen =>
    match file s with
    | Some _ => Some (with_proc s i (RRead [], todo))
    | None => Some (with_answer (release (rlock d) (with_proc s i (Idle, todo))) i AError)
    end
  | RRead acc =>
    match file s with
    | None => Some (with_answer (release (rlock d) (with_proc s i (Idle, todo))) i AError)
    | Some t =>
      match skipn (List.length acc) t with
      | [] => Some (with_answer (release (rlock d) (with_proc s i (Idle, todo))) i (AText acc))
      | rest => Some (with_proc s i (RRead (acc ++ firstn (S k) rest), todo))
      end
    end
  end.

(** a schedule: (process, give_up, chunk size) per move; a move that is not
    possible is skipped *)
Definition move : Type := (nat * bool * nat)%type.

Definition step_or_stay (d : disc) (m : move) (s : state) : state :=
  let '(i, g, k) := m in
  match step d i g k s with Some s' => s' | None => s end.

Fixpoint run (d : disc) (sch : list move) (s : state) : state :=
  match sch with
  | [] => s
  | m :: sch' => run d sch' (step_or_stay d m s)
  end.

(** the study directory before the processes start: [f0] = status.csv (absent,
    or a complete table written earlier), the lock free, process [i] about to
    run [progs i] *)
Definition init (f0 : option str) (progs : nat -> list job) : state :=
  mkState f0 None (fun i => (Idle, progs i)) [] f0.

(** the answers, oldest first, without the ghost *)
Definition answers (s : state) : list (nat * answer) :=
  rev (map (fun e => (fst (fst e), snd (fst e))) (log s)).

(** no move of the schedule takes a Timeout branch *)
Definition no_give_up (sch : list move) : bool :=
  forallb (fun m : move => negb (snd (fst m))) sch.

(* ------------------------------------------------------------------------- *)
(** * the Timeout scenario replayed against the real FileLock                  *)
(* ------------------------------------------------------------------------- *)

(** harness/props/c12.py drives the real code through this schedule (a helper
    process holds .status.lock meanwhile) and compares what it saw with what the
    model says:
      process 0 = the holder (modelled as a reader that stays in the critical
                  section), process 1 = [Conductor.get_status] three times,
      process 2 = [write_status] of the new table twice.
      1. the holder takes the lock;  2. get_status -> Timeout -> {};
      3. write_status -> Timeout -> nothing written;   (snapshot of the file)
      4. the holder leaves;  5. get_status -> the OLD table;
      6. write_status writes;  7. get_status -> the NEW table. *)
Definition scenario_progs (new_chunks : list str) (i : nat) : list job :=
  match i with
  | 0 => [JRead]
  | 1 => [JRead; JRead; JRead]
  | 2 => [JWrite new_chunks; JWrite new_chunks]
  | _ => []
  end.

Definition scenario_part1 : list move :=
  [(0, false, 0); (0, false, 0);            (* holder: exists?; acquire *)
   (1, false, 0); (1, true, 0);             (* reader: exists?; Timeout *)
   (2, false, 0); (2, true, 0)].            (* writer: job; Timeout *)

Definition scenario_part2 (old : str) (new_chunks : list str) : list move :=
  let big := List.length old + List.length (List.concat new_chunks) in
  [(0, false, 0); (0, false, big); (0, false, 0)]                             (* holder leaves *)
  ++ [(1, false, 0); (1, false, 0); (1, false, 0); (1, false, big); (1, false, 0)]
  ++ repeat (2, false, 0) (4 + List.length new_chunks)
  ++ [(1, false, 0); (1, false, 0); (1, false, 0); (1, false, big); (1, false, 0)].

(** (what process 1's three calls returned, the file after step 3, the file at the end) *)
Definition scenario_model (old : str) (new_chunks : list str)
  : list answer * option str * option str :=
  let s1 := run locked scenario_part1 (init (Some old) (scenario_progs new_chunks)) in
  let s2 := run locked (scenario_part2 old new_chunks) s1 in
  (map snd (filter (fun ia => Nat.eqb (fst ia) 1) (answers s2)), file s1, file s2).

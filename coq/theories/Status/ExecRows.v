(** The status table against the EXECUTION MODEL (Exec/ExecBase.v, ExecGen.v,
    ExecRun.v: the polling logic of ExecutionGraph, driven by the poll inputs:
    cancel request, query code, scheduler reports, submission outcomes).

    [shown_ok] says that the table the status command got back shows, for every
    step instance, exactly the state, the latest job id and the restart count
    the model's record holds after the same polls -- i.e. what the reports
    delivered so far dictate through the dispatch logic.  It is evaluated on the
    implementation's real status.csv after EVERY poll of the generated
    histories ([xcase_ok]); Status/Consist.v proves it of the model's own table.

    Model-side definitions only. *)
From Coq Require Import List Arith Bool NArith.
From MWF Require Import Base.Util Base.Str Status.Csv Status.Rows.
From MWF Require Exec.ExecBase Exec.ExecGen Exec.ExecRun.
Import ListNotations.

(** [State.name] *)
Definition state_name (v : ExecBase.State) : str :=
  match v with
  | ExecBase.INITIALIZED => s "INITIALIZED" | ExecBase.PENDING => s "PENDING"
  | ExecBase.WAITING => s "WAITING" | ExecBase.RUNNING => s "RUNNING"
  | ExecBase.FINISHING => s "FINISHING" | ExecBase.FINISHED => s "FINISHED"
  | ExecBase.QUEUED => s "QUEUED" | ExecBase.FAILED => s "FAILED"
  | ExecBase.INCOMPLETE => s "INCOMPLETE" | ExecBase.HWFAILURE => s "HWFAILURE"
  | ExecBase.TIMEDOUT => s "TIMEDOUT" | ExecBase.UNKNOWN => s "UNKNOWN"
  | ExecBase.CANCELLED => s "CANCELLED" | ExecBase.NOTFOUND => s "NOTFOUND"
  | ExecBase.DRYRUN => s "DRYRUN"
  end.

Definition row_dflt : ExecRun.row := (ExecBase.INITIALIZED, [], 0).

(** one instance: some row of the table has its name and shows its fields *)
Definition shows (trs : list (list str)) (nm : str) (r : ExecRun.row) : bool :=
  let '(st, js, k) := r in
  existsb (fun tr => str_eqb (nth 0 tr []) nm
                     && str_eqb (nth 1 tr []) (last (map job_str js) (s "--"))
                     && str_eqb (nth 3 tr []) (state_name st)
                     && str_eqb (nth 9 tr []) (dec (N.of_nat k))) trs.

(** THE MONITOR against the model's rows *)
Definition shown_ok (name : nat -> str) (rows : list ExecRun.row) (parsed : presult) : bool :=
  match parsed with
  | PTable t =>
    let trs := table_rows t (col_len t) in
    Nat.eqb (List.length trs) (List.length rows)
    && forallb (fun x => shows trs (name x) (nth x rows row_dflt)) (seq 0 (List.length rows))
  | _ => false
  end.

(** the names the scripted-scheduler harness gives the instances: n0, n1, .. *)
Definition node_name (x : nat) : str := s "n" ++ job_str x.

(** a history: configuration, graph, poll inputs, and what get_status returned
    after each poll *)
Definition xcase : Type :=
  (ExecBase.cfg * ExecBase.graph * list ExecBase.pin * list presult)%type.

Definition xcase_ok (c : xcase) : bool :=
  let '(cf, g, pins, tables) := c in
  let obs := ExecRun.run cf g (ExecBase.init g) pins in
  Nat.eqb (List.length obs) (List.length tables)
  && forallb (fun ot : ExecRun.obs * presult => shown_ok node_name (snd (fst (fst ot))) (snd ot))
             (combine obs tables).

(** index of the first poll whose table disagrees (for the report) *)
Definition xcase_first_bad (c : xcase) : list nat :=
  let '(cf, g, pins, tables) := c in
  let obs := ExecRun.run cf g (ExecBase.init g) pins in
  failing (fun ot : ExecRun.obs * presult => shown_ok node_name (snd (fst (fst ot))) (snd ot))
          (combine obs tables).

(* ------------------------------------------------------------------------- *)
(** * the dispatch table, report by report (independent of ExecGen.v)          *)
(* ------------------------------------------------------------------------- *)

(** ExecGen.v is REGENERATED from the source, so [xcase_ok] alone follows an
    edit of the dispatch logic.  [report_rule] is a hand-written statement of
    what the State / Number Restarts columns must show at the end of a poll for
    a step whose scheduler report was delivered in that poll (query code OK, no
    dry run), in terms of observables only: the report, whether the step has a
    restart command and its restart limit, whether a cancel request has been
    seen, and the restart count shown before the poll.
      FINISHED -> FINISHED          RUNNING -> RUNNING
      FAILED, UNKNOWN -> FAILED     CANCELLED -> CANCELLED
      TIMEDOUT, restart command and no cancel request:
          budget left (limit 0 or count < limit) -> count + 1, TIMEDOUT
                                                    (FAILED if the restart submission failed)
          budget exhausted                        -> FAILED
      TIMEDOUT otherwise (no restart command / after a cancel request) -> TIMEDOUT
      HWFAILURE and the states without a branch: no constraint here. *)
Definition view : Type := list (ExecBase.State * nat).     (* per instance: (state, restart count) *)

Definition report_rule (a : ExecBase.sattr) (cancelled : bool) (v : ExecBase.State)
           (before after : ExecBase.State * nat) : bool :=
  let '(_, rp) := before in
  let '(sc, rc) := after in
  let is st := ExecBase.state_eqb sc st in
  match v with
  | ExecBase.FINISHED => is ExecBase.FINISHED && Nat.eqb rc rp
  | ExecBase.RUNNING => is ExecBase.RUNNING && Nat.eqb rc rp
  | ExecBase.FAILED | ExecBase.UNKNOWN => is ExecBase.FAILED && Nat.eqb rc rp
  | ExecBase.CANCELLED => is ExecBase.CANCELLED && Nat.eqb rc rp
  | ExecBase.TIMEDOUT =>
    if ExecBase.has_restart a && negb cancelled then
      if Nat.eqb (ExecBase.rlimit a) 0 || Nat.ltb rp (ExecBase.rlimit a)
      then Nat.eqb rc (S rp) && (is ExecBase.TIMEDOUT || is ExecBase.FAILED)
      else is ExecBase.FAILED && Nat.eqb rc rp
    else is ExecBase.TIMEDOUT && Nat.eqb rc rp
  | _ => true
  end.

Definition view_dflt : ExecBase.State * nat := (ExecBase.INITIALIZED, 0).

Definition poll_rule (cf : ExecBase.cfg) (g : ExecBase.graph) (cancelled : bool) (p : ExecBase.pin)
           (before after : view) : bool :=
  if ExecBase.dry cf || negb (ExecBase.qcode_eqb (ExecBase.qcode p) ExecBase.QOK) then true
  else forallb (fun xr : nat * option ExecBase.State =>
                  match snd xr with
                  | None => true
                  | Some v => report_rule (ExecBase.attr g (fst xr)) cancelled v
                                          (nth (fst xr) before view_dflt) (nth (fst xr) after view_dflt)
                  end) (ExecBase.reports p).

(** all polls: [cancelled] accumulates the cancel requests (cancel_study runs
    before execute_ready_steps in the same iteration) *)
Fixpoint polls_rule (cf : ExecBase.cfg) (g : ExecBase.graph) (cancelled : bool) (before : view)
         (ps : list ExecBase.pin) (views : list view) : bool :=
  match ps, views with
  | p :: ps', v :: views' =>
    let c := cancelled || ExecBase.cancel_req p in
    poll_rule cf g c p before v && polls_rule cf g c v ps' views'
  | _, _ => true
  end.

(** reading the columns back *)
Definition state_of_name (t : str) : option ExecBase.State :=
  find (fun v => str_eqb (state_name v) t)
       [ExecBase.INITIALIZED; ExecBase.PENDING; ExecBase.WAITING; ExecBase.RUNNING; ExecBase.FINISHING;
        ExecBase.FINISHED; ExecBase.QUEUED; ExecBase.FAILED; ExecBase.INCOMPLETE; ExecBase.HWFAILURE;
        ExecBase.TIMEDOUT; ExecBase.UNKNOWN; ExecBase.CANCELLED; ExecBase.NOTFOUND; ExecBase.DRYRUN].

Definition undec (t : str) : option nat :=
  match t with
  | [] => None
  | _ => fold_left (fun acc c => match acc with
                                 | Some n => if N.leb 48 c && N.leb c 57 then Some (10 * n + N.to_nat (c - 48)) else None
                                 | None => None
                                 end) t (Some 0)
  end.

(** the (State, Number Restarts) columns of the table, per instance n0, n1, .. *)
Definition table_view (n : nat) (parsed : presult) : option view :=
  match parsed with
  | PTable t =>
    let trs := table_rows t (col_len t) in
    fold_right (fun x acc =>
                  match acc, find (fun tr => str_eqb (nth 0 tr []) (node_name x)) trs with
                  | Some l, Some tr =>
                    match state_of_name (nth 3 tr []), undec (nth 9 tr []) with
                    | Some st, Some k => Some ((st, k) :: l)
                    | _, _ => None
                    end
                  | _, _ => None
                  end) (Some []) (seq 0 n)
  | _ => None
  end.

Fixpoint all_some {A} (l : list (option A)) : option (list A) :=
  match l with
  | [] => Some []
  | Some a :: l' => match all_some l' with Some r => Some (a :: r) | None => None end
  | None :: _ => None
  end.

(** THE REPORT-LEVEL MONITOR on the implementation's tables *)
Definition xcase_rule_ok (c : xcase) : bool :=
  let '(cf, g, pins, tables) := c in
  match all_some (map (table_view (List.length g)) tables) with
  | Some views => polls_rule cf g false (repeat view_dflt (List.length g)) pins views
  | None => false
  end.

(** ... and on the rows of the (regenerated) execution model: the tie between
    the hand-written rule and ExecGen.v *)
Definition xcase_model_rule_ok (c : xcase) : bool :=
  let '(cf, g, pins, _) := c in
  let views := map (fun o : ExecRun.obs => map (fun r : ExecRun.row => (fst (fst r), snd r)) (snd (fst o)))
                   (ExecRun.run cf g (ExecBase.init g) pins) in
  polls_rule cf g false (repeat view_dflt (List.length g)) pins views.

Definition xcase_all_ok (c : xcase) : bool :=
  xcase_ok c && xcase_rule_ok c && xcase_model_rule_ok c.

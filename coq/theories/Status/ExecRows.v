(** The status table against the EXECUTION MODEL (Exec/ExecBase.v, ExecGen.v,
    ExecRun.v: the polling logic of ExecutionGraph, driven by the poll inputs:
    cancel request, query code, scheduler reports, submission outcomes).

    [shown_ok] says that the table the status command got back shows, for every
    step instance, exactly the state, the latest job id and the restart count
    the model's record holds after the same polls -- i.e. what the reports
    delivered so far dictate through the dispatch logic.  It is evaluated on the
    implementation's real status.csv after EVERY poll of the generated
    histories ([xcase_ok]); Status/Consist.v proves it of the model's own table.

    Model-side definitions only. *)
From Coq Require Import List Arith Bool NArith.
From MWF Require Import Base.Util Base.Str Status.Csv Status.Rows.
From MWF Require Exec.ExecBase Exec.ExecGen Exec.ExecRun.
Import ListNotations.

(** [State.name] *)
Definition state_name (v : ExecBase.State) : str :=
  match v with
  | ExecBase.INITIALIZED => s "INITIALIZED" | ExecBase.PENDING => s "PENDING"
  | ExecBase.WAITING => s "WAITING" | ExecBase.RUNNING => s "RUNNING"
  | ExecBase.FINISHING => s "FINISHING" | ExecBase.FINISHED => s "FINISHED"
  | ExecBase.QUEUED => s "QUEUED" | ExecBase.FAILED => s "FAILED"
  | ExecBase.INCOMPLETE => s "INCOMPLETE" | ExecBase.HWFAILURE => s "HWFAILURE"
  | ExecBase.TIMEDOUT => s "TIMEDOUT" | ExecBase.UNKNOWN => s "UNKNOWN"
  | ExecBase.CANCELLED => s "CANCELLED" | ExecBase.NOTFOUND => s "NOTFOUND"
  | ExecBase.DRYRUN => s "DRYRUN"
  end.

Definition row_dflt : ExecRun.row := (ExecBase.INITIALIZED, [], 0).

(** one instance: some row of the table has its name and shows its fields *)
Definition shows (trs : list (list str)) (nm : str) (r : ExecRun.row) : bool :=
  let '(st, js, k) := r in
  existsb (fun tr => str_eqb (nth 0 tr []) nm
                     && str_eqb (nth 1 tr []) (last (map job_str js) (s "--"))
                     && str_eqb (nth 3 tr []) (state_name st)
                     && str_eqb (nth 9 tr []) (dec (N.of_nat k))) trs.

(** THE MONITOR against the model's rows *)
Definition shown_ok (name : nat -> str) (rows : list ExecRun.row) (parsed : presult) : bool :=
  match parsed with
  | PTable t =>
    let trs := table_rows t (col_len t) in
    Nat.eqb (List.length trs) (List.length rows)
    && forallb (fun x => shows trs (name x) (nth x rows row_dflt)) (seq 0 (List.length rows))
  | _ => false
  end.

(** the names the scripted-scheduler harness gives the instances: n0, n1, .. *)
Definition node_name (x : nat) : str := s "n" ++ job_str x.

(** a history: configuration, graph, poll inputs, and what get_status returned
    after each poll *)
Definition xcase : Type :=
  (ExecBase.cfg * ExecBase.graph * list ExecBase.pin * list presult)%type.

Definition xcase_ok (c : xcase) : bool :=
  let '(cf, g, pins, tables) := c in
  let obs := ExecRun.run cf g (ExecBase.init g) pins in
  Nat.eqb (List.length obs) (List.length tables)
  && forallb (fun ot : ExecRun.obs * presult => shown_ok node_name (snd (fst (fst ot))) (snd ot))
             (combine obs tables).

(** index of the first poll whose table disagrees (for the report) *)
Definition xcase_first_bad (c : xcase) : list nat :=
  let '(cf, g, pins, tables) := c in
  let obs := ExecRun.run cf g (ExecBase.init g) pins in
  failing (fun ot : ExecRun.obs * presult => shown_ok node_name (snd (fst (fst ot))) (snd ot))
          (combine obs tables).

(** Proofs about the rows of the status table (Rows.v): BFS exactness, every
    instance exactly once, the content of a row, and the monitor [C12_ok] on the
    model's own observable (which ties rows, printer and parser together). *)
From Coq Require Import List Arith Bool NArith Lia Permutation.
From MWF Require Import Base.Util Base.Str Status.Csv Status.CsvProofs Status.Rows.
Import ListNotations.

(* ------------------------------------------------------------------------- *)
(** * list-as-set facts                                                        *)
(* ------------------------------------------------------------------------- *)

Lemma mem_In : forall x l, mem x l = true <-> In x l.
Proof.
  intros x l. unfold mem. rewrite existsb_exists. split.
  - intros (y & Hy & E). apply Nat.eqb_eq in E. subst. exact Hy.
  - intro H. exists x. split; [exact H|apply Nat.eqb_refl].
Qed.

Lemma mem_false : forall x l, mem x l = false <-> ~ In x l.
Proof.
  intros x l. rewrite <- mem_In. destruct (mem x l); intuition congruence.
Qed.

Lemma nodupb_NoDup : forall l, nodupb l = true -> NoDup l.
Proof.
  induction l as [|x l IH]; simpl; intro H; constructor;
    apply andb_true_iff in H; destruct H as [H1 H2].
  - apply negb_true_iff in H1. apply mem_false in H1. exact H1.
  - auto.
Qed.

Lemma NoDup_app_intro_snoc : forall (l : list nat) x,
  NoDup l -> ~ In x l -> NoDup (l ++ [x]).
Proof.
  induction l as [|y l IH]; intros x Hl Hx; simpl.
  - constructor; [intros []|constructor].
  - inversion Hl as [|? ? Hy Hl']; subst. constructor.
    + intro H. apply in_app_or in H. destruct H as [H|[H|[]]]; [contradiction|].
      subst. apply Hx. left. reflexivity.
    + apply IH; [exact Hl'|]. intro H. apply Hx. right. exact H.
Qed.

(* ------------------------------------------------------------------------- *)
(** * reachability                                                             *)
(* ------------------------------------------------------------------------- *)

Inductive reach (sc : nat -> list nat) : nat -> nat -> Prop :=
| reach_refl : forall x, reach sc x x
| reach_step : forall x y z, In y (sc x) -> reach sc y z -> reach sc x z.

Lemma reach_snoc : forall sc x y z, reach sc x y -> In z (sc y) -> reach sc x z.
Proof.
  intros sc x y z H. induction H as [x|x y' y Hxy Hr IH]; intro Hz.
  - eapply reach_step; [exact Hz|apply reach_refl].
  - eapply reach_step; [exact Hxy|apply IH, Hz].
Qed.

Lemma reach_closed : forall sc (S : nat -> Prop),
  (forall x y, S x -> In y (sc x) -> S y) ->
  forall x z, reach sc x z -> S x -> S z.
Proof.
  intros sc S Hc x z H. induction H as [x|x y z Hxy Hr IH]; intro Hx; [exact Hx|].
  apply IH. eapply Hc; eassumption.
Qed.

(* ------------------------------------------------------------------------- *)
(** * DAG.bfs_subtree                                                          *)
(* ------------------------------------------------------------------------- *)

Lemma bfs_scan_spec : forall cs q p, exists new,
  bfs_scan cs q p = (q ++ new, p ++ new) /\ incl new cs /\
  (forall c, In c cs -> In c (p ++ new)) /\ (NoDup p -> NoDup (p ++ new)).
Proof.
  induction cs as [|c cs IH]; intros q p.
  - exists []. rewrite !app_nil_r. split; [reflexivity|]. split; [apply incl_refl|].
    split; [intros ? []|auto].
  - simpl. destruct (mem c p) eqn:E.
    + destruct (IH q p) as (new & H1 & H2 & H3 & H4). exists new. repeat split; auto.
      * intros x Hx. right. apply H2, Hx.
      * intros x [<-|Hx]; [apply in_or_app; left; apply mem_In, E|apply H3, Hx].
    + destruct (IH (q ++ [c]) (p ++ [c])) as (new & H1 & H2 & H3 & H4).
      exists (c :: new). rewrite H1. rewrite <- !app_assoc. simpl. repeat split.
      * intros x [<-|Hx]; [left; reflexivity|right; apply H2, Hx].
      * intros x [<-|Hx].
        -- apply in_or_app. right. left. reflexivity.
        -- specialize (H3 x Hx). rewrite <- app_assoc in H3. exact H3.
      * intro Hnd. rewrite <- app_assoc in H4. apply H4.
        apply NoDup_app_intro_snoc; [exact Hnd|apply mem_false, E].
Qed.

(** the loop, with the invariant "path = dequeued ++ queue" *)
Lemma bfs_loop_spec : forall sc (P : nat -> Prop) (U : list nat),
  (forall x y, In y (sc x) -> In y U) ->
  (forall x y, P x -> In y (sc x) -> P y) ->
  forall fuel done q,
    NoDup (done ++ q) -> incl (done ++ q) U -> (forall x, In x (done ++ q) -> P x) ->
    List.length U <= fuel + List.length done ->
    (forall x y, In x done -> In y (sc x) -> In y (done ++ q)) ->
    exists r, bfs_loop sc fuel q (done ++ q) = Some r /\ NoDup r /\ incl (done ++ q) r /\
              (forall x, In x r -> P x) /\
              (forall x y, In x r -> In y (sc x) -> In y r).
Proof.
  intros sc P U HU HP. induction fuel as [|f IH]; intros done q Hnd Hincl HPp Hlen Hclosed.
  - destruct q as [|root q'].
    + exists (done ++ []). simpl.
      split; [reflexivity|]. split; [exact Hnd|]. split; [apply incl_refl|].
      split; [exact HPp|]. intros x y Hx Hy. apply (Hclosed x y); [|exact Hy].
      rewrite app_nil_r in Hx. exact Hx.
    + exfalso. pose proof (NoDup_incl_length Hnd Hincl) as HL.
      rewrite app_length in HL. simpl in HL, Hlen. lia.
  - destruct q as [|root q'].
    + exists (done ++ []). simpl.
      split; [reflexivity|]. split; [exact Hnd|]. split; [apply incl_refl|].
      split; [exact HPp|]. intros x y Hx Hy. apply (Hclosed x y); [|exact Hy].
      rewrite app_nil_r in Hx. exact Hx.
    + simpl.
      destruct (bfs_scan_spec (sc root) q' (done ++ root :: q')) as (new & Hs & Hn1 & Hn2 & Hn3).
      rewrite Hs.
      assert (E : (done ++ root :: q') ++ new = (done ++ [root]) ++ (q' ++ new)).
      { rewrite <- !app_assoc. reflexivity. }
      rewrite E.
      assert (Hroot : In root (done ++ root :: q')) by (apply in_or_app; right; left; reflexivity).
      destruct (IH (done ++ [root]) (q' ++ new)) as (r & Hr1 & Hr2 & Hr3 & Hr4 & Hr5).
      * rewrite <- E. apply Hn3, Hnd.
      * rewrite <- E. intros x Hx. apply in_app_or in Hx. destruct Hx as [Hx|Hx].
        -- apply Hincl, Hx.
        -- eapply HU. apply Hn1, Hx.
      * rewrite <- E. intros x Hx. apply in_app_or in Hx. destruct Hx as [Hx|Hx].
        -- apply HPp, Hx.
        -- eapply HP; [apply HPp, Hroot|apply Hn1, Hx].
      * rewrite app_length. simpl. lia.
      * rewrite <- E. intros x y Hx Hy. apply in_app_or in Hx. destruct Hx as [Hx|[<-|[]]].
        -- apply in_or_app. left. apply (Hclosed x y); assumption.
        -- apply Hn2, Hy.
      * exists r. split; [exact Hr1|]. split; [exact Hr2|]. split; [|split; [exact Hr4|exact Hr5]].
        intros x Hx. apply Hr3. rewrite <- E. apply in_or_app. left. exact Hx.
Qed.

Lemma lookup_In : forall g v l, lookup g v = Some l -> In (v, l) g.
Proof.
  induction g as [|[k l'] g IH]; intros v l H; [discriminate|].
  simpl in H. destruct (Nat.eqb k v) eqn:E.
  - apply Nat.eqb_eq in E. inversion H; subst. left. reflexivity.
  - right. apply IH, H.
Qed.

Lemma succs_targets : forall g x y, In y (succs g x) -> In y (flat_map snd g).
Proof.
  intros g x y H. unfold succs in H. destruct (lookup g x) as [l|] eqn:E; [|destruct H].
  apply in_flat_map. exists (x, l). split; [apply lookup_In, E|exact H].
Qed.

(** the fuel of [bfs] always suffices, and the result is exactly the set of
    nodes reachable from [src], each once *)
Lemma bfs_total : forall g src, exists r,
  bfs_loop (succs g) (bfs_fuel g) [src] [src] = Some r /\ NoDup r /\
  forall x, In x r <-> reach (succs g) src x.
Proof.
  intros g src.
  destruct (bfs_loop_spec (succs g) (reach (succs g) src) (src :: flat_map snd g)) with
      (fuel := bfs_fuel g) (done := @nil nat) (q := [src])
    as (r & H1 & H2 & H3 & H4 & H5).
  - intros x y H. right. eapply succs_targets, H.
  - intros x y Hx Hy. eapply reach_snoc; eassumption.
  - repeat constructor. intros [].
  - intros x [<-|[]]. left. reflexivity.
  - intros x [<-|[]]. apply reach_refl.
  - unfold bfs_fuel. simpl. lia.
  - intros x y [].
  - exists r. split; [exact H1|]. split; [exact H2|]. intro x. split; [apply H4|].
    intro Hr. apply (reach_closed (succs g) (fun z => In z r) H5 src x Hr).
    apply H3. left. reflexivity.
Qed.

Theorem bfs_exact : forall g src,
  NoDup (bfs g src) /\ forall x, In x (bfs g src) <-> reach (succs g) src x.
Proof.
  intros g src. destruct (bfs_total g src) as (r & H1 & H2 & H3).
  unfold bfs. rewrite H1. split; assumption.
Qed.

(* ------------------------------------------------------------------------- *)
(** * every instance exactly once                                              *)
(* ------------------------------------------------------------------------- *)

Lemma wfb_parts : forall g src, wfb g src = true ->
  NoDup (keys g) /\ In src (keys g) /\
  forall x y, In y (succs g x) -> In y (keys g).
Proof.
  intros g src H. unfold wfb in H.
  apply andb_true_iff in H. destruct H as [H H3].
  apply andb_true_iff in H. destruct H as [H1 H2].
  split; [apply nodupb_NoDup, H1|]. split; [apply mem_In, H2|].
  intros x y Hy. unfold succs in Hy. destruct (lookup g x) as [l|] eqn:E; [|destruct Hy].
  apply lookup_In in E. rewrite forallb_forall in H3. specialize (H3 _ E). simpl in H3.
  rewrite forallb_forall in H3. apply mem_In, H3, Hy.
Qed.

Theorem rows_once : forall g src,
  wfb g src = true ->
  (forall x, In x (keys g) -> reach (succs g) src x) ->
  NoDup (status_order g src) /\ Permutation (status_order g src) (instances g src).
Proof.
  intros g src Hwf Hreach.
  destruct (wfb_parts g src Hwf) as (Hnd & Hsrc & Hedge).
  destruct (bfs_exact g src) as (Hb1 & Hb2).
  assert (N1 : NoDup (status_order g src)) by (apply NoDup_filter, Hb1).
  split; [exact N1|].
  apply NoDup_Permutation; [exact N1|apply NoDup_filter, Hnd|].
  intro x. unfold status_order, instances. rewrite !filter_In, Hb2. split; intros [H1 H2]; split; auto.
  eapply (reach_closed (succs g) (fun z => In z (keys g))); [|exact H1|exact Hsrc].
  intros a b Ha Hab. eapply Hedge, Hab.
Qed.

(** staging gives reachability: every instance has an earlier parent *)
Lemma staged_reach : forall g src,
  stagedb g src = true -> forall x, In x (keys g) -> reach (succs g) src x.
Proof.
  intros g src H. unfold stagedb in H. rewrite forallb_forall in H.
  assert (G : forall n x, x < n -> In x (keys g) -> reach (succs g) src x).
  { induction n as [|n IH]; intros x Hlt Hx; [lia|].
    specialize (H x Hx). apply orb_true_iff in H. destruct H as [H|H].
    - apply Nat.eqb_eq in H. subst. apply reach_refl.
    - apply existsb_exists in H. destruct H as (p & Hp & Hpx).
      apply andb_true_iff in Hpx. destruct Hpx as [Hlt' Hm].
      apply Nat.ltb_lt in Hlt'. apply mem_In in Hm.
      eapply reach_snoc; [|exact Hm]. apply IH; [lia|exact Hp]. }
  intros x Hx. apply (G (S x) x); [lia|exact Hx].
Qed.

Definition name_of (recs : list rec) (k : nat) : str := r_name (rec_of recs k).

Lemma names_of_rows : forall g src recs,
  map (hd []) (status_rows g src recs) = map (name_of recs) (status_order g src).
Proof. intros. unfold status_rows. rewrite map_map. reflexivity. Qed.

Theorem rows_once_names : forall g src recs,
  wfb g src = true ->
  (forall x, In x (keys g) -> reach (succs g) src x) ->
  NoDup (map (name_of recs) (instances g src)) ->
  NoDup (map (hd []) (status_rows g src recs)) /\
  Permutation (map (hd []) (status_rows g src recs)) (map (name_of recs) (instances g src)).
Proof.
  intros g src recs Hwf Hreach Hnames.
  destruct (rows_once g src Hwf Hreach) as [_ Hp].
  rewrite names_of_rows. split.
  - eapply Permutation_NoDup; [|exact Hnames]. apply Permutation_sym, Permutation_map, Hp.
  - apply Permutation_map, Hp.
Qed.

(* ------------------------------------------------------------------------- *)
(** * the content of a row                                                     *)
(* ------------------------------------------------------------------------- *)

Lemma nth_map_lt : forall {A B} (f : A -> B) (l : list A) i d d',
  i < List.length l -> nth i (map f l) d = f (nth i l d').
Proof.
  intros A B f l. induction l as [|a l IH]; intros i d d' H; simpl in *; [lia|].
  destruct i as [|i]; [reflexivity|]. apply IH. lia.
Qed.

Theorem row_content : forall g src recs i,
  i < List.length (status_order g src) ->
  let r := rec_of recs (nth i (status_order g src) 0) in
  nth i (status_rows g src recs) [] =
  [ r_name r;                              (* Step Name *)
    last (r_jobids r) (s "--");            (* Job ID: the latest one, or "--" *)
    ws_short r;                            (* Workspace, shortened *)
    r_state r;                             (* State *)
    time_cell r 0; time_cell r 1; time_cell r 2; time_cell r 3; time_cell r 4;
    dec (r_restarts r);                    (* Number Restarts *)
    join [semicolon] (map (fun kv => fst kv ++ [colon] ++ snd kv) (r_params r)) ].
Proof.
  intros g src recs i Hi r. unfold status_rows.
  rewrite (nth_map_lt (fun k => row_of (rec_of recs k)) _ i [] 0 Hi). reflexivity.
Qed.

Lemma row_length : forall r, List.length (row_of r) = 11.
Proof. reflexivity. Qed.

Lemma jobid_str_none : forall r, r_jobids r = [] -> jobid_str r = s "--".
Proof. intros r H. unfold jobid_str. rewrite H. reflexivity. Qed.

Lemma jobid_str_latest : forall r l j, r_jobids r = l ++ [j] -> jobid_str r = j.
Proof. intros r l j H. unfold jobid_str. rewrite H. apply last_last. Qed.

(** HOOK lemma: which cell of a row shows which part of the dynamic table *)
Lemma row_dyn_content : forall st d,
  let row := row_of (mk_rec (st, d)) in
  nth 0 row [] = sr_name st /\
  nth 1 row [] = last (d_jobids d) (s "--") /\
  nth 3 row [] = d_state d /\
  nth 9 row [] = dec (d_restarts d).
Proof. intros st d. repeat split. Qed.

(* ------------------------------------------------------------------------- *)
(** * the monitor on the model's observable                                    *)
(* ------------------------------------------------------------------------- *)

Lemma strs_eqb_eq : forall a b, strs_eqb a b = true <-> a = b.
Proof.
  induction a as [|x a IH]; destruct b as [|y b]; simpl; split; intro H;
    try reflexivity; try discriminate.
  - apply andb_true_iff in H. destruct H as [H1 H2].
    apply str_eqb_eq in H1. apply IH in H2. subst. reflexivity.
  - inversion H; subst. rewrite str_eqb_refl. simpl. apply IH. reflexivity.
Qed.

Lemma NoDup_str_nodupb : forall l, NoDup l -> str_nodupb l = true.
Proof.
  induction l as [|x l IH]; intro H; [reflexivity|].
  inversion H as [|? ? Hx Hl]; subst. simpl. rewrite (IH Hl), andb_true_r.
  apply negb_true_iff. destruct (str_mem x l) eqn:E; [|reflexivity].
  apply str_mem_In in E. contradiction.
Qed.

Lemma count_row_perm : forall r a b, Permutation a b -> count_row r a = count_row r b.
Proof.
  intros r a b H. induction H; simpl; try lia.
Qed.

Lemma same_rows_perm : forall a b, Permutation a b -> same_rows a b = true.
Proof.
  intros a b H. unfold same_rows. apply forallb_forall. intros r _.
  apply Nat.eqb_eq. apply count_row_perm, H.
Qed.

Lemma columns_col_lengths : forall hdr rows kc,
  In kc (columns hdr rows) -> List.length (snd kc) = List.length rows.
Proof.
  induction hdr as [|h hs IH]; intros rows kc H; [destruct H|].
  simpl in H. destruct H as [<-|H].
  - simpl. apply map_length.
  - rewrite (IH _ _ H). apply map_length.
Qed.

Lemma zip_cons_hd_tl : forall rows : list (list str),
  Forall (fun r => r <> []) rows -> zip_cons (map (hd []) rows) (map (@tl str) rows) = rows.
Proof.
  induction rows as [|r rows IH]; intro H; [reflexivity|].
  inversion H as [|? ? Hr Hrows]; subst. destruct r as [|c cs]; [congruence|].
  simpl. rewrite (IH Hrows). reflexivity.
Qed.

Lemma table_rows_columns : forall hdr rows,
  Forall (fun r => List.length r = List.length hdr) rows ->
  table_rows (columns hdr rows) (List.length rows) = rows.
Proof.
  induction hdr as [|h hs IH]; intros rows H.
  - simpl. induction rows as [|r rows IHr]; [reflexivity|].
    inversion H as [|? ? Hr Hrows]; subst. destruct r; [|discriminate].
    simpl. rewrite (IHr Hrows). reflexivity.
  - simpl. rewrite <- (map_length (@tl str) rows). rewrite IH.
    + apply zip_cons_hd_tl. eapply Forall_impl; [|exact H].
      intros r Hr. destruct r; [discriminate|discriminate].
    + apply Forall_forall. intros r' Hr'. apply in_map_iff in Hr'.
      destruct Hr' as (r & <- & Hr). rewrite Forall_forall in H. specialize (H r Hr).
      destruct r; simpl in *; lia.
Qed.

Lemma status_rows_wf : forall g src recs,
  table_wf status_header (status_rows g src recs) = true.
Proof.
  intros. apply status_header_wf. apply forallb_forall. intros r Hr.
  unfold status_rows in Hr. apply in_map_iff in Hr. destruct Hr as (k & <- & _). reflexivity.
Qed.

(** C12_roundtrip specialised to the status table *)
Theorem status_roundtrip : forall g src recs,
  H12_rows g src recs = true ->
  parse (status_text g src recs) = PTable (columns status_header (status_rows g src recs)).
Proof.
  intros g src recs H. unfold status_text. apply roundtrip; [apply status_rows_wf|exact H].
Qed.

Lemma valid_parts : forall g src recs, valid g src recs = true ->
  wfb g src = true /\ (forall x, In x (keys g) -> reach (succs g) src x) /\
  NoDup (map (name_of recs) (instances g src)).
Proof.
  intros g src recs H. unfold valid in H.
  apply andb_true_iff in H. destruct H as [H H3].
  apply andb_true_iff in H. destruct H as [H1 H2].
  split; [exact H1|]. split; [apply staged_reach, H2|].
  apply str_nodupb_NoDup in H3. exact H3.
Qed.

Lemma C12_ok_columns : forall g src recs (hdr : list str) rows,
  hdr = status_header ->
  Forall (fun r => List.length r = List.length hdr) rows ->
  NoDup (map (hd []) rows) ->
  Permutation rows (expected_rows g src recs) ->
  C12_ok g src recs (PTable (columns hdr rows)) = true.
Proof.
  intros g src recs hdr rows Hh Hlen Hnd Hperm.
  unfold C12_ok. rewrite columns_keys.
  assert (Hcl : col_len (columns hdr rows) = List.length rows).
  { subst hdr. simpl. apply map_length. }
  rewrite Hcl, table_rows_columns by exact Hlen.
  rewrite (same_rows_perm _ _ Hperm), andb_true_r.
  apply andb_true_iff. split; [apply andb_true_iff; split|].
  - apply strs_eqb_eq, Hh.
  - unfold rect. apply forallb_forall. intros kc Hkc. rewrite Hcl.
    apply Nat.eqb_eq. eapply columns_col_lengths, Hkc.
  - subst hdr. simpl. apply NoDup_str_nodupb, Hnd.
Qed.

(** THE theorem the monitor is about: on a staged graph with distinct instance
    names and cells within H12, what the status command reads back from what
    the conductor wrote is exactly one row per instance with its current
    fields. *)
Theorem C12_ok_model : forall g src recs,
  valid g src recs = true -> H12_rows g src recs = true ->
  C12_ok g src recs (snd (model_obs g src recs)) = true.
Proof.
  intros g src recs Hv Hh. destruct (valid_parts g src recs Hv) as (Hwf & Hreach & Hnames).
  unfold model_obs. simpl snd. rewrite (status_roundtrip g src recs Hh).
  destruct (rows_once g src Hwf Hreach) as [_ Hp].
  destruct (rows_once_names g src recs Hwf Hreach Hnames) as [Hn _].
  apply C12_ok_columns.
  - reflexivity.
  - apply Forall_forall. intros r Hr. unfold status_rows in Hr. apply in_map_iff in Hr.
    destruct Hr as (k & <- & _). reflexivity.
  - exact Hn.
  - unfold status_rows, expected_rows. apply Permutation_map, Hp.
Qed.

(** conversely the monitor is not vacuous: it rejects a table with a missing,
    a duplicated or a stale row (examples in Props/C12.v) *)

Theorem rows_once_staged : forall g src recs,
  wfb g src = true -> stagedb g src = true ->
  NoDup (map (name_of recs) (instances g src)) ->
  NoDup (map (hd []) (status_rows g src recs)) /\
  Permutation (map (hd []) (status_rows g src recs)) (map (name_of recs) (instances g src)).
Proof.
  intros g src recs Hwf Hst. apply rows_once_names; [exact Hwf|apply staged_reach, Hst].
Qed.

(** the dynamic-table reading of a row (HOOK for the execution model): the row of
    the [i]-th node in status order shows that node's state, latest job id and
    restart count *)
Theorem row_dyn_consistent : forall g src statics dyn i,
  i < List.length (status_order g src) ->
  let k := nth i (status_order g src) 0 in
  k < List.length statics -> List.length statics = List.length dyn ->
  let row := nth i (status_rows_dyn g src statics dyn) [] in
  let st := nth k statics (mkStatic [] [] []) in
  let d := nth k dyn (mkDyn [] [] 0%N []) in
  nth 0 row [] = sr_name st /\
  nth 1 row [] = last (d_jobids d) (s "--") /\
  nth 3 row [] = d_state d /\
  nth 9 row [] = dec (d_restarts d) /\
  nth 10 row [] = join [semicolon] (map (fun kv => fst kv ++ [colon] ++ snd kv) (sr_params st)).
Proof.
  intros g src statics dyn i Hi k Hk Hlen row st d.
  subst row. unfold status_rows_dyn.
  rewrite (row_content g src _ i Hi). fold k.
  assert (E : rec_of (map mk_rec (combine statics dyn)) k = mk_rec (st, d)).
  { unfold rec_of. rewrite nth_map_lt with (d' := (mkStatic [] [] [], mkDyn [] [] 0%N [])).
    - rewrite combine_nth by exact Hlen. reflexivity.
    - rewrite combine_length, <- Hlen, Nat.min_id. exact Hk. }
  rewrite E. simpl. repeat split.
Qed.

(* ------------------------------------------------------------------------- *)
(** * trace-level consistency of the Job ID column                             *)
(* ------------------------------------------------------------------------- *)

Lemma last_sub_gen : forall subs x acc,
  fold_left (fun a p => if Nat.eqb (fst p) x then Some (snd p) else a) subs acc
  = match subs_of subs x with [] => acc | j :: l => Some (last (j :: l) 0) end.
Proof.
  induction subs as [|[y j] subs IH]; intros x acc; [reflexivity|].
  simpl fold_left. rewrite IH. unfold subs_of. simpl filter.
  destruct (Nat.eqb y x); simpl map.
  - fold (subs_of subs x). destruct (subs_of subs x); reflexivity.
  - reflexivity.
Qed.

Lemma jobid_cell_last : forall subs x,
  jobid_cell (last_sub subs x) = last (map job_str (subs_of subs x)) (s "--").
Proof.
  intros subs x. unfold last_sub. rewrite last_sub_gen.
  destruct (subs_of subs x) as [|j l]; [reflexivity|].
  simpl jobid_cell. generalize j. induction l as [|j' l IH]; intro j0; [reflexivity|].
  change (last (j0 :: j' :: l) 0) with (last (j' :: l) 0).
  change (last (map job_str (j0 :: j' :: l)) (s "--")) with (last (map job_str (j' :: l)) (s "--")).
  apply IH.
Qed.

Theorem job_column_model : forall g src recs subs,
  valid g src recs = true -> H12_rows g src recs = true ->
  jobs_coupled g src recs subs = true ->
  job_column_ok g src recs subs (snd (model_obs g src recs)) = true.
Proof.
  intros g src recs subs Hv Hh Hc. destruct (valid_parts g src recs Hv) as (Hwf & Hreach & _).
  unfold model_obs. simpl snd. rewrite (status_roundtrip g src recs Hh). unfold job_column_ok.
  assert (Hcl : col_len (columns status_header (status_rows g src recs))
                = List.length (status_rows g src recs)) by (simpl; apply map_length).
  rewrite Hcl, table_rows_columns.
  2:{ apply Forall_forall. intros r Hr. unfold status_rows in Hr. apply in_map_iff in Hr.
      destruct Hr as (k & <- & _). reflexivity. }
  apply forallb_forall. intros k Hk. apply existsb_exists.
  exists (row_of (rec_of recs k)). split.
  - unfold status_rows. apply (in_map (fun k0 => row_of (rec_of recs k0))).
    destruct (rows_once g src Hwf Hreach) as [_ Hp].
    eapply Permutation_in; [apply Permutation_sym, Hp|exact Hk].
  - simpl nth. rewrite str_eqb_refl. simpl. apply str_eqb_eq.
    unfold jobid_str. rewrite jobid_cell_last.
    unfold jobs_coupled in Hc. rewrite forallb_forall in Hc. specialize (Hc k Hk).
    apply strs_eqb_eq in Hc. rewrite Hc. reflexivity.
Qed.

(** Proofs about the interleaving semantics of Status/Lock.v: under the lock
    discipline found in the source, for EVERY schedule a [get_status] call ends
    with the empty answer or with exactly the last completely written table;
    a torn or partial text is never delivered, [open] never fails, and the file
    at rest is always a complete table (also after Timeout branches). *)
From Coq Require Import List Arith Bool NArith Lia.
From MWF Require Import Base.Util Base.Str Status.Lock.
Import ListNotations.

(* ------------------------------------------------------------------------- *)
(** * lists                                                                    *)
(* ------------------------------------------------------------------------- *)

Lemma firstn_add : forall {A} n m (l : list A),
  firstn (n + m) l = firstn n l ++ firstn m (skipn n l).
Proof.
  intros A. induction n as [|n IH]; intros m l; [reflexivity|].
  destruct l as [|a l]; simpl.
  - destruct m; reflexivity.
  - rewrite IH. reflexivity.
Qed.

Lemma firstn_length_firstn : forall {A} m (l : list A),
  firstn (List.length (firstn m l)) l = firstn m l.
Proof.
  intros A. induction m as [|m IH]; intros l; [reflexivity|].
  destruct l as [|a l]; simpl; [reflexivity|]. rewrite IH. reflexivity.
Qed.

Lemma prefix_extend : forall {A} (acc t : list A) m,
  acc = firstn (List.length acc) t ->
  let acc' := acc ++ firstn m (skipn (List.length acc) t) in
  acc' = firstn (List.length acc') t.
Proof.
  intros A acc t m H acc'. subst acc'. rewrite app_length, firstn_add.
  rewrite <- H. f_equal. symmetry. apply firstn_length_firstn.
Qed.

Lemma prefix_eof : forall {A} (acc t : list A),
  acc = firstn (List.length acc) t -> skipn (List.length acc) t = [] -> acc = t.
Proof.
  intros A acc t H E. rewrite <- (firstn_skipn (List.length acc) t), E, app_nil_r. exact H.
Qed.

(* ------------------------------------------------------------------------- *)
(** * the invariant of the locked discipline                                   *)
(* ------------------------------------------------------------------------- *)

(** what must be true of the file while a process is at [p] *)
Definition pc_ok (f c : option str) (p : pc) : Prop :=
  match p with
  | WWrite cs full => exists pre, f = Some pre /\ pre ++ List.concat cs = full
  | RAcq => f <> None
  | ROpen => f <> None /\ f = c
  | RRead acc => f = c /\ exists t, f = Some t /\ acc = firstn (List.length acc) t
  | _ => True
  end.

Definition entry_ok (e : nat * answer * option str) : Prop :=
  let '(_, a, cm) := e in a = AEmpty \/ exists t, a = AText t /\ cm = Some t.

Record Inv (s : state) : Prop := mkInv {
  inv_holder : forall j, holds (fst (procs s j)) = true -> lock s = Some j;
  inv_lock : forall h, lock s = Some h -> holds (fst (procs s h)) = true;
  inv_pc : forall j, pc_ok (file s) (committed s) (fst (procs s j));
  inv_free : lock s = None -> file s = committed s;
  inv_log : forall e, In e (log s) -> entry_ok e
}.

Lemma Inv_init : forall f0 progs, Inv (init f0 progs).
Proof.
  intros f0 progs. constructor; simpl.
  - intros j H. discriminate.
  - intros h H. discriminate.
  - intros j. exact I.
  - reflexivity.
  - intros e [].
Qed.

Lemma setp_same : forall i p f, setp i p f i = p.
Proof. intros. unfold setp. rewrite Nat.eqb_refl. reflexivity. Qed.

Lemma setp_other : forall i j p f, j <> i -> setp i p f j = f j.
Proof. intros i j p f H. unfold setp. apply Nat.eqb_neq in H. rewrite H. reflexivity. Qed.

(** processes other than the holder do not own the critical section *)
Lemma others_do_not_hold : forall s i j,
  Inv s -> lock s = Some i -> j <> i -> holds (fst (procs s j)) = false.
Proof.
  intros s i j HI Hl Hne. destruct (holds (fst (procs s j))) eqn:E; [|reflexivity].
  apply (inv_holder s HI) in E. rewrite Hl in E. inversion E. congruence.
Qed.

Lemma nobody_holds_free : forall s j,
  Inv s -> lock s = None -> holds (fst (procs s j)) = false.
Proof.
  intros s j HI Hl. destruct (holds (fst (procs s j))) eqn:E; [|reflexivity].
  apply (inv_holder s HI) in E. rewrite Hl in E. discriminate.
Qed.

(** a process outside the critical section only needs the file to exist *)
Lemma pc_ok_outside : forall f c f' c' p,
  holds p = false -> (f <> None -> f' <> None) -> pc_ok f c p -> pc_ok f' c' p.
Proof.
  intros f c f' c' p Hh Hf H. destruct p; simpl in *; try discriminate; auto.
Qed.

Ltac inv_pair H := let p := fresh "p" in let todo := fresh "todo" in
  destruct H as [p todo].

Theorem Inv_step : forall i g k s s',
  Inv s -> step locked i g k s = Some s' -> Inv s'.
Proof.
  intros i g k s s' HI Hs. unfold step in Hs.
  destruct (procs s i) as [p todo] eqn:Ei.
  assert (Hpi : fst (procs s i) = p) by (rewrite Ei; reflexivity).
  pose proof (inv_pc s HI i) as Hpc. rewrite Hpi in Hpc.
  destruct p as [|cs|cs|cs full| | |acc]; simpl wlock in Hs; simpl rlock in Hs; cbv iota in Hs.
  - (* Idle *)
    destruct todo as [|[cs|] todo']; [discriminate| |].
    + (* -> WAcq *)
      inversion Hs; subst s'; clear Hs. constructor; simpl.
      * intros j H. destruct (Nat.eq_dec j i) as [->|Hne].
        -- rewrite setp_same in H. discriminate.
        -- rewrite setp_other in H by exact Hne. apply (inv_holder s HI), H.
      * intros h H. destruct (Nat.eq_dec h i) as [->|Hne].
        -- apply (inv_lock s HI) in H. rewrite Hpi in H. discriminate.
        -- rewrite setp_other by exact Hne. apply (inv_lock s HI), H.
      * intros j. destruct (Nat.eq_dec j i) as [->|Hne].
        -- rewrite setp_same. exact I.
        -- rewrite setp_other by exact Hne. apply (inv_pc s HI).
      * apply (inv_free s HI).
      * apply (inv_log s HI).
    + (* JRead *)
      destruct (file s) as [t|] eqn:Ef; inversion Hs; subst s'; clear Hs; constructor; simpl.
      * intros j H. destruct (Nat.eq_dec j i) as [->|Hne].
        -- rewrite setp_same in H. discriminate.
        -- rewrite setp_other in H by exact Hne. apply (inv_holder s HI), H.
      * intros h H. destruct (Nat.eq_dec h i) as [->|Hne].
        -- apply (inv_lock s HI) in H. rewrite Hpi in H. discriminate.
        -- rewrite setp_other by exact Hne. apply (inv_lock s HI), H.
      * intros j. destruct (Nat.eq_dec j i) as [->|Hne].
        -- rewrite setp_same. simpl. rewrite Ef. discriminate.
        -- rewrite setp_other by exact Hne. apply (inv_pc s HI).
      * apply (inv_free s HI).
      * apply (inv_log s HI).
      * intros j H. destruct (Nat.eq_dec j i) as [->|Hne].
        -- rewrite setp_same in H. discriminate.
        -- rewrite setp_other in H by exact Hne. apply (inv_holder s HI), H.
      * intros h H. destruct (Nat.eq_dec h i) as [->|Hne].
        -- apply (inv_lock s HI) in H. rewrite Hpi in H. discriminate.
        -- rewrite setp_other by exact Hne. apply (inv_lock s HI), H.
      * intros j. destruct (Nat.eq_dec j i) as [->|Hne].
        -- rewrite setp_same. exact I.
        -- rewrite setp_other by exact Hne. apply (inv_pc s HI).
      * apply (inv_free s HI).
      * intros e [<-|He]; [left; reflexivity|apply (inv_log s HI), He].
  - (* WAcq *)
    destruct (lock s) as [h|] eqn:El.
    + destruct g; [|discriminate]. inversion Hs; subst s'; clear Hs. constructor; simpl.
      * intros j H. destruct (Nat.eq_dec j i) as [->|Hne].
        -- rewrite setp_same in H. discriminate.
        -- rewrite setp_other in H by exact Hne. apply (inv_holder s HI), H.
      * intros h' H. rewrite El in H. inversion H; subst h'. destruct (Nat.eq_dec h i) as [->|Hne].
        -- apply (inv_lock s HI) in El. rewrite Hpi in El. discriminate.
        -- rewrite setp_other by exact Hne. apply (inv_lock s HI), El.
      * intros j. destruct (Nat.eq_dec j i) as [->|Hne].
        -- rewrite setp_same. exact I.
        -- rewrite setp_other by exact Hne. apply (inv_pc s HI).
      * intro H. rewrite El in H. discriminate.
      * apply (inv_log s HI).
    + inversion Hs; subst s'; clear Hs. constructor; simpl.
      * intros j H. destruct (Nat.eq_dec j i) as [->|Hne]; [reflexivity|].
        rewrite setp_other in H by exact Hne.
        rewrite (nobody_holds_free s j HI El) in H. discriminate.
      * intros h H. inversion H; subst h. rewrite setp_same. reflexivity.
      * intros j. destruct (Nat.eq_dec j i) as [->|Hne].
        -- rewrite setp_same. exact I.
        -- rewrite setp_other by exact Hne. apply (inv_pc s HI).
      * discriminate.
      * apply (inv_log s HI).
  - (* WOpen: truncate *)
    inversion Hs; subst s'; clear Hs.
    assert (Hl : lock s = Some i) by (apply (inv_holder s HI); rewrite Hpi; reflexivity).
    constructor; simpl.
    + intros j H. destruct (Nat.eq_dec j i) as [->|Hne]; [exact Hl|].
      rewrite setp_other in H by exact Hne. apply (inv_holder s HI), H.
    + intros h H. rewrite Hl in H. inversion H; subst h. rewrite setp_same. reflexivity.
    + intros j. destruct (Nat.eq_dec j i) as [->|Hne].
      * rewrite setp_same. simpl. exists []. split; reflexivity.
      * rewrite setp_other by exact Hne.
        eapply pc_ok_outside; [apply (others_do_not_hold s i j HI Hl Hne)| |apply (inv_pc s HI)].
        intros _. discriminate.
    + intro H. rewrite Hl in H. discriminate.
    + apply (inv_log s HI).
  - (* WWrite *)
    assert (Hl : lock s = Some i) by (apply (inv_holder s HI); rewrite Hpi; reflexivity).
    simpl in Hpc. destruct Hpc as (pre & Hf & Hfull).
    destruct cs as [|ch cs]; inversion Hs; subst s'; clear Hs; constructor; simpl.
    + (* close; release *)
      intros j H. destruct (Nat.eq_dec j i) as [->|Hne].
      * rewrite setp_same in H. discriminate.
      * rewrite setp_other in H by exact Hne.
        rewrite (others_do_not_hold s i j HI Hl Hne) in H. discriminate.
    + intros h H. discriminate.
    + intros j. destruct (Nat.eq_dec j i) as [->|Hne].
      * rewrite setp_same. exact I.
      * rewrite setp_other by exact Hne.
        eapply pc_ok_outside; [apply (others_do_not_hold s i j HI Hl Hne)| |apply (inv_pc s HI)].
        auto.
    + intros _. rewrite Hf. simpl in Hfull. rewrite app_nil_r in Hfull. subst. reflexivity.
    + apply (inv_log s HI).
    + (* one more chunk *)
      intros j H. destruct (Nat.eq_dec j i) as [->|Hne]; [exact Hl|].
      rewrite setp_other in H by exact Hne. apply (inv_holder s HI), H.
    + intros h H. rewrite Hl in H. inversion H; subst h. rewrite setp_same. reflexivity.
    + intros j. destruct (Nat.eq_dec j i) as [->|Hne].
      * rewrite setp_same. simpl. rewrite Hf. exists (pre ++ ch). split; [reflexivity|].
        simpl in Hfull. rewrite <- app_assoc. exact Hfull.
      * rewrite setp_other by exact Hne.
        eapply pc_ok_outside; [apply (others_do_not_hold s i j HI Hl Hne)| |apply (inv_pc s HI)].
        intros _. discriminate.
    + intro H. rewrite Hl in H. discriminate.
    + apply (inv_log s HI).
  - (* RAcq *)
    simpl in Hpc.
    destruct (lock s) as [h|] eqn:El.
    + destruct g; [|discriminate]. inversion Hs; subst s'; clear Hs. constructor; simpl.
      * intros j H. destruct (Nat.eq_dec j i) as [->|Hne].
        -- rewrite setp_same in H. discriminate.
        -- rewrite setp_other in H by exact Hne. apply (inv_holder s HI), H.
      * intros h' H. rewrite El in H. inversion H; subst h'. destruct (Nat.eq_dec h i) as [->|Hne].
        -- apply (inv_lock s HI) in El. rewrite Hpi in El. discriminate.
        -- rewrite setp_other by exact Hne. apply (inv_lock s HI), El.
      * intros j. destruct (Nat.eq_dec j i) as [->|Hne].
        -- rewrite setp_same. exact I.
        -- rewrite setp_other by exact Hne. apply (inv_pc s HI).
      * intro H. rewrite El in H. discriminate.
      * intros e [<-|He]; [left; reflexivity|apply (inv_log s HI), He].
    + inversion Hs; subst s'; clear Hs. constructor; simpl.
      * intros j H. destruct (Nat.eq_dec j i) as [->|Hne]; [reflexivity|].
        rewrite setp_other in H by exact Hne.
        rewrite (nobody_holds_free s j HI El) in H. discriminate.
      * intros h H. inversion H; subst h. rewrite setp_same. reflexivity.
      * intros j. destruct (Nat.eq_dec j i) as [->|Hne].
        -- rewrite setp_same. simpl. split; [exact Hpc|apply (inv_free s HI), El].
        -- rewrite setp_other by exact Hne. apply (inv_pc s HI).
      * discriminate.
      * apply (inv_log s HI).
  - (* ROpen *)
    assert (Hl : lock s = Some i) by (apply (inv_holder s HI); rewrite Hpi; reflexivity).
    simpl in Hpc. destruct Hpc as [Hne0 Hfc].
    destruct (file s) as [t|] eqn:Ef; [|congruence].
    inversion Hs; subst s'; clear Hs. constructor; simpl.
    + intros j H. destruct (Nat.eq_dec j i) as [->|Hne]; [exact Hl|].
      rewrite setp_other in H by exact Hne. apply (inv_holder s HI), H.
    + intros h H. rewrite Hl in H. inversion H; subst h. rewrite setp_same. reflexivity.
    + intros j. destruct (Nat.eq_dec j i) as [->|Hne].
      * rewrite setp_same. simpl. rewrite Ef. split; [exact Hfc|]. exists t. split; reflexivity.
      * rewrite setp_other by exact Hne. apply (inv_pc s HI).
    + intro H. rewrite Hl in H. discriminate.
    + apply (inv_log s HI).
  - (* RRead *)
    assert (Hl : lock s = Some i) by (apply (inv_holder s HI); rewrite Hpi; reflexivity).
    simpl in Hpc. destruct Hpc as (Hfc & t & Hf & Hacc).
    rewrite Hf in Hs.
    destruct (skipn (List.length acc) t) as [|c0 rest0] eqn:Erest;
      inversion Hs; subst s'; clear Hs; constructor; simpl.
    + (* end of file: answer; release *)
      intros j H. destruct (Nat.eq_dec j i) as [->|Hne].
      * rewrite setp_same in H. discriminate.
      * rewrite setp_other in H by exact Hne.
        rewrite (others_do_not_hold s i j HI Hl Hne) in H. discriminate.
    + intros h H. discriminate.
    + intros j. destruct (Nat.eq_dec j i) as [->|Hne].
      * rewrite setp_same. exact I.
      * rewrite setp_other by exact Hne. apply (inv_pc s HI).
    + intros _. exact Hfc.
    + intros e [<-|He]; [|apply (inv_log s HI), He].
      right. exists acc. split; [reflexivity|].
      rewrite <- Hfc, Hf. f_equal. symmetry. apply prefix_eof; assumption.
    + (* one more chunk *)
      intros j H. destruct (Nat.eq_dec j i) as [->|Hne]; [exact Hl|].
      rewrite setp_other in H by exact Hne. apply (inv_holder s HI), H.
    + intros h H. rewrite Hl in H. inversion H; subst h. rewrite setp_same. reflexivity.
    + intros j. destruct (Nat.eq_dec j i) as [->|Hne].
      * rewrite setp_same. simpl. split; [exact Hfc|]. exists t. split; [exact Hf|].
        change (c0 :: firstn k rest0) with (firstn (S k) (c0 :: rest0)).
        rewrite <- Erest. apply prefix_extend. exact Hacc.
      * rewrite setp_other by exact Hne. apply (inv_pc s HI).
    + intro H. rewrite Hl in H. discriminate.
    + apply (inv_log s HI).
Qed.

Lemma Inv_run : forall sch s, Inv s -> Inv (run locked sch s).
Proof.
  induction sch as [|[[i g] k] sch IH]; intros s HI; [exact HI|].
  simpl. apply IH. destruct (step locked i g k s) as [s'|] eqn:E; [|exact HI].
  eapply Inv_step; eassumption.
Qed.

(** EVERY schedule: a [get_status] call ends with the empty answer or with the
    text of the last write that ran to completion (before any: the initial
    file) -- never with a torn or partial text, never with a failing [open]. *)
Theorem atomic_latest : forall f0 progs sch i a cm,
  In (i, a, cm) (log (run locked sch (init f0 progs))) ->
  a = AEmpty \/ exists t, a = AText t /\ cm = Some t.
Proof.
  intros f0 progs sch i a cm H.
  apply (inv_log _ (Inv_run sch _ (Inv_init f0 progs)) (i, a, cm) H).
Qed.

(** EVERY schedule: whenever nobody is inside the critical section, status.csv
    IS the last completely written table (in particular after a writer took its
    Timeout branch: the stale complete table stays) *)
Theorem quiescent_complete : forall f0 progs sch,
  let s := run locked sch (init f0 progs) in
  lock s = None -> file s = committed s.
Proof.
  intros f0 progs sch s. apply (inv_free _ (Inv_run sch _ (Inv_init f0 progs))).
Qed.

(* ------------------------------------------------------------------------- *)
(** * [committed] is a complete table (any discipline)                         *)
(* ------------------------------------------------------------------------- *)

Section Complete.
  Variable f0 : option str.
  Variable progs : nat -> list job.

  (** the initial file, or the whole text of one of the write jobs *)
  Definition complete (c : option str) : Prop :=
    c = f0 \/ exists j cs, In (JWrite cs) (progs j) /\ c = Some (List.concat cs).

  Definition pc_src (j : nat) (p : pc) : Prop :=
    match p with
    | WAcq cs | WOpen cs => In (JWrite cs) (progs j)
    | WWrite _ full => exists cs0, In (JWrite cs0) (progs j) /\ full = List.concat cs0
    | _ => True
    end.

  Record Src (s : state) : Prop := mkSrc {
    src_todo : forall j, incl (snd (procs s j)) (progs j);
    src_pc : forall j, pc_src j (fst (procs s j));
    src_committed : complete (committed s);
    src_log : forall e, In e (log s) -> complete (snd e)
  }.

  Lemma Src_init : Src (init f0 progs).
  Proof.
    constructor; simpl.
    - intros j. apply incl_refl.
    - intros j. exact I.
    - left. reflexivity.
    - intros e [].
  Qed.

  Lemma release_procs : forall b s, procs (release b s) = procs s.
  Proof. intros [|] s; reflexivity. Qed.
  Lemma release_log : forall b s, log (release b s) = log s.
  Proof. intros [|] s; reflexivity. Qed.
  Lemma release_committed : forall b s, committed (release b s) = committed s.
  Proof. intros [|] s; reflexivity. Qed.
  Lemma release_file : forall b s, file (release b s) = file s.
  Proof. intros [|] s; reflexivity. Qed.

  (** every successor state has the processes of [s] except that [i] is at
      [(p', todo')] with a justified source, a log extended by entries showing
      the current [committed], and a [committed] that is complete *)
  Lemma Src_update : forall s s' i p' todo',
    Src s ->
    (forall j, j <> i -> procs s' j = procs s j) ->
    procs s' i = (p', todo') ->
    incl todo' (progs i) -> pc_src i p' ->
    complete (committed s') ->
    (forall e, In e (log s') -> In e (log s) \/ snd e = committed s) ->
    Src s'.
  Proof.
    intros s s' i p' todo' HS Ho Hi Ht Hp Hc Hl. constructor.
    - intros j. destruct (Nat.eq_dec j i) as [->|Hne]; [rewrite Hi; exact Ht|].
      rewrite (Ho j Hne). apply (src_todo s HS).
    - intros j. destruct (Nat.eq_dec j i) as [->|Hne]; [rewrite Hi; exact Hp|].
      rewrite (Ho j Hne). apply (src_pc s HS).
    - exact Hc.
    - intros e He. destruct (Hl e He) as [H|H]; [apply (src_log s HS), H|].
      rewrite H. apply (src_committed s HS).
  Qed.

  Ltac src_go i HS Htodo Hc :=
    eapply Src_update with (i := i); simpl;
    [ exact HS
    | let j0 := fresh "j" in let Hne0 := fresh "Hne" in
      intros j0 Hne0; apply setp_other; exact Hne0
    | apply setp_same
    | first [ exact Htodo
            | let y := fresh "y" in let Hy := fresh "Hy" in
              intros y Hy; apply Htodo; right; exact Hy ]
    | try exact I
    | try exact Hc
    | first [ let e := fresh "e" in let He := fresh "He" in
              intros e [<-|He]; [right; reflexivity|left; exact He]
            | let e := fresh "e" in let He := fresh "He" in
              intros e He; left; exact He ] ].

  Theorem Src_step : forall d i g k s s', Src s -> step d i g k s = Some s' -> Src s'.
  Proof.
    intros d i g k s s' HS Hs. unfold step in Hs.
    destruct (procs s i) as [p todo] eqn:Ei.
    pose proof (src_todo s HS i) as Htodo. rewrite Ei in Htodo. simpl in Htodo.
    pose proof (src_pc s HS i) as Hsrc. rewrite Ei in Hsrc. simpl in Hsrc.
    assert (Hc := src_committed s HS).
    destruct d as [wl rl]. simpl wlock in Hs. simpl rlock in Hs.
    destruct p as [|cs|cs|cs full| | |acc].
    - destruct todo as [|[cs|] todo']; [discriminate| |].
      + inversion Hs; subst s'; clear Hs. src_go i HS Htodo Hc.
        apply Htodo. left. reflexivity.
      + destruct (file s); inversion Hs; subst s'; clear Hs; src_go i HS Htodo Hc.
    - destruct wl; [destruct (lock s); [destruct g; [|discriminate]|]|];
        inversion Hs; subst s'; clear Hs; src_go i HS Htodo Hc; exact Hsrc.
    - inversion Hs; subst s'; clear Hs. src_go i HS Htodo Hc.
      exists cs. split; [exact Hsrc|reflexivity].
    - destruct cs as [|ch cs]; [destruct wl|]; inversion Hs; subst s'; clear Hs;
        src_go i HS Htodo Hc; try exact Hsrc;
        (destruct Hsrc as (cs0 & Hin & ->); right; exists i, cs0; split; [exact Hin|reflexivity]).
    - destruct rl; [destruct (lock s); [destruct g; [|discriminate]|]|];
        inversion Hs; subst s'; clear Hs; src_go i HS Htodo Hc.
    - destruct (file s); [|destruct rl]; inversion Hs; subst s'; clear Hs; src_go i HS Htodo Hc.
    - destruct (file s) as [t|]; [destruct (skipn (List.length acc) t); [destruct rl|]|destruct rl];
        inversion Hs; subst s'; clear Hs; src_go i HS Htodo Hc.
  Qed.

  Lemma Src_run : forall d sch s, Src s -> Src (run d sch s).
  Proof.
    intros d. induction sch as [|[[i g] k] sch IH]; intros s HS; [exact HS|].
    simpl. apply IH. destruct (step d i g k s) as [s'|] eqn:E; [|exact HS].
    eapply Src_step; eassumption.
  Qed.
End Complete.

(** the statement without the ghost: what a reader gets is the empty answer, the
    initial file, or the WHOLE text of one of the write jobs *)
Theorem atomic : forall f0 progs sch i a,
  In (i, a) (answers (run locked sch (init f0 progs))) ->
  a = AEmpty \/
  exists t, a = AText t /\
    (f0 = Some t \/ exists j cs, In (JWrite cs) (progs j) /\ t = List.concat cs).
Proof.
  intros f0 progs sch i a H. unfold answers in H. apply in_rev in H.
  apply in_map_iff in H. destruct H as ([[i' a'] cm] & E & Hin). simpl in E. inversion E; subst i' a'.
  destruct (atomic_latest f0 progs sch i a cm Hin) as [H|(t & Ha & Hcm)]; [left; exact H|].
  right. exists t. split; [exact Ha|].
  pose proof (src_log f0 progs _ (Src_run f0 progs locked sch _ (Src_init f0 progs)) _ Hin) as Hc.
  simpl in Hc. subst cm. destruct Hc as [Hc|(j & cs & Hj & Hc)].
  - left. symmetry. exact Hc.
  - right. exists j, cs. split; [exact Hj|]. inversion Hc. reflexivity.
Qed.

(* ------------------------------------------------------------------------- *)
(** * the empty answer needs a missing file or a Timeout                       *)
(* ------------------------------------------------------------------------- *)

Record Full (s : state) : Prop := mkFull {
  full_file : file s <> None;
  full_log : forall e, In e (log s) -> snd (fst e) <> AEmpty
}.

Lemma Full_step : forall d i k s s', Full s -> step d i false k s = Some s' -> Full s'.
Proof.
  intros d i k s s' [Hf Hl] Hs. unfold step in Hs.
  destruct (procs s i) as [p todo].
  assert (Hcons : forall a (l : list (nat * answer * option str)) j c,
            a <> AEmpty -> (forall e, In e l -> snd (fst e) <> AEmpty) ->
            forall e, In e ((j, a, c) :: l) -> snd (fst e) <> AEmpty).
  { intros a l j c Ha Hl' e [<-|He]; [exact Ha|apply Hl', He]. }
  destruct p as [|cs|cs|cs full| | |acc].
  - destruct todo as [|[cs|] todo']; [discriminate| |].
    + inversion Hs; subst s'. constructor; assumption.
    + destruct (file s) eqn:Ef; [|congruence]. inversion Hs; subst s'. constructor; simpl; [congruence|assumption].
  - destruct (wlock d); [destruct (lock s); [discriminate|]|]; inversion Hs; subst s'; constructor; assumption.
  - inversion Hs; subst s'. constructor; simpl; [discriminate|assumption].
  - destruct cs as [|ch cs]; inversion Hs; subst s'; constructor; simpl.
    + rewrite release_file. exact Hf.
    + rewrite release_log. exact Hl.
    + discriminate.
    + exact Hl.
  - destruct (rlock d); [destruct (lock s); [discriminate|]|]; inversion Hs; subst s'; constructor; assumption.
  - destruct (file s) eqn:Ef; [|congruence]. inversion Hs; subst s'. constructor; simpl; [congruence|assumption].
  - destruct (file s) as [t|] eqn:Ef; [|congruence].
    destruct (skipn (List.length acc) t); inversion Hs; subst s'; constructor; simpl.
    + rewrite release_file. simpl. congruence.
    + rewrite release_log, release_committed. simpl. apply Hcons; [discriminate|exact Hl].
    + congruence.
    + exact Hl.
Qed.

(** with a status file in place and no Timeout taken, every [get_status] call
    delivers a table (the empty answer is exactly the two documented cases) *)
Theorem no_timeout_no_empty : forall d t0 progs sch i a,
  no_give_up sch = true ->
  In (i, a) (answers (run d sch (init (Some t0) progs))) -> a <> AEmpty.
Proof.
  intros d t0 progs sch i a Hng H.
  assert (G : forall sch s, no_give_up sch = true -> Full s -> Full (run d sch s)).
  { clear. induction sch as [|[[i g] k] sch IH]; intros s Hn HF; [exact HF|].
    simpl in Hn. apply andb_true_iff in Hn. destruct Hn as [Hg Hn]. simpl in Hg.
    apply negb_true_iff in Hg. subst g. simpl. apply IH; [exact Hn|].
    destruct (step d i false k s) as [s'|] eqn:E; [|exact HF]. eapply Full_step; eassumption. }
  assert (HF : Full (init (Some t0) progs)).
  { constructor; simpl; [discriminate|intros e []]. }
  specialize (G sch _ Hng HF). unfold answers in H. apply in_rev in H.
  apply in_map_iff in H. destruct H as (e & E & Hin).
  pose proof (full_log _ G e Hin) as Hne. inversion E; subst. exact Hne.
Qed.

(* ------------------------------------------------------------------------- *)
(** * without the discipline the model DOES tear (the theorems are not vacuous) *)
(* ------------------------------------------------------------------------- *)

Definition demo_old : str := s "H,K" ++ [10%N] ++ s "a,1".
Definition demo_new_chunks : list str := [s "H,K" ++ [10%N]; s "b,2" ++ [10%N]; s "c,3"].
Definition demo_progs (i : nat) : list job :=
  match i with 0 => [JWrite demo_new_chunks] | 1 => [JRead] | _ => [] end.

(** the writer (process 0) got as far as its first chunk when the reader
    (process 1) comes, reads, and is gone before the second chunk *)
Definition demo_schedule : list move :=
  [(0, false, 0); (0, false, 0); (0, false, 0); (0, false, 0);    (* job; acquire; truncate; chunk 1 *)
   (1, false, 0); (1, true, 0); (1, false, 0); (1, false, 99); (1, false, 0);
   (0, false, 0); (0, false, 0); (0, false, 0)].

(** the write outside the lock: the reader is handed a torn table *)
Lemma writer_unlocked_tears :
  answers (run (mkDisc false true) demo_schedule (init (Some demo_old) demo_progs))
  = [(1, AText (s "H,K" ++ [10%N]))].
Proof. vm_compute. reflexivity. Qed.

(** the read outside the lock: the same *)
Lemma reader_unlocked_tears :
  answers (run (mkDisc true false) demo_schedule (init (Some demo_old) demo_progs))
  = [(1, AText (s "H,K" ++ [10%N]))].
Proof. vm_compute. reflexivity. Qed.

(** the discipline of the source, the same schedule: the reader waits, takes
    its Timeout branch at its second move, and answers {} *)
Lemma locked_same_schedule_empty :
  answers (run locked demo_schedule (init (Some demo_old) demo_progs)) = [(1, AEmpty)].
Proof. vm_compute. reflexivity. Qed.

(** the discipline of the source, a patient reader: it gets the NEW table *)
Definition demo_schedule_patient : list move :=
  [(0, false, 0); (0, false, 0); (0, false, 0); (0, false, 0);
   (1, false, 0); (1, false, 0); (1, false, 0);
   (0, false, 0); (0, false, 0); (0, false, 0);
   (1, false, 0); (1, false, 0); (1, false, 99); (1, false, 0)].

Lemma locked_patient_new :
  answers (run locked demo_schedule_patient (init (Some demo_old) demo_progs))
  = [(1, AText (List.concat demo_new_chunks))].
Proof. vm_compute. reflexivity. Qed.

(** ... and an early reader gets the OLD one *)
Lemma locked_early_old :
  answers (run locked [(1, false, 0); (1, false, 0); (0, false, 0); (1, false, 0); (0, false, 0);
                       (1, false, 3); (1, false, 99); (1, false, 0)]
               (init (Some demo_old) demo_progs))
  = [(1, AText demo_old)].
Proof. vm_compute. reflexivity. Qed.

(** a writer that takes its Timeout branch leaves the stale complete table *)
Lemma locked_writer_timeout_stale :
  let s := run locked [(1, false, 0); (1, false, 0); (0, false, 0); (0, true, 0)]
               (init (Some demo_old) demo_progs) in
  file s = Some demo_old /\ fst (procs s 0) = Idle /\ snd (procs s 0) = [].
Proof. vm_compute. auto. Qed.

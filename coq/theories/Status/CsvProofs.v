(** Proofs about the status-table codec (Csv.v): the printer/parser round trip
    for ALL tables within the hygiene H12, and the concrete refutations of the
    unconditional statement (known finding K3). *)
From Coq Require Import List Arith Bool NArith Lia.
From MWF Require Import Base.Util Base.Str Status.Csv.
Import ListNotations.

(* ------------------------------------------------------------------------- *)
(** * strings                                                                  *)
(* ------------------------------------------------------------------------- *)

Lemma str_eqb_eq : forall a b, str_eqb a b = true <-> a = b.
Proof.
  induction a as [|x a IH]; destruct b as [|y b]; simpl; split; intro H;
    try reflexivity; try discriminate.
  - apply andb_true_iff in H. destruct H as [H1 H2].
    apply N.eqb_eq in H1. apply IH in H2. subst. reflexivity.
  - inversion H; subst. rewrite N.eqb_refl. simpl. apply IH. reflexivity.
Qed.

Lemma str_eqb_refl : forall a, str_eqb a a = true.
Proof. intro a. apply str_eqb_eq. reflexivity. Qed.

Lemma str_eqb_neq : forall a b, a <> b -> str_eqb a b = false.
Proof.
  intros a b H. destruct (str_eqb a b) eqn:E; [|reflexivity].
  apply str_eqb_eq in E. contradiction.
Qed.

Lemma str_mem_In : forall x l, str_mem x l = true <-> In x l.
Proof.
  induction l as [|y l IH]; simpl.
  - split; [discriminate|tauto].
  - rewrite orb_true_iff, IH, str_eqb_eq. split; intros [H|H]; auto.
Qed.

Lemma str_nodupb_NoDup : forall l, str_nodupb l = true -> NoDup l.
Proof.
  induction l as [|x l IH]; simpl; intro H; constructor.
  - apply andb_true_iff in H. destruct H as [H _].
    intro Hin. apply str_mem_In in Hin. rewrite Hin in H. discriminate.
  - apply andb_true_iff in H. destruct H as [_ H]. auto.
Qed.

Lemma has_app : forall c a b, has c (a ++ b) = has c a || has c b.
Proof. intros. unfold has. apply existsb_app. Qed.

Lemma has_cons : forall c x t, has c (x :: t) = N.eqb c x || has c t.
Proof. reflexivity. Qed.

Lemma has_join : forall c sep l,
  has c sep = false -> Forall (fun x => has c x = false) l -> has c (join sep l) = false.
Proof.
  intros c sep l Hs. induction l as [|x l IH]; intro H; [reflexivity|].
  inversion H as [|? ? Hx Hl]; subst. simpl. destruct l as [|y l']; [exact Hx|].
  rewrite !has_app, Hx, Hs, (IH Hl). reflexivity.
Qed.

(* ------------------------------------------------------------------------- *)
(** * universal newlines                                                       *)
(* ------------------------------------------------------------------------- *)

Lemma universal_nl_id : forall t, has cr t = false -> universal_nl false t = t.
Proof.
  induction t as [|c t IH]; intro H; [reflexivity|].
  rewrite has_cons in H. apply orb_false_iff in H. destruct H as [Hc Ht].
  simpl. rewrite N.eqb_sym, Hc. destruct (N.eqb_spec c nl) as [->|_]; rewrite (IH Ht); reflexivity.
Qed.

(* ------------------------------------------------------------------------- *)
(** * readlines                                                                *)
(* ------------------------------------------------------------------------- *)

Lemma readlines_line : forall x rest,
  has nl x = false -> readlines (x ++ nl :: rest) = (x ++ [nl]) :: readlines rest.
Proof.
  induction x as [|c x IH]; intros rest H; [reflexivity|].
  rewrite has_cons in H. apply orb_false_iff in H. destruct H as [Hc Hx].
  simpl. rewrite N.eqb_sym, Hc, (IH rest Hx). reflexivity.
Qed.

Lemma readlines_last : forall x, has nl x = false -> x <> [] -> readlines x = [x].
Proof.
  induction x as [|c x IH]; intros H Hne; [congruence|].
  rewrite has_cons in H. apply orb_false_iff in H. destruct H as [Hc Hx].
  simpl. rewrite N.eqb_sym, Hc. destruct x as [|d x']; [reflexivity|].
  rewrite (IH Hx) by discriminate. reflexivity.
Qed.

(** a delivered line is the written line, with or without its terminator *)
Definition line_of (x y : str) : Prop := y = x \/ y = x ++ [nl].

Lemma readlines_join : forall L,
  Forall (fun x => has nl x = false) L -> Forall (fun x => x <> []) L ->
  Forall2 line_of L (readlines (join [nl] L)).
Proof.
  induction L as [|x L IH]; intros Hn Hne; [constructor|].
  inversion Hn as [|? ? Hx HL]; subst. inversion Hne as [|? ? Hx' HL']; subst.
  simpl. destruct L as [|y L'].
  - rewrite (readlines_last x Hx Hx'). constructor; [left; reflexivity|constructor].
  - change (x ++ [nl] ++ join [nl] (y :: L')) with (x ++ nl :: join [nl] (y :: L')).
    rewrite (readlines_line _ _ Hx). constructor; [right; reflexivity|].
    apply IH; assumption.
Qed.

(* ------------------------------------------------------------------------- *)
(** * split / strip                                                            *)
(* ------------------------------------------------------------------------- *)

Lemma split_piece : forall sep x rest,
  has sep x = false -> split_on sep (x ++ sep :: rest) = x :: split_on sep rest.
Proof.
  induction x as [|c x IH]; intros rest H.
  - simpl. rewrite N.eqb_refl. reflexivity.
  - rewrite has_cons in H. apply orb_false_iff in H. destruct H as [Hc Hx].
    simpl. rewrite N.eqb_sym, Hc, (IH rest Hx). reflexivity.
Qed.

Lemma split_single : forall sep x, has sep x = false -> split_on sep x = [x].
Proof.
  induction x as [|c x IH]; intro H; [reflexivity|].
  rewrite has_cons in H. apply orb_false_iff in H. destruct H as [Hc Hx].
  simpl. rewrite N.eqb_sym, Hc, (IH Hx). reflexivity.
Qed.

Lemma lstrip_nl_id : forall x, has nl x = false -> lstrip_nl x = x.
Proof.
  destruct x as [|c x]; intro H; [reflexivity|].
  rewrite has_cons in H. apply orb_false_iff in H. destruct H as [Hc _].
  simpl. rewrite N.eqb_sym, Hc. reflexivity.
Qed.

Lemma rstrip_nl_id : forall x, has nl x = false -> rstrip_nl x = x.
Proof.
  induction x as [|c x IH]; intro H; [reflexivity|].
  rewrite has_cons in H. apply orb_false_iff in H. destruct H as [Hc Hx].
  simpl. rewrite (IH Hx). destruct x; [|reflexivity].
  rewrite N.eqb_sym, Hc. reflexivity.
Qed.

Lemma rstrip_nl_tail : forall x, has nl x = false -> rstrip_nl (x ++ [nl]) = x.
Proof.
  induction x as [|c x IH]; intro H; [reflexivity|].
  rewrite has_cons in H. apply orb_false_iff in H. destruct H as [Hc Hx].
  simpl. rewrite (IH Hx). destruct x; [|reflexivity].
  rewrite N.eqb_sym, Hc. reflexivity.
Qed.

Lemma strip_nl_id : forall x, has nl x = false -> strip_nl x = x.
Proof. intros x H. unfold strip_nl. rewrite (lstrip_nl_id x H). apply rstrip_nl_id, H. Qed.

Lemma strip_nl_tail : forall x, has nl x = false -> strip_nl (x ++ [nl]) = x.
Proof.
  intros x H. unfold strip_nl. destruct x as [|c x].
  - reflexivity.
  - rewrite has_cons in H. apply orb_false_iff in H. destruct H as [Hc Hx].
    change ((c :: x) ++ [nl]) with (c :: (x ++ [nl])).
    simpl lstrip_nl. rewrite N.eqb_sym, Hc.
    change (c :: x ++ [nl]) with ((c :: x) ++ [nl]).
    apply rstrip_nl_tail. rewrite has_cons, Hc, Hx. reflexivity.
Qed.

Lemma cell_ok_parts : forall c, cell_ok c = true ->
  has comma c = false /\ has nl c = false /\ has cr c = false.
Proof.
  intros c H. unfold cell_ok in H.
  apply andb_true_iff in H. destruct H as [H H3].
  apply andb_true_iff in H. destruct H as [H1 H2].
  apply negb_true_iff in H1, H2, H3. auto.
Qed.

(** the cells the reader extracts from a delivered line *)
Lemma cells_of_line : forall cells tail,
  cells <> [] -> Forall (fun c => cell_ok c = true) cells ->
  tail = [] \/ tail = [nl] ->
  map strip_nl (split_on comma (join [comma] cells ++ tail)) = cells.
Proof.
  induction cells as [|x cells IH]; intros tail Hne Hok Htail; [congruence|].
  inversion Hok as [|? ? Hx Hrest]; subst.
  destruct (cell_ok_parts x Hx) as (Hc & Hn & _).
  destruct cells as [|y cells'].
  - simpl join. rewrite split_single.
    + simpl. f_equal. destruct Htail; subst.
      * rewrite app_nil_r. apply strip_nl_id, Hn.
      * apply strip_nl_tail, Hn.
    + rewrite has_app, Hc. destruct Htail; subst; reflexivity.
  - change (join [comma] (x :: y :: cells')) with (x ++ [comma] ++ join [comma] (y :: cells')).
    rewrite <- !app_assoc. change ([comma] ++ ?r) with (comma :: r).
    rewrite split_piece by exact Hc. simpl map. f_equal.
    + apply strip_nl_id, Hn.
    + apply IH; [discriminate|exact Hrest|exact Htail].
Qed.

(* ------------------------------------------------------------------------- *)
(** * the dictionary                                                           *)
(* ------------------------------------------------------------------------- *)

Definition mk0 (k : str) : str * list str := (k, []).

Lemma tbl_reset_fresh : forall k pre,
  ~ In k pre -> tbl_reset k (map mk0 pre) = map mk0 (pre ++ [k]).
Proof.
  induction pre as [|p pre IH]; intro H; [reflexivity|].
  simpl. rewrite str_eqb_neq.
  - rewrite IH; [reflexivity|]. intro; apply H; right; assumption.
  - intro; apply H; left; assumption.
Qed.

Lemma tbl_init_gen : forall ks pre,
  NoDup (pre ++ ks) ->
  fold_left (fun t k => tbl_reset k t) ks (map mk0 pre) = map mk0 (pre ++ ks).
Proof.
  induction ks as [|k ks IH]; intros pre H.
  - rewrite app_nil_r. reflexivity.
  - simpl. rewrite tbl_reset_fresh.
    + rewrite IH; rewrite <- app_assoc; [reflexivity|exact H].
    + apply NoDup_remove_2 in H. intro Hin. apply H. apply in_or_app. left. exact Hin.
Qed.

Lemma columns_nil : forall hdr, columns hdr [] = map mk0 hdr.
Proof. induction hdr as [|h hs IH]; simpl; [reflexivity|]. rewrite IH. reflexivity. Qed.

Lemma tbl_init_columns : forall hdr, NoDup hdr -> tbl_init hdr = columns hdr [].
Proof.
  intros hdr H. unfold tbl_init. rewrite columns_nil.
  apply (tbl_init_gen hdr []). exact H.
Qed.

Lemma columns_keys : forall hdr rows, map fst (columns hdr rows) = hdr.
Proof.
  induction hdr as [|h hs IH]; intro rows; simpl; [reflexivity|].
  rewrite IH. reflexivity.
Qed.

(** [add_cells] without the per-cell strip *)
Fixpoint add_raw (hdr : list str) (cells : list str) (t : table) {struct cells} : option table :=
  match cells with
  | [] => Some t
  | c :: cs =>
    match hdr with
    | [] => None
    | k :: ks => add_raw ks cs (tbl_append k c t)
    end
  end.

Lemma add_cells_raw : forall cells hdr t,
  add_cells hdr cells t = add_raw hdr (map strip_nl cells) t.
Proof.
  induction cells as [|c cs IH]; intros hdr t; [reflexivity|].
  simpl. destruct hdr as [|k ks]; [reflexivity|]. apply IH.
Qed.

(** append one cell to every column *)
Fixpoint zip_append (t : table) (cells : list str) : table :=
  match t, cells with
  | (k, col) :: t', c :: cs => (k, col ++ [c]) :: zip_append t' cs
  | _, _ => t
  end.

Lemma add_raw_skip : forall ks cs e t,
  ~ In (fst e) ks ->
  add_raw ks cs (e :: t) = option_map (cons e) (add_raw ks cs t).
Proof.
  induction ks as [|k ks IH]; intros cs e t H.
  - destruct cs; reflexivity.
  - destruct cs as [|c cs]; [reflexivity|].
    simpl. destruct e as [k' col]. simpl in H.
    rewrite str_eqb_neq by (intro; apply H; left; congruence).
    apply IH. simpl. intro; apply H; right; assumption.
Qed.

Lemma add_raw_zip : forall t cs,
  NoDup (map fst t) -> List.length cs = List.length t ->
  add_raw (map fst t) cs t = Some (zip_append t cs).
Proof.
  induction t as [|[k col] t IH]; intros cs Hnd Hlen.
  - destruct cs; [reflexivity|discriminate].
  - destruct cs as [|c cs]; [discriminate|].
    simpl. rewrite str_eqb_refl.
    inversion Hnd as [|? ? Hk Hnd']; subst.
    rewrite add_raw_skip by exact Hk.
    rewrite IH; [reflexivity|exact Hnd'|simpl in Hlen; lia].
Qed.

Lemma zip_append_columns : forall hdr rows r,
  List.length r = List.length hdr ->
  zip_append (columns hdr rows) r = columns hdr (rows ++ [r]).
Proof.
  induction hdr as [|h hs IH]; intros rows r Hlen.
  - reflexivity.
  - destruct r as [|c cs]; [discriminate|].
    simpl. rewrite !map_app. simpl. rewrite IH by (simpl in Hlen; lia). reflexivity.
Qed.

Lemma columns_length : forall hdr rows, List.length (columns hdr rows) = List.length hdr.
Proof. intros. rewrite <- (columns_keys hdr rows) at 2. rewrite map_length. reflexivity. Qed.

Lemma add_row_columns : forall hdr rows r,
  NoDup hdr -> List.length r = List.length hdr ->
  add_raw hdr r (columns hdr rows) = Some (columns hdr (rows ++ [r])).
Proof.
  intros hdr rows r Hnd Hlen.
  rewrite <- (columns_keys hdr rows) at 1.
  rewrite add_raw_zip.
  - rewrite zip_append_columns by exact Hlen. reflexivity.
  - rewrite columns_keys. exact Hnd.
  - rewrite columns_length. exact Hlen.
Qed.

(* ------------------------------------------------------------------------- *)
(** * the round trip                                                           *)
(* ------------------------------------------------------------------------- *)

Definition row_ok (hdr : list str) (r : list str) : Prop :=
  List.length r = List.length hdr /\ Forall (fun c => cell_ok c = true) r.

Lemma add_lines_rows : forall hdr rest lines done,
  NoDup hdr -> hdr <> [] ->
  Forall (row_ok hdr) rest ->
  Forall2 line_of (map render_row rest) lines ->
  add_lines hdr lines (columns hdr done) = Some (columns hdr (done ++ rest)).
Proof.
  intros hdr rest. induction rest as [|r rest IH]; intros lines done Hnd Hne Hok HF.
  - inversion HF; subst. rewrite app_nil_r. reflexivity.
  - inversion HF as [|? y ? ys Hy Hys]; subst.
    inversion Hok as [|? ? [Hlen Hcells] Hok']; subst.
    simpl. rewrite add_cells_raw.
    assert (Hr : map strip_nl (split_on comma y) = r).
    { assert (r <> []) by (destruct r; [destruct hdr; [congruence|discriminate]|discriminate]).
      destruct Hy as [->| ->].
      - rewrite <- (app_nil_r (render_row r)). apply cells_of_line; auto.
      - apply cells_of_line; auto. }
    rewrite Hr, add_row_columns by assumption.
    rewrite (IH ys (done ++ [r])) by assumption.
    rewrite <- app_assoc. reflexivity.
Qed.

Lemma forallb_Forall : forall {A} (f : A -> bool) l,
  forallb f l = true -> Forall (fun x => f x = true) l.
Proof. intros A f l H. apply Forall_forall. apply forallb_forall. exact H. Qed.

Lemma join2_nonempty : forall sep r, 2 <= List.length r -> join (sep :: nil) r <> [].
Proof.
  intros sep r H. destruct r as [|x [|y r']]; simpl in H; try lia.
  simpl. destruct x; discriminate.
Qed.

Lemma split_join : forall cells,
  cells <> [] -> Forall (fun c => has comma c = false) cells ->
  split_on comma (join [comma] cells) = cells.
Proof.
  induction cells as [|x l IH]; intros Hne Hc; [congruence|].
  inversion Hc as [|? ? Hx Hl]; subst. destruct l as [|y l'].
  - simpl join. apply split_single, Hx.
  - change (join [comma] (x :: y :: l')) with (x ++ comma :: join [comma] (y :: l')).
    rewrite split_piece by exact Hx. f_equal. apply IH; [discriminate|exact Hl].
Qed.

Theorem roundtrip : forall header rows,
  table_wf header rows = true -> H12 header rows = true ->
  parse (render header rows) = PTable (columns header rows).
Proof.
  intros header rows Hwf Hh.
  unfold table_wf in Hwf. apply andb_true_iff in Hwf. destruct Hwf as [Hwf Hrect].
  apply andb_true_iff in Hwf. destruct Hwf as [H2 Hnd].
  apply Nat.leb_le in H2. apply str_nodupb_NoDup in Hnd.
  unfold H12 in Hh. apply andb_true_iff in Hh. destruct Hh as [Hhc Hrc].
  apply forallb_Forall in Hhc. apply forallb_Forall in Hrc. apply forallb_Forall in Hrect.
  assert (Hne : header <> []) by (destruct header; [simpl in H2; lia|discriminate]).
  assert (Hrows : Forall (row_ok header) rows).
  { apply Forall_forall. intros r Hr. split.
    - rewrite Forall_forall in Hrect. apply Nat.eqb_eq. apply Hrect, Hr.
    - rewrite Forall_forall in Hrc. apply forallb_Forall. apply Hrc, Hr. }
  assert (Hall : Forall (row_ok header) (header :: rows)).
  { constructor; [split; [reflexivity|exact Hhc]|exact Hrows]. }
  (* facts about the rendered lines *)
  assert (Hlines : forall c, c = comma \/ c = nl \/ c = cr -> c <> comma ->
            Forall (fun x => has c x = false) (map render_row (header :: rows))).
  { intros c Hc Hcc. apply Forall_forall. intros x Hx. apply in_map_iff in Hx.
    destruct Hx as (r & <- & Hr). rewrite Forall_forall in Hall.
    destruct (Hall r Hr) as [_ Hcells]. apply has_join.
    - simpl. rewrite orb_false_r. apply N.eqb_neq. exact Hcc.
    - eapply Forall_impl; [|exact Hcells]. intros a Ha.
      destruct (cell_ok_parts a Ha) as (? & ? & ?).
      destruct Hc as [->|[->| ->]]; assumption. }
  assert (Hnl := Hlines nl (or_intror (or_introl eq_refl)) ltac:(discriminate)).
  assert (Hcr := Hlines cr (or_intror (or_intror eq_refl)) ltac:(discriminate)).
  assert (Hnonempty : Forall (fun x => x <> []) (map render_row (header :: rows))).
  { apply Forall_forall. intros x Hx. apply in_map_iff in Hx.
    destruct Hx as (r & <- & Hr). rewrite Forall_forall in Hall.
    destruct (Hall r Hr) as [Hlen _]. apply join2_nonempty. lia. }
  unfold parse, read_text, render.
  change (render_row header :: map render_row rows) with (map render_row (header :: rows)).
  rewrite universal_nl_id.
  2:{ apply has_join; [reflexivity|exact Hcr]. }
  pose proof (readlines_join _ Hnl Hnonempty) as HF.
  remember (readlines (join [nl] (map render_row (header :: rows)))) as LL eqn:ELL.
  clear ELL.
  change (map render_row (header :: rows)) with (render_row header :: map render_row rows) in HF.
  inversion HF as [|? y0 ? ys Hy0 Hys]; subst.
  unfold parse_lines.
  assert (Hhdr : split_on comma (strip_nl y0) = header).
  { inversion Hnl as [|? ? Hh0 _]; subst.
    assert (strip_nl y0 = render_row header) as ->.
    { destruct Hy0 as [->| ->]; [apply strip_nl_id|apply strip_nl_tail]; exact Hh0. }
    apply split_join; [exact Hne|].
    eapply Forall_impl; [|exact Hhc]. intros a Ha. apply (cell_ok_parts a Ha). }
  rewrite Hhdr, (tbl_init_columns header Hnd).
  rewrite (add_lines_rows header rows ys [] Hnd Hne Hrows Hys). reflexivity.
Qed.

(* ------------------------------------------------------------------------- *)
(** * the unconditional statement is false (K3)                                *)
(* ------------------------------------------------------------------------- *)

(** a two-column table whose one row has a cell "x,y": the reader raises
    KeyError *)
Definition k3_hdr : list str := [s "Step Name"; s "Params"].
Definition k3_comma_rows : list (list str) := [[s "a"; s "X:1,2"]].
(** ... "x\ny" / "x\ry": no exception, but the returned columns are ragged and
    the values sit under the wrong keys *)
Definition k3_nl_rows : list (list str) := [[s "a"; [88; 58; 49; 10; 50]%N]].
Definition k3_cr_rows : list (list str) := [[s "a"; [88; 58; 49; 13; 50]%N]].

Lemma roundtrip_refuted_comma :
  table_wf k3_hdr k3_comma_rows = true /\ sig_comma k3_hdr k3_comma_rows = true /\
  parse (render k3_hdr k3_comma_rows) = PKeyError.
Proof. vm_compute. auto. Qed.

Lemma roundtrip_refuted_newline :
  table_wf k3_hdr k3_nl_rows = true /\ sig_newline k3_hdr k3_nl_rows = true /\
  parse (render k3_hdr k3_nl_rows)
  = PTable [(s "Step Name", [s "a"; s "2"]); (s "Params", [s "X:1"])].
Proof. vm_compute. auto. Qed.

Lemma roundtrip_refuted_cr :
  table_wf k3_hdr k3_cr_rows = true /\ sig_newline k3_hdr k3_cr_rows = true /\
  parse (render k3_hdr k3_cr_rows)
  = PTable [(s "Step Name", [s "a"; s "2"]); (s "Params", [s "X:1"])].
Proof. vm_compute. auto. Qed.

Lemma roundtrip_refuted :
  exists header rows,
    table_wf header rows = true /\
    parse (render header rows) <> PTable (columns header rows).
Proof.
  exists k3_hdr, k3_comma_rows. split; [reflexivity|].
  destruct roundtrip_refuted_comma as (_ & _ & H). rewrite H. discriminate.
Qed.

(** the hygiene is exactly the complement of the two signatures *)
Lemma H12_iff_no_signature : forall header rows,
  H12 header rows = negb (sig_comma header rows || sig_newline header rows).
Proof.
  intros header rows. unfold H12, sig_comma, sig_newline.
  assert (Hc : forall l, forallb cell_ok l
               = negb (existsb (has comma) l || existsb (fun c => has nl c || has cr c) l)).
  { induction l as [|c l IH]; [reflexivity|]. simpl. rewrite IH. unfold cell_ok.
    destruct (has comma c), (has nl c), (has cr c); simpl; try reflexivity;
      destruct (existsb (has comma) l); reflexivity. }
  assert (Hr : forall rs, forallb (forallb cell_ok) rs
               = negb (existsb (existsb (has comma)) rs
                       || existsb (existsb (fun c => has nl c || has cr c)) rs)).
  { induction rs as [|r rs IH]; [reflexivity|]. simpl. rewrite IH, Hc.
    destruct (existsb (has comma) r), (existsb (fun c => has nl c || has cr c) r);
      simpl; try reflexivity; destruct (existsb (existsb (has comma)) rs); reflexivity. }
  rewrite Hc, Hr.
  destruct (existsb (has comma) header), (existsb (fun c => has nl c || has cr c) header),
    (existsb (existsb (has comma)) rows),
    (existsb (existsb (fun c => has nl c || has cr c)) rows); reflexivity.
Qed.

(** the header of the real table *)
Lemma status_header_is_source_text : render_row status_header = status_header_text.
Proof. vm_compute. reflexivity. Qed.

Lemma status_header_wf : forall rows,
  forallb (fun r => List.length r =? 11) rows = true ->
  table_wf status_header rows = true.
Proof. intros rows H. unfold table_wf. simpl. exact H. Qed.

Lemma status_header_cells_ok : forallb cell_ok status_header = true.
Proof. vm_compute. reflexivity. Qed.

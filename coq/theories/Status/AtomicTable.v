(** The lock theorem composed with the codec and row theorems: what a concurrent
    [maestro status] is handed, when it is handed anything, is a table the
    monitor [C12_ok] accepts -- for one of the record tables that were written. *)
From Coq Require Import List Arith Bool NArith.
From MWF Require Import Base.Util Base.Str Status.Csv Status.Rows Status.RowsProofs
  Status.Lock Status.LockProofs.
Import ListNotations.

(** the text [write_status] produces for SOME in-hygiene record table of the
    staged graph [g] *)
Definition good_text (g : graph) (src : nat) (t : str) : Prop :=
  exists recs, valid g src recs = true /\ H12_rows g src recs = true /\
               t = status_text g src recs.

Theorem atomic_table : forall g src f0 progs sch i a,
  (forall t, f0 = Some t -> good_text g src t) ->
  (forall j cs, In (JWrite cs) (progs j) -> good_text g src (List.concat cs)) ->
  In (i, a) (answers (run locked sch (init f0 progs))) ->
  a = AEmpty \/
  exists t recs, a = AText t /\ valid g src recs = true /\ H12_rows g src recs = true /\
                 t = status_text g src recs /\ C12_ok g src recs (parse t) = true.
Proof.
  intros g src f0 progs sch i a H0 Hw Hin.
  destruct (atomic f0 progs sch i a Hin) as [H|(t & Ha & Ht)]; [left; exact H|].
  right.
  assert (G : good_text g src t).
  { destruct Ht as [Ht|(j & cs & Hj & ->)]; [apply H0, Ht|apply (Hw j cs Hj)]. }
  destruct G as (recs & Hv & Hh & Et). exists t, recs.
  repeat (split; [assumption|]). subst t.
  apply (C12_ok_model g src recs Hv Hh).
Qed.

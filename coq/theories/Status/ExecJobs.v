(** Trace-level coupling between the records of the execution model
    (Exec/ExecBase.v, ExecGen.v, ExecRun.v: the model of ExecutionGraph's
    polling logic) and the scheduler adapter's trace:

      after ANY sequence of polls, the job-id list of every step instance is
      exactly the list of identifiers the adapter returned for that instance's
      successful submissions, in order.

    Proved in projection style: the only thing the proof knows about a state
    combinator is what it does to (job-id lists, event log), so that harmless
    rewrites of the decision logic keep it. *)
From Coq Require Import List Arith Bool Lia.
From MWF Require Import Base.Util Exec.ExecBase Exec.ExecGen Exec.ExecRun.
Import ListNotations.

(** the successful submissions in an adapter trace, oldest first: (node, job) *)
Fixpoint subm (es : list event) : list (nat * nat) :=
  match es with
  | [] => []
  | ESubmit x _ _ (Some j) :: es' => (x, j) :: subm es'
  | _ :: es' => subm es'
  end.

Definition jobs_of (l : list (nat * nat)) (x : nat) : list nat :=
  map snd (filter (fun p => Nat.eqb (fst p) x) l).

Lemma subm_app : forall a b, subm (a ++ b) = subm a ++ subm b.
Proof.
  induction a as [|e a IH]; intro b; [reflexivity|].
  simpl. destruct e as [js|js|x|x k sc [j|]]; rewrite ?IH; reflexivity.
Qed.

Lemma jobs_of_app : forall a b x, jobs_of (a ++ b) x = jobs_of a x ++ jobs_of b x.
Proof. intros. unfold jobs_of. rewrite filter_app, map_app. reflexivity. Qed.

(* ------------------------------------------------------------------------- *)
(** * the projection and the invariant                                         *)
(* ------------------------------------------------------------------------- *)

Definition J (s : st) : list (list nat) := map jobs (recs s).

Lemma jobs_getrec : forall s x, jobs (getrec s x) = nth x (J s) [].
Proof. intros. unfold getrec, J. change (@nil nat) with (jobs dflt_rec). rewrite map_nth. reflexivity. Qed.

Definition Coupled (base : nat -> list nat) (s : st) : Prop :=
  forall x, x < length (J s) -> nth x (J s) [] = base x ++ jobs_of (subm (rev (evs s))) x.

(** [f] keeps the job-id lists and the log *)
Definition Keeps (f : st -> st) : Prop := forall s, J (f s) = J s /\ evs (f s) = evs s.

(** [f] keeps the coupling (and the number of records) *)
Definition Pres (f : st -> st) : Prop :=
  forall base s, Coupled base s -> Coupled base (f s) /\ length (J (f s)) = length (J s).

Lemma Keeps_Pres : forall f, Keeps f -> Pres f.
Proof.
  intros f H base s HC. destruct (H s) as [HJ HE]. split; [|rewrite HJ; reflexivity].
  intros x Hx. rewrite HJ in *. rewrite HE. apply HC, Hx.
Qed.

Lemma Pres_id : Pres (fun s => s).
Proof. intros base s H. split; [exact H|reflexivity]. Qed.

Lemma Pres_comp : forall f g, Pres f -> Pres g -> Pres (fun s => g (f s)).
Proof.
  intros f g Hf Hg base s HC. destruct (Hf base s HC) as [H1 L1].
  destruct (Hg base (f s) H1) as [H2 L2]. split; [exact H2|congruence].
Qed.

Lemma Pres_if : forall (b : st -> bool) f g, Pres f -> Pres g -> Pres (fun s => if b s then f s else g s).
Proof. intros b f g Hf Hg base s HC. destruct (b s); [apply Hf|apply Hg]; exact HC. Qed.

Lemma map_upd_keep : forall {A B} (p : A -> B) (f : A -> A) x l,
  (forall a, p (f a) = p a) -> map p (upd x f l) = map p l.
Proof.
  intros A B p f x l H. revert x. induction l as [|a l IH]; intro x; [destruct x; reflexivity|].
  destruct x; simpl; [rewrite H; reflexivity|rewrite IH; reflexivity].
Qed.

Lemma map_upd : forall {A B} (p : A -> B) (f : A -> A) (h : B -> B) x l,
  (forall a, p (f a) = h (p a)) -> map p (upd x f l) = upd x h (map p l).
Proof.
  intros A B p f h x l H. revert x. induction l as [|a l IH]; intro x; [destruct x; reflexivity|].
  destruct x; simpl; [rewrite H; reflexivity|rewrite IH; reflexivity].
Qed.

Lemma length_upd' : forall {A} x (f : A -> A) l, length (upd x f l) = length l.
Proof. intros A x f l. revert x. induction l as [|a l IH]; intro x; destruct x; simpl; auto. Qed.

Lemma nth_upd_same : forall {A} x (f : A -> A) l d, x < length l -> nth x (upd x f l) d = f (nth x l d).
Proof.
  intros A x f l. revert x. induction l as [|a l IH]; intros x d H; simpl in H; [lia|].
  destruct x; simpl; [reflexivity|apply IH; lia].
Qed.

Lemma nth_upd_other : forall {A} x y (f : A -> A) l d, x <> y -> nth y (upd x f l) d = nth y l d.
Proof.
  intros A x y f l. revert x y. induction l as [|a l IH]; intros x y d H; [destruct x; reflexivity|].
  destruct x, y; simpl; try reflexivity; try congruence. apply IH. congruence.
Qed.

(* ------------------------------------------------------------------------- *)
(** * the combinators                                                          *)
(* ------------------------------------------------------------------------- *)

Lemma K_rec_set_status : forall x v, Keeps (rec_set_status x v).
Proof. intros x v s. split; [|reflexivity]. unfold J. simpl. apply map_upd_keep. reflexivity. Qed.
Lemma K_rec_inc_restarts : forall x, Keeps (rec_inc_restarts x).
Proof. intros x s. split; [|reflexivity]. unfold J. simpl. apply map_upd_keep. reflexivity. Qed.
Lemma K_completed_add : forall x, Keeps (completed_add x). Proof. intros x s. split; reflexivity. Qed.
Lemma K_inprog_add : forall x, Keeps (inprog_add x). Proof. intros x s. split; reflexivity. Qed.
Lemma K_inprog_remove : forall x, Keeps (inprog_remove x). Proof. intros x s. split; reflexivity. Qed.
Lemma K_failed_add : forall x, Keeps (failed_add x). Proof. intros x s. split; reflexivity. Qed.
Lemma K_cancelled_add : forall x, Keeps (cancelled_add x). Proof. intros x s. split; reflexivity. Qed.
Lemma K_ready_push : forall x, Keeps (ready_push x). Proof. intros x s. split; reflexivity. Qed.
Lemma K_deps_prune : forall x, Keeps (deps_prune x). Proof. intros x s. split; reflexivity. Qed.
Lemma K_set_ready : forall v, Keeps (fun s => set_ready s v). Proof. intros v s. split; reflexivity. Qed.
Lemma K_set_canceled : forall v, Keeps (fun s => set_canceled s v). Proof. intros v s. split; reflexivity. Qed.
Lemma K_set_subs : forall v, Keeps (fun s => set_subs s v). Proof. intros v s. split; reflexivity. Qed.
Lemma K_set_next_job : forall v, Keeps (fun s => set_next_job s v). Proof. intros v s. split; reflexivity. Qed.

Lemma Keeps_comp : forall f g, Keeps f -> Keeps g -> Keeps (fun s => g (f s)).
Proof.
  intros f g Hf Hg s. destruct (Hf s) as [A B]. destruct (Hg (f s)) as [C D]. split; congruence.
Qed.

Lemma Keeps_fold : forall {A} (f : A -> st -> st) l,
  (forall a, Keeps (f a)) -> Keeps (fun s => fold_left (fun s a => f a s) l s).
Proof.
  intros A f l H. induction l as [|a l IH]; intro s; [split; reflexivity|].
  simpl. destruct (IH (f a s)) as [A1 B1]. destruct (H a s) as [A2 B2]. split; congruence.
Qed.

Lemma K_mark_failed_list : forall l, Keeps (mark_failed_list l).
Proof.
  intros l. unfold mark_failed_list.
  apply (Keeps_fold (fun n s => rec_set_status n FAILED (failed_add n s))).
  intro n. apply (Keeps_comp (failed_add n) (rec_set_status n FAILED));
    [apply K_failed_add|apply K_rec_set_status].
Qed.

Lemma K_mark_cancelled_list : forall l, Keeps (mark_cancelled_list l).
Proof.
  intros l. unfold mark_cancelled_list.
  apply (Keeps_fold (fun n s => rec_set_status n CANCELLED (cancelled_add n s))).
  intro n. apply (Keeps_comp (cancelled_add n) (rec_set_status n CANCELLED));
    [apply K_cancelled_add|apply K_rec_set_status].
Qed.

(** an event that is not a successful submission *)
Lemma P_emit_other : forall e, subm [e] = [] -> Pres (emit e).
Proof.
  intros e He base s HC. split; [|reflexivity].
  intros x Hx. change (J (emit e s)) with (J s) in *. simpl evs. simpl rev.
  rewrite subm_app, He, app_nil_r. apply HC, Hx.
Qed.

(** THE paired step: the identifier is appended to the record and the
    successful submission is emitted *)
Lemma P_submit_ok : forall x k sc j,
  Pres (fun s => emit (ESubmit x k sc (Some j)) (rec_push_job x j s)).
Proof.
  intros x k sc j base s HC.
  assert (HJ : J (emit (ESubmit x k sc (Some j)) (rec_push_job x j s))
               = upd x (fun l => l ++ [j]) (J s)).
  { unfold J. simpl. apply map_upd. reflexivity. }
  split; [|rewrite HJ; apply length_upd'].
  intros y Hy. rewrite HJ in *. rewrite length_upd' in Hy. simpl evs. simpl rev.
  rewrite subm_app, jobs_of_app. simpl subm. unfold jobs_of at 2. simpl filter.
  destruct (Nat.eqb_spec x y) as [->|Hne].
  - rewrite nth_upd_same by exact Hy. rewrite (HC y Hy), <- app_assoc. reflexivity.
  - rewrite nth_upd_other by exact Hne. simpl. rewrite app_nil_r. apply HC, Hy.
Qed.

Ltac keeps := first
  [ apply K_rec_set_status | apply K_rec_inc_restarts | apply K_completed_add | apply K_inprog_add
  | apply K_inprog_remove | apply K_failed_add | apply K_cancelled_add | apply K_ready_push
  | apply K_deps_prune | apply K_mark_failed_list | apply K_mark_cancelled_list ].

(** one goal [Coupled base (f (g (.. s))) /\ length .. = length ..] at a time *)
Definition Good (base : nat -> list nat) (n : nat) (s : st) : Prop :=
  Coupled base s /\ length (J s) = n.

Lemma Good_keeps : forall f base n s, Keeps f -> Good base n s -> Good base n (f s).
Proof.
  intros f base n s Hk [HC HL]. destruct (Keeps_Pres f Hk base s HC) as [A B]. split; [exact A|congruence].
Qed.

Lemma Good_pres : forall f base n s, Pres f -> Good base n s -> Good base n (f s).
Proof. intros f base n s Hp [HC HL]. destruct (Hp base s HC) as [A B]. split; [exact A|congruence]. Qed.

Ltac good_step :=
  match goal with
  | |- Good _ _ (rec_set_status _ _ _) => apply (Good_keeps (rec_set_status _ _)); [apply K_rec_set_status|]
  | |- Good _ _ (rec_inc_restarts _ _) => apply (Good_keeps (rec_inc_restarts _)); [apply K_rec_inc_restarts|]
  | |- Good _ _ (completed_add _ _) => apply (Good_keeps (completed_add _)); [apply K_completed_add|]
  | |- Good _ _ (inprog_add _ _) => apply (Good_keeps (inprog_add _)); [apply K_inprog_add|]
  | |- Good _ _ (inprog_remove _ _) => apply (Good_keeps (inprog_remove _)); [apply K_inprog_remove|]
  | |- Good _ _ (failed_add _ _) => apply (Good_keeps (failed_add _)); [apply K_failed_add|]
  | |- Good _ _ (cancelled_add _ _) => apply (Good_keeps (cancelled_add _)); [apply K_cancelled_add|]
  | |- Good _ _ (ready_push _ _) => apply (Good_keeps (ready_push _)); [apply K_ready_push|]
  | |- Good _ _ (deps_prune _ _) => apply (Good_keeps (deps_prune _)); [apply K_deps_prune|]
  | |- Good _ _ (mark_failed_list _ _) => apply (Good_keeps (mark_failed_list _)); [apply K_mark_failed_list|]
  | |- Good _ _ (mark_cancelled_list _ _) => apply (Good_keeps (mark_cancelled_list _)); [apply K_mark_cancelled_list|]
  | |- Good _ _ (set_ready _ _) => apply (Good_keeps (fun s => set_ready s _)); [apply K_set_ready|]
  | |- Good _ _ (set_canceled _ _) => apply (Good_keeps (fun s => set_canceled s _)); [apply K_set_canceled|]
  | |- Good _ _ (set_subs _ _) => apply (Good_keeps (fun s => set_subs s _)); [apply K_set_subs|]
  | |- Good _ _ (set_next_job _ _) => apply (Good_keeps (fun s => set_next_job s _)); [apply K_set_next_job|]
  | |- Good _ _ (emit (EGen _) _) => apply (Good_pres (emit (EGen _))); [apply P_emit_other; reflexivity|]
  | |- Good _ _ (emit (ECheck _) _) => apply (Good_pres (emit (ECheck _))); [apply P_emit_other; reflexivity|]
  | |- Good _ _ (emit (ECancel _) _) => apply (Good_pres (emit (ECancel _))); [apply P_emit_other; reflexivity|]
  | |- Good _ _ (emit (ESubmit _ _ _ None) _) =>
      apply (Good_pres (emit (ESubmit _ _ _ None))); [apply P_emit_other; reflexivity|]
  | |- Good _ _ (emit (ESubmit ?x ?k ?sc (Some ?j)) (rec_push_job ?x ?j _)) =>
      apply (Good_pres (fun s => emit (ESubmit x k sc (Some j)) (rec_push_job x j s))); [apply P_submit_ok|]
  end.

Ltac good := repeat good_step; try assumption.

(* ------------------------------------------------------------------------- *)
(** * the decision logic                                                       *)
(* ------------------------------------------------------------------------- *)

Lemma G_next_sub : forall base n s, Good base n s -> Good base n (snd (next_sub s)).
Proof.
  intros base n s H. unfold next_sub. destruct (subs s); simpl; [exact H|]. good.
Qed.

Lemma G_submit_attempts : forall g x restart k base n s,
  Good base n s -> Good base n (snd (submit_attempts g x restart k s)).
Proof.
  intros g x restart. induction k as [|k IH]; intros base n s H; [exact H|].
  simpl.
  set (s1 := if restart then emit (EGen x) s else rec_set_status x PENDING s).
  assert (H1 : Good base n s1) by (subst s1; destruct restart; good).
  set (s2 := if scheduled (attr g x) then s1 else rec_set_status x RUNNING s1).
  assert (H2 : Good base n s2) by (subst s2; destruct (scheduled (attr g x)); good).
  pose proof (G_next_sub base n s2 H2) as H3.
  destruct (next_sub s2) as [b s3]. simpl in H3.
  destruct b.
  - simpl. good.
  - apply IH. good.
Qed.

Lemma G_mark_restart : forall g x base n s,
  Good base n s -> Good base n (snd (mark_restart_gen g x s)).
Proof.
  intros g x base n s H. unfold mark_restart_gen.
  destruct ((rlimit (attr g x) =? 0) || (restarts (getrec (rec_set_status x TIMEDOUT s) x) <? rlimit (attr g x)));
    simpl; good.
Qed.

Lemma G_execute_record : forall c g x restart base n s,
  Good base n s -> Good base n (execute_record_gen c g x restart s).
Proof.
  intros c g x restart base n s H. unfold execute_record_gen.
  set (s1 := if negb restart then emit (EGen x) s else s).
  assert (H1 : Good base n s1) by (subst s1; destruct (negb restart); good).
  destruct (dry c); [good|].
  pose proof (G_submit_attempts g x restart (attempts c) base n s1 H1) as H2.
  destruct (submit_attempts g x restart (attempts c) s1) as [ok s2]. simpl in H2.
  destruct ok; [destruct (negb (scheduled (attr g x)))|]; good.
Qed.

Lemma G_handle_report : forall c g acc r base n,
  Good base n (fst (fst acc)) -> Good base n (fst (fst (handle_report_gen c g acc r))).
Proof.
  intros c g [[s cl] ca] [x status] base n H. simpl in H. unfold handle_report_gen.
  destruct (oeqb status FINISHED); [simpl; good|].
  destruct (oeqb status RUNNING); [simpl; good|].
  destruct (oeqb status TIMEDOUT).
  { destruct (has_restart (attr g x) && negb (canceled s)).
    - pose proof (G_mark_restart g x base n s H) as H1.
      destruct (mark_restart_gen g x s) as [b s1]. simpl in H1.
      destruct b; simpl; [apply G_execute_record; exact H1|good].
    - simpl. good. }
  destruct (oeqb status HWFAILURE); [simpl; good|].
  destruct (oeqb status FAILED); [simpl; good|].
  destruct (oeqb status UNKNOWN); [simpl; good|].
  destruct (oeqb status CANCELLED); [simpl; good|].
  simpl. exact H.
Qed.

Lemma G_fold_reports : forall c g reps acc base n,
  Good base n (fst (fst acc)) ->
  Good base n (fst (fst (fold_left (handle_report_gen c g) reps acc))).
Proof.
  intros c g. induction reps as [|r reps IH]; intros acc base n H; [exact H|].
  simpl. apply IH. apply G_handle_report. exact H.
Qed.

Lemma G_dispatch : forall c g reps base n s, Good base n s -> Good base n (dispatch_gen c g reps s).
Proof.
  intros c g reps base n s H. unfold dispatch_gen.
  pose proof (G_fold_reports c g reps (s, [], []) base n H) as H1.
  destruct (fold_left (handle_report_gen c g) reps (s, [], [])) as [[s1 cl] ca]. simpl in H1. good.
Qed.

Lemma G_stage_node : forall g base n s x, Good base n s -> Good base n (stage_node_gen g s x).
Proof.
  intros g base n s x H. unfold stage_node_gen.
  destruct (mem x (completed s)); [exact H|].
  destruct (state_eqb (status (getrec s x)) INITIALIZED); [|exact H].
  destruct (is_nil (getdeps (deps_prune x s) x)); [|good].
  destruct (negb (mem x (ready (deps_prune x s)))); good.
Qed.

Lemma G_fold_stage : forall g l base n s, Good base n s -> Good base n (fold_left (stage_node_gen g) l s).
Proof.
  intros g. induction l as [|x l IH]; intros base n s H; [exact H|].
  simpl. apply IH, G_stage_node, H.
Qed.

Lemma G_launch_body : forall c g base n s, Good base n s -> Good base n (launch_body_gen c g s).
Proof.
  intros c g base n s H. unfold launch_body_gen. destruct (ready s) as [|x rest]; [exact H|].
  destruct (canceled (set_ready s rest)); [good|]. apply G_execute_record. good.
Qed.

Lemma G_iter_launch : forall c g k base n s, Good base n s -> Good base n (Nat.iter k (launch_body_gen c g) s).
Proof.
  intros c g. induction k as [|k IH]; intros base n s H; [exact H|].
  simpl. apply G_launch_body, IH, H.
Qed.

Lemma G_cancel_study : forall base n s, Good base n s -> Good base n (cancel_study_gen s).
Proof. intros base n s H. unfold cancel_study_gen. good. Qed.

Lemma G_execute_ready_steps : forall c g p base n s,
  Good base n s -> Good base n (fst (execute_ready_steps_gen c g p s)).
Proof.
  intros c g p base n s H. unfold execute_ready_steps_gen.
  set (s1 := if negb (dry c) then emit (ECheck (map (lastjob s) (inprog s))) s else s).
  assert (H1 : Good base n s1) by (subst s1; destruct (negb (dry c)); good).
  destruct (qcode_eqb (if negb (dry c) then qcode p else QOK) QERROR); [exact H1|].
  simpl. apply G_iter_launch, G_fold_stage.
  destruct (qcode_eqb (if negb (dry c) then qcode p else QOK) QOK); [apply G_dispatch|]; exact H1.
Qed.

Lemma poll_good : forall c g s p,
  Good (fun y => jobs (getrec s y)) (length (recs s)) (fst (poll c g s p)).
Proof.
  intros c g s p. unfold poll.
  set (s0 := set_evs (set_subs s (psubs p)) []).
  assert (H0 : Good (fun y => jobs (getrec s y)) (length (recs s)) s0).
  { split; [|unfold J; simpl; apply map_length].
    intros y Hy. simpl. rewrite app_nil_r. unfold J. simpl.
    change (@nil nat) with (jobs dflt_rec). rewrite map_nth. reflexivity. }
  set (s0' := if cancel_req p then cancel_study_gen s0 else s0).
  assert (H0' : Good (fun y => jobs (getrec s y)) (length (recs s)) s0').
  { subst s0'. destruct (cancel_req p); [apply G_cancel_study|]; exact H0. }
  apply G_execute_ready_steps. exact H0'.
Qed.

Lemma poll_length : forall c g s p, length (recs (fst (poll c g s p))) = length (recs s).
Proof.
  intros c g s p. destruct (poll_good c g s p) as [_ HL]. unfold J in HL. rewrite map_length in HL. exact HL.
Qed.

(** ONE POLL: the job-id list of every instance grows by exactly the
    identifiers of its successful submissions in this poll's adapter trace *)
Theorem poll_jobs : forall c g s p x,
  x < length (recs s) ->
  let s1 := fst (poll c g s p) in
  jobs (getrec s1 x) = jobs (getrec s x) ++ jobs_of (subm (rev (evs s1))) x.
Proof.
  intros c g s p x Hx s1. subst s1. destruct (poll_good c g s p) as [HC HL].
  rewrite jobs_getrec. apply HC. rewrite HL. exact Hx.
Qed.

(* ------------------------------------------------------------------------- *)
(** * every poll sequence                                                      *)
(* ------------------------------------------------------------------------- *)

(** the states after each poll, each with all successful submissions seen at
    the adapter since the study started (same stopping rule as [ExecRun.run]) *)
Fixpoint run_acc (c : cfg) (g : graph) (s : st) (acc : list (nat * nat)) (ps : list pin)
  : list (st * list (nat * nat)) :=
  match ps with
  | [] => []
  | p :: ps' =>
    let '(s1, r) := poll c g s p in
    let acc1 := acc ++ subm (rev (evs s1)) in
    match r with
    | SRUNNING => (s1, acc1) :: run_acc c g s1 acc1 ps'
    | _ => [(s1, acc1)]
    end
  end.

Lemma run_acc_states : forall c g ps s acc,
  map fst (run_acc c g s acc ps) = map fst (run_states c g s ps).
Proof.
  intros c g. induction ps as [|p ps IH]; intros s acc; [reflexivity|].
  simpl. destruct (poll c g s p) as [s1 r]. destruct r; simpl; try reflexivity.
  rewrite IH. reflexivity.
Qed.

Theorem run_jobs_gen : forall c g ps s acc sk acck,
  (forall x, x < length (recs s) -> jobs (getrec s x) = jobs_of acc x) ->
  In (sk, acck) (run_acc c g s acc ps) ->
  length (recs sk) = length (recs s) /\
  forall x, x < length (recs s) -> jobs (getrec sk x) = jobs_of acck x.
Proof.
  intros c g. induction ps as [|p ps IH]; intros s acc sk acck H0 Hin; [destruct Hin|].
  simpl in Hin. destruct (poll c g s p) as [s1 r] eqn:Ep.
  assert (H1 : length (recs s1) = length (recs s) /\
               forall x, x < length (recs s) ->
                 jobs (getrec s1 x) = jobs_of (acc ++ subm (rev (evs s1))) x).
  { split.
    - pose proof (poll_length c g s p) as Hl. rewrite Ep in Hl. exact Hl.
    - intros x Hx. pose proof (poll_jobs c g s p x Hx) as Hp. rewrite Ep in Hp. simpl in Hp.
      rewrite Hp, jobs_of_app, (H0 x Hx). reflexivity. }
  destruct H1 as [HL1 HJ1].
  assert (Hhead : (sk, acck) = (s1, acc ++ subm (rev (evs s1))) ->
                  length (recs sk) = length (recs s) /\
                  forall x, x < length (recs s) -> jobs (getrec sk x) = jobs_of acck x).
  { intro E. inversion E; subst. split; assumption. }
  destruct r; simpl in Hin;
    try (destruct Hin as [E|[]]; apply Hhead; symmetry; exact E).
  destruct Hin as [E|Hin]; [apply Hhead; symmetry; exact E|].
  destruct (IH s1 (acc ++ subm (rev (evs s1))) sk acck) as [A B]; [|exact Hin|].
  - intros x Hx. apply HJ1. rewrite <- HL1. exact Hx.
  - split; [congruence|]. intros x Hx. apply B. rewrite HL1. exact Hx.
Qed.

Lemma nth_map_const : forall {A B} (d : B) (l : list A) x, nth x (map (fun _ => d) l) d = d.
Proof. intros A B d. induction l as [|a l IH]; intro x; destruct x; simpl; auto. Qed.

(** EVERY poll sequence from the initial state: after every poll, the job-id
    list of every instance is the list of identifiers returned for its
    successful submissions so far, in order *)
Theorem run_jobs : forall c g ps sk acck,
  In (sk, acck) (run_acc c g (init g) [] ps) ->
  length (recs sk) = length g /\
  forall x, x < length g -> jobs (getrec sk x) = jobs_of acck x.
Proof.
  intros c g ps sk acck Hin.
  destruct (run_jobs_gen c g ps (init g) [] sk acck) as [A B]; [|exact Hin|].
  - intros x Hx. unfold getrec, init. simpl. rewrite nth_map_const. reflexivity.
  - simpl in A, B. rewrite map_length in A, B. split; assumption.
Qed.

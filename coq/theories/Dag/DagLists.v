(** Reflection lemmas for the boolean list-as-set operations of Base.Util and
    basic facts about [reach]; used by all Dag proof files. *)
From Coq Require Import List Arith Bool Lia Permutation.
From MWF Require Import Base.Util Dag.DagModel.
Import ListNotations.

Lemma mem_In : forall x l, mem x l = true <-> In x l.
Proof.
  intros x l. unfold mem. rewrite existsb_exists. split.
  - intros [y [H1 H2]]. apply Nat.eqb_eq in H2. subst. exact H1.
  - intros H. exists x. split; [exact H | apply Nat.eqb_refl].
Qed.

Lemma mem_nIn : forall x l, mem x l = false <-> ~ In x l.
Proof.
  intros x l. rewrite <- mem_In. destruct (mem x l); split; intro H.
  - discriminate.
  - exfalso. apply H. reflexivity.
  - intro K. discriminate.
  - reflexivity.
Qed.

Lemma mem_cons_ne : forall x y l, x <> y -> mem x (y :: l) = mem x l.
Proof.
  intros. unfold mem. simpl. apply Nat.eqb_neq in H. rewrite H. reflexivity.
Qed.

Lemma srem_notin : forall v l, ~ In v l -> srem v l = l.
Proof.
  intros v l. unfold srem. induction l as [|a l IH]; simpl; intros H; [reflexivity|].
  destruct (Nat.eqb v a) eqn:E.
  - apply Nat.eqb_eq in E. subst. exfalso. apply H. left. reflexivity.
  - simpl. f_equal. apply IH. intros K. apply H. right. exact K.
Qed.

Lemma srem_head : forall v l, ~ In v l -> srem v (v :: l) = l.
Proof.
  intros v l H. unfold srem. simpl. rewrite Nat.eqb_refl. simpl.
  apply (srem_notin v l H).
Qed.

Lemma nodupb_NoDup : forall l, nodupb l = true <-> NoDup l.
Proof.
  induction l as [|a l IH]; simpl.
  - split; intros; [constructor | reflexivity].
  - rewrite andb_true_iff, negb_true_iff, mem_nIn, IH. split.
    + intros [H1 H2]. constructor; assumption.
    + intros H. inversion H; subst. split; assumption.
Qed.

Lemma subset_incl : forall a b, subset a b = true <-> incl a b.
Proof.
  intros a b. unfold subset. rewrite forallb_forall. unfold incl. split; intros H x Hx.
  - apply mem_In. apply H. exact Hx.
  - apply mem_In. apply H. exact Hx.
Qed.

Lemma seteqb_iff : forall a b, seteqb a b = true <-> (forall x, In x a <-> In x b).
Proof.
  intros a b. unfold seteqb. rewrite andb_true_iff, !subset_incl. unfold incl. split.
  - intros [H1 H2] x. split; auto.
  - intros H. split; intros x; apply H.
Qed.

Lemma leqb_eq : forall a b, leqb a b = true <-> a = b.
Proof.
  induction a as [|x a IH]; destruct b as [|y b]; simpl; split; intros H; try congruence.
  - apply andb_true_iff in H. destruct H as [H1 H2]. apply Nat.eqb_eq in H1.
    apply IH in H2. subst. reflexivity.
  - inversion H; subst. rewrite Nat.eqb_refl. simpl. apply IH. reflexivity.
Qed.

(** ** reach *)
Section Reach.
  Variable sc : nat -> list nat.

  Lemma reach_trans : forall x y z, reach sc x y -> reach sc y z -> reach sc x z.
  Proof.
    intros x y z H. induction H; intros K; [exact K|].
    eapply reach_step; [eassumption | auto].
  Qed.

  Lemma reach_edge : forall x y, In y (sc x) -> reach sc x y.
  Proof. intros. eapply reach_step; [eassumption | apply reach_refl]. Qed.

  Lemma reach_right : forall x y z, reach sc x y -> In z (sc y) -> reach sc x z.
  Proof. intros. eapply reach_trans; [eassumption | apply reach_edge; assumption]. Qed.

  (** a set that contains [s] and is closed under successors contains all
      that [s] reaches *)
  Lemma reach_closed : forall (P : nat -> Prop),
      (forall x c, P x -> In c (sc x) -> P c) ->
      forall s x, reach sc s x -> P s -> P x.
  Proof.
    intros P HP s x H. induction H; intros; [assumption|].
    apply IHreach. eapply HP; eassumption.
  Qed.
End Reach.

(** [reach] only depends on the successor lists *)
Lemma reach_ext : forall sc1 sc2, (forall x, sc1 x = sc2 x) ->
  forall a b, reach sc1 a b -> reach sc2 a b.
Proof.
  intros sc1 sc2 E a b H. induction H; [apply reach_refl|].
  eapply reach_step; [rewrite <- E; eassumption | assumption].
Qed.

(** ** the number of elements of [U] outside [vis]: the termination measure *)
Definition unv (U vis : list nat) : nat :=
  length (filter (fun x => negb (mem x vis)) U).

Lemma unv_le_length : forall U vis, unv U vis <= length U.
Proof.
  intros U vis. unfold unv. induction U as [|a U IH]; simpl; [lia|].
  destruct (negb (mem a vis)); simpl; lia.
Qed.

Lemma unv_mono : forall U vis vis', incl vis vis' -> unv U vis' <= unv U vis.
Proof.
  intros U vis vis' H. unfold unv. induction U as [|a U IH]; simpl; [lia|].
  destruct (mem a vis') eqn:E'; destruct (mem a vis) eqn:E; simpl; try lia.
  apply mem_In in E. apply H in E. apply mem_In in E. congruence.
Qed.

Lemma unv_cons : forall a U vis,
  unv (a :: U) vis = if mem a vis then unv U vis else S (unv U vis).
Proof. intros. unfold unv. simpl. destruct (mem a vis); reflexivity. Qed.

Lemma unv_lt : forall U vis v, In v U -> ~ In v vis -> unv U (v :: vis) < unv U vis.
Proof.
  intros U vis v. induction U as [|a U IH]; intros HI Hn; [contradiction|].
  assert (M : unv U (v :: vis) <= unv U vis) by (apply unv_mono; apply incl_tl, incl_refl).
  rewrite !unv_cons.
  destruct (Nat.eq_dec a v) as [E|Hne].
  - subst a.
    assert (E1 : mem v (v :: vis) = true) by (apply mem_In; left; reflexivity).
    assert (E2 : mem v vis = false) by (apply mem_nIn; exact Hn).
    rewrite E1, E2. lia.
  - rewrite (mem_cons_ne a v vis Hne).
    destruct HI as [HI|HI]; [congruence|].
    specialize (IH HI Hn).
    destruct (mem a vis); lia.
Qed.

(** ** graph-level facts *)
Lemma lookup_In : forall g x l, lookup g x = Some l -> In (x, l) g.
Proof.
  induction g as [|[k l0] g IH]; simpl; intros x l H; [discriminate|].
  destruct (Nat.eqb k x) eqn:E.
  - apply Nat.eqb_eq in E. inversion H; subst. left. reflexivity.
  - right. apply IH. exact H.
Qed.

Lemma lookup_None : forall g x, lookup g x = None <-> ~ In x (keys g).
Proof.
  induction g as [|[k l0] g IH]; simpl; intros x.
  - split; intros; auto.
  - destruct (Nat.eqb k x) eqn:E.
    + apply Nat.eqb_eq in E. subst. split; intros H; [discriminate|].
      exfalso. apply H. left. reflexivity.
    + apply Nat.eqb_neq in E. rewrite IH. split; intros H.
      * intros [K|K]; [congruence | auto].
      * intros K. apply H. right. exact K.
Qed.

Lemma succs_key : forall g x c, In c (succs g x) -> In x (keys g).
Proof.
  intros g x c H. unfold succs in H. destruct (lookup g x) eqn:E; [|contradiction].
  apply lookup_In in E. unfold keys. apply in_map_iff. exists (x, l). split; auto.
Qed.

Lemma wf_closed : forall g, wf g -> forall x c, In c (succs g x) -> In c (keys g).
Proof.
  intros g [_ H] x c Hc. unfold succs in Hc. destruct (lookup g x) eqn:E; [|contradiction].
  apply lookup_In in E. eapply H; eassumption.
Qed.

Lemma keys_length : forall g, length (keys g) = length g.
Proof. intros. unfold keys. apply map_length. Qed.

Lemma wfb_wf : forall g, wfb g = true <-> wf g.
Proof.
  intros g. unfold wfb, wf. rewrite andb_true_iff, nodupb_NoDup, forallb_forall.
  split; intros [H1 H2]; split; auto.
  - intros k l c Hkl Hc. specialize (H2 (k, l) Hkl). simpl in H2.
    rewrite forallb_forall in H2. apply mem_In. apply H2. exact Hc.
  - intros [k l] Hkl. simpl. apply forallb_forall. intros c Hc. apply mem_In.
    eapply H2; eassumption.
Qed.

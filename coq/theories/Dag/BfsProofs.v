(** DAG.bfs_subtree (the same loop as ExecutionGraph's sweep of dependents):
    on any successor function, cyclic or not, the path returned is
    duplicate-free and holds exactly the nodes reachable from the start node;
    one unit of fuel per node of a successor-closed universe is enough. *)
From Coq Require Import List Arith Bool Lia.
From MWF Require Import Base.Util Dag.DagModel Dag.DagLists.
Import ListNotations.

Lemma NoDup_app_intro : forall (a b : list nat),
  NoDup a -> NoDup b -> (forall x, In x b -> ~ In x a) -> NoDup (a ++ b).
Proof.
  induction a as [|y a IH]; simpl; intros b Na Nb H; [exact Nb|].
  inversion Na; subst. constructor.
  - intros K. apply in_app_or in K. destruct K as [K|K]; [contradiction|].
    apply (H y K). left. reflexivity.
  - apply IH; try assumption. intros x Hx K. apply (H x Hx). right. exact K.
Qed.

Section Bfs.
  Variable sc : nat -> list nat.

  (** the inner [for node in adjacency_table[root]] loop appends to queue and
      path the successors not yet in the path, each once *)
  Lemma bfs_scan_spec : forall cs q p, exists nw,
      bfs_scan cs q p = (q ++ nw, p ++ nw) /\ NoDup nw /\
      (forall x, In x nw -> In x cs /\ ~ In x p) /\
      (forall x, In x cs -> In x p \/ In x nw).
  Proof.
    induction cs as [|c cs IH]; intros q p; simpl.
    - exists []. rewrite !app_nil_r. split; [reflexivity|]. split; [constructor|].
      split; [intros x [] | intros x []].
    - destruct (mem c p) eqn:M.
      + apply mem_In in M. destruct (IH q p) as [nw [E [N [H1 H2]]]].
        exists nw. split; [exact E|]. split; [exact N|]. split.
        * intros x Hx. destruct (H1 x Hx). split; [right|]; assumption.
        * intros x [<-|Hx]; [left; exact M | apply H2; exact Hx].
      + apply mem_nIn in M. destruct (IH (q ++ [c]) (p ++ [c])) as [nw [E [N [H1 H2]]]].
        exists (c :: nw). rewrite E, <- !app_assoc. simpl. split; [reflexivity|].
        split; [|split].
        * constructor; [|exact N]. intros K. destruct (H1 c K) as [_ K2].
          apply K2. apply in_or_app. right. left. reflexivity.
        * intros x [<-|Hx]; [split; [left; reflexivity | exact M]|].
          destruct (H1 x Hx) as [K1 K2]. split; [right; exact K1|].
          intros K. apply K2. apply in_or_app. left. exact K.
        * intros x [<-|Hx]; [right; left; reflexivity|].
          destruct (H2 x Hx) as [K|K]; [|right; right; exact K].
          apply in_app_or in K. destruct K as [K|[<-|[]]]; [left; exact K | right; left; reflexivity].
  Qed.

  Variable s : nat.

  (** [d] = dequeued nodes, [q] = queue; the path is [d ++ q] *)
  Definition BInv (d q : list nat) : Prop :=
    NoDup (d ++ q) /\ In s (d ++ q) /\
    (forall x, In x (d ++ q) -> reach sc s x) /\
    (forall x c, In x d -> In c (sc x) -> In c (d ++ q)).

  Variable U : list nat.
  Hypothesis U_closed : forall x c, In x U -> In c (sc x) -> In c U.

  Lemma bfs_loop_spec : forall fuel d q,
      BInv d q -> incl (d ++ q) U -> length U <= fuel + length d ->
      exists l, bfs_loop sc fuel q (d ++ q) = Some l /\ NoDup l /\ In s l /\
                (forall x, In x l -> reach sc s x) /\
                (forall x c, In x l -> In c (sc x) -> In c l).
  Proof.
    induction fuel as [|f IH]; intros d q B I L.
    - destruct q as [|root q'].
      + simpl. exists (d ++ []). destruct B as [B1 [B2 [B3 B4]]].
        split; [reflexivity|]. split; [exact B1|]. split; [exact B2|]. split; [exact B3|].
        intros x c Hx Hc. rewrite app_nil_r in Hx. eapply B4; eassumption.
      + exfalso. destruct B as [B1 _].
        pose proof (NoDup_incl_length B1 I) as K. rewrite app_length in K. simpl in *. lia.
    - destruct q as [|root q'].
      + simpl. exists (d ++ []). destruct B as [B1 [B2 [B3 B4]]].
        split; [reflexivity|]. split; [exact B1|]. split; [exact B2|]. split; [exact B3|].
        intros x c Hx Hc. rewrite app_nil_r in Hx. eapply B4; eassumption.
      + simpl. destruct (bfs_scan_spec (sc root) q' (d ++ root :: q')) as [nw [E [N [H1 H2]]]].
        rewrite E.
        assert (EQ : (d ++ root :: q') ++ nw = (d ++ [root]) ++ (q' ++ nw)).
        { rewrite <- !app_assoc. reflexivity. }
        rewrite EQ. destruct B as [B1 [B2 [B3 B4]]].
        assert (Rr : reach sc s root).
        { apply B3. apply in_or_app. right. left. reflexivity. }
        assert (Ur : In root U).
        { apply I. apply in_or_app. right. left. reflexivity. }
        apply IH.
        * split; [|split; [|split]].
          -- rewrite <- EQ. apply NoDup_app_intro; [exact B1 | exact N|].
             intros x Hx. apply H1. exact Hx.
          -- rewrite <- EQ. apply in_or_app. left. exact B2.
          -- intros x Hx. rewrite <- EQ in Hx. apply in_app_or in Hx. destruct Hx as [Hx|Hx].
             ++ apply B3. exact Hx.
             ++ eapply reach_right; [exact Rr | apply H1; exact Hx].
          -- intros x c Hx Hc. rewrite <- EQ. apply in_app_or in Hx.
             destruct Hx as [Hx|[<-|[]]].
             ++ apply in_or_app. left. eapply B4; eassumption.
             ++ apply in_or_app. destruct (H2 c Hc); [left | right]; assumption.
        * rewrite <- EQ. intros x Hx. apply in_app_or in Hx. destruct Hx as [Hx|Hx].
          -- apply I. exact Hx.
          -- eapply U_closed; [exact Ur | apply H1; exact Hx].
        * rewrite app_length. simpl. lia.
  Qed.

  Theorem bfs_exact_gen : forall fuel, In s U -> length U <= fuel ->
      exists l, bfs sc fuel s = Some l /\ NoDup l /\ (forall x, In x l <-> reach sc s x).
  Proof.
    intros fuel Hs L. unfold bfs.
    destruct (bfs_loop_spec fuel [] [s]) as [l [E [N [H1 [H2 H3]]]]].
    - split; [|split; [|split]]; simpl.
      + constructor; [intros [] | constructor].
      + left. reflexivity.
      + intros x [<-|[]]. apply reach_refl.
      + intros x c [].
    - intros x [<-|[]]. exact Hs.
    - simpl. lia.
    - exists l. split; [exact E|]. split; [exact N|]. intros x. split; [apply H2|].
      intros R. apply (reach_closed sc (fun y => In y l)) with (s := s); assumption.
  Qed.
End Bfs.

(** ** the class's [bfs_subtree] *)
Theorem bfs_opt_exact : forall g s, wf g -> In s (keys g) ->
  exists l, bfs_opt g s = Some l /\ NoDup l /\ (forall x, In x l <-> reachable g s x).
Proof.
  intros g s W Hs. unfold bfs_opt, reachable.
  apply (bfs_exact_gen (succs g) s (keys g)).
  - intros x c _ Hc. eapply wf_closed; eassumption.
  - exact Hs.
  - rewrite keys_length. lia.
Qed.

Theorem bfs_subtree_exact : forall g s, wf g -> In s (keys g) ->
  exists l, bfs_subtree g s = TOk l /\ NoDup l /\ (forall x, In x l <-> reachable g s x).
Proof.
  intros g s W Hs. destruct (bfs_opt_exact g s W Hs) as [l [E H]].
  exists l. split; [|exact H]. unfold bfs_subtree.
  assert (M : mem s (keys g) = true) by (apply mem_In; exact Hs).
  rewrite M, E. reflexivity.
Qed.

Lemma bfs_subtree_missing : forall g s, ~ In s (keys g) -> bfs_subtree g s = TErr 1.
Proof.
  intros g s H. unfold bfs_subtree. apply mem_nIn in H. rewrite H. reflexivity.
Qed.

(** [reach_set] (used by the monitor) is the set of reachable nodes *)
Lemma reach_set_spec : forall g s, wf g -> In s (keys g) ->
  NoDup (reach_set g s) /\ forall x, In x (reach_set g s) <-> reachable g s x.
Proof.
  intros g s W Hs. unfold reach_set.
  destruct (bfs_opt_exact g s W Hs) as [l [-> H]]. exact H.
Qed.

Lemma creates_cycle_spec : forall g a b, wf g -> In b (keys g) ->
  (creates_cycle g a b = true <-> a = b \/ reachable g b a).
Proof.
  intros g a b W Hb. unfold creates_cycle.
  destruct (reach_set_spec g b W Hb) as [_ H].
  rewrite orb_true_iff, Nat.eqb_eq, mem_In, H. reflexivity.
Qed.

(** Combinators the text GENERATED from maestrowf/datastructures/dag.py
    (Dag/DagGen.v, by translate/tcode_dag.py) is composed of.  One combinator
    per Python statement / expression template; the representation is the one
    of DagModel.v (the adjacency table is an association list in insertion
    order; Python sets, flag dictionaries and dictionary key sets are lists
    used through [mem]; a deque is a list with its left end first).

    Stdlib only, small total functions, no proofs.  The equality of the
    generated functions with the hand-written model is in DagGenProofs.v. *)
From Coq Require Import List Arith Bool.
From MWF Require Import Base.Util Dag.DagModel.
Import ListNotations.

(* ------------------------------------------------------------------------- *)
(** * the table: [self.adjacency_table] / [self.values] (same keys)           *)
(* ------------------------------------------------------------------------- *)

(** [v in self.values], [v in self.adjacency_table] *)
Definition has_key (v : nat) (g : graph) : bool := mem v (keys g).

(** [self.adjacency_table[v]] (a missing key has no successors, see [succs]) *)
Definition adj (g : graph) (v : nat) : list nat := succs g v.

(** [self.values[v] = obj; self.adjacency_table[v] = []] on a new key *)
Definition tbl_add (v : nat) (g : graph) : graph := g ++ [(v, [])].

(** [self.adjacency_table[a].append(b)] *)
Definition adj_append (a b : nat) (g : graph) : graph := upd_adj g a (fun l => l ++ [b]).

(** [self.adjacency_table[a].remove(b)]: list.remove raises ValueError ([err])
    when [b] is not in the list, otherwise the first occurrence goes and the
    code continues ([k]) *)
Definition adj_remove {R} (a b : nat) (g : graph) (err : R) (k : graph -> R) : R :=
  if mem b (adj g a) then k (upd_adj g a (remove_first b)) else err.

(** [if self.detect_cycle(): ... else: ...]; [fuel_out] is the model artefact *)
Definition on_detect {R} (r : option bool) (fuel_out : R) (k : bool -> R) : R :=
  match r with Some b => k b | None => fuel_out end.

(** [self.adjacency_table[src]] of a missing start node: KeyError *)
Definition key_error_unless (b : bool) (r : tres) : tres := if b then r else TErr 1.

(* ------------------------------------------------------------------------- *)
(** * local containers                                                        *)
(* ------------------------------------------------------------------------- *)

(** [set()], [s.add(x)], [s.remove(x)] *)
Definition set_empty : list nat := [].
Definition set_add (x : nat) (s : list nat) : list nat := x :: s.
Definition set_remove (x : nat) (s : list nat) : list nat := srem x s.

(** [{key: False for key in ks}], [d[x] = True], [d[x]]: the list of the keys
    flagged True *)
Definition flags_all_false (ks : list nat) : list nat := [].
Definition flag_set (x : nat) (d : list nat) : list nat := x :: d.
Definition flag_get (x : nat) (d : list nat) : bool := mem x d.

(** [{k: _}], [d[k] = _]: only the key set of such a dictionary is modelled *)
Definition dict_of_key (k : nat) : list nat := [k].
Definition dict_set (k : nat) (d : list nat) : list nat := k :: d.

(** [[]], [l.append(x)], [a + b], [l.extend(b)] *)
Definition list_empty : list nat := [].
Definition list_append (x : nat) (l : list nat) : list nat := l ++ [x].
Definition list_concat (a b : list nat) : list nat := a ++ b.
Definition list_extend (l b : list nat) : list nat := l ++ b.

(** [deque()], [deque(l)], [q.append(x)], [q.appendleft(x)], [list(q)] *)
Definition deque_empty : list nat := [].
Definition deque_of (l : list nat) : list nat := l.
Definition deque_append (x : nat) (q : list nat) : list nat := q ++ [x].
Definition deque_appendleft (x : nat) (q : list nat) : list nat := x :: q.
Definition deque_to_list (q : list nat) : list nat := q.

(** [x = q.popleft()] / [x = q.pop()]; on an empty deque Python raises
    IndexError ([err]) *)
Definition deque_popleft {R} (q : list nat) (err : R) (k : nat -> list nat -> R) : R :=
  match q with [] => err | x :: q' => k x q' end.
Definition deque_pop {R} (q : list nat) (err : R) (k : nat -> list nat -> R) : R :=
  match rev q with [] => err | x :: q' => k x (rev q') end.

(* ------------------------------------------------------------------------- *)
(** * control flow                                                            *)
(* ------------------------------------------------------------------------- *)

(** how one pass through a loop body ends: fell off the end / [continue],
    [break], or [return r] out of the enclosing function *)
Inductive flow (S R : Type) : Type :=
| Continue (s : S)
| Break (s : S)
| Return (r : R).
Arguments Continue {S R} s.
Arguments Break {S R} s.
Arguments Return {S R} r.

(** [for x in l: body] followed by [after]; [s] is the tuple of the local
    containers the body may update *)
Fixpoint for_in {S R} (l : list nat) (body : nat -> S -> flow S R) (s : S) (after : S -> R) : R :=
  match l with
  | [] => after s
  | x :: l' =>
    match body x s with
    | Continue s' => for_in l' body s' after
    | Break s' => after s'
    | Return r => r
    end
  end.

(** [while q: body] followed by [after], where [q = sel s]; one unit of fuel
    per iteration, [None] when it runs out (model artefact) *)
Fixpoint while_nonempty {S R} (fuel : nat) (sel : S -> list nat) (body : S -> flow S (option R))
         (s : S) (after : S -> option R) {struct fuel} : option R :=
  match sel s with
  | [] => after s
  | _ :: _ =>
    match fuel with
    | O => None
    | S f =>
      match body s with
      | Continue s' => while_nonempty f sel body s' after
      | Break s' => after s'
      | Return r => r
      end
    end
  end.

(** [if self._detect_cycle(c, visited, rstack): return True]: a callee that
    answered True (or ran out of fuel) ends the caller with the same answer
    ([ret] wraps it for the loops the call sits in); otherwise the code goes
    on with the two sets as the callee left them *)
Definition if_true_return {R} (r : dres) (ret : dres -> R) (k : list nat -> list nat -> R) : R :=
  match r with DDone a b => k a b | r' => ret r' end.

(** [self._topological_sort(e, visited, stack)]: a call for its effect on the
    two containers; [fuel_out] when the callee ran out of fuel *)
Definition call_proc {R} (r : option (list nat * list nat)) (fuel_out : R)
           (k : list nat -> list nat -> R) : R :=
  match r with Some (a, b) => k a b | None => fuel_out end.

(** [subpath, _ = self.dfs_subtree(node, src)] *)
Definition call_fun {R} (r : option (list nat)) (fuel_out : R) (k : list nat -> R) : R :=
  match r with Some l => k l | None => fuel_out end.

(** what [detect_cycle] hands to its caller *)
Definition dres_result (r : dres) : option bool :=
  match r with DCycle => Some true | DFuel => None | DDone _ _ => Some false end.

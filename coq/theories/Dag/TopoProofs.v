(** DAG.topological_sort: on an acyclic table the DFS that prepends a node
    when it is finished returns every node exactly once, with every edge
    going forward; the fuel "number of nodes" is always enough. *)
From Coq Require Import List Arith Bool Lia.
From Coq Require Export Permutation.
From MWF Require Import Base.Util Dag.DagModel Dag.DagLists.
Import ListNotations.

Section Topo.
  Variable sc : nat -> list nat.

  Definition tvisitor := nat -> list nat -> list nat -> option (list nat * list nat).

  (** every successor of an element occurs later in the list *)
  Fixpoint topo_ok (l : list nat) : Prop :=
    match l with
    | [] => True
    | x :: l' => (forall c, In c (sc x) -> In c l') /\ topo_ok l'
    end.

  Lemma topo_ok_before : forall l a b, topo_ok l -> In a l -> In b (sc a) -> before l a b.
  Proof.
    induction l as [|x l IH]; intros a b T Ha Hb; [contradiction|].
    destruct T as [H1 H2]. simpl in Ha.
    destruct (Nat.eq_dec x a) as [->|Hne].
    - destruct (in_split b l (H1 b Hb)) as [l2 [l3 ->]]. exists [], l2, l3. reflexivity.
    - destruct Ha as [Ha|Ha]; [contradiction|].
      destruct (IH a b H2 Ha Hb) as [l1 [l2 [l3 ->]]]. exists (x :: l1), l2, l3. reflexivity.
  Qed.

  (** ** monotonicity of [visited] (no hypothesis on the graph) *)
  Definition tframe (visit : tvisitor) : Prop :=
    forall c vis stk vis' stk', visit c vis stk = Some (vis', stk') -> incl vis vis'.

  Lemma tchildren_frame : forall visit, tframe visit ->
    forall cs vis stk vis' stk', ts_children visit cs vis stk = Some (vis', stk') -> incl vis vis'.
  Proof.
    intros visit F. induction cs as [|c cs IH]; simpl; intros vis stk vis' stk' H.
    - inversion H; subst. apply incl_refl.
    - destruct (mem c vis); [eapply IH; exact H|].
      destruct (visit c vis stk) as [[vis1 stk1]|] eqn:V; [|discriminate].
      eapply incl_tran; [eapply F; exact V | eapply IH; exact H].
  Qed.

  Lemma tvisit_frame : forall fuel, tframe (ts_visit sc fuel).
  Proof.
    induction fuel as [|f IH]; intros c vis stk vis' stk' H; simpl in H; [discriminate|].
    destruct (ts_children (ts_visit sc f) (sc c) (c :: vis) stk) as [[vis1 stk1]|] eqn:C; [|discriminate].
    inversion H; subst. intros x Hx. eapply (tchildren_frame _ IH); [exact C | right; exact Hx].
  Qed.

  Variable U : list nat.
  Hypothesis U_closed : forall x c, In x U -> In c (sc x) -> In c U.

  (** ** the fuel is enough *)
  Definition tfuel_ok (visit : tvisitor) (f : nat) : Prop :=
    forall c vis stk, In c U -> ~ In c vis -> unv U vis <= f -> visit c vis stk <> None.

  Lemma tchildren_fuel : forall visit f, tframe visit -> tfuel_ok visit f ->
    forall cs vis stk, (forall c, In c cs -> In c U) -> unv U vis <= f ->
                       ts_children visit cs vis stk <> None.
  Proof.
    intros visit f F T. induction cs as [|c cs IH]; simpl; intros vis stk E L; [discriminate|].
    assert (E' : forall c0, In c0 cs -> In c0 U) by (intros; apply E; right; assumption).
    destruct (mem c vis) eqn:M; [apply IH; assumption|].
    apply mem_nIn in M. destruct (visit c vis stk) as [[vis1 stk1]|] eqn:V.
    - apply IH; [exact E'|]. pose proof (unv_mono U _ _ (F _ _ _ _ _ V)). lia.
    - exfalso. eapply T; try eassumption. apply E. left. reflexivity.
  Qed.

  Lemma tvisit_fuel : forall f, tfuel_ok (ts_visit sc f) f.
  Proof.
    induction f as [|f IH]; intros c vis stk Hc N L.
    - pose proof (unv_lt U vis c Hc N). lia.
    - simpl.
      assert (C : ts_children (ts_visit sc f) (sc c) (c :: vis) stk <> None).
      { apply (tchildren_fuel _ f (tvisit_frame f) IH).
        - intros x Hx. eapply U_closed; eassumption.
        - pose proof (unv_lt U vis c Hc N). lia. }
      destruct (ts_children (ts_visit sc f) (sc c) (c :: vis) stk) as [[vis1 stk1]|]; congruence.
  Qed.

  Theorem topo_gen_fuel : forall fuel roots,
      (forall v, In v roots -> In v U) -> length U <= fuel -> topo_gen sc fuel roots <> None.
  Proof.
    intros fuel roots E L. unfold topo_gen.
    assert (C : ts_children (ts_visit sc fuel) roots [] [] <> None).
    { apply (tchildren_fuel _ fuel (tvisit_frame fuel) (tvisit_fuel fuel)); [exact E|].
      pose proof (unv_le_length U []). lia. }
    destruct (ts_children (ts_visit sc fuel) roots [] []) as [[vis1 stk1]|]; congruence.
  Qed.

  (** ** correctness on an acyclic graph *)
  Hypothesis Acyc : acyclic sc.

  Definition SI (vis stk : list nat) : Prop :=
    NoDup stk /\ incl stk vis /\ topo_ok stk /\ incl vis U.

  (** what a (sequence of) visit(s) does: it pushes new, previously unvisited
      nodes [nw] on the stack and marks exactly them visited *)
  Definition Res (vis stk vis' stk' nw : list nat) : Prop :=
    stk' = nw ++ stk /\ (forall x, In x vis' <-> In x vis \/ In x nw) /\
    (forall x, In x nw -> ~ In x vis) /\ SI vis' stk'.

  Definition tvisit_ok (visit : tvisitor) : Prop :=
    forall c vis stk vis' stk',
      visit c vis stk = Some (vis', stk') -> In c U -> ~ In c vis -> SI vis stk ->
      (forall r, In r vis -> ~ In r stk -> reach sc r c) ->
      exists nw, Res vis stk vis' stk' nw /\ In c nw.

  Lemma tchildren_ok : forall visit, tvisit_ok visit ->
    forall cs vis stk vis' stk',
      ts_children visit cs vis stk = Some (vis', stk') ->
      (forall c, In c cs -> In c U) -> SI vis stk ->
      (forall c, In c cs -> In c vis -> In c stk) ->
      (forall r c, In r vis -> ~ In r stk -> In c cs -> reach sc r c) ->
      exists nw, Res vis stk vis' stk' nw /\ (forall c, In c cs -> In c stk').
  Proof.
    intros visit T. induction cs as [|c cs IH]; simpl; intros vis stk vis' stk' H E S G R.
    - inversion H; subst. exists []. split; [|intros c []].
      split; [reflexivity|]. split; [intros x; simpl; tauto|]. split; [intros x []|exact S].
    - assert (E' : forall c0, In c0 cs -> In c0 U) by (intros; apply E; right; assumption).
      destruct (mem c vis) eqn:M.
      + apply mem_In in M.
        destruct (IH _ _ _ _ H E' S) as [nw [Rs B]].
        * intros c0 H0. apply G. right. exact H0.
        * intros r c0 H1 H2 H0. apply R; [exact H1 | exact H2 | right; exact H0].
        * exists nw. split; [exact Rs|]. intros x [<-|Hx]; [|apply B; exact Hx].
          destruct Rs as [-> _]. apply in_or_app. right. apply G; [left; reflexivity | exact M].
      + apply mem_nIn in M.
        destruct (visit c vis stk) as [[vis1 stk1]|] eqn:V; [|discriminate].
        destruct (T _ _ _ _ _ V (E c (or_introl eq_refl)) M S) as [nw1 [[E1 [V1 [D1 S1]]] C1]].
        { intros r H1 H2. apply R; [exact H1 | exact H2 | left; reflexivity]. }
        destruct (IH _ _ _ _ H E' S1) as [nw2 [[E2 [V2 [D2 S2]]] B]].
        * intros c0 H0 Hv. subst stk1. apply V1 in Hv. destruct Hv as [Hv|Hv].
          -- apply in_or_app. right. apply G; [right; exact H0 | exact Hv].
          -- apply in_or_app. left. exact Hv.
        * intros r c0 H1 H2 H0. subst stk1. apply V1 in H1. destruct H1 as [H1|H1].
          -- apply R; [exact H1 | | right; exact H0].
             intros K. apply H2. apply in_or_app. right. exact K.
          -- exfalso. apply H2. apply in_or_app. left. exact H1.
        * exists (nw2 ++ nw1). split.
          -- split; [subst; rewrite app_assoc; reflexivity|]. split; [|split; [|exact S2]].
             ++ intros x. rewrite V2, V1, in_app_iff. tauto.
             ++ intros x Hx K. apply in_app_or in Hx. destruct Hx as [Hx|Hx].
                ** apply (D2 x Hx). apply V1. left. exact K.
                ** apply (D1 x Hx). exact K.
          -- intros x [<-|Hx]; [|apply B; exact Hx].
             subst. apply in_or_app. right. apply in_or_app. left. exact C1.
  Qed.

  Lemma tvisit_ok_all : forall fuel, tvisit_ok (ts_visit sc fuel).
  Proof.
    induction fuel as [|f IH]; intros c vis stk vis' stk' H Hc N S R; simpl in H; [discriminate|].
    destruct (ts_children (ts_visit sc f) (sc c) (c :: vis) stk) as [[vis1 stk1]|] eqn:C; [|discriminate].
    inversion H; subst. clear H.
    destruct S as [S1 [S2 [S3 S4]]].
    assert (Ns : ~ In c stk) by (intros K; apply N; apply S2; exact K).
    destruct (tchildren_ok _ IH _ _ _ _ _ C) as [nw [[E1 [V1 [D1 [T1 [T2 [T3 T4]]]]]] B]].
    - intros x Hx. eapply U_closed; eassumption.
    - split; [exact S1|]. split; [intros x Hx; right; apply S2; exact Hx|]. split; [exact S3|].
      intros x [<-|Hx]; [exact Hc | apply S4; exact Hx].
    - intros x Hx Hv. destruct (in_dec Nat.eq_dec x stk) as [K|K]; [exact K|].
      exfalso. apply (Acyc c). exists x. split; [exact Hx|].
      destruct Hv as [<-|Hv]; [apply reach_refl | apply R; assumption].
    - intros r x H1 H2 Hx. destruct H1 as [<-|H1].
      + apply reach_edge. exact Hx.
      + eapply reach_right; [apply R; assumption | exact Hx].
    - exists (c :: nw). split; [|left; reflexivity].
      assert (Nn : ~ In c nw) by (intros K; apply (D1 c K); left; reflexivity).
      split; [subst; reflexivity|]. split; [|split].
      + intros x. rewrite V1. simpl. tauto.
      + intros x [<-|Hx]; [exact N|]. intros K. apply (D1 x Hx). right. exact K.
      + split; [|split; [|split]].
        * constructor; [|exact T1]. subst stk1. intros K. apply in_app_or in K. tauto.
        * intros x [<-|Hx]; [apply V1; left; left; reflexivity | apply T2; exact Hx].
        * simpl. split; [exact B | exact T3].
        * exact T4.
  Qed.

  Theorem topo_gen_ok : forall fuel roots l,
      (forall v, In v roots -> In v U) -> topo_gen sc fuel roots = Some l ->
      NoDup l /\ topo_ok l /\ (forall v, In v roots -> In v l) /\ incl l U.
  Proof.
    intros fuel roots l E H. unfold topo_gen in H.
    destruct (ts_children (ts_visit sc fuel) roots [] []) as [[vis1 stk1]|] eqn:C; [|discriminate].
    inversion H; subst. clear H.
    destruct (tchildren_ok _ (tvisit_ok_all fuel) _ _ _ _ _ C E) as [nw [[E1 [V1 [D1 [T1 [T2 [T3 T4]]]]]] B]].
    - split; [constructor|]. split; [apply incl_refl|]. split; [exact I | intros x []].
    - intros c _ [].
    - intros r c [].
    - split; [exact T1|]. split; [exact T3|]. split; [exact B|].
      eapply incl_tran; eassumption.
  Qed.
End Topo.

(** ** the class's [topological_sort] *)
Lemma topo_okb_iff : forall g l, topo_okb g l = true <-> topo_ok (succs g) l.
Proof.
  intros g. induction l as [|x l IH]; simpl; [tauto|].
  rewrite andb_true_iff, forallb_forall, IH. split; intros [H1 H2]; split; try exact H2.
  - intros c Hc. apply mem_In. apply H1. exact Hc.
  - intros c Hc. apply mem_In. apply H1. exact Hc.
Qed.

Theorem topological_sort_fuel : forall g, wf g -> topological_sort_opt g <> None.
Proof.
  intros g W. unfold topological_sort_opt. apply (topo_gen_fuel (succs g) (keys g)).
  - intros x c _ Hc. eapply wf_closed; eassumption.
  - auto.
  - rewrite keys_length. apply le_n.
Qed.

Theorem topological_sort_ok : forall g, wf g -> graph_acyclic g ->
  exists l, topological_sort g = TOk l /\ NoDup l /\ (forall x, In x l <-> In x (keys g)) /\
            topo_ok (succs g) l.
Proof.
  intros g W A. pose proof (topological_sort_fuel g W) as F.
  unfold topological_sort. destruct (topological_sort_opt g) as [l|] eqn:E; [|congruence].
  exists l. split; [reflexivity|].
  destruct (topo_gen_ok (succs g) (keys g)) with (fuel := length g) (roots := keys g) (l := l)
    as [N [T [B I]]]; auto.
  - intros x c _ Hc. eapply wf_closed; eassumption.
  - split; [exact N|]. split; [|exact T]. intros x. split; [apply I | apply B].
Qed.

Theorem topological_sort_perm : forall g, wf g -> graph_acyclic g ->
  exists l, topological_sort g = TOk l /\ Permutation l (keys g) /\
            (forall a b, edge g a b -> before l a b).
Proof.
  intros g W A. destruct (topological_sort_ok g W A) as [l [E [N [S T]]]].
  exists l. split; [exact E|]. split.
  - apply NoDup_Permutation; [exact N | apply W | exact S].
  - intros a b Hab. apply (topo_ok_before (succs g)); [exact T | | exact Hab].
    apply S. eapply succs_key. exact Hab.
Qed.

Lemma topo_validb_iff : forall g l, topo_validb g l = true <->
  NoDup l /\ (forall x, In x l <-> In x (keys g)) /\ topo_ok (succs g) l.
Proof.
  intros g l. unfold topo_validb.
  rewrite !andb_true_iff, nodupb_NoDup, seteqb_iff, topo_okb_iff. tauto.
Qed.

(** The mutating operations of the DAG class (add_node / add_edge /
    remove_edge): well-formedness and acyclicity are invariants of every
    operation sequence; a refused [add_edge] leaves the table unchanged; a
    valid edge is never refused. *)
From Coq Require Import List Arith Bool Lia.
From MWF Require Import Base.Util Dag.DagModel Dag.DagLists Dag.DetectProofs.
Import ListNotations.

(** ** [upd_adj], [lookup], [succs] *)
Lemma keys_upd_adj : forall g a f, keys (upd_adj g a f) = keys g.
Proof.
  induction g as [|[k l] g IH]; simpl; intros a f; [reflexivity|].
  destruct (Nat.eqb k a); simpl; [reflexivity | f_equal; apply IH].
Qed.

Lemma length_upd_adj : forall g a f, length (upd_adj g a f) = length g.
Proof. intros. rewrite <- !keys_length, keys_upd_adj. reflexivity. Qed.

Lemma lookup_upd_adj_same : forall g a f,
  lookup (upd_adj g a f) a = option_map f (lookup g a).
Proof.
  induction g as [|[k l] g IH]; simpl; intros a f; [reflexivity|].
  destruct (Nat.eqb k a) eqn:E; simpl; rewrite E; [reflexivity | apply IH].
Qed.

Lemma lookup_upd_adj_other : forall g a f x, x <> a ->
  lookup (upd_adj g a f) x = lookup g x.
Proof.
  induction g as [|[k l] g IH]; simpl; intros a f x H; [reflexivity|].
  destruct (Nat.eqb k a) eqn:E; simpl.
  - apply Nat.eqb_eq in E. subst k.
    assert (E2 : Nat.eqb a x = false) by (apply Nat.eqb_neq; congruence).
    rewrite E2. reflexivity.
  - destruct (Nat.eqb k x); [reflexivity | apply IH; exact H].
Qed.

Lemma lookup_Some_key : forall g x, In x (keys g) -> exists l, lookup g x = Some l.
Proof.
  intros g x H. destruct (lookup g x) eqn:E; [eauto|].
  apply lookup_None in E. contradiction.
Qed.

Lemma succs_upd_adj_same : forall g a f, In a (keys g) ->
  succs (upd_adj g a f) a = f (succs g a).
Proof.
  intros g a f H. unfold succs. rewrite lookup_upd_adj_same.
  destruct (lookup_Some_key g a H) as [l ->]. reflexivity.
Qed.

Lemma succs_upd_adj_other : forall g a f x, x <> a ->
  succs (upd_adj g a f) x = succs g x.
Proof. intros. unfold succs. rewrite lookup_upd_adj_other by assumption. reflexivity. Qed.

Lemma upd_adj_missing : forall g a f, ~ In a (keys g) -> upd_adj g a f = g.
Proof.
  induction g as [|[k l] g IH]; simpl; intros a f H; [reflexivity|].
  destruct (Nat.eqb k a) eqn:E.
  - apply Nat.eqb_eq in E. exfalso. apply H. left. exact E.
  - f_equal. apply IH. intros K. apply H. right. exact K.
Qed.

Lemma upd_adj_twice_id : forall g a f h,
  (forall l, lookup g a = Some l -> h (f l) = l) ->
  upd_adj (upd_adj g a f) a h = g.
Proof.
  induction g as [|[k l] g IH]; simpl; intros a f h H; [reflexivity|].
  destruct (Nat.eqb k a) eqn:E; simpl; rewrite E.
  - rewrite H; reflexivity.
  - f_equal. apply IH. exact H.
Qed.

Lemma remove_first_snoc : forall b l, ~ In b l -> remove_first b (l ++ [b]) = l.
Proof.
  induction l as [|y l IH]; simpl; intros H.
  - rewrite Nat.eqb_refl. reflexivity.
  - destruct (Nat.eqb b y) eqn:E.
    + apply Nat.eqb_eq in E. exfalso. apply H. left. congruence.
    + f_equal. apply IH. intros K. apply H. right. exact K.
Qed.

Lemma remove_first_incl : forall b l x, In x (remove_first b l) -> In x l.
Proof.
  induction l as [|y l IH]; simpl; intros x H; [exact H|].
  destruct (Nat.eqb b y); [right; exact H|].
  destruct H as [H|H]; [left; exact H | right; apply IH; exact H].
Qed.

(** the cycle-refusal path of [add_edge] restores the table exactly *)
Lemma rollback_exact : forall g a b, ~ In b (succs g a) ->
  upd_adj (upd_adj g a (fun l => l ++ [b])) a (remove_first b) = g.
Proof.
  intros g a b H. apply upd_adj_twice_id. intros l E.
  apply remove_first_snoc. unfold succs in H. rewrite E in H. exact H.
Qed.

Lemma succs_add_node : forall g a x, succs (g ++ [(a, [])]) x = succs g x.
Proof.
  intros g a x. unfold succs. induction g as [|[k l] g IH]; simpl.
  - destruct (Nat.eqb a x); reflexivity.
  - destruct (Nat.eqb k x); [reflexivity | exact IH].
Qed.

Lemma keys_add_node : forall g a, keys (g ++ [(a, [])]) = keys g ++ [a].
Proof. intros. unfold keys. rewrite map_app. reflexivity. Qed.

(** ** [wf] as a statement about [succs] *)
Lemma wf_alt : forall g, wf g <->
  NoDup (keys g) /\ forall x c, In c (succs g x) -> In c (keys g).
Proof.
  intros g. split; intros [N H]; split; try exact N.
  - intros x c Hc. eapply wf_closed; [split; eassumption | exact Hc].
  - intros k l c Hkl Hc. apply (H k c). unfold succs.
    assert (E : lookup g k = Some l).
    { clear H. induction g as [|[k0 l0] g IH]; simpl in *; [contradiction|].
      inversion N; subst. destruct Hkl as [Hkl|Hkl].
      - inversion Hkl; subst. rewrite Nat.eqb_refl. reflexivity.
      - destruct (Nat.eqb k0 k) eqn:E.
        + apply Nat.eqb_eq in E. subst. exfalso. apply H1.
          unfold keys. apply in_map_iff. exists (k, l). split; auto.
        + apply IH; assumption. }
    rewrite E. exact Hc.
Qed.

Lemma wf_nil : wf [].
Proof. split; [constructor | intros k l c []]. Qed.

Lemma NoDup_snoc_nat : forall (l : list nat) x, NoDup l -> ~ In x l -> NoDup (l ++ [x]).
Proof.
  induction l as [|y l IH]; simpl; intros x N H.
  - constructor; [intros [] | constructor].
  - inversion N; subst. constructor.
    + rewrite in_app_iff. intros [K|[K|[]]]; [contradiction|]. apply H. left. symmetry. exact K.
    + apply IH; [assumption|]. intros K. apply H. right. exact K.
Qed.

Lemma wf_add_node : forall g a, wf g -> wf (snd (add_node g a)).
Proof.
  intros g a W. unfold add_node. destruct (mem a (keys g)) eqn:M; simpl; [exact W|].
  apply mem_nIn in M. apply wf_alt in W. destruct W as [N H]. apply wf_alt. split.
  - rewrite keys_add_node. apply NoDup_snoc_nat; assumption.
  - intros x c Hc. rewrite succs_add_node in Hc. rewrite keys_add_node.
    apply in_or_app. left. eapply H; exact Hc.
Qed.

Lemma wf_upd_adj : forall g a f, wf g ->
  (forall c, In c (f (succs g a)) -> In c (keys g)) -> wf (upd_adj g a f).
Proof.
  intros g a f W Hf. apply wf_alt in W. destruct W as [N H]. apply wf_alt.
  rewrite keys_upd_adj. split; [exact N|].
  intros x c Hc. destruct (Nat.eq_dec x a) as [->|Hne].
  - pose proof (succs_key _ _ _ Hc) as K. rewrite keys_upd_adj in K.
    rewrite succs_upd_adj_same in Hc by exact K. apply Hf. exact Hc.
  - rewrite succs_upd_adj_other in Hc by exact Hne. eapply H; exact Hc.
Qed.

Lemma wf_add_edge_raw : forall g a b, wf g -> In b (keys g) ->
  wf (upd_adj g a (fun l => l ++ [b])).
Proof.
  intros g a b W Hb. apply wf_upd_adj; [exact W|].
  intros c Hc. apply in_app_or in Hc. destruct Hc as [Hc|[<-|[]]]; [|exact Hb].
  eapply wf_closed; eassumption.
Qed.

Lemma wf_remove_raw : forall g a b, wf g -> wf (upd_adj g a (remove_first b)).
Proof.
  intros g a b W. apply wf_upd_adj; [exact W|].
  intros c Hc. apply remove_first_incl in Hc. eapply wf_closed; eassumption.
Qed.

(** ** reachability under the three changes *)
Lemma reach_mono : forall sc1 sc2, (forall x, incl (sc1 x) (sc2 x)) ->
  forall a b, reach sc1 a b -> reach sc2 a b.
Proof.
  intros sc1 sc2 E a b H. induction H; [apply reach_refl|].
  eapply reach_step; [apply E; eassumption | assumption].
Qed.

Lemma acyclic_mono : forall sc1 sc2, (forall x, incl (sc1 x) (sc2 x)) ->
  acyclic sc2 -> acyclic sc1.
Proof.
  intros sc1 sc2 E A v [c [Hc R]]. apply (A v). exists c. split.
  - apply E. exact Hc.
  - eapply reach_mono; eassumption.
Qed.

Lemma acyclic_nil : graph_acyclic [].
Proof. intros v [c [Hc _]]. exact Hc. Qed.

Lemma acyclic_add_node : forall g a, graph_acyclic g -> graph_acyclic (g ++ [(a, [])]).
Proof.
  intros g a A. unfold graph_acyclic in *. eapply acyclic_mono; [|exact A].
  intros x. rewrite succs_add_node. apply incl_refl.
Qed.

Lemma acyclic_remove_raw : forall g a b, graph_acyclic g ->
  graph_acyclic (upd_adj g a (remove_first b)).
Proof.
  intros g a b A. unfold graph_acyclic in *. eapply acyclic_mono; [|exact A].
  intros x. destruct (Nat.eq_dec x a) as [->|Hne].
  - intros c Hc. pose proof (succs_key _ _ _ Hc) as K. rewrite keys_upd_adj in K.
    rewrite succs_upd_adj_same in Hc by exact K. eapply remove_first_incl; exact Hc.
  - rewrite succs_upd_adj_other by exact Hne. apply incl_refl.
Qed.

(** successors after appending the edge [a -> b] *)
Lemma succs_added : forall g a b x c, In a (keys g) ->
  (In c (succs (upd_adj g a (fun l => l ++ [b])) x) <->
   In c (succs g x) \/ (x = a /\ c = b)).
Proof.
  intros g a b x c Ha. destruct (Nat.eq_dec x a) as [->|Hne].
  - rewrite succs_upd_adj_same by exact Ha. rewrite in_app_iff. simpl. intuition.
  - rewrite succs_upd_adj_other by exact Hne. intuition.
Qed.

(** a path of the extended graph is a path of the old one, or passes the new edge *)
Lemma reach_added : forall g a b, In a (keys g) ->
  forall x y, reachable (upd_adj g a (fun l => l ++ [b])) x y ->
    reachable g x y \/ (reachable g x a /\ reachable g b y).
Proof.
  intros g a b Ha x y H. unfold reachable in *. induction H as [x|x y' z E R IH].
  - left. apply reach_refl.
  - apply succs_added in E; [|exact Ha]. destruct E as [E|[-> ->]].
    + destruct IH as [IH|[I1 I2]].
      * left. eapply reach_step; eassumption.
      * right. split; [eapply reach_step; eassumption | exact I2].
    + right. split; [apply reach_refl|]. destruct IH as [IH|[_ I2]]; assumption.
Qed.

Lemma acyclic_added : forall g a b, In a (keys g) ->
  graph_acyclic g -> ~ reachable g b a ->
  graph_acyclic (upd_adj g a (fun l => l ++ [b])).
Proof.
  intros g a b Ha A N v [c [Hc R]].
  apply succs_added in Hc; [|exact Ha].
  apply reach_added in R; [|exact Ha]. unfold reachable in *.
  destruct Hc as [Hc|[-> ->]].
  - destruct R as [R|[R1 R2]].
    + apply (A v). exists c. split; assumption.
    + apply N. eapply reach_trans; [exact R2|].
      eapply reach_step; [exact Hc | exact R1].
  - destruct R as [R|[R _]]; apply N; exact R.
Qed.

Lemma cyclic_added : forall g a b, In a (keys g) -> reachable g b a ->
  graph_cyclic (upd_adj g a (fun l => l ++ [b])).
Proof.
  intros g a b Ha R. exists a. exists b. split.
  - apply succs_added; [exact Ha | right; split; reflexivity].
  - eapply reach_mono; [|exact R]. intros x c Hc. apply succs_added; [exact Ha | left; exact Hc].
Qed.

(** ** the operations *)

(** what [add_edge] does, case by case *)
Inductive add_edge_spec (g : graph) (a b : nat) : rkind * graph -> Prop :=
| AE_self : a = b -> add_edge_spec g a b (KRefused, g)
| AE_nosrc : a <> b -> ~ In a (keys g) -> add_edge_spec g a b (KValueError, g)
| AE_nodst : a <> b -> In a (keys g) -> ~ In b (keys g) -> add_edge_spec g a b (KRefused, g)
| AE_dup : a <> b -> In a (keys g) -> In b (keys g) -> In b (succs g a) ->
           add_edge_spec g a b (KRefused, g)
| AE_cycle : a <> b -> In a (keys g) -> In b (keys g) -> ~ In b (succs g a) ->
             reachable g b a -> add_edge_spec g a b (KCycle, g)
| AE_ok : a <> b -> In a (keys g) -> In b (keys g) -> ~ In b (succs g a) ->
          ~ reachable g b a ->
          add_edge_spec g a b (KOk, upd_adj g a (fun l => l ++ [b])).

Lemma add_edge_cases : forall g a b, wf g -> graph_acyclic g ->
  add_edge_spec g a b (add_edge g a b).
Proof.
  intros g a b W A. unfold add_edge.
  destruct (Nat.eqb a b) eqn:E1; [apply Nat.eqb_eq in E1; apply AE_self; exact E1|].
  apply Nat.eqb_neq in E1.
  destruct (mem a (keys g)) eqn:Ma; simpl; [apply mem_In in Ma | apply mem_nIn in Ma; apply AE_nosrc; assumption].
  destruct (mem b (keys g)) eqn:Mb; simpl; [apply mem_In in Mb | apply mem_nIn in Mb; apply AE_nodst; assumption].
  destruct (mem b (succs g a)) eqn:Ms; [apply mem_In in Ms; apply AE_dup; assumption|].
  apply mem_nIn in Ms.
  pose proof (wf_add_edge_raw g a b W Mb) as W1.
  destruct (detect_cycle_iff _ W1) as [[T1 T2] [F1 F2]].
  pose proof (detect_cycle_fuel _ W1) as Fu.
  destruct (detect_cycle (upd_adj g a (fun l => l ++ [b]))) as [[|]|] eqn:D; [| |congruence].
  - rewrite rollback_exact by exact Ms. apply AE_cycle; try assumption.
    destruct (T1 eq_refl) as [v [c [Hc R]]].
    apply succs_added in Hc; [|exact Ma]. apply reach_added in R; [|exact Ma].
    unfold reachable in *.
    destruct Hc as [Hc|[-> ->]].
    + destruct R as [R|[R1 R2]].
      * exfalso. apply (A v). exists c. split; assumption.
      * eapply reach_trans; [exact R2|]. eapply reach_step; [exact Hc | exact R1].
    + destruct R as [R|[R _]]; exact R.
  - apply AE_ok; try assumption. intros R.
    pose proof (F1 eq_refl) as A1. destruct (cyclic_added g a b Ma R) as [v Hv].
    exact (A1 v Hv).
Qed.

(** one operation keeps the invariant, and never runs out of fuel *)
Lemma apply_op_inv : forall g o, wf g -> graph_acyclic g ->
  wf (snd (apply_op g o)) /\ graph_acyclic (snd (apply_op g o)) /\ fst (apply_op g o) <> KFuel.
Proof.
  intros g o W A. destruct o as [a|a b|a b]; simpl.
  - split; [apply wf_add_node; exact W|]. unfold add_node.
    destruct (mem a (keys g)); simpl; split; try discriminate; [exact A | apply acyclic_add_node; exact A].
  - destruct (add_edge_cases g a b W A); simpl; (split; [|split]); try assumption; try discriminate.
    + apply wf_add_edge_raw; assumption.
    + apply acyclic_added; assumption.
  - unfold remove_edge.
    destruct (mem a (keys g)); simpl; [|(split; [|split]); try assumption; discriminate].
    destruct (mem b (keys g)); simpl; [|(split; [|split]); try assumption; discriminate].
    destruct (mem b (succs g a)); simpl; (split; [|split]); try assumption; try discriminate.
    + apply wf_remove_raw; exact W.
    + apply acyclic_remove_raw; exact A.
Qed.

(** every state of a run *)
Lemma run_inv : forall ops g, wf g -> graph_acyclic g ->
  Forall (fun kg => wf (snd kg) /\ graph_acyclic (snd kg) /\ fst kg <> KFuel) (run g ops).
Proof.
  induction ops as [|o ops IH]; simpl; intros g W A; constructor.
  - apply apply_op_inv; assumption.
  - destruct (apply_op_inv g o W A) as [W1 [A1 _]]. apply IH; assumption.
Qed.

Lemma final_inv : forall ops g, wf g -> graph_acyclic g ->
  wf (final g ops) /\ graph_acyclic (final g ops).
Proof.
  unfold final. induction ops as [|o ops IH]; simpl; intros g W A; [split; assumption|].
  destruct (apply_op_inv g o W A) as [W1 [A1 _]]. apply IH; assumption.
Qed.

Theorem acyclic_always : forall ops,
  Forall (fun kg => wf (snd kg) /\ graph_acyclic (snd kg) /\ fst kg <> KFuel) (run [] ops).
Proof. intros. apply run_inv; [apply wf_nil | apply acyclic_nil]. Qed.

(** a refused edge leaves the table as it was *)
Theorem refusal_unchanged : forall g a b, wf g -> graph_acyclic g ->
  (a = b \/ ~ In a (keys g) \/ ~ In b (keys g) \/ In b (succs g a) \/ reachable g b a) ->
  snd (add_edge g a b) = g.
Proof.
  intros g a b W A H. destruct (add_edge_cases g a b W A); simpl; try reflexivity.
  exfalso. destruct H as [H|[H|[H|[H|H]]]]; contradiction.
Qed.

Theorem not_ok_unchanged : forall g a b, wf g -> graph_acyclic g ->
  fst (add_edge g a b) <> KOk -> snd (add_edge g a b) = g.
Proof.
  intros g a b W A H. destruct (add_edge_cases g a b W A); simpl in *; try reflexivity.
  congruence.
Qed.

(** no false refusals *)
Theorem accepts_valid : forall g a b, wf g -> graph_acyclic g ->
  a <> b -> In a (keys g) -> In b (keys g) -> ~ In b (succs g a) -> ~ reachable g b a ->
  add_edge g a b = (KOk, upd_adj g a (fun l => l ++ [b])).
Proof.
  intros g a b W A H1 H2 H3 H4 H5.
  destruct (add_edge_cases g a b W A); try contradiction. reflexivity.
Qed.

(** and the accepted edge is there, after the old ones, nothing else changed *)
Lemma added_edge_present : forall g a b, In a (keys g) ->
  succs (upd_adj g a (fun l => l ++ [b])) a = succs g a ++ [b] /\
  (forall x, x <> a -> succs (upd_adj g a (fun l => l ++ [b])) x = succs g x) /\
  keys (upd_adj g a (fun l => l ++ [b])) = keys g.
Proof.
  intros g a b Ha. split; [apply succs_upd_adj_same; exact Ha|]. split.
  - intros. apply succs_upd_adj_other. assumption.
  - apply keys_upd_adj.
Qed.

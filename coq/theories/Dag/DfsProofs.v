(** DAG.dfs_subtree: the path [src] + dfs(c1) + dfs(c2) + ... lists exactly
    the nodes reachable from [src] (a node below a diamond is listed once per
    path, so the list may repeat nodes); on an acyclic table over [n] nodes the
    recursion is never deeper than [n]. *)
From Coq Require Import List Arith Bool Lia.
From MWF Require Import Base.Util Dag.DagModel Dag.DagLists.
Import ListNotations.

Section Dfs.
  Variable sc : nat -> list nat.

  Lemma concat_opt_none : forall (h : nat -> option (list nat)) cs,
      concat_opt (map h cs) = None -> exists c, In c cs /\ h c = None.
  Proof.
    induction cs as [|c cs IH]; simpl; intros H; [discriminate|].
    destruct (h c) as [lc|] eqn:E; [|exists c; split; [left; reflexivity | exact E]].
    destruct (concat_opt (map h cs)) eqn:E2; [discriminate|].
    destruct (IH eq_refl) as [c0 [H1 H2]]. exists c0. split; [right; exact H1 | exact H2].
  Qed.

  Lemma concat_opt_some : forall (h : nat -> option (list nat)) cs l,
      concat_opt (map h cs) = Some l ->
      forall x, In x l <-> exists c lc, In c cs /\ h c = Some lc /\ In x lc.
  Proof.
    induction cs as [|c cs IH]; simpl; intros l H x.
    - inversion H; subst. split; [intros [] | intros [c [lc [[] _]]]].
    - destruct (h c) as [lc|] eqn:E; [|discriminate].
      destruct (concat_opt (map h cs)) as [l2|] eqn:E2; [|discriminate].
      inversion H; subst. rewrite in_app_iff, (IH l2 eq_refl x). split.
      + intros [Hx|[c0 [l0 [H1 [H2 H3]]]]].
        * exists c, lc. split; [left; reflexivity | split; assumption].
        * exists c0, l0. split; [right; exact H1 | split; assumption].
      + intros [c0 [l0 [[<-|H1] [H2 H3]]]].
        * left. congruence.
        * right. exists c0, l0. split; [exact H1 | split; assumption].
  Qed.

  Lemma reach_inv : forall v x, reach sc v x <-> x = v \/ exists c, In c (sc v) /\ reach sc c x.
  Proof.
    intros v x. split.
    - intros H. inversion H; subst; [left; reflexivity | right; eauto].
    - intros [->|[c [H1 H2]]]; [apply reach_refl | eapply reach_step; eassumption].
  Qed.

  (** when it returns, the list is the reachable set *)
  Theorem dfs_covers : forall fuel v l, dfs sc fuel v = Some l ->
      forall x, In x l <-> reach sc v x.
  Proof.
    induction fuel as [|f IH]; simpl; intros v l H x; [discriminate|].
    destruct (concat_opt (map (dfs sc f) (sc v))) as [l2|] eqn:E; [|discriminate].
    inversion H; subst. simpl. rewrite (concat_opt_some _ _ _ E x), reach_inv. split.
    - intros [<-|[c [lc [H1 [H2 H3]]]]]; [left; reflexivity|].
      right. exists c. split; [exact H1|]. apply (IH c lc H2). exact H3.
    - intros [->|[c [H1 H2]]]; [left; reflexivity|]. right.
      destruct (dfs sc f c) as [lc|] eqn:Ec.
      + exists c, lc. split; [exact H1|]. split; [exact Ec|]. apply (IH c lc Ec). exact H2.
      + exfalso. clear -E H1 Ec. revert l2 E. induction (sc v) as [|y cs IHc]; simpl; intros; [contradiction|].
        destruct H1 as [->|H1].
        * rewrite Ec in E. discriminate.
        * destruct (dfs sc f y); [|discriminate].
          destruct (concat_opt (map (dfs sc f) cs)) eqn:E2; [|discriminate].
          eapply IHc; [exact H1 | reflexivity].
  Qed.

  (** out of fuel = there is a walk with [fuel] edges *)
  Fixpoint chain (v : nat) (l : list nat) : Prop :=
    match l with
    | [] => True
    | c :: l' => In c (sc v) /\ chain c l'
    end.

  Lemma dfs_none_chain : forall fuel v, dfs sc fuel v = None ->
      exists l, length l = fuel /\ chain v l.
  Proof.
    induction fuel as [|f IH]; simpl; intros v H.
    - exists []. split; [reflexivity | exact I].
    - destruct (concat_opt (map (dfs sc f) (sc v))) as [l2|] eqn:E; [discriminate|].
      destruct (concat_opt_none _ _ E) as [c [H1 H2]].
      destruct (IH c H2) as [l [L C]]. exists (c :: l). split; [simpl; congruence|].
      split; assumption.
  Qed.

  Lemma chain_reach : forall l v x, chain v l -> In x l -> exists c, In c (sc v) /\ reach sc c x.
  Proof.
    induction l as [|c l IH]; simpl; intros v x H Hx; [contradiction|].
    destruct H as [H1 H2]. destruct Hx as [<-|Hx].
    - exists c. split; [exact H1 | apply reach_refl].
    - destruct (IH c x H2 Hx) as [c2 [K1 K2]]. exists c. split; [exact H1|].
      eapply reach_step; eassumption.
  Qed.

  Lemma chain_NoDup : acyclic sc -> forall l v, chain v l -> NoDup (v :: l).
  Proof.
    intros A. induction l as [|c l IH]; intros v H.
    - constructor; [intros [] | constructor].
    - destruct H as [H1 H2]. constructor; [|apply IH; exact H2].
      intros K. apply (A v). eapply chain_reach; [|exact K]. split; assumption.
  Qed.

  Lemma chain_incl : forall U, (forall x c, In x U -> In c (sc x) -> In c U) ->
    forall l v, In v U -> chain v l -> incl (v :: l) U.
  Proof.
    intros U HU. induction l as [|c l IH]; intros v Hv H x Hx.
    - destruct Hx as [<-|[]]. exact Hv.
    - destruct H as [H1 H2]. destruct Hx as [<-|Hx]; [exact Hv|].
      apply (IH c); [eapply HU; eassumption | exact H2 | exact Hx].
  Qed.

  Theorem dfs_fuel : forall U, (forall x c, In x U -> In c (sc x) -> In c U) ->
    acyclic sc -> forall fuel v, In v U -> length U <= fuel -> dfs sc fuel v <> None.
  Proof.
    intros U HU A fuel v Hv L H.
    destruct (dfs_none_chain fuel v H) as [l [Ll C]].
    pose proof (NoDup_incl_length (chain_NoDup A l v C) (chain_incl U HU l v Hv C)) as K.
    simpl in K. lia.
  Qed.
End Dfs.

(** ** the class's [dfs_subtree] *)
Theorem dfs_subtree_covers : forall g s, wf g -> graph_acyclic g -> In s (keys g) ->
  exists l, dfs_subtree g s = TOk l /\ (forall x, In x l <-> reachable g s x).
Proof.
  intros g s W A Hs. unfold dfs_subtree.
  assert (M : mem s (keys g) = true) by (apply mem_In; exact Hs). rewrite M.
  assert (F : dfs_opt g s <> None).
  { unfold dfs_opt. apply (dfs_fuel (succs g) (keys g)); auto.
    - intros x c _ Hc. eapply wf_closed; eassumption.
    - rewrite keys_length. apply le_n. }
  destruct (dfs_opt g s) as [l|] eqn:E; [|congruence].
  exists l. split; [reflexivity|]. intros x. apply (dfs_covers (succs g) _ _ _ E).
Qed.

Lemma dfs_subtree_missing : forall g s, ~ In s (keys g) -> dfs_subtree g s = TErr 1.
Proof.
  intros g s H. unfold dfs_subtree. apply mem_nIn in H. rewrite H. reflexivity.
Qed.

(** The monitor [C14_ok] (DagModel.v, Part 3):
    - what it means when it answers [true] on arbitrary observables
      ([step_ok_sound], [C14_ok_sound]) -- this is the reading of the check
      that is run on the implementation's observables;
    - the model satisfies it on every operation sequence ([C14_ok_model]). *)
From Coq Require Import List Arith Bool Lia Permutation.
From MWF Require Import Base.Util Dag.DagModel Dag.DagLists Dag.DetectProofs Dag.OpsProofs
     Dag.BfsProofs Dag.TopoProofs Dag.DfsProofs.
Import ListNotations.

(** ** reflection of the structural equalities *)
Lemma leqb_refl : forall l, leqb l l = true.
Proof. intros. apply leqb_eq. reflexivity. Qed.

Lemma list_eqb_eq : forall A (e : A -> A -> bool),
  (forall x y, e x y = true <-> x = y) ->
  forall a b, list_eqb e a b = true <-> a = b.
Proof.
  intros A e He. induction a as [|x a IH]; destruct b as [|y b]; simpl; split; intros H;
    try congruence.
  - apply andb_true_iff in H. destruct H as [H1 H2]. apply He in H1. apply IH in H2. congruence.
  - inversion H; subst. apply andb_true_iff. split; [apply He | apply IH]; reflexivity.
Qed.

Lemma adj_eqb_eq : forall x y, adj_eqb x y = true <-> x = y.
Proof.
  intros [k l] [k' l']. unfold adj_eqb. simpl. rewrite andb_true_iff, Nat.eqb_eq, leqb_eq.
  split; [intros [-> ->]; reflexivity | intros H; inversion H; auto].
Qed.

Lemma graph_eqb_eq : forall a b, graph_eqb a b = true <-> a = b.
Proof. apply list_eqb_eq. apply adj_eqb_eq. Qed.

Lemma seteqb_refl : forall l, seteqb l l = true.
Proof. intros. apply seteqb_iff. tauto. Qed.

Lemma is_acyclic_iff : forall g, wf g -> (is_acyclic g = true <-> graph_acyclic g).
Proof.
  intros g W. unfold is_acyclic. destruct (detect_cycle_iff g W) as [_ [F1 F2]].
  destruct (detect_cycle g) as [[|]|] eqn:E; split; intros H; try discriminate; try reflexivity.
  - apply F2 in H. discriminate.
  - apply F1. reflexivity.
  - apply F2 in H. discriminate.
Qed.

Lemma forallb2_map : forall A B (f : A -> B -> bool) (h : A -> B) l,
  (forall x, In x l -> f x (h x) = true) -> forallb2 f l (map h l) = true.
Proof.
  induction l as [|x l IH]; simpl; intros H; [reflexivity|].
  rewrite H by (left; reflexivity). apply IH. intros. apply H. right. assumption.
Qed.

Lemma forallb2_nth : forall A B (f : A -> B -> bool) da db a b,
  forallb2 f a b = true ->
  length a = length b /\ forall i, i < length a -> f (nth i a da) (nth i b db) = true.
Proof.
  induction a as [|x a IH]; destruct b as [|y b]; simpl; intros H; try discriminate.
  - split; [reflexivity | intros; lia].
  - apply andb_true_iff in H. destruct H as [H1 H2]. destruct (IH b H2) as [L K].
    split; [congruence|]. intros [|i] Hi; [exact H1 | apply K; lia].
Qed.

(** ** [expected] is what the operations do *)
Lemma expected_add_edge : forall g a b, wf g ->
  (a <> b /\ In a (keys g) /\ In b (keys g) /\ ~ In b (succs g a) /\ ~ reachable g b a ->
   expected g (AddEdge a b) = upd_adj g a (fun l => l ++ [b])) /\
  (a = b \/ ~ In a (keys g) \/ ~ In b (keys g) \/ In b (succs g a) \/ reachable g b a ->
   expected g (AddEdge a b) = g).
Proof.
  intros g a b W. simpl. split.
  - intros [H1 [H2 [H3 [H4 H5]]]].
    assert (C : creates_cycle g a b = false).
    { destruct (creates_cycle g a b) eqn:E; [|reflexivity].
      apply creates_cycle_spec in E; [|exact W|exact H3]. tauto. }
    apply mem_In in H2. apply mem_In in H3. apply mem_nIn in H4.
    rewrite H2, H3, H4, C. reflexivity.
  - intros H.
    destruct (mem a (keys g)) eqn:Ma; [|reflexivity].
    destruct (mem b (keys g)) eqn:Mb; [|reflexivity].
    destruct (mem b (succs g a)) eqn:Ms; [reflexivity|].
    apply mem_In in Ma. pose proof Mb as Mb'. apply mem_In in Mb'. apply mem_nIn in Ms.
    assert (C : creates_cycle g a b = true).
    { apply creates_cycle_spec; [exact W | exact Mb'|]. tauto. }
    rewrite C. reflexivity.
Qed.

Lemma expected_apply : forall g o, wf g -> graph_acyclic g ->
  expected g o = snd (apply_op g o).
Proof.
  intros g o W A. destruct o as [a|a b|a b].
  - simpl. unfold add_node. destruct (mem a (keys g)); reflexivity.
  - destruct (expected_add_edge g a b W) as [E1 E2].
    change (apply_op g (AddEdge a b)) with (add_edge g a b).
    destruct (add_edge_cases g a b W A); cbn [snd]; try (apply E2; tauto).
    apply E1. tauto.
  - simpl. unfold remove_edge.
    destruct (mem a (keys g)); simpl; [|reflexivity].
    destruct (mem b (keys g)); simpl; [|reflexivity].
    destruct (mem b (succs g a)); reflexivity.
Qed.

(** a call of the model that did not return normally changed nothing *)
Lemma raised_unchanged : forall g o, wf g -> graph_acyclic g ->
  kind_code (fst (apply_op g o)) <> 0 -> snd (apply_op g o) = g.
Proof.
  intros g o W A H. destruct o as [a|a b|a b].
  - simpl in *. unfold add_node in *. destruct (mem a (keys g)); simpl in *; congruence.
  - change (apply_op g (AddEdge a b)) with (add_edge g a b) in *.
    destruct (add_edge_cases g a b W A); simpl in *; congruence.
  - simpl in *. unfold remove_edge in *.
    destruct (mem a (keys g)); simpl in *; [|reflexivity].
    destruct (mem b (keys g)); simpl in *; [|reflexivity].
    destruct (mem b (succs g a)); simpl in *; congruence.
Qed.

(** ** what the monitor means on arbitrary observables *)
Record step_good (n : nat) (gp : graph) (o : op) (ob : obs) : Prop := {
  sg_wf : wf (o_adj ob);
  sg_vals : o_vals ob = keys (o_adj ob);
  sg_acyclic : graph_acyclic (o_adj ob);
  sg_expected : o_adj ob = expected gp o;
  sg_raised : o_kind ob <> 0 -> o_adj ob = gp;
  sg_detect : o_cyc ob = 0;
  sg_topo : exists l, o_topo ob = TOk l /\ Permutation l (keys (o_adj ob)) /\
                      forall a b, edge (o_adj ob) a b -> before l a b;
  sg_bfs : length (o_bfs ob) = n /\
           forall s, s < n -> In s (keys (o_adj ob)) ->
             exists l, nth s (o_bfs ob) (TErr 0) = TOk l /\ NoDup l /\
                       forall x, In x l <-> reachable (o_adj ob) s x;
  sg_dfs : length (o_dfs ob) = n /\
           forall s, s < n -> In s (keys (o_adj ob)) ->
             exists l, nth s (o_dfs ob) (TErr 0) = TOk l /\
                       forall x, In x l <-> reachable (o_adj ob) s x
}.

Theorem step_ok_sound : forall n gp o ob, step_ok n gp o ob = true -> step_good n gp o ob.
Proof.
  intros n gp o ob H. unfold step_ok in H.
  do 8 (apply andb_true_iff in H; destruct H as [H ?]).
  rename H into Hwf, H7 into Hvals, H6 into Hac, H5 into Hexp, H4 into Hr, H3 into Hcyc,
         H2 into Htopo, H1 into Hbfs, H0 into Hdfs.
  apply wfb_wf in Hwf. apply leqb_eq in Hvals. apply (is_acyclic_iff _ Hwf) in Hac.
  apply graph_eqb_eq in Hexp. apply Nat.eqb_eq in Hcyc.
  constructor; auto.
  - intros K. apply orb_true_iff in Hr. destruct Hr as [Hr|Hr].
    + apply Nat.eqb_eq in Hr. contradiction.
    + apply graph_eqb_eq. exact Hr.
  - destruct (o_topo ob) as [l|]; [|discriminate]. exists l. split; [reflexivity|].
    apply topo_validb_iff in Htopo. destruct Htopo as [N [S T]]. split.
    + apply NoDup_Permutation; [exact N | apply Hwf | exact S].
    + intros a b Hab. apply (topo_ok_before (succs (o_adj ob))); [exact T | | exact Hab].
      apply S. eapply succs_key. exact Hab.
  - destruct (forallb2_nth _ _ _ 0 (TErr 0) _ _ Hbfs) as [L K]. rewrite seq_length in L, K.
    split; [symmetry; exact L|]. intros s Hs Hk. specialize (K s Hs).
    rewrite seq_nth in K by exact Hs. simpl in K. unfold bfs_res_ok in K.
    assert (M : mem s (keys (o_adj ob)) = true) by (apply mem_In; exact Hk). rewrite M in K.
    destruct (nth s (o_bfs ob) (TErr 0)) as [l|]; [|discriminate]. exists l. split; [reflexivity|].
    apply andb_true_iff in K. destruct K as [K1 K2]. apply nodupb_NoDup in K1.
    split; [exact K1|]. intros x. rewrite (proj1 (seteqb_iff _ _) K2 x).
    apply reach_set_spec; assumption.
  - destruct (forallb2_nth _ _ _ 0 (TErr 0) _ _ Hdfs) as [L K]. rewrite seq_length in L, K.
    split; [symmetry; exact L|]. intros s Hs Hk. specialize (K s Hs).
    rewrite seq_nth in K by exact Hs. simpl in K. unfold dfs_res_ok in K.
    assert (M : mem s (keys (o_adj ob)) = true) by (apply mem_In; exact Hk). rewrite M in K.
    destruct (nth s (o_dfs ob) (TErr 0)) as [l|]; [|discriminate]. exists l. split; [reflexivity|].
    intros x. rewrite (proj1 (seteqb_iff _ _) K x). apply reach_set_spec; assumption.
Qed.

(** the table before each step is the table observed after the previous one *)
Fixpoint steps_good (n : nat) (gp : graph) (steps : list (op * obs)) : Prop :=
  match steps with
  | [] => True
  | (o, ob) :: rest => step_good n gp o ob /\ steps_good n (o_adj ob) rest
  end.

Theorem C14_ok_sound : forall n steps gp, C14_ok n gp steps = true -> steps_good n gp steps.
Proof.
  induction steps as [|[o ob] rest IH]; simpl; intros gp H; [exact I|].
  apply andb_true_iff in H. destruct H as [H1 H2]. split.
  - apply step_ok_sound. exact H1.
  - apply IH. exact H2.
Qed.

(** ** the model passes the monitor *)
Lemma step_ok_model : forall n g o, wf g -> graph_acyclic g ->
  step_ok n g o (model_obs n (fst (apply_op g o)) (snd (apply_op g o))) = true.
Proof.
  intros n g o W A. destruct (apply_op_inv g o W A) as [W1 [A1 NF]].
  set (g1 := snd (apply_op g o)) in *. set (k := fst (apply_op g o)) in *.
  unfold step_ok, model_obs. cbn [o_adj o_vals o_kind o_cyc o_topo o_bfs o_dfs].
  assert (Hac : is_acyclic g1 = true) by (apply is_acyclic_iff; assumption).
  assert (Hcyc : cyc_code (detect_cycle g1) = 0).
  { unfold is_acyclic in Hac. destruct (detect_cycle g1) as [[|]|]; try discriminate. reflexivity. }
  rewrite (proj2 (wfb_wf g1) W1), leqb_refl, Hac, Hcyc. simpl.
  assert (Hexp : graph_eqb g1 (expected g o) = true).
  { apply graph_eqb_eq. symmetry. apply expected_apply; assumption. }
  rewrite Hexp. simpl.
  assert (Hr : Nat.eqb (kind_code k) 0 || graph_eqb g1 g = true).
  { destruct (Nat.eqb (kind_code k) 0) eqn:E; [reflexivity|]. simpl.
    apply graph_eqb_eq. apply raised_unchanged; try assumption.
    apply Nat.eqb_neq. exact E. }
  rewrite Hr. simpl.
  destruct (topological_sort_ok g1 W1 A1) as [l [-> T]].
  rewrite (proj2 (topo_validb_iff g1 l) T). simpl.
  apply andb_true_iff. split.
  - apply forallb2_map. intros s _. unfold bfs_res_ok.
    destruct (mem s (keys g1)) eqn:M; [|reflexivity]. apply mem_In in M.
    destruct (bfs_opt_exact g1 s W1 M) as [lb [E [N _]]].
    unfold bfs_subtree, reach_set. apply mem_In in M. rewrite M, E. simpl.
    rewrite (proj2 (nodupb_NoDup lb) N), seteqb_refl. reflexivity.
  - apply forallb2_map. intros s _. unfold dfs_res_ok.
    destruct (mem s (keys g1)) eqn:M; [|reflexivity]. apply mem_In in M.
    destruct (dfs_subtree_covers g1 s W1 A1 M) as [ld [-> D]].
    apply seteqb_iff. intros x. rewrite D. symmetry. apply reach_set_spec; assumption.
Qed.

Theorem C14_ok_model_from : forall n ops g, wf g -> graph_acyclic g ->
  C14_ok n g (combine ops (model_trace n g ops)) = true.
Proof.
  intros n. induction ops as [|o ops IH]; intros g W A; [reflexivity|].
  unfold model_trace. simpl. fold (model_trace n (snd (apply_op g o)) ops).
  rewrite (step_ok_model n g o W A). simpl.
  destruct (apply_op_inv g o W A) as [W1 [A1 _]]. apply IH; assumption.
Qed.

Theorem C14_ok_model : forall n ops, C14_ok n [] (combine ops (model_trace n [] ops)) = true.
Proof. intros. apply C14_ok_model_from; [apply wf_nil | apply acyclic_nil]. Qed.

(** the correspondence case format: start table built by [setup], then branches *)
Theorem monitor_ok_model : forall n setup brs,
  monitor_ok (mkCase n setup (final [] setup)
                     (map (fun ops => combine ops (model_trace n (final [] setup) ops)) brs)) = true.
Proof.
  intros n setup brs. unfold monitor_ok. cbn [c_start c_n c_branches].
  destruct (final_inv setup [] wf_nil acyclic_nil) as [W A].
  rewrite (proj2 (wfb_wf _) W), (proj2 (is_acyclic_iff _ W) A). simpl.
  apply forallb_forall. intros br Hbr. apply in_map_iff in Hbr. destruct Hbr as [ops [<- _]].
  apply C14_ok_model_from; assumption.
Qed.

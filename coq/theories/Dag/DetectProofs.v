(** Correctness of the cycle-detecting DFS (DAG.detect_cycle / _detect_cycle):
    it answers True only if a cycle exists, False only if none exists, and the
    fuel "number of nodes" is always enough. *)
From Coq Require Import List Arith Bool Lia.
From MWF Require Import Base.Util Dag.DagModel Dag.DagLists.
Import ListNotations.

Section Detect.
  Variable sc : nat -> list nat.

  Definition visitor := nat -> list nat -> list nat -> dres.

  (** ** frame: a visit that answers False restores [rstack] and only grows [visited] *)
  Definition frame (visit : visitor) : Prop :=
    forall c vis rs vis' rs',
      visit c vis rs = DDone vis' rs' -> incl rs vis -> ~ In c vis ->
      rs' = rs /\ incl vis vis' /\ In c vis'.

  Lemma children_frame : forall visit, frame visit ->
    forall cs vis rs vis' rs',
      dc_children visit cs vis rs = DDone vis' rs' -> incl rs vis ->
      rs' = rs /\ incl vis vis'.
  Proof.
    intros visit F. induction cs as [|c cs IH]; simpl; intros vis rs vis' rs' H I.
    - inversion H; subst. split; [reflexivity | apply incl_refl].
    - destruct (mem c vis) eqn:M; simpl in H.
      + destruct (mem c rs); [discriminate|]. apply IH; assumption.
      + apply mem_nIn in M. destruct (visit c vis rs) as [| |vis1 rs1] eqn:V; try discriminate.
        destruct (F _ _ _ _ _ V I M) as [-> [I1 _]].
        destruct (IH _ _ _ _ H) as [-> I2].
        * eapply incl_tran; eassumption.
        * split; [reflexivity | eapply incl_tran; eassumption].
  Qed.

  Lemma visit_frame : forall fuel, frame (dc_visit sc fuel).
  Proof.
    induction fuel as [|f IH]; intros c vis rs vis' rs' H I N; simpl in H; [discriminate|].
    destruct (dc_children (dc_visit sc f) (sc c) (c :: vis) (c :: rs)) as [| |vis1 rs1] eqn:C;
      try discriminate.
    inversion H; subst. clear H.
    assert (I' : incl (c :: rs) (c :: vis)).
    { intros x [->|Hx]; [left; reflexivity | right; apply I; exact Hx]. }
    destruct (children_frame _ IH _ _ _ _ _ C I') as [-> I1].
    assert (Nr : ~ In c rs) by (intros K; apply N; apply I; exact K).
    rewrite (srem_head c rs Nr). split; [reflexivity|]. split.
    - intros x Hx. apply I1. right. exact Hx.
    - apply I1. left. reflexivity.
  Qed.

  (** ** answer True => there is a cycle
      every node of [rstack] reaches the node being visited *)
  Definition true_ok (visit : visitor) : Prop :=
    forall c vis rs,
      visit c vis rs = DCycle -> incl rs vis -> ~ In c vis ->
      (forall r, In r rs -> reach sc r c) -> cyclic sc.

  Lemma children_true : forall visit, frame visit -> true_ok visit ->
    forall cs vis rs v,
      dc_children visit cs vis rs = DCycle -> incl rs vis ->
      (forall c, In c cs -> In c (sc v)) ->
      (forall r, In r rs -> reach sc r v) -> cyclic sc.
  Proof.
    intros visit F T. induction cs as [|c cs IH]; simpl; intros vis rs v H I E R; [discriminate|].
    assert (Ec : In c (sc v)) by (apply E; left; reflexivity).
    assert (E' : forall c0, In c0 cs -> In c0 (sc v)) by (intros; apply E; right; assumption).
    destruct (mem c vis) eqn:M; simpl in H.
    - destruct (mem c rs) eqn:Mr.
      + apply mem_In in Mr. exists v. exists c. split; [exact Ec | apply R; exact Mr].
      + eapply IH; eassumption.
    - apply mem_nIn in M. destruct (visit c vis rs) as [| |vis1 rs1] eqn:V; try discriminate.
      + eapply T; try eassumption. intros r Hr. eapply reach_right; [apply R; exact Hr | exact Ec].
      + destruct (F _ _ _ _ _ V I M) as [-> [I1 _]].
        eapply IH; try eassumption. eapply incl_tran; eassumption.
  Qed.

  Lemma visit_true : forall fuel, true_ok (dc_visit sc fuel).
  Proof.
    induction fuel as [|f IH]; intros c vis rs H I N R; simpl in H; [discriminate|].
    destruct (dc_children (dc_visit sc f) (sc c) (c :: vis) (c :: rs)) as [| |vis1 rs1] eqn:C;
      try discriminate.
    eapply (children_true _ (visit_frame f) IH _ _ _ c C).
    - intros x [->|Hx]; [left; reflexivity | right; apply I; exact Hx].
    - auto.
    - intros r [->|Hr]; [apply reach_refl | apply R; exact Hr].
  Qed.

  Lemma roots_frame : forall fuel vs vis vis' rs',
      dc_roots sc fuel vs vis [] = DDone vis' rs' -> rs' = [] /\ incl vis vis'.
  Proof.
    intros fuel. induction vs as [|v vs IH]; simpl; intros vis vis' rs' H.
    - inversion H; subst. split; [reflexivity | apply incl_refl].
    - destruct (mem v vis) eqn:M; [apply IH; exact H|].
      apply mem_nIn in M. destruct (dc_visit sc fuel v vis []) as [| |vis1 rs1] eqn:V; try discriminate.
      destruct (visit_frame fuel _ _ _ _ _ V (incl_nil_l _) M) as [-> [I1 _]].
      destruct (IH _ _ _ H) as [-> I2]. split; [reflexivity | eapply incl_tran; eassumption].
  Qed.

  Lemma roots_true : forall fuel vs vis,
      dc_roots sc fuel vs vis [] = DCycle -> cyclic sc.
  Proof.
    intros fuel. induction vs as [|v vs IH]; simpl; intros vis H; [discriminate|].
    destruct (mem v vis) eqn:M; [eapply IH; exact H|].
    apply mem_nIn in M. destruct (dc_visit sc fuel v vis []) as [| |vis1 rs1] eqn:V; try discriminate.
    - eapply (visit_true fuel); try eassumption; [apply incl_nil_l | intros r []].
    - destruct (visit_frame fuel _ _ _ _ _ V (incl_nil_l _) M) as [-> _].
      eapply IH; exact H.
  Qed.

  Theorem detect_gen_true : forall fuel roots,
      detect_gen sc fuel roots = Some true -> cyclic sc.
  Proof.
    intros fuel roots H. unfold detect_gen in H.
    destruct (dc_roots sc fuel roots [] []) eqn:R; try discriminate.
    eapply roots_true; exact R.
  Qed.

  (** ** answer False => no cycle
      finished ("black") nodes = visited and not on the stack; they are closed
      under successors and none of them lies on a cycle *)
  Definition black (vis rs : list nat) (x : nat) : Prop := In x vis /\ ~ In x rs.

  Definition Inv (vis rs : list nat) : Prop :=
    (forall b c, black vis rs b -> In c (sc b) -> black vis rs c) /\
    (forall b, black vis rs b -> ~ on_cycle sc b).

  Lemma Inv_reach : forall vis rs, Inv vis rs ->
    forall b x, reach sc b x -> black vis rs b -> black vis rs x.
  Proof.
    intros vis rs [H _] b x R. apply (reach_closed sc (black vis rs)); [|exact R].
    intros; eapply H; eassumption.
  Qed.

  Definition false_ok (visit : visitor) : Prop :=
    forall c vis rs vis' rs',
      visit c vis rs = DDone vis' rs' -> incl rs vis -> ~ In c vis -> Inv vis rs ->
      Inv vis' rs.

  Lemma children_false : forall visit, frame visit -> false_ok visit ->
    forall cs vis rs vis' rs',
      dc_children visit cs vis rs = DDone vis' rs' -> incl rs vis -> Inv vis rs ->
      Inv vis' rs /\ (forall c, In c cs -> black vis' rs c).
  Proof.
    intros visit F T. induction cs as [|c cs IH]; simpl; intros vis rs vis' rs' H I J.
    - inversion H; subst. split; [exact J | intros c []].
    - destruct (mem c vis) eqn:M; simpl in H.
      + destruct (mem c rs) eqn:Mr; [discriminate|].
        apply mem_In in M. apply mem_nIn in Mr.
        destruct (children_frame _ F _ _ _ _ _ H I) as [_ I2].
        destruct (IH _ _ _ _ H I J) as [J' B]. split; [exact J'|].
        intros x [->|Hx]; [|apply B; exact Hx].
        split; [apply I2; exact M | exact Mr].
      + apply mem_nIn in M. destruct (visit c vis rs) as [| |vis1 rs1] eqn:V; try discriminate.
        pose proof (T _ _ _ _ _ V I M J) as J1.
        destruct (F _ _ _ _ _ V I M) as [-> [I1 C1]].
        assert (I1' : incl rs vis1) by (eapply incl_tran; eassumption).
        destruct (children_frame _ F _ _ _ _ _ H I1') as [_ I2].
        destruct (IH _ _ _ _ H I1' J1) as [J' B]. split; [exact J'|].
        intros x [->|Hx]; [|apply B; exact Hx].
        split; [apply I2; exact C1 | intros K; apply M; apply I; exact K].
  Qed.

  Lemma visit_false : forall fuel, false_ok (dc_visit sc fuel).
  Proof.
    induction fuel as [|f IH]; intros c vis rs vis' rs' H I N J; simpl in H; [discriminate|].
    destruct (dc_children (dc_visit sc f) (sc c) (c :: vis) (c :: rs)) as [| |vis1 rs1] eqn:C;
      try discriminate.
    inversion H; subst. clear H.
    assert (I' : incl (c :: rs) (c :: vis)).
    { intros x [->|Hx]; [left; reflexivity | right; apply I; exact Hx]. }
    assert (Nr : ~ In c rs) by (intros K; apply N; apply I; exact K).
    (* pushing c on both sets does not change the black set *)
    assert (J0 : Inv (c :: vis) (c :: rs)).
    { assert (EQ : forall x, black (c :: vis) (c :: rs) x <-> black vis rs x).
      { intros x. unfold black. simpl. split.
        - intros [[->|Hx] Hn]; [exfalso; apply Hn; left; reflexivity|].
          split; [exact Hx | intros K; apply Hn; right; exact K].
        - intros [Hx Hn]. split; [right; exact Hx|].
          intros [->|K]; [apply N; exact Hx | apply Hn; exact K]. }
      destruct J as [J1 J2]. split.
      - intros b x Hb Hx. apply EQ. eapply J1; [apply EQ; exact Hb | exact Hx].
      - intros b Hb. apply J2. apply EQ. exact Hb. }
    destruct (children_frame _ (visit_frame f) _ _ _ _ _ C I') as [-> I1].
    destruct (children_false _ (visit_frame f) IH _ _ _ _ _ C I' J0) as [J1 B].
    assert (Cv : In c vis') by (apply I1; left; reflexivity).
    (* popping c makes c black *)
    assert (EQ : forall x, black vis' rs x <-> black vis' (c :: rs) x \/ x = c).
    { intros x. unfold black. simpl. split.
      - intros [Hx Hn]. destruct (Nat.eq_dec x c) as [->|Hne]; [right; reflexivity|].
        left. split; [exact Hx|]. intros [K|K]; [congruence | apply Hn; exact K].
      - intros [[Hx Hn]| ->].
        + split; [exact Hx | intros K; apply Hn; right; exact K].
        + split; [exact Cv | exact Nr]. }
    split.
    - intros b x Hb Hx. apply EQ. apply EQ in Hb. destruct Hb as [Hb| ->].
      + left. destruct J1 as [J1 _]. eapply J1; eassumption.
      + left. apply B. exact Hx.
    - intros b Hb. apply EQ in Hb. destruct Hb as [Hb| ->].
      + destruct J1 as [_ J1]. apply J1. exact Hb.
      + intros [x [Hx Rx]].
        pose proof (Inv_reach _ _ J1 _ _ Rx (B _ Hx)) as [_ K].
        apply K. left. reflexivity.
  Qed.

  Lemma roots_false : forall fuel vs vis vis' rs',
      dc_roots sc fuel vs vis [] = DDone vis' rs' -> Inv vis [] ->
      Inv vis' [] /\ (forall v, In v vs -> In v vis').
  Proof.
    intros fuel. induction vs as [|v vs IH]; simpl; intros vis vis' rs' H J.
    - inversion H; subst. split; [exact J | intros v []].
    - destruct (mem v vis) eqn:M.
      + apply mem_In in M. destruct (roots_frame _ _ _ _ _ H) as [_ I2].
        destruct (IH _ _ _ H J) as [J' B]. split; [exact J'|].
        intros x [->|Hx]; [apply I2; exact M | apply B; exact Hx].
      + apply mem_nIn in M. destruct (dc_visit sc fuel v vis []) as [| |vis1 rs1] eqn:V; try discriminate.
        pose proof (visit_false fuel _ _ _ _ _ V (incl_nil_l _) M J) as J1.
        destruct (visit_frame fuel _ _ _ _ _ V (incl_nil_l _) M) as [-> [I1 C1]].
        destruct (roots_frame _ _ _ _ _ H) as [_ I2].
        destruct (IH _ _ _ H J1) as [J' B]. split; [exact J'|].
        intros x [->|Hx]; [apply I2; exact C1 | apply B; exact Hx].
  Qed.

  (** every node that has a successor must be among the roots *)
  Theorem detect_gen_false : forall fuel roots,
      (forall v c, In c (sc v) -> In v roots) ->
      detect_gen sc fuel roots = Some false -> acyclic sc.
  Proof.
    intros fuel roots K H. unfold detect_gen in H.
    destruct (dc_roots sc fuel roots [] []) as [| |vis' rs'] eqn:R; try discriminate.
    assert (J : Inv [] []).
    { split; intros b; intros; unfold black in *; simpl in *; tauto. }
    destruct (roots_false _ _ _ _ _ R J) as [[_ J2] B].
    intros v Hc. pose proof Hc as [c [Hc1 _]].
    apply (J2 v); [|exact Hc]. split; [apply B; eapply K; exact Hc1 | intros []].
  Qed.

  (** ** the fuel is enough: the recursion depth is bounded by the number of
      unvisited nodes of a successor-closed universe [U] *)
  Variable U : list nat.
  Hypothesis U_closed : forall x c, In x U -> In c (sc x) -> In c U.

  Definition fuel_ok (visit : visitor) (f : nat) : Prop :=
    forall c vis rs, In c U -> ~ In c vis -> incl rs vis -> unv U vis <= f ->
                     visit c vis rs <> DFuel.

  Lemma children_fuel : forall visit f, frame visit -> fuel_ok visit f ->
    forall cs vis rs, (forall c, In c cs -> In c U) -> incl rs vis -> unv U vis <= f ->
                      dc_children visit cs vis rs <> DFuel.
  Proof.
    intros visit f F T. induction cs as [|c cs IH]; simpl; intros vis rs E I L; [discriminate|].
    assert (E' : forall c0, In c0 cs -> In c0 U) by (intros; apply E; right; assumption).
    destruct (mem c vis) eqn:M; simpl.
    - destruct (mem c rs); [discriminate | apply IH; assumption].
    - apply mem_nIn in M. destruct (visit c vis rs) as [| |vis1 rs1] eqn:V; try discriminate.
      + exfalso. eapply T; try eassumption. apply E. left. reflexivity.
      + destruct (F _ _ _ _ _ V I M) as [-> [I1 _]]. apply IH; auto.
        * eapply incl_tran; eassumption.
        * pose proof (unv_mono U _ _ I1). lia.
  Qed.

  Lemma visit_fuel : forall f, fuel_ok (dc_visit sc f) f.
  Proof.
    induction f as [|f IH]; intros c vis rs Hc N I L.
    - pose proof (unv_lt U vis c Hc N). lia.
    - simpl.
      assert (C : dc_children (dc_visit sc f) (sc c) (c :: vis) (c :: rs) <> DFuel).
      { apply (children_fuel _ f (visit_frame f) IH).
        - intros x Hx. eapply U_closed; eassumption.
        - intros x [->|Hx]; [left; reflexivity | right; apply I; exact Hx].
        - pose proof (unv_lt U vis c Hc N). lia. }
      destruct (dc_children (dc_visit sc f) (sc c) (c :: vis) (c :: rs)); congruence.
  Qed.

  Lemma roots_fuel : forall fuel vs vis,
      (forall v, In v vs -> In v U) -> length U <= fuel ->
      dc_roots sc fuel vs vis [] <> DFuel.
  Proof.
    intros fuel. induction vs as [|v vs IH]; simpl; intros vis E L; [discriminate|].
    assert (E' : forall c0, In c0 vs -> In c0 U) by (intros; apply E; right; assumption).
    destruct (mem v vis) eqn:M; [apply IH; assumption|].
    apply mem_nIn in M. destruct (dc_visit sc fuel v vis []) as [| |vis1 rs1] eqn:V; try discriminate.
    - exfalso. eapply (visit_fuel fuel); try eassumption.
      + apply E. left. reflexivity.
      + apply incl_nil_l.
      + pose proof (unv_le_length U vis). lia.
    - destruct (visit_frame fuel _ _ _ _ _ V (incl_nil_l _) M) as [-> _]. apply IH; assumption.
  Qed.

  Theorem detect_gen_fuel : forall fuel roots,
      (forall v, In v roots -> In v U) -> length U <= fuel ->
      detect_gen sc fuel roots <> None.
  Proof.
    intros fuel roots E L. unfold detect_gen.
    pose proof (roots_fuel fuel roots [] E L).
    destruct (dc_roots sc fuel roots [] []); congruence.
  Qed.
End Detect.

(** ** the class's [detect_cycle] *)
Theorem detect_cycle_true : forall g, detect_cycle g = Some true -> graph_cyclic g.
Proof. intros g H. eapply detect_gen_true; exact H. Qed.

Theorem detect_cycle_false : forall g, detect_cycle g = Some false -> graph_acyclic g.
Proof.
  intros g H. eapply detect_gen_false; [|exact H].
  intros v c Hc. eapply succs_key; exact Hc.
Qed.

Theorem detect_cycle_fuel : forall g, wf g -> detect_cycle g <> None.
Proof.
  intros g W. unfold detect_cycle. apply (detect_gen_fuel (succs g) (keys g)).
  - intros x c _ Hc. eapply wf_closed; eassumption.
  - auto.
  - rewrite keys_length. apply le_n.
Qed.

(** exactness on well-formed tables *)
Theorem detect_cycle_iff : forall g, wf g ->
  (detect_cycle g = Some true <-> graph_cyclic g) /\
  (detect_cycle g = Some false <-> graph_acyclic g).
Proof.
  intros g W. pose proof (detect_cycle_fuel g W) as F.
  split; split; intros H.
  - apply detect_cycle_true; exact H.
  - destruct (detect_cycle g) as [[|]|] eqn:E; try congruence.
    exfalso. destruct H as [v Hv]. exact (detect_cycle_false g E v Hv).
  - apply detect_cycle_false; exact H.
  - destruct (detect_cycle g) as [[|]|] eqn:E; try congruence.
    exfalso. destruct (detect_cycle_true g E) as [v Hv]. exact (H v Hv).
Qed.

(** Tie between the hand-written model of the class DAG (DagModel.v), which
    every theorem of Props/C14.v is about, and the text GENERATED from the
    current source of maestrowf/datastructures/dag.py (DagGen.v, by
    translate/tcode_dag.py): each generated function is EQUAL to the model's.
    The theorems of Props/C14.v therefore hold of the functions regenerated
    from the source, and an edit of dag.py that changes what a method does
    changes DagGen.v and breaks one of these obligations.

    The proofs never restate the generated text: the loop bodies are picked
    out of the goal, so only the meaning of the text matters. *)
From Coq Require Import List Arith Bool.
From MWF Require Import Base.Util Dag.DagModel Dag.DagLists Dag.OpsProofs Dag.DagOps Dag.DagGen.
Import ListNotations.

(** ** add_node, remove_edge: straight-line code *)
Theorem add_node_is_generated : forall g a, add_node_gen g a = add_node g a.
Proof. reflexivity. Qed.

Theorem remove_edge_is_generated : forall g a b, remove_edge_gen g a b = remove_edge g a b.
Proof.
  intros g a b. unfold remove_edge_gen, remove_edge, has_key, adj_remove, adj.
  destruct (mem a (keys g)), (mem b (keys g)), (mem b (succs g a)); reflexivity.
Qed.

(** ** _detect_cycle / detect_cycle *)
Lemma detect_cycle_rec_is_generated g : forall fuel v vis rs,
  detect_cycle_rec_gen g fuel v vis rs = dc_visit (succs g) fuel v vis rs.
Proof.
  induction fuel as [|f IH]; intros v vis rs; [reflexivity|].
  cbn [detect_cycle_rec_gen dc_visit].
  unfold set_add, set_remove, adj.
  generalize (v :: vis) (v :: rs) (succs g v).
  intros a b cs; revert a b.
  induction cs as [|c cs IHc]; intros a b; cbn [for_in dc_children]; [reflexivity|].
  destruct (mem c a); cbn [negb].
  - destruct (mem c b); [reflexivity | apply IHc].
  - unfold if_true_return. rewrite IH.
    destruct (dc_visit (succs g) f c a b); try reflexivity. apply IHc.
Qed.

Theorem detect_cycle_is_generated : forall g, detect_cycle_gen g = detect_cycle g.
Proof.
  intros g. unfold detect_cycle_gen, detect_cycle, detect_gen, set_empty. cbv zeta.
  match goal with
  | |- dres_result (for_in _ ?body _ ?after) = _ =>
    assert (H : forall vs a b, for_in vs body (a, b) after = dc_roots (succs g) (length g) vs a b)
  end.
  { induction vs as [|v vs IHv]; intros a b; cbn [for_in dc_roots]; [reflexivity|].
    destruct (mem v a); cbn [negb]; [apply IHv|].
    unfold if_true_return. rewrite detect_cycle_rec_is_generated.
    destruct (dc_visit (succs g) (length g) v a b); try reflexivity. apply IHv. }
  rewrite H. destruct (dc_roots (succs g) (length g) (keys g) [] []); reflexivity.
Qed.

(** ** add_edge (guards in the source's order, append, cycle check, rollback) *)
Theorem add_edge_is_generated : forall g a b, add_edge_gen g a b = add_edge g a b.
Proof.
  intros g a b. unfold add_edge_gen, add_edge, has_key, adj, adj_append.
  destruct (Nat.eqb a b); [reflexivity|].
  destruct (mem a (keys g)) eqn:Ha; cbn [negb]; [|reflexivity].
  destruct (mem b (keys g)); cbn [negb]; [|reflexivity].
  destruct (mem b (succs g a)); [reflexivity|].
  cbv zeta. rewrite detect_cycle_is_generated. unfold on_detect, adj_remove, adj.
  destruct (detect_cycle (upd_adj g a (fun l => l ++ [b]))) as [[|]|]; try reflexivity.
  rewrite succs_upd_adj_same by (apply mem_In; exact Ha).
  assert (Hm : mem b (succs g a ++ [b]) = true) by (apply mem_In, in_or_app; right; left; reflexivity).
  rewrite Hm. reflexivity.
Qed.

(** ** _topological_sort / topological_sort *)
Lemma topological_sort_rec_is_generated g : forall fuel v vis stk,
  topological_sort_rec_gen g fuel v vis stk = ts_visit (succs g) fuel v vis stk.
Proof.
  induction fuel as [|f IH]; intros v vis stk; [reflexivity|].
  cbn [topological_sort_rec_gen ts_visit].
  unfold flag_set, flag_get, deque_appendleft, adj.
  generalize (v :: vis) (succs g v).
  intros a cs; revert a stk.
  induction cs as [|c cs IHc]; intros a stk; cbn [for_in ts_children]; [reflexivity|].
  destruct (mem c a); cbn [negb]; [apply IHc|].
  unfold call_proc. rewrite IH.
  destruct (ts_visit (succs g) f c a stk) as [[a' stk']|]; [apply IHc | reflexivity].
Qed.

Theorem topological_sort_is_generated : forall g, topological_sort_gen g = topological_sort g.
Proof.
  intros g. unfold topological_sort_gen, topological_sort, topological_sort_opt, topo_gen.
  unfold deque_empty, flags_all_false, flag_get, deque_to_list. cbv zeta. f_equal.
  match goal with
  | |- for_in _ ?body _ ?after = _ =>
    assert (H : forall vs stk vis, for_in vs body (stk, vis) after =
                match ts_children (ts_visit (succs g) (length g)) vs vis stk with
                | Some (_, s) => Some s
                | None => None
                end)
  end.
  { induction vs as [|v vs IHv]; intros stk vis; cbn [for_in ts_children]; [reflexivity|].
    destruct (mem v vis); cbn [negb]; [apply IHv|].
    unfold call_proc. rewrite topological_sort_rec_is_generated.
    destruct (ts_visit (succs g) (length g) v vis stk) as [[a' stk']|]; [apply IHv | reflexivity]. }
  apply H.
Qed.

(** ** bfs_subtree: the key set of [parent] is threaded through the loops but
    never read, so it is universally quantified in the loop invariants *)
Theorem bfs_subtree_is_generated : forall g s, bfs_subtree_gen g s = bfs_subtree g s.
Proof.
  intros g s. unfold bfs_subtree_gen, bfs_subtree, key_error_unless, has_key, bfs_opt, bfs.
  destruct (mem s (keys g)); [|reflexivity]. f_equal.
  unfold deque_of, dict_of_key. cbv zeta.
  match goal with
  | |- while_nonempty _ ?sel ?body _ ?after = _ =>
    assert (H : forall n q p par, while_nonempty n sel body (q, p, par) after = bfs_loop (succs g) n q p)
  end; [|apply H].
  induction n as [|n IH]; intros q p par.
  - destruct q; reflexivity.
  - destruct q as [|root q]; [reflexivity|].
    cbn [while_nonempty bfs_loop deque_popleft]. unfold adj.
    destruct (bfs_scan (succs g root) q p) as [q2 p2] eqn:Hs.
    revert q p par Hs. generalize (succs g root).
    induction l as [|c cs IHc]; intros q p par Hs; cbn [for_in bfs_scan] in *.
    + injection Hs as <- <-. apply IH.
    + unfold deque_append, dict_set, list_append.
      destruct (mem c p); apply IHc; exact Hs.
Qed.

(** ** dfs_subtree *)
Lemma dfs_subtree_rec_is_generated g : forall fuel v,
  dfs_subtree_rec_gen g fuel v = dfs (succs g) fuel v.
Proof.
  induction fuel as [|f IH]; intros v; [reflexivity|].
  cbn [dfs_subtree_rec_gen dfs]. unfold dict_of_key, dict_set, list_concat, adj. cbv zeta.
  match goal with
  | |- for_in _ ?body _ ?after = _ =>
    assert (H : forall cs p par, for_in cs body (p, par) after =
                match concat_opt (map (dfs (succs g) f) cs) with
                | Some l => Some (p ++ l)
                | None => None
                end)
  end; [|apply (H _ [v])].
  induction cs as [|c cs IHc]; intros p par; cbn [for_in map concat_opt].
  - rewrite app_nil_r. reflexivity.
  - unfold call_fun. rewrite IH. destruct (dfs (succs g) f c) as [sub|]; [|reflexivity].
    rewrite IHc. destruct (concat_opt (map (dfs (succs g) f) cs)); [|reflexivity].
    rewrite app_assoc. reflexivity.
Qed.

Theorem dfs_subtree_is_generated : forall g s, dfs_subtree_gen g s = dfs_subtree g s.
Proof.
  intros g s. unfold dfs_subtree_gen, dfs_subtree, key_error_unless, has_key, dfs_opt. cbv zeta.
  rewrite dfs_subtree_rec_is_generated. reflexivity.
Qed.

(** ** the operation sequences the theorems of Props/C14.v quantify over *)
Definition apply_op_gen (g : graph) (o : op) : rkind * graph :=
  match o with
  | AddNode a => add_node_gen g a
  | AddEdge a b => add_edge_gen g a b
  | RemoveEdge a b => remove_edge_gen g a b
  end.

Theorem apply_op_is_generated : forall g o, apply_op_gen g o = apply_op g o.
Proof.
  intros g [a|a b|a b]; cbn [apply_op_gen apply_op];
    [apply add_node_is_generated | apply add_edge_is_generated | apply remove_edge_is_generated].
Qed.

(** Study.add_step through the DAG API (DagModel.v, Part 4): every sequence of
    add_step calls and inherited DAG operations on a Study object keeps the
    table well-formed and acyclic, whether a call returned or raised; a step
    rejected because its name is taken leaves the table unchanged; the table
    after add_step is [expected_step]; the model passes [C14_study_ok]. *)
From Coq Require Import List Arith Bool Lia.
From MWF Require Import Base.Util Dag.DagModel Dag.DagLists Dag.DetectProofs Dag.OpsProofs
     Dag.BfsProofs Dag.TopoProofs Dag.DfsProofs Dag.MonitorProofs.
Import ListNotations.

Definition good (g : graph) : Prop := wf g /\ graph_acyclic g.

Lemma add_edge_good : forall g a b, good g ->
  good (snd (add_edge g a b)) /\ fst (add_edge g a b) <> KFuel.
Proof.
  intros g a b [W A]. destruct (apply_op_inv g (AddEdge a b) W A) as [W1 [A1 F]].
  split; [split|]; assumption.
Qed.

Lemma add_deps_good : forall deps g x, good g ->
  good (snd (add_deps g x deps)) /\ fst (add_deps g x deps) <> KFuel.
Proof.
  induction deps as [|d ds IH]; simpl; intros g x G.
  - split; [exact G | discriminate].
  - destruct (Nat.eqb d x); [split; [exact G | discriminate]|].
    destruct (add_edge_good g d x G) as [G1 F1].
    destruct (fst (add_edge g d x)) eqn:E; try (split; [exact G1 | rewrite E; discriminate]);
      try (apply IH; exact G1).
    congruence.
Qed.

Theorem add_step_good : forall src g x deps, good g ->
  good (snd (add_step src g x deps)) /\ fst (add_step src g x deps) <> KFuel.
Proof.
  intros src g x deps G. unfold add_step.
  destruct (mem x (keys g)); [split; [exact G | discriminate]|].
  assert (G1 : good (snd (add_node g x))).
  { destruct G as [W A]. destruct (apply_op_inv g (AddNode x) W A) as [W1 [A1 _]]. split; assumption. }
  destruct deps as [|d ds]; [apply add_edge_good | apply add_deps_good]; exact G1.
Qed.

Lemma apply_sop_good : forall src g so, good g ->
  good (snd (apply_sop src g so)) /\ fst (apply_sop src g so) <> KFuel.
Proof.
  intros src g [o|x deps] G; simpl.
  - destruct G as [W A]. destruct (apply_op_inv g o W A) as [W1 [A1 F]]. split; [split|]; assumption.
  - apply add_step_good. exact G.
Qed.

Lemma srun_good : forall src ops g, good g ->
  Forall (fun kg => wf (snd kg) /\ graph_acyclic (snd kg) /\ fst kg <> KFuel) (srun src g ops).
Proof.
  intros src. induction ops as [|o ops IH]; simpl; intros g G; constructor.
  - destruct (apply_sop_good src g o G) as [[W A] F]. split; [|split]; assumption.
  - apply IH. apply apply_sop_good. exact G.
Qed.

Lemma study_start_good : forall n, good (study_start n).
Proof.
  intros n. split.
  - apply wfb_wf. unfold study_start, wfb. simpl. reflexivity.
  - intros v [c [Hc _]]. unfold study_start, succs in Hc. simpl in Hc.
    destruct (Nat.eqb n v); exact Hc.
Qed.

Theorem study_acyclic_always : forall n ops,
  Forall (fun kg => wf (snd kg) /\ graph_acyclic (snd kg) /\ fst kg <> KFuel)
         (srun n (study_start n) ops).
Proof. intros. apply srun_good. apply study_start_good. Qed.

Theorem add_step_taken_unchanged : forall src g x deps,
  In x (keys g) -> add_step src g x deps = (KValueError, g).
Proof.
  intros src g x deps H. unfold add_step. apply mem_In in H. rewrite H. reflexivity.
Qed.

(** ** the table after add_step is [expected_step] *)
Lemma succs_missing : forall g x, ~ In x (keys g) -> succs g x = [].
Proof. intros g x H. unfold succs. apply lookup_None in H. rewrite H. reflexivity. Qed.

Lemma reach_from_sink : forall sc x y, sc x = [] -> reach sc x y -> y = x.
Proof.
  intros sc x y E R. inversion R; subst; [reflexivity|]. rewrite E in H. contradiction.
Qed.

Lemma add_deps_expected : forall deps g x, good g -> In x (keys g) -> succs g x = [] ->
  snd (add_deps g x deps) = expected_deps g x deps.
Proof.
  induction deps as [|d ds IH]; intros g x G Hx Sx; [reflexivity|].
  cbn [add_deps expected_deps].
  destruct (Nat.eqb d x) eqn:E; [reflexivity|]. apply Nat.eqb_neq in E.
  destruct G as [W A].
  rewrite (expected_apply g (AddEdge d x) W A). cbn [apply_op].
  destruct (add_edge_good g d x (conj W A)) as [G1 _].
  destruct (add_edge_cases g d x W A) as [H|H1 H2|H1 H2 H3|H1 H2 H3 H4|H1 H2 H3 H4 H5|H1 H2 H3 H4 H5];
    cbn [fst snd] in *.
  - contradiction.
  - apply mem_nIn in H2. rewrite H2. reflexivity.
  - contradiction.
  - apply mem_In in H2. rewrite H2. apply IH; [split|exact Hx|exact Sx]; assumption.
  - exfalso. apply E. eapply reach_from_sink; [exact Sx | exact H5].
  - apply mem_In in H2. rewrite H2. apply IH; [exact G1| |].
    + rewrite keys_upd_adj. exact Hx.
    + rewrite succs_upd_adj_other by congruence. exact Sx.
Qed.

Theorem add_step_expected : forall src g x deps, good g ->
  snd (add_step src g x deps) = expected_step src g x deps.
Proof.
  intros src g x deps [W A]. unfold add_step, expected_step.
  destruct (mem x (keys g)) eqn:M; [reflexivity|]. cbn zeta.
  rewrite (expected_apply g (AddNode x) W A). cbn [apply_op].
  destruct (apply_op_inv g (AddNode x) W A) as [W1 [A1 _]]. cbn [apply_op] in W1, A1.
  destruct deps as [|d ds].
  - rewrite (expected_apply _ (AddEdge src x) W1 A1). reflexivity.
  - apply add_deps_expected; [split; assumption| |].
    + unfold add_node. rewrite M. simpl. rewrite keys_add_node. apply in_or_app. right. left. reflexivity.
    + unfold add_node. rewrite M. simpl. rewrite succs_add_node. apply succs_missing.
      apply mem_nIn. exact M.
Qed.

(** ** the monitor of the Study stream *)
Record state_good (n : nat) (ob : obs) : Prop := {
  st_wf : wf (o_adj ob);
  st_vals : o_vals ob = keys (o_adj ob);
  st_acyclic : graph_acyclic (o_adj ob);
  st_detect : o_cyc ob = 0;
  st_topo : exists l, o_topo ob = TOk l /\ Permutation l (keys (o_adj ob)) /\
                      forall a b, edge (o_adj ob) a b -> before l a b;
  st_bfs : forall s, s < n -> In s (keys (o_adj ob)) ->
             exists l, nth s (o_bfs ob) (TErr 0) = TOk l /\ NoDup l /\
                       forall x, In x l <-> reachable (o_adj ob) s x;
  st_dfs : forall s, s < n -> In s (keys (o_adj ob)) ->
             exists l, nth s (o_dfs ob) (TErr 0) = TOk l /\
                       forall x, In x l <-> reachable (o_adj ob) s x
}.

(** [state_ok] is [step_ok] without the two conjuncts about the previous table *)
Lemma state_ok_sound : forall n ob, state_ok n ob = true -> state_good n ob.
Proof.
  intros n ob H. unfold state_ok in H.
  do 6 (apply andb_true_iff in H; destruct H as [H ?]).
  rename H into Hwf, H5 into Hvals, H4 into Hac, H3 into Hcyc, H2 into Htopo, H1 into Hbfs,
         H0 into Hdfs.
  apply wfb_wf in Hwf. apply leqb_eq in Hvals. apply (is_acyclic_iff _ Hwf) in Hac.
  apply Nat.eqb_eq in Hcyc.
  constructor; auto.
  - destruct (o_topo ob) as [l|]; [|discriminate]. exists l. split; [reflexivity|].
    apply topo_validb_iff in Htopo. destruct Htopo as [N [S T]]. split.
    + apply NoDup_Permutation; [exact N | apply Hwf | exact S].
    + intros a b Hab. apply (topo_ok_before (succs (o_adj ob))); [exact T | | exact Hab].
      apply S. eapply succs_key. exact Hab.
  - destruct (forallb2_nth _ _ _ 0 (TErr 0) _ _ Hbfs) as [L K]. rewrite seq_length in L, K.
    intros s Hs Hk. specialize (K s Hs).
    rewrite seq_nth in K by exact Hs. simpl in K. unfold bfs_res_ok in K.
    assert (M : mem s (keys (o_adj ob)) = true) by (apply mem_In; exact Hk). rewrite M in K.
    destruct (nth s (o_bfs ob) (TErr 0)) as [l|]; [|discriminate]. exists l. split; [reflexivity|].
    apply andb_true_iff in K. destruct K as [K1 K2]. apply nodupb_NoDup in K1.
    split; [exact K1|]. intros x. rewrite (proj1 (seteqb_iff _ _) K2 x).
    apply reach_set_spec; assumption.
  - destruct (forallb2_nth _ _ _ 0 (TErr 0) _ _ Hdfs) as [L K]. rewrite seq_length in L, K.
    intros s Hs Hk. specialize (K s Hs).
    rewrite seq_nth in K by exact Hs. simpl in K. unfold dfs_res_ok in K.
    assert (M : mem s (keys (o_adj ob)) = true) by (apply mem_In; exact Hk). rewrite M in K.
    destruct (nth s (o_dfs ob) (TErr 0)) as [l|]; [|discriminate]. exists l. split; [reflexivity|].
    intros x. rewrite (proj1 (seteqb_iff _ _) K x). apply reach_set_spec; assumption.
Qed.

Definition sstep_good (n src : nat) (gp : graph) (so : sop) (ob : obs) : Prop :=
  match so with
  | SPrim o => step_good n gp o ob
  | SAddStep x deps =>
    state_good n ob /\
    (o_kind ob = 0 -> o_adj ob = expected_step src gp x deps) /\
    (o_kind ob <> 0 -> In x (keys gp) -> o_adj ob = gp)
  end.

Fixpoint ssteps_good (n src : nat) (gp : graph) (steps : list (sop * obs)) : Prop :=
  match steps with
  | [] => True
  | (o, ob) :: rest => sstep_good n src gp o ob /\ ssteps_good n src (o_adj ob) rest
  end.

Theorem C14_study_ok_sound : forall n src steps gp,
  C14_study_ok n src gp steps = true -> ssteps_good n src gp steps.
Proof.
  intros n src. induction steps as [|[o ob] rest IH]; simpl; intros gp H; [exact I|].
  apply andb_true_iff in H. destruct H as [H1 H2]. split; [|apply IH; exact H2].
  destruct o as [o|x deps]; simpl in *.
  - apply step_ok_sound. exact H1.
  - apply andb_true_iff in H1. destruct H1 as [H1 H3]. split; [|split].
    + apply state_ok_sound. exact H1.
    + intros K. rewrite K in H3. simpl in H3. apply graph_eqb_eq. exact H3.
    + intros K Hx. apply Nat.eqb_neq in K. rewrite K in H3. apply mem_In in Hx. rewrite Hx in H3.
      apply graph_eqb_eq. exact H3.
Qed.

Lemma state_ok_model : forall n k g, good g -> state_ok n (model_obs n k g) = true.
Proof.
  intros n k g1 [W1 A1]. unfold state_ok, model_obs. cbn [o_adj o_vals o_kind o_cyc o_topo o_bfs o_dfs].
  assert (Hac : is_acyclic g1 = true) by (apply is_acyclic_iff; assumption).
  assert (Hcyc : cyc_code (detect_cycle g1) = 0).
  { unfold is_acyclic in Hac. destruct (detect_cycle g1) as [[|]|]; try discriminate. reflexivity. }
  rewrite (proj2 (wfb_wf g1) W1), leqb_refl, Hac, Hcyc. simpl.
  destruct (topological_sort_ok g1 W1 A1) as [l [-> T]].
  rewrite (proj2 (topo_validb_iff g1 l) T). simpl.
  apply andb_true_iff. split.
  - apply forallb2_map. intros s _. unfold bfs_res_ok.
    destruct (mem s (keys g1)) eqn:M; [|reflexivity]. apply mem_In in M.
    destruct (bfs_opt_exact g1 s W1 M) as [lb [E [N _]]].
    unfold bfs_subtree, reach_set. apply mem_In in M. rewrite M, E. simpl.
    rewrite (proj2 (nodupb_NoDup lb) N), seteqb_refl. reflexivity.
  - apply forallb2_map. intros s _. unfold dfs_res_ok.
    destruct (mem s (keys g1)) eqn:M; [|reflexivity]. apply mem_In in M.
    destruct (dfs_subtree_covers g1 s W1 A1 M) as [ld [-> D]].
    apply seteqb_iff. intros x. rewrite D. symmetry. apply reach_set_spec; assumption.
Qed.

Lemma sstep_ok_model : forall n src g so, good g ->
  sstep_ok n src g so (model_obs n (fst (apply_sop src g so)) (snd (apply_sop src g so))) = true.
Proof.
  intros n src g [o|x deps] G; simpl.
  - destruct G as [W A]. apply step_ok_model; assumption.
  - destruct (add_step_good src g x deps G) as [G1 _].
    rewrite (state_ok_model n _ _ G1). cbn [andb o_kind o_adj model_obs].
    destruct (Nat.eqb (kind_code (fst (add_step src g x deps))) 0).
    + apply graph_eqb_eq. apply add_step_expected. exact G.
    + destruct (mem x (keys g)) eqn:M; [|reflexivity]. apply mem_In in M.
      rewrite (add_step_taken_unchanged src g x deps M). apply graph_eqb_eq. reflexivity.
Qed.

Theorem C14_study_ok_model_from : forall n src ops g, good g ->
  C14_study_ok n src g (combine ops (model_strace n src g ops)) = true.
Proof.
  intros n src. induction ops as [|o ops IH]; intros g G; [reflexivity|].
  unfold model_strace. simpl. fold (model_strace n src (snd (apply_sop src g o)) ops).
  rewrite (sstep_ok_model n src g o G).
  simpl. apply IH. apply apply_sop_good. exact G.
Qed.

Theorem C14_study_ok_model : forall n ops,
  smonitor_ok (mkSCase n (combine ops (model_strace n n (study_start n) ops))) = true.
Proof. intros. unfold smonitor_ok. simpl. apply C14_study_ok_model_from. apply study_start_good. Qed.

(** Executable model of maestrowf/datastructures/dag.py (class DAG), as the code
    is in /repo now (including the repair "a refused cycle-creating edge is
    removed from the DAG again").

    A graph is the OrderedDict [adjacency_table] in insertion order:
    [list (node * successor list)].  [values] always has the same keys in the
    same order (both are written by [add_node] only), so it is not a separate
    component; the correspondence run compares the keys of [values] with
    [keys g] after every operation.

    Part 1 is generic over a successor function [sc : nat -> list nat] so that
    the execution model can reuse [bfs] (ExecutionGraph.bfs_subtree is the same
    code) with its exactness lemma (BfsProofs.v).

    Python sets ([visited], [rstack]) are lists used only through [mem].
    Recursion depth of the three DFS procedures is bounded by fuel; running out
    of fuel is an explicit error value ([DFuel] / [None]); DetectProofs.v,
    TopoProofs.v, BfsProofs.v, DfsProofs.v prove that the fuel handed out by
    the [Dag]-level wrappers (the number of nodes, +1 for the BFS loop) is
    always enough. *)
From Coq Require Import List Arith Bool.
From MWF Require Import Base.Util.
Import ListNotations.

(* ------------------------------------------------------------------------- *)
(** * Part 1 — the algorithms over a successor function                       *)
(* ------------------------------------------------------------------------- *)

(** Specification vocabulary. *)
Inductive reach (sc : nat -> list nat) : nat -> nat -> Prop :=
| reach_refl : forall x, reach sc x x
| reach_step : forall x y z, In y (sc x) -> reach sc y z -> reach sc x z.

(** [v] lies on a cycle: one edge out of [v], then back to [v]. *)
Definition on_cycle (sc : nat -> list nat) (v : nat) : Prop :=
  exists c, In c (sc v) /\ reach sc c v.
Definition cyclic (sc : nat -> list nat) : Prop := exists v, on_cycle sc v.
Definition acyclic (sc : nat -> list nat) : Prop := forall v, ~ on_cycle sc v.

(** [a] occurs strictly before [b] in [l]. *)
Definition before (l : list nat) (a b : nat) : Prop :=
  exists l1 l2 l3, l = l1 ++ a :: l2 ++ b :: l3.

(** Result of the cycle-detecting DFS: the two sets it threads through. *)
Inductive dres : Type :=
| DCycle                                 (* returned True *)
| DFuel                                  (* model artefact: recursion budget exhausted *)
| DDone (visited rstack : list nat).     (* returned False, sets afterwards *)

Section Algo.
  Variable sc : nat -> list nat.

  (** ** DAG._detect_cycle / DAG.detect_cycle *)

  (** The [for c in self.adjacency_table[v]] loop of [_detect_cycle]. *)
  Fixpoint dc_children (visit : nat -> list nat -> list nat -> dres)
           (cs vis rs : list nat) {struct cs} : dres :=
    match cs with
    | [] => DDone vis rs
    | c :: cs' =>
      if negb (mem c vis) then
        match visit c vis rs with
        | DDone vis' rs' => dc_children visit cs' vis' rs'
        | r => r
        end
      else if mem c rs then DCycle
      else dc_children visit cs' vis rs
    end.

  Fixpoint dc_visit (fuel : nat) (v : nat) (vis rs : list nat) {struct fuel} : dres :=
    match fuel with
    | O => DFuel
    | S f =>
      match dc_children (dc_visit f) (sc v) (v :: vis) (v :: rs) with
      | DDone vis' rs' => DDone vis' (srem v rs')
      | r => r
      end
    end.

  (** The [for v in self.values] loop of [detect_cycle]. *)
  Fixpoint dc_roots (fuel : nat) (vs vis rs : list nat) {struct vs} : dres :=
    match vs with
    | [] => DDone vis rs
    | v :: vs' =>
      if mem v vis then dc_roots fuel vs' vis rs
      else match dc_visit fuel v vis rs with
           | DDone vis' rs' => dc_roots fuel vs' vis' rs'
           | r => r
           end
    end.

  (** [Some true] = "True", [Some false] = "False", [None] = out of fuel. *)
  Definition detect_gen (fuel : nat) (roots : list nat) : option bool :=
    match dc_roots fuel roots [] [] with
    | DCycle => Some true
    | DFuel => None
    | DDone _ _ => Some false
    end.

  (** ** DAG._topological_sort / DAG.topological_sort
      state = (visited, stack); [stack.appendleft v] is [v :: stack]. *)
  Fixpoint ts_children (visit : nat -> list nat -> list nat -> option (list nat * list nat))
           (cs vis stk : list nat) {struct cs} : option (list nat * list nat) :=
    match cs with
    | [] => Some (vis, stk)
    | c :: cs' =>
      if mem c vis then ts_children visit cs' vis stk
      else match visit c vis stk with
           | Some (vis', stk') => ts_children visit cs' vis' stk'
           | None => None
           end
    end.

  Fixpoint ts_visit (fuel : nat) (v : nat) (vis stk : list nat) {struct fuel}
    : option (list nat * list nat) :=
    match fuel with
    | O => None
    | S f =>
      match ts_children (ts_visit f) (sc v) (v :: vis) stk with
      | Some (vis', stk') => Some (vis', v :: stk')
      | None => None
      end
    end.

  (** the outer [for v in self.values: if not visited[v]] loop has the shape of
      the inner one *)
  Definition topo_gen (fuel : nat) (roots : list nat) : option (list nat) :=
    match ts_children (ts_visit fuel) roots [] [] with
    | Some (_, stk) => Some stk
    | None => None
    end.

  (** ** DAG.bfs_subtree (also ExecutionGraph's sweep of dependents)
      [bfs_scan] is the [for node in adjacency_table[root]] loop: queue and
      path both get the nodes not yet in [path] appended. *)
  Fixpoint bfs_scan (cs q p : list nat) {struct cs} : list nat * list nat :=
    match cs with
    | [] => (q, p)
    | c :: cs' =>
      if mem c p then bfs_scan cs' q p
      else bfs_scan cs' (q ++ [c]) (p ++ [c])
    end.

  (** [while queue:] — one unit of fuel per dequeued node. *)
  Fixpoint bfs_loop (fuel : nat) (q p : list nat) {struct fuel} : option (list nat) :=
    match q with
    | [] => Some p
    | root :: q' =>
      match fuel with
      | O => None
      | S f => let (q2, p2) := bfs_scan (sc root) q' p in bfs_loop f q2 p2
      end
    end.

  Definition bfs (fuel : nat) (s : nat) : option (list nat) := bfs_loop fuel [s] [s].

  (** ** DAG.dfs_subtree: [path = [src] + dfs(c1) + dfs(c2) + ...] *)
  Fixpoint concat_opt (l : list (option (list nat))) : option (list nat) :=
    match l with
    | [] => Some []
    | None :: _ => None
    | Some a :: l' =>
      match concat_opt l' with
      | Some b => Some (a ++ b)
      | None => None
      end
    end.

  Fixpoint dfs (fuel : nat) (v : nat) {struct fuel} : option (list nat) :=
    match fuel with
    | O => None
    | S f =>
      match concat_opt (map (dfs f) (sc v)) with
      | Some l => Some (v :: l)
      | None => None
      end
    end.
End Algo.

(* ------------------------------------------------------------------------- *)
(** * Part 2 — the DAG class                                                  *)
(* ------------------------------------------------------------------------- *)

Definition graph := list (nat * list nat).

Definition keys (g : graph) : list nat := map fst g.

Fixpoint lookup (g : graph) (v : nat) : option (list nat) :=
  match g with
  | [] => None
  | (k, l) :: g' => if Nat.eqb k v then Some l else lookup g' v
  end.

(** [adjacency_table[v]]; a missing key has no successors (Python would raise
    KeyError: excluded by [wf], which every graph built by the operations
    satisfies). *)
Definition succs (g : graph) (v : nat) : list nat :=
  match lookup g v with Some l => l | None => [] end.

(** [adjacency_table[v] = f(adjacency_table[v])] *)
Fixpoint upd_adj (g : graph) (v : nat) (f : list nat -> list nat) : graph :=
  match g with
  | [] => []
  | (k, l) :: g' => if Nat.eqb k v then (k, f l) :: g' else (k, l) :: upd_adj g' v f
  end.

(** [list.remove(x)] on a list that contains [x]: first occurrence. *)
Fixpoint remove_first (x : nat) (l : list nat) : list nat :=
  match l with
  | [] => []
  | y :: l' => if Nat.eqb x y then l' else y :: remove_first x l'
  end.

Definition edge (g : graph) (a b : nat) : Prop := In b (succs g a).
Definition reachable (g : graph) (a b : nat) : Prop := reach (succs g) a b.
Definition graph_acyclic (g : graph) : Prop := acyclic (succs g).
Definition graph_cyclic (g : graph) : Prop := cyclic (succs g).

(** keys are distinct; every edge ends at a key *)
Definition wf (g : graph) : Prop :=
  NoDup (keys g) /\ forall k l c, In (k, l) g -> In c l -> In c (keys g).

Definition wfb (g : graph) : bool :=
  nodupb (keys g) && forallb (fun kl => forallb (fun c => mem c (keys g)) (snd kl)) g.

(** ** the traversals of the class *)

(** fuel = number of nodes *)
Definition detect_cycle (g : graph) : option bool :=
  detect_gen (succs g) (length g) (keys g).

Definition topological_sort_opt (g : graph) : option (list nat) :=
  topo_gen (succs g) (length g) (keys g).

Definition bfs_opt (g : graph) (s : nat) : option (list nat) :=
  bfs (succs g) (S (length g)) s.

Definition dfs_opt (g : graph) (s : nat) : option (list nat) :=
  dfs (succs g) (length g) s.

(** what a caller of a traversal sees: a list, or an error
    (1 = KeyError: the start node is not in the table; 2 = model ran out of
    fuel (never, see the [*_fuel] theorems); 9 = anything else, used only for
    the implementation's side of a correspondence case) *)
Inductive tres : Type := TOk (l : list nat) | TErr (code : nat).

Definition of_opt (o : option (list nat)) : tres :=
  match o with Some l => TOk l | None => TErr 2 end.

Definition topological_sort (g : graph) : tres := of_opt (topological_sort_opt g).

Definition bfs_subtree (g : graph) (s : nat) : tres :=
  if mem s (keys g) then of_opt (bfs_opt g s) else TErr 1.

Definition dfs_subtree (g : graph) (s : nat) : tres :=
  if mem s (keys g) then of_opt (dfs_opt g s) else TErr 1.

(** ** the mutating operations *)
Inductive op : Type :=
| AddNode (a : nat)
| AddEdge (a b : nat)
| RemoveEdge (a b : nat).

Inductive rkind : Type :=
| KOk            (* returned, table changed *)
| KRefused       (* returned early, nothing changed (logged) *)
| KValueError    (* raise ValueError: add_edge from a missing source; list.remove of a missing edge *)
| KCycle         (* raise Exception("... crates a cycle") *)
| KFuel.         (* model artefact *)

Definition add_node (g : graph) (a : nat) : rkind * graph :=
  if mem a (keys g) then (KRefused, g) else (KOk, g ++ [(a, [])]).

Definition add_edge (g : graph) (a b : nat) : rkind * graph :=
  if Nat.eqb a b then (KRefused, g)
  else if negb (mem a (keys g)) then (KValueError, g)
  else if negb (mem b (keys g)) then (KRefused, g)
  else if mem b (succs g a) then (KRefused, g)
  else
    let g1 := upd_adj g a (fun l => l ++ [b]) in
    match detect_cycle g1 with
    | Some false => (KOk, g1)
    | Some true => (KCycle, upd_adj g1 a (remove_first b))
    | None => (KFuel, g1)
    end.

Definition remove_edge (g : graph) (a b : nat) : rkind * graph :=
  if negb (mem a (keys g)) then (KRefused, g)
  else if negb (mem b (keys g)) then (KRefused, g)
  else if mem b (succs g a) then (KOk, upd_adj g a (remove_first b))
  else (KValueError, g).

Definition apply_op (g : graph) (o : op) : rkind * graph :=
  match o with
  | AddNode a => add_node g a
  | AddEdge a b => add_edge g a b
  | RemoveEdge a b => remove_edge g a b
  end.

(** the (kind, graph) after every operation of a sequence *)
Fixpoint run (g : graph) (ops : list op) : list (rkind * graph) :=
  match ops with
  | [] => []
  | o :: ops' => let kg := apply_op g o in kg :: run (snd kg) ops'
  end.

Definition final (g : graph) (ops : list op) : graph :=
  fold_left (fun g o => snd (apply_op g o)) ops g.

(* ------------------------------------------------------------------------- *)
(** * Part 3 — observables, the monitor [C14_ok], the correspondence check    *)
(* ------------------------------------------------------------------------- *)

(** What is recorded after every operation (of the implementation, and
    computed by the model): table, keys of [values], how the call ended
    (0 returned, 1 ValueError, 2 Exception, 3 model out of fuel, 9 other),
    [detect_cycle()] (0 False, 1 True, 2 model out of fuel, 9 raised),
    [topological_sort()], and [bfs_subtree(x)[0]] / [dfs_subtree(x)[0]] for
    every name [x < n] of the case's alphabet (present or not). *)
Record obs : Type := mkObs {
  o_adj : graph;
  o_vals : list nat;
  o_kind : nat;
  o_cyc : nat;
  o_topo : tres;
  o_bfs : list tres;
  o_dfs : list tres
}.

Definition kind_code (k : rkind) : nat :=
  match k with KOk | KRefused => 0 | KValueError => 1 | KCycle => 2 | KFuel => 3 end.

Definition cyc_code (r : option bool) : nat :=
  match r with Some false => 0 | Some true => 1 | None => 2 end.

Definition model_obs (n : nat) (k : rkind) (g : graph) : obs :=
  mkObs g (keys g) (kind_code k) (cyc_code (detect_cycle g)) (topological_sort g)
        (map (bfs_subtree g) (seq 0 n)) (map (dfs_subtree g) (seq 0 n)).

Definition model_trace (n : nat) (g : graph) (ops : list op) : list obs :=
  map (fun kg => model_obs n (fst kg) (snd kg)) (run g ops).

(** structural equalities *)
Definition adj_eqb (a b : nat * list nat) : bool :=
  Nat.eqb (fst a) (fst b) && leqb (snd a) (snd b).

Fixpoint list_eqb {A} (e : A -> A -> bool) (a b : list A) : bool :=
  match a, b with
  | [], [] => true
  | x :: a', y :: b' => e x y && list_eqb e a' b'
  | _, _ => false
  end.

Definition graph_eqb (a b : graph) : bool := list_eqb adj_eqb a b.

Definition tres_eqb (a b : tres) : bool :=
  match a, b with
  | TOk x, TOk y => leqb x y
  | TErr x, TErr y => Nat.eqb x y
  | _, _ => false
  end.

Definition obs_eqb (a b : obs) : bool :=
  graph_eqb (o_adj a) (o_adj b) && leqb (o_vals a) (o_vals b)
  && Nat.eqb (o_kind a) (o_kind b) && Nat.eqb (o_cyc a) (o_cyc b)
  && tres_eqb (o_topo a) (o_topo b)
  && list_eqb tres_eqb (o_bfs a) (o_bfs b) && list_eqb tres_eqb (o_dfs a) (o_dfs b).

(** ** the monitor *)

(** the set of nodes reachable from [s], by the verified BFS
    ([C14_bfs_exact]: it is exactly [reachable g s]) *)
Definition reach_set (g : graph) (s : nat) : list nat :=
  match bfs_opt g s with Some l => l | None => [] end.

(** adding [a -> b] would close a cycle *)
Definition creates_cycle (g : graph) (a b : nat) : bool :=
  Nat.eqb a b || mem a (reach_set g b).

(** what the table has to be after an operation: an edge is added exactly when
    both ends exist, it is new and closes no cycle; every other [add_edge]
    leaves the table as it was *)
Definition expected (g : graph) (o : op) : graph :=
  match o with
  | AddNode a => if mem a (keys g) then g else g ++ [(a, [])]
  | AddEdge a b =>
    if mem a (keys g) && mem b (keys g) && negb (mem b (succs g a))
       && negb (creates_cycle g a b)
    then upd_adj g a (fun l => l ++ [b]) else g
  | RemoveEdge a b =>
    if mem a (keys g) && mem b (keys g) && mem b (succs g a)
    then upd_adj g a (remove_first b) else g
  end.

(** [l] lists every successor of each of its elements later than the element *)
Fixpoint topo_okb (g : graph) (l : list nat) : bool :=
  match l with
  | [] => true
  | x :: l' => forallb (fun c => mem c l') (succs g x) && topo_okb g l'
  end.

Definition topo_validb (g : graph) (l : list nat) : bool :=
  nodupb l && seteqb l (keys g) && topo_okb g l.

Definition is_acyclic (g : graph) : bool :=
  match detect_cycle g with Some false => true | _ => false end.

Fixpoint forallb2 {A B} (f : A -> B -> bool) (a : list A) (b : list B) : bool :=
  match a, b with
  | [], [] => true
  | x :: a', y :: b' => f x y && forallb2 f a' b'
  | _, _ => false
  end.

Definition bfs_res_ok (g : graph) (s : nat) (r : tres) : bool :=
  if mem s (keys g)
  then match r with TOk l => nodupb l && seteqb l (reach_set g s) | TErr _ => false end
  else true.

Definition dfs_res_ok (g : graph) (s : nat) (r : tres) : bool :=
  if mem s (keys g)
  then match r with TOk l => seteqb l (reach_set g s) | TErr _ => false end
  else true.

(** one operation: [gp] is the table before, [ob] what was observed after *)
Definition step_ok (n : nat) (gp : graph) (o : op) (ob : obs) : bool :=
  let g := o_adj ob in
  wfb g && leqb (keys g) (o_vals ob)
  && is_acyclic g                                   (* never a cycle, returned or raised *)
  && graph_eqb g (expected gp o)                    (* refused => unchanged; valid => added *)
  && (Nat.eqb (o_kind ob) 0 || graph_eqb g gp)      (* raised => unchanged *)
  && Nat.eqb (o_cyc ob) 0                           (* the class's own answer *)
  && match o_topo ob with TOk l => topo_validb g l | TErr _ => false end
  && forallb2 (bfs_res_ok g) (seq 0 n) (o_bfs ob)
  && forallb2 (dfs_res_ok g) (seq 0 n) (o_dfs ob).

Fixpoint C14_ok (n : nat) (gp : graph) (steps : list (op * obs)) : bool :=
  match steps with
  | [] => true
  | (o, ob) :: rest => step_ok n gp o ob && C14_ok n (o_adj ob) rest
  end.

(** ** a correspondence case
    [setup] operations build the start table from the empty DAG (their
    observables are checked by other cases); [start] is the implementation's
    table after them; every branch is a sequence of operations applied to a
    fresh copy of that state, with the implementation's observable after each
    operation. *)
Record case : Type := mkCase {
  c_n : nat;
  c_setup : list op;
  c_start : graph;
  c_branches : list (list (op * obs))
}.

Definition corr_ok (c : case) : bool :=
  let g0 := final [] (c_setup c) in
  graph_eqb g0 (c_start c)
  && forallb (fun br => list_eqb obs_eqb (model_trace (c_n c) g0 (map fst br)) (map snd br))
             (c_branches c).

Definition monitor_ok (c : case) : bool :=
  wfb (c_start c) && is_acyclic (c_start c)
  && forallb (C14_ok (c_n c) (c_start c)) (c_branches c).

Definition check_case (c : case) : bool := corr_ok c && monitor_ok c.

(* ------------------------------------------------------------------------- *)
(** * Part 4 — the DAG API of a Study object: Study.add_step                  *)
(* ------------------------------------------------------------------------- *)

(** [Study.add_step(step)] (core/study.py) drives the inherited DAG operations:
    a step whose name is taken is rejected at once (ValueError, nothing
    changed); otherwise the node is added, then, in the order of
    [step.run["depends"]] (the [_*] / [*] suffix stripped), a dependency equal
    to the step's own name raises ValueError, any other becomes
    [add_edge(dependency, name)] (which raises ValueError for an unknown
    dependency and returns silently for a duplicate); without dependencies
    the edge [_source -> name] is added.  An exception leaves the node and
    the edges made so far in the table. *)
Fixpoint add_deps (g : graph) (x : nat) (deps : list nat) : rkind * graph :=
  match deps with
  | [] => (KOk, g)
  | d :: ds =>
    if Nat.eqb d x then (KValueError, g)
    else let kg := add_edge g d x in
         match fst kg with
         | KOk | KRefused => add_deps (snd kg) x ds
         | _ => kg
         end
  end.

Definition add_step (src : nat) (g : graph) (x : nat) (deps : list nat) : rkind * graph :=
  if mem x (keys g) then (KValueError, g)
  else let g1 := snd (add_node g x) in
       match deps with
       | [] => add_edge g1 src x
       | _ => add_deps g1 x deps
       end.

(** an operation on a Study object: an inherited DAG operation or add_step *)
Inductive sop : Type :=
| SPrim (o : op)
| SAddStep (x : nat) (deps : list nat).

Definition apply_sop (src : nat) (g : graph) (so : sop) : rkind * graph :=
  match so with
  | SPrim o => apply_op g o
  | SAddStep x deps => add_step src g x deps
  end.

Fixpoint srun (src : nat) (g : graph) (ops : list sop) : list (rkind * graph) :=
  match ops with
  | [] => []
  | o :: ops' => let kg := apply_sop src g o in kg :: srun src (snd kg) ops'
  end.

Definition model_strace (n src : nat) (g : graph) (ops : list sop) : list obs :=
  map (fun kg => model_obs n (fst kg) (snd kg)) (srun src g ops).

(** what the table has to be after [add_step]: the edges of the dependencies
    before the first one that is the step itself or unknown *)
Fixpoint expected_deps (g : graph) (x : nat) (deps : list nat) : graph :=
  match deps with
  | [] => g
  | d :: ds =>
    if Nat.eqb d x then g
    else if mem d (keys g) then expected_deps (expected g (AddEdge d x)) x ds
    else g
  end.

Definition expected_step (src : nat) (g : graph) (x : nat) (deps : list nat) : graph :=
  if mem x (keys g) then g
  else let g1 := expected g (AddNode x) in
       match deps with
       | [] => expected g1 (AddEdge src x)
       | _ => expected_deps g1 x deps
       end.

(** the conjuncts of [step_ok] that speak about the observed state alone *)
Definition state_ok (n : nat) (ob : obs) : bool :=
  let g := o_adj ob in
  wfb g && leqb (keys g) (o_vals ob)
  && is_acyclic g
  && Nat.eqb (o_cyc ob) 0
  && match o_topo ob with TOk l => topo_validb g l | TErr _ => false end
  && forallb2 (bfs_res_ok g) (seq 0 n) (o_bfs ob)
  && forallb2 (dfs_res_ok g) (seq 0 n) (o_dfs ob).

Definition sstep_ok (n src : nat) (gp : graph) (so : sop) (ob : obs) : bool :=
  match so with
  | SPrim o => step_ok n gp o ob
  | SAddStep x deps =>
    state_ok n ob                                           (* returned or raised *)
    && (if Nat.eqb (o_kind ob) 0
        then graph_eqb (o_adj ob) (expected_step src gp x deps)   (* accepted => node + edges *)
        else if mem x (keys gp) then graph_eqb (o_adj ob) gp      (* name taken => unchanged *)
        else true)      (* other rejections: any well-formed acyclic table (what is left of the
                           half-added step is compared with the model by the correspondence) *)
  end.

Fixpoint C14_study_ok (n src : nat) (gp : graph) (steps : list (sop * obs)) : bool :=
  match steps with
  | [] => true
  | (o, ob) :: rest => sstep_ok n src gp o ob && C14_study_ok n src (o_adj ob) rest
  end.

(** a correspondence case on a fresh Study object: its table is born as
    [_source] alone, and [_source] is name [n] of the case *)
Record scase : Type := mkSCase {
  sc_n : nat;
  sc_steps : list (sop * obs)
}.

Definition study_start (n : nat) : graph := [(n, [])].

Definition scorr_ok (c : scase) : bool :=
  list_eqb obs_eqb (model_strace (sc_n c) (sc_n c) (study_start (sc_n c)) (map fst (sc_steps c)))
           (map snd (sc_steps c)).

Definition smonitor_ok (c : scase) : bool :=
  C14_study_ok (sc_n c) (sc_n c) (study_start (sc_n c)) (sc_steps c).

Definition scheck_case (c : scase) : bool := scorr_ok c && smonitor_ok c.

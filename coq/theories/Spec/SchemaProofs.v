(** Lemmas about the JSON-schema interpreter (Spec/Schema.v): keyword-wise
    unfolding, soundness of the decidable [guarantees] check, validity along a
    path, and the four generic "this edit makes the value invalid" lemmas used
    by the rejection theorems of C13. *)
From Coq Require Import List ZArith NArith Bool Arith Lia.
From MWF Require Import Base.Str Spec.Json Spec.Schema.
Import ListNotations.

(* ---------------------------------------------------------------- strings *)
Lemma str_eqb_eq : forall a b, str_eqb a b = true <-> a = b.
Proof.
  induction a as [|x a IH]; destruct b as [|y b]; simpl; split; intro H;
    try reflexivity; try discriminate.
  - apply andb_prop in H. destruct H as [H1 H2]. apply N.eqb_eq in H1. apply IH in H2. subst. reflexivity.
  - inversion H; subst. rewrite N.eqb_refl. simpl. apply IH. reflexivity.
Qed.
Lemma str_eqb_refl a : str_eqb a a = true.
Proof. apply str_eqb_eq. reflexivity. Qed.
Lemma str_eqb_neq a b : str_eqb a b = false <-> a <> b.
Proof.
  split.
  - intros H E. subst. rewrite str_eqb_refl in H. discriminate.
  - intro H. destruct (str_eqb a b) eqn:E; [|reflexivity]. apply str_eqb_eq in E. contradiction.
Qed.
Lemma str_eqb_sym a b : str_eqb a b = str_eqb b a.
Proof.
  destruct (str_eqb a b) eqn:E.
  - apply str_eqb_eq in E. subst. symmetry. apply str_eqb_refl.
  - symmetry. apply str_eqb_neq. apply str_eqb_neq in E. congruence.
Qed.

Lemma mem_str_In k l : mem_str k l = true <-> In k l.
Proof.
  unfold mem_str. rewrite existsb_exists. split.
  - intros [x [Hin E]]. apply str_eqb_eq in E. subst. exact Hin.
  - intro H. exists k. split; [exact H | apply str_eqb_refl].
Qed.
Lemma mem_str_false k l : mem_str k l = false <-> ~ In k l.
Proof.
  split.
  - intros H Hin. apply mem_str_In in Hin. congruence.
  - intro H. destruct (mem_str k l) eqn:E; [|reflexivity]. apply mem_str_In in E. contradiction.
Qed.
Lemma mem_str_app k a b : mem_str k (a ++ b) = mem_str k a || mem_str k b.
Proof. unfold mem_str. apply existsb_app. Qed.

Lemma nodup_str_NoDup l : nodup_str l = true <-> NoDup l.
Proof.
  induction l as [|x r IH]; simpl.
  - split; [constructor | reflexivity].
  - rewrite andb_true_iff, negb_true_iff, mem_str_false, IH. split.
    + intros [H1 H2]. constructor; assumption.
    + intro H. inversion H; subst. split; assumption.
Qed.

(* ---------------------------------------------------------------- objects *)
Lemma lookup_In k l x : lookup k l = Some x -> In (k, x) l.
Proof.
  induction l as [|[k' v] r IH]; simpl; [discriminate|].
  destruct (str_eqb k k') eqn:E.
  - intro H. inversion H; subst. apply str_eqb_eq in E. subst. left. reflexivity.
  - intro H. right. apply IH. exact H.
Qed.
Lemma lookup_In_keys k l x : lookup k l = Some x -> In k (keys l).
Proof. intro H. apply lookup_In in H. unfold keys. apply (in_map fst) in H. exact H. Qed.
Lemma lookup_None_keys k l : lookup k l = None <-> ~ In k (keys l).
Proof.
  induction l as [|[k' v] r IH]; simpl.
  - split; auto.
  - destruct (str_eqb k k') eqn:E.
    + apply str_eqb_eq in E. subst. split; [discriminate | intro H; exfalso; apply H; left; reflexivity].
    + apply str_eqb_neq in E. rewrite IH. split.
      * intros H [H1|H1]; [congruence | contradiction].
      * intros H H1. apply H. right. exact H1.
Qed.
Lemma has_key_In k l : has_key k l = true <-> In k (keys l).
Proof.
  unfold has_key. destruct (lookup k l) eqn:E.
  - split; [intros _; eapply lookup_In_keys; eauto | reflexivity].
  - split; [discriminate | intro H; apply lookup_None_keys in E; contradiction].
Qed.
Lemma has_key_lookup k l : has_key k l = true -> exists x, lookup k l = Some x.
Proof. unfold has_key. destruct (lookup k l) as [x|]; [eauto | discriminate]. Qed.
Lemma lookup_has_key k l x : lookup k l = Some x -> has_key k l = true.
Proof. unfold has_key. intro H. rewrite H. reflexivity. Qed.

Lemma keys_remove_key k l : forall k', In k' (keys (remove_key k l)) <-> In k' (keys l) /\ k' <> k.
Proof.
  induction l as [|[k0 v] r IH]; simpl; intro k'.
  - tauto.
  - destruct (str_eqb k k0) eqn:E.
    + apply str_eqb_eq in E. subst. rewrite IH. split.
      * intros [H1 H2]. split; [right; exact H1 | exact H2].
      * intros [[H1|H1] H2]; [congruence | split; assumption].
    + apply str_eqb_neq in E. simpl. rewrite IH. split.
      * intros [H|[H1 H2]]; [subst; split; [left; reflexivity | congruence] | split; [right; exact H1 | exact H2]].
      * intros [[H1|H1] H2]; [left; exact H1 | right; split; assumption].
Qed.
Lemma has_key_remove_key k l : has_key k (remove_key k l) = false.
Proof.
  destruct (has_key k (remove_key k l)) eqn:E; [|reflexivity].
  apply has_key_In in E. apply keys_remove_key in E. destruct E as [_ E]. congruence.
Qed.
Lemma lookup_set_key k x l : has_key k l = true -> lookup k (set_key k x l) = Some x.
Proof.
  induction l as [|[k' v] r IH]; simpl; [discriminate|].
  unfold has_key. simpl. destruct (str_eqb k k') eqn:E; simpl; rewrite E.
  - reflexivity.
  - exact IH.
Qed.
Lemma lookup_app k a b : lookup k (a ++ b) = match lookup k a with Some x => Some x | None => lookup k b end.
Proof.
  induction a as [|[k' v] r IH]; simpl; [reflexivity|]. destruct (str_eqb k k'); [reflexivity | exact IH].
Qed.
Lemma keys_app a b : keys (a ++ b) = keys a ++ keys b.
Proof. unfold keys. apply map_app. Qed.

(* --------------------------------------------------- unfolding the keywords *)
Definition props_ok (ps : list (str * list kw)) (l : list (str * jv)) : bool :=
  forallb (fun p => match lookup (fst p) l with Some x => valid (snd p) x | None => true end) ps.

Lemma valid_inner s x :
  (fix go (l : list kw) : bool :=
     match l with [] => true | k' :: r => kw_ok s k' x && go r end) s = valid s x.
Proof.
  unfold valid, valid_from.
  assert (H : forall l, (fix go (l : list kw) : bool :=
     match l with [] => true | k' :: r => kw_ok s k' x && go r end) l = forallb (fun k => kw_ok s k x) l).
  { induction l as [|k r IH]; [reflexivity|]. simpl. rewrite IH. reflexivity. }
  apply H.
Qed.

Lemma forallb_ext' {A} (f g : A -> bool) l : (forall x, f x = g x) -> forallb f l = forallb g l.
Proof. intro H. induction l as [|x r IH]; [reflexivity|]. simpl. rewrite H, IH. reflexivity. Qed.

Lemma kw_ok_props sibs ps l : kw_ok sibs (KProperties ps) (JObj l) = props_ok ps l.
Proof.
  simpl. unfold props_ok. induction ps as [|[p sc] r IH]; [reflexivity|].
  simpl. destruct (lookup p l) as [x|].
  - rewrite IH. rewrite valid_inner. reflexivity.
  - exact IH.
Qed.
Lemma kw_ok_pattern sibs sc l :
  kw_ok sibs (KPatternAll sc) (JObj l) = forallb (fun kv => valid sc (snd kv)) l.
Proof.
  simpl. apply forallb_ext'. intro kv. apply valid_inner.
Qed.
Lemma kw_ok_items sibs sc l : kw_ok sibs (KItems sc) (JArr l) = forallb (valid sc) l.
Proof.
  simpl. apply forallb_ext'. intro x. apply valid_inner.
Qed.
Lemma kw_ok_required sibs ks l : kw_ok sibs (KRequired ks) (JObj l) = forallb (fun p => has_key p l) ks.
Proof. reflexivity. Qed.
Lemma kw_ok_anyof sibs ss v : kw_ok sibs (KAnyOf ss) v = existsb (fun sc => valid sc v) ss.
Proof.
  simpl. induction ss as [|sc r IH]; [reflexivity|]. simpl. rewrite IH, valid_inner. reflexivity.
Qed.

Lemma valid_In s v : valid s v = true -> forall k, In k s -> kw_ok s k v = true.
Proof. unfold valid, valid_from. intro H. apply (proj1 (forallb_forall _ _) H). Qed.
Lemma valid_intro s v : (forall k, In k s -> kw_ok s k v = true) -> valid s v = true.
Proof. unfold valid, valid_from. intro H. apply forallb_forall. exact H. Qed.
Lemma invalid_In s v k : In k s -> kw_ok s k v = false -> valid s v = false.
Proof.
  intros Hin Hk. destruct (valid s v) eqn:E; [|reflexivity].
  rewrite (valid_In _ _ E _ Hin) in Hk. discriminate.
Qed.

(* ------------------------------------------------------ reading a schema *)
Lemma type_of_In s t : type_of s = Some t -> In (KType t) s.
Proof.
  induction s as [|k r IH]; simpl; [discriminate|].
  destruct k; try (intro H; right; apply IH; exact H).
  intro H. inversion H; subst. left. reflexivity.
Qed.
Lemma items_of_In s i : items_of s = Some i -> In (KItems i) s.
Proof.
  induction s as [|k r IH]; simpl; [discriminate|].
  destruct k; try (intro H; right; apply IH; exact H).
  intro H. inversion H; subst. left. reflexivity.
Qed.
Lemma pattern_all_of_In s p : pattern_all_of s = Some p -> In (KPatternAll p) s.
Proof.
  induction s as [|k r IH]; simpl; [discriminate|].
  destruct k; try (intro H; right; apply IH; exact H).
  intro H. inversion H; subst. left. reflexivity.
Qed.
Lemma closed_of_In s : closed_of s = true -> In KAdditionalFalse s.
Proof.
  induction s as [|k r IH]; simpl; [discriminate|].
  destruct k; try (intro H; right; apply IH; exact H).
  intros _. left. reflexivity.
Qed.
Lemma props_of_In s : props_of s <> [] -> In (KProperties (props_of s)) s.
Proof.
  induction s as [|k r IH]; simpl; [congruence|].
  destruct k; try (intro H; right; apply IH; exact H).
  intros _. left. reflexivity.
Qed.
Lemma required_of_In s k : In k (required_of s) -> exists ks, In (KRequired ks) s /\ In k ks.
Proof.
  induction s as [|kw0 r IH]; simpl; [contradiction|].
  destruct kw0; try (intro H; destruct (IH H) as [ks [H1 H2]]; exists ks; split; [right; exact H1 | exact H2]).
  intro H. apply in_app_or in H. destruct H as [H|H].
  - exists ks. split; [left; reflexivity | exact H].
  - destruct (IH H) as [ks' [H1 H2]]. exists ks'. split; [right; exact H1 | exact H2].
Qed.
Lemma min_length_of_In s : (1 <= min_length_of s)%nat -> exists n, In (KMinLength n) s /\ (1 <= n)%nat.
Proof.
  induction s as [|k r IH]; simpl; [lia|].
  destruct k; try (intro H; destruct (IH H) as [m [H1 H2]]; exists m; split; [right; exact H1 | exact H2]).
  intro H. destruct (Nat.le_gt_cases 1 n) as [Hn|Hn].
  - exists n. split; [left; reflexivity | exact Hn].
  - assert (H' : (1 <= min_length_of r)%nat) by lia.
    destruct (IH H') as [m [H1 H2]]. exists m. split; [right; exact H1 | exact H2].
Qed.

Lemma assoc_schema_In k ps sc : assoc_schema k ps = Some sc -> In (k, sc) ps.
Proof.
  induction ps as [|[k' s'] r IH]; simpl; [discriminate|].
  destruct (str_eqb k k') eqn:E.
  - intro H. inversion H; subst. apply str_eqb_eq in E. subst. left. reflexivity.
  - intro H. right. apply IH. exact H.
Qed.
Lemma assoc_schema_None k ps : assoc_schema k ps = None <-> ~ In k (map fst ps).
Proof.
  induction ps as [|[k' s'] r IH]; simpl.
  - split; auto.
  - destruct (str_eqb k k') eqn:E.
    + apply str_eqb_eq in E. subst. split; [discriminate | intro H; exfalso; apply H; left; reflexivity].
    + apply str_eqb_neq in E. rewrite IH. split.
      * intros H [H1|H1]; [congruence | contradiction].
      * intros H H1. apply H. right. exact H1.
Qed.

Lemma is_type_In s t : is_type s t = true -> In (KType t) s.
Proof.
  unfold is_type. destruct (type_of s) as [t'|] eqn:E; [|discriminate].
  intro H. assert (t = t') by (destruct t, t'; simpl in H; congruence). subst.
  apply type_of_In. exact E.
Qed.

(** the member [k] of a valid object is valid for the sub-schema [prop_schema] names *)
Lemma valid_member s l k x sc :
  valid s (JObj l) = true -> prop_schema s k = Some sc -> lookup k l = Some x -> valid sc x = true.
Proof.
  intros V P L. unfold prop_schema in P.
  destruct (assoc_schema k (props_of s)) as [p|] eqn:A.
  - inversion P; subst p. clear P.
    assert (Hne : props_of s <> []) by (intro E; rewrite E in A; discriminate).
    pose proof (valid_In _ _ V _ (props_of_In _ Hne)) as H.
    rewrite kw_ok_props in H. unfold props_ok in H.
    apply assoc_schema_In in A.
    pose proof (proj1 (forallb_forall _ _) H _ A) as H1. simpl in H1. rewrite L in H1. exact H1.
  - apply pattern_all_of_In in P.
    pose proof (valid_In _ _ V _ P) as H. rewrite kw_ok_pattern in H.
    apply lookup_In in L.
    exact (proj1 (forallb_forall _ _) H _ L).
Qed.
Lemma valid_item s l i x sc :
  valid s (JArr l) = true -> items_of s = Some sc -> nth_error l i = Some x -> valid sc x = true.
Proof.
  intros V P L. apply items_of_In in P.
  pose proof (valid_In _ _ V _ P) as H. rewrite kw_ok_items in H.
  apply nth_error_In in L. exact (proj1 (forallb_forall _ _) H _ L).
Qed.

(** validity along a path: a valid document is valid, at every position the
    schema can be navigated to, for the sub-schema found there *)
Lemma valid_at : forall p s v sc x,
  valid s v = true -> schema_at s p = Some sc -> value_at v p = Some x -> valid sc x = true.
Proof.
  induction p as [|st p IH]; intros s v sc x V S X; simpl in *.
  - inversion S; inversion X; subst. exact V.
  - destruct st as [k|i].
    + destruct (prop_schema s k) as [s'|] eqn:P; [|discriminate].
      destruct v; try discriminate.
      destruct (lookup k l) as [c|] eqn:L; [|discriminate].
      eapply IH; [|exact S|exact X]. eapply valid_member; eauto.
    + destruct (items_of s) as [s'|] eqn:P; [|discriminate].
      destruct v; try discriminate.
      destruct (nth_error l i) as [c|] eqn:L; [|discriminate].
      eapply IH; [|exact S|exact X]. eapply valid_item; eauto.
Qed.

(* ------------------------------- four generic ways of making a value invalid *)
Lemma invalid_wrong_type s t v : type_of s = Some t -> has_type t v = false -> valid s v = false.
Proof. intros T H. eapply invalid_In; [apply type_of_In; exact T | exact H]. Qed.

Lemma invalid_missing_required s k l :
  In k (required_of s) -> has_key k l = false -> valid s (JObj l) = false.
Proof.
  intros R H. destruct (required_of_In _ _ R) as [ks [H1 H2]].
  eapply invalid_In; [exact H1|]. rewrite kw_ok_required.
  destruct (forallb (fun p => has_key p l) ks) eqn:E; [|reflexivity].
  rewrite (proj1 (forallb_forall _ _) E _ H2) in H. discriminate.
Qed.

Lemma invalid_empty_string s : (1 <= min_length_of s)%nat -> valid s (JStr []) = false.
Proof.
  intro H. destruct (min_length_of_In _ H) as [n [H1 H2]].
  eapply invalid_In; [exact H1|]. simpl. destruct n; [lia | reflexivity].
Qed.

Lemma invalid_unknown_key s k l :
  closed_of s = true -> pattern_all_of s = None -> ~ In k (map fst (props_of s)) ->
  In k (keys l) -> valid s (JObj l) = false.
Proof.
  intros C P N K. eapply invalid_In; [apply closed_of_In; exact C|].
  simpl. rewrite P.
  destruct (forallb _ (keys l)) eqn:E; [|reflexivity].
  pose proof (proj1 (forallb_forall _ _) E _ K) as H. simpl in H.
  apply assoc_schema_None in N. rewrite N in H. discriminate.
Qed.

(* ------------------------------------------------------------------ shapes *)
Section ShapeInd.
  Variable P : shape -> Prop.
  Hypothesis HAny : P ShAny.
  Hypothesis HStr : P ShStr.
  Hypothesis HArr : forall it, P it -> P (ShArr it).
  Hypothesis HMap : forall it, P it -> P (ShMap it).
  Hypothesis HObj : forall c fs, Forall (fun f => P (snd (snd f))) fs -> P (ShObj c fs).
  Fixpoint shape_ind' (sh : shape) : P sh :=
    match sh with
    | ShAny => HAny
    | ShStr => HStr
    | ShArr it => HArr it (shape_ind' it)
    | ShMap it => HMap it (shape_ind' it)
    | ShObj c fs =>
        HObj c fs ((fix go (fs : list (str * (bool * shape))) : Forall (fun f => P (snd (snd f))) fs :=
                      match fs with
                      | [] => Forall_nil _
                      | f :: r => Forall_cons f (shape_ind' (snd (snd f))) (go r)
                      end) fs)
    end.
End ShapeInd.

Definition fields_ok (l : list (str * jv)) (fs : list (str * (bool * shape))) : bool :=
  forallb (fun f => match lookup (fst f) l with
                    | Some x => conforms (snd (snd f)) x
                    | None => negb (fst (snd f))
                    end) fs.
Lemma conforms_obj c fs l :
  conforms (ShObj c fs) (JObj l) =
  match c with Some ks => forallb (fun k => mem_str k ks) (keys l) | None => true end && fields_ok l fs.
Proof.
  simpl. f_equal. unfold fields_ok.
  induction fs as [|[k [req sh']] r IH]; [reflexivity|].
  simpl. destruct (lookup k l); rewrite IH; reflexivity.
Qed.

Lemma is_any_true sh : is_any sh = true -> sh = ShAny.
Proof. destruct sh; simpl; congruence. Qed.

Lemma guarantees_obj s c fs :
  guarantees s (ShObj c fs) =
  is_type s TObject &&
  match c with
  | Some ks => closed_of s && match pattern_all_of s with Some _ => false | None => true end &&
               forallb (fun k => mem_str k ks) (map fst (props_of s))
  | None => true
  end &&
  forallb (fun f => (negb (fst (snd f)) || mem_str (fst f) (required_of s)) &&
                    (is_any (snd (snd f)) || match prop_schema s (fst f) with
                                            | Some s' => guarantees s' (snd (snd f))
                                            | None => false
                                            end)) fs.
Proof.
  simpl. f_equal. induction fs as [|[k [req sh']] r IH]; [reflexivity|].
  simpl. rewrite IH. reflexivity.
Qed.

Theorem guarantees_sound : forall sh s v,
  guarantees s sh = true -> valid s v = true -> conforms sh v = true.
Proof.
  induction sh as [| | it IH | it IH | c fs IH] using shape_ind'; intros s v G V.
  - reflexivity.
  - simpl in G. apply is_type_In in G. pose proof (valid_In _ _ V _ G) as H.
    destruct v; simpl in H; try discriminate. reflexivity.
  - simpl in G. apply andb_prop in G. destruct G as [G1 G2].
    apply is_type_In in G1. pose proof (valid_In _ _ V _ G1) as H.
    destruct v; simpl in H; try discriminate. simpl.
    apply orb_prop in G2. destruct G2 as [G2|G2].
    + apply is_any_true in G2. subst. apply forallb_forall. reflexivity.
    + destruct (items_of s) as [s'|] eqn:I; [|discriminate].
      apply items_of_In in I. pose proof (valid_In _ _ V _ I) as H1. rewrite kw_ok_items in H1.
      apply forallb_forall. intros x Hx. eapply IH; [exact G2|].
      exact (proj1 (forallb_forall _ _) H1 _ Hx).
  - simpl in G. apply andb_prop in G. destruct G as [G1 G2].
    apply is_type_In in G1. pose proof (valid_In _ _ V _ G1) as H.
    destruct v; simpl in H; try discriminate. simpl.
    apply orb_prop in G2. destruct G2 as [G2|G2].
    + apply is_any_true in G2. subst. apply forallb_forall. reflexivity.
    + destruct (pattern_all_of s) as [s'|] eqn:I; [|discriminate].
      apply pattern_all_of_In in I. pose proof (valid_In _ _ V _ I) as H1. rewrite kw_ok_pattern in H1.
      apply forallb_forall. intros x Hx. eapply IH; [exact G2|].
      exact (proj1 (forallb_forall _ _) H1 _ Hx).
  - rewrite guarantees_obj in G. apply andb_prop in G. destruct G as [G G3].
    apply andb_prop in G. destruct G as [G1 G2].
    apply is_type_In in G1. pose proof (valid_In _ _ V _ G1) as H.
    destruct v; simpl in H; try discriminate.
    rewrite conforms_obj. apply andb_true_intro. split.
    + destruct c as [ks|]; [|reflexivity].
      apply andb_prop in G2. destruct G2 as [G2 G2c].
      apply andb_prop in G2. destruct G2 as [G2a G2b].
      destruct (pattern_all_of s) eqn:PA; [discriminate|].
      apply closed_of_In in G2a. pose proof (valid_In _ _ V _ G2a) as H1.
      simpl in H1. rewrite PA in H1.
      apply forallb_forall. intros k Hk.
      pose proof (proj1 (forallb_forall _ _) H1 _ Hk) as H2. simpl in H2.
      destruct (assoc_schema k (props_of s)) as [sc|] eqn:A; [|discriminate].
      apply assoc_schema_In in A. apply (in_map fst) in A. simpl in A.
      exact (proj1 (forallb_forall _ _) G2c _ A).
    + unfold fields_ok. apply forallb_forall. intros [k [req sh']] Hf.
      pose proof (proj1 (forallb_forall _ _) G3 _ Hf) as Gf. simpl in Gf. simpl.
      apply andb_prop in Gf. destruct Gf as [Gr Gs].
      destruct (lookup k l) as [x|] eqn:L.
      * apply orb_prop in Gs. destruct Gs as [Gs|Gs].
        -- apply is_any_true in Gs. subst. reflexivity.
        -- destruct (prop_schema s k) as [s'|] eqn:PS; [|discriminate].
           pose proof (proj1 (Forall_forall _ _) IH _ Hf) as IHf. simpl in IHf.
           eapply IHf; [exact Gs|]. eapply valid_member; eauto.
      * destruct req; [|reflexivity]. simpl in Gr.
        apply mem_str_In in Gr. destruct (required_of_In _ _ Gr) as [ks [R1 R2]].
        pose proof (valid_In _ _ V _ R1) as H1. rewrite kw_ok_required in H1.
        pose proof (proj1 (forallb_forall _ _) H1 _ R2) as H2.
        unfold has_key in H2. rewrite L in H2. discriminate.
Qed.

(** reading a conforming object *)
Lemma conforms_obj_inv c fs v :
  conforms (ShObj c fs) v = true ->
  exists l, v = JObj l /\
    (forall k req sh, In (k, (req, sh)) fs ->
       match lookup k l with Some x => conforms sh x = true | None => req = false end) /\
    match c with Some ks => forall k, In k (keys l) -> In k ks | None => True end.
Proof.
  destruct v; try (simpl; discriminate). intro H. exists l. split; [reflexivity|].
  rewrite conforms_obj in H. apply andb_prop in H. destruct H as [H1 H2]. split.
  - intros k req sh Hin. unfold fields_ok in H2.
    pose proof (proj1 (forallb_forall _ _) H2 _ Hin) as H. simpl in H.
    destruct (lookup k l); [exact H | destruct req; [discriminate | reflexivity]].
  - destruct c as [ks|]; [|exact I]. intros k Hk.
    apply mem_str_In. exact (proj1 (forallb_forall _ _) H1 _ Hk).
Qed.
Lemma conforms_arr_inv it v : conforms (ShArr it) v = true ->
  exists l, v = JArr l /\ forall x, In x l -> conforms it x = true.
Proof.
  destruct v; try (simpl; discriminate). simpl. intro H. exists l. split; [reflexivity|].
  apply forallb_forall. exact H.
Qed.
Lemma conforms_map_inv it v : conforms (ShMap it) v = true ->
  exists l, v = JObj l /\ forall kv, In kv l -> conforms it (snd kv) = true.
Proof.
  destruct v; try (simpl; discriminate). simpl. intro H. exists l. split; [reflexivity|].
  apply forallb_forall. exact H.
Qed.
Lemma conforms_str_inv v : conforms ShStr v = true -> exists x, v = JStr x.
Proof. destruct v; try (simpl; discriminate). eauto. Qed.

(** C13_stageable, part 2: both phases of the Expand model of Study._stage are
    TOTAL on a constructible study inside hygiene H8 whose workspace references
    name nodes processed earlier ([wsrefs_ok]):
      phase 1 ([plan_go], the used-parameter table) never meets an unknown
              parent or workspace ("used before it would be generated");
      phase 2 ([stage_go]) never looks up a missing workspace / combination
              list and never connects an edge from a node that is not in the
              graph yet.
    [stage_total] is the conclusion: [stage] returns [Ok]. *)
From MWF Require Import Base.Str Base.Util Base.UtilLemmas Expand.PyStr Expand.PyStrProofs
     Expand.Expand Expand.ExpandProofs Expand.ExpandGraph Expand.ExpandInv Expand.ExpandC08
     Spec.SpecStage Spec.SpecStage2.
From Coq Require Import List NArith Bool Arith Lia Permutation.
Import ListNotations.

(* ------------------------------------------------------------------------ *)
(** * Small facts *)
Lemma alookup_aset_ex {A} k k' (v : A) m :
  (exists u, alookup k m = Some u) -> exists u, alookup k (aset k' v m) = Some u.
Proof.
  intros [u H]. destruct (str_dec k k') as [->|Hn].
  - rewrite alookup_aset_same; eauto.
  - rewrite alookup_aset_other; eauto.
Qed.

Lemma parents_raw_In t d : In d (s_deps t) -> In (strip_star d) (parents_raw t).
Proof.
  unfold parents_raw. destruct (s_deps t) as [|a l] eqn:E; [intros []|].
  intros H. apply in_map; auto.
Qed.

Lemma g_names_add_In x r g y : In y (g_names (g_add x r g)) <-> y = x \/ In y (g_names g).
Proof.
  rewrite g_names_add. destruct (g_has x g) eqn:E.
  - rewrite g_has_names in E. apply str_mem_In in E. split; auto. intros [->|]; auto.
  - rewrite in_app_iff; simpl. split; [intros [?|[<-|[]]]; auto | intros [->|?]; auto].
Qed.

Lemma fold_opt_seq_total (P : nat -> sstate -> Prop) (f : sstate -> nat -> option sstate) n :
  (forall k st, (k < n)%nat -> P k st -> exists st1, f st k = Some st1 /\ P (S k) st1) ->
  forall st0, P 0%nat st0 ->
  exists st', fold_left (fun ost i => match ost with Some s => f s i | None => None end)
                        (seq 0 n) (Some st0) = Some st' /\ P n st'.
Proof.
  intros Hstep.
  assert (G : forall m a st0, (a + m = n)%nat -> P a st0 ->
            exists st', fold_left (fun ost i => match ost with Some s => f s i | None => None end)
                                  (seq a m) (Some st0) = Some st' /\ P n st').
  { induction m as [|m IH]; simpl; intros a st0 Ha HP.
    - exists st0. replace n with a by lia. auto.
    - destruct (Hstep a st0) as [st1 [E1 P1]]; auto; try lia.
      rewrite E1. apply IH; auto; lia. }
  intros st0 HP. apply (G n 0%nat st0); auto.
Qed.

(* ------------------------------------------------------------------------ *)
(** * Phase 1 *)
Lemma gather_ord_total um ds :
  (forall d, In d ds -> has_star d = false -> exists u, alookup d um = Some u) ->
  exists a, gather_ord um ds = Some a.
Proof.
  induction ds as [|d ds IH]; simpl; intros H; eauto.
  destruct IH as [r Er]; [intros; apply H; auto|].
  destruct (has_star d) eqn:Es; eauto.
  destruct (H d (or_introl eq_refl) Es) as [u Eu]. rewrite Eu, Er. eauto.
Qed.

Lemma gather_ws_total um hub ws :
  (forall w, In w ws -> exists u, alookup w um = Some u) ->
  exists b, gather_ws um hub ws = Some b.
Proof.
  induction ws as [|w ws IH]; simpl; intros H; eauto.
  destruct IH as [r Er]; [intros; apply H; auto|].
  destruct (H w (or_introl eq_refl)) as [u Eu]. rewrite Eu, Er. eauto.
Qed.

Lemma used_step_total ps um t :
  (forall d, In d (s_deps t) -> has_star d = false -> exists u, alookup d um = Some u) ->
  (forall w, In w (step_wsrefs t) -> exists u, alookup w um = Some u) ->
  exists U, used_step ps um t = Some U.
Proof.
  intros H1 H2. unfold used_step.
  destruct (gather_ord_total um (s_deps t) H1) as [a Ea].
  destruct (gather_ws_total um (deps_hub t) (step_wsrefs t) H2) as [b Eb].
  rewrite Ea, Eb. eauto.
Qed.

Lemma plan_go_total sp : forall order pre um,
  NoDup (pre ++ order) ->
  (exists u, alookup SOURCE um = Some u) ->
  (forall x, In x pre -> exists u, alookup x um = Some u) ->
  (forall x, In x order -> x <> SOURCE ->
     exists t, find_step sp x = Some t /\
       forall p, (In p (s_deps t) /\ has_star p = false) \/ In p (step_wsrefs t) ->
                 p = SOURCE \/ In p (upto x (pre ++ order))) ->
  exists um', plan_go sp order um = Some um'.
Proof.
  induction order as [|x order IH]; simpl; intros pre um Hnd Hs Hpre Hord; eauto.
  assert (Eapp : pre ++ x :: order = (pre ++ [x]) ++ order) by (rewrite <- app_assoc; reflexivity).
  seqb x SOURCE.
  - apply (IH (pre ++ [SOURCE])); auto.
    + rewrite <- Eapp; auto.
    + intros y Hy. apply in_app_iff in Hy as [Hy|[<-|[]]]; auto.
    + intros y Hy Hn. rewrite <- Eapp. apply Hord; auto.
  - destruct (Hord x (or_introl eq_refl) H) as [t [Ef Hp]]. rewrite Ef.
    assert (Hxp : ~ In x pre).
    { intros Hi. apply NoDup_remove_2 in Hnd. apply Hnd. apply in_app_iff; auto. }
    rewrite upto_app in Hp by auto.
    assert (Hl : forall p, (In p (s_deps t) /\ has_star p = false) \/ In p (step_wsrefs t) ->
                           exists u, alookup p um = Some u).
    { intros p Hpp. destruct (Hp p Hpp) as [->|Hi]; auto. }
    destruct (used_step_total (sp_params sp) um t) as [U EU].
    { intros d Hd Hst. apply Hl; auto. }
    { intros w Hw. apply Hl; auto. }
    rewrite EU. apply (IH (pre ++ [x])).
    + rewrite <- Eapp; auto.
    + apply alookup_aset_ex; auto.
    + intros y Hy. apply in_app_iff in Hy as [Hy|[<-|[]]].
      * apply alookup_aset_ex; auto.
      * rewrite alookup_aset_same; eauto.
    + intros y Hy Hn. rewrite <- Eapp. apply Hord; auto.
Qed.

Section PlanFacts.
  Variable sp : spec.
  Variable um : usedmap.
  Hypothesis Hc : construct_ok [SOURCE] (sp_steps sp) = true.
  Hypothesis Hplan : plan sp = Some um.
  Notation ps := (sp_params sp).

  Lemma order_nodup : NoDup (toposort sp).
  Proof. destruct (toposort_total sp Hc) as (rest & _ & H & _); exact H. Qed.

  Lemma order_nodes v : In v (toposort sp) <-> In v (study_nodes sp).
  Proof. destruct (toposort_total sp Hc) as (rest & _ & _ & H & _); apply H. Qed.

  Lemma pf_src : alookup SOURCE um = Some [].
  Proof.
    unfold plan in Hplan.
    assert (Hfresh : forall x, In x (toposort sp) -> x <> SOURCE -> alookup x [(SOURCE, @nil str)] = None).
    { intros x _ Hx. simpl. apply str_eqb_neq in Hx. rewrite Hx; auto. }
    destruct (plan_go_inv sp _ _ _ order_nodup Hfresh Hplan) as [A _].
    apply A. reflexivity.
  Qed.

  Lemma pf_used_src : used_in um SOURCE = [].
  Proof. unfold used_in. rewrite pf_src; auto. Qed.

  Lemma pf_step t : In t (sp_steps sp) ->
    exists umx, used_step ps umx t = Some (used_in um (s_name t))
                /\ (forall y u, alookup y umx = Some u -> alookup y um = Some u).
  Proof.
    intros Ht. apply (plan_step sp (toposort sp)); auto.
    - apply order_nodup.
    - apply order_nodes. right. apply in_map; auto.
    - apply topo_names_nodup; auto.
    - apply topo_src_notin; auto.
  Qed.

  Lemma pf_keys y : In y (toposort sp) -> incl (used_in um y) (keys_of ps).
  Proof.
    intros Hy. apply order_nodes in Hy. destruct Hy as [<-|Hy].
    - rewrite pf_used_src. intros ? [].
    - apply In_step_names in Hy as [t [Ht <-]].
      apply (used_keys sp um t). apply pf_step; auto.
  Qed.

  Lemma pf_mono t d : In t (sp_steps sp) -> In d (deps_ord t) ->
    incl (used_in um d) (used_in um (s_name t)).
  Proof.
    intros Ht Hd k Hk. destruct (pf_step t Ht) as (umx & U & M).
    pose proof (used_step_spec _ _ _ _ U) as (S1 & _ & S3).
    apply deps_ord_In in Hd as [Hd Hs].
    destruct (S1 d Hd Hs) as [u Hu]. pose proof (M _ _ Hu) as Hu'.
    assert (Hdo : In d (toposort sp)).
    { apply order_nodes. apply (topo_parent_node sp Hc t); auto.
      rewrite <- (strip_star_nostar d Hs). apply parents_raw_In; auto. }
    apply S3. split.
    - apply (pf_keys d Hdo); auto.
    - right; left. exists d, u. repeat split; auto.
      unfold used_in in Hk. rewrite Hu' in Hk; auto.
  Qed.

  Lemma pf_ws t w : In t (sp_steps sp) -> In w (step_wsrefs t) -> In w (toposort sp) ->
    (exists U, alookup w um = Some U)
    /\ (~ In w (deps_hub t) -> incl (used_in um w) (used_in um (s_name t))).
  Proof.
    intros Ht Hw Hwo. destruct (pf_step t Ht) as (umx & U & M).
    pose proof (used_step_spec _ _ _ _ U) as (_ & S2 & S3).
    destruct (S2 w Hw) as [u Hu]. pose proof (M _ _ Hu) as Hu'.
    split; [eauto|]. intros Hnh k Hk. apply S3. split.
    - apply (pf_keys w Hwo); auto.
    - right; right. exists w, u. repeat split; auto.
      unfold used_in in Hk. rewrite Hu' in Hk; auto.
  Qed.
End PlanFacts.

Theorem plan_total sp :
  construct_ok [SOURCE] (sp_steps sp) = true -> wsrefs_ok sp = true ->
  exists um, plan sp = Some um.
Proof.
  intros Hc Hw. unfold plan.
  destruct (toposort_total sp Hc) as (rest & Eo & Hnd & Hin & _).
  apply (plan_go_total sp (toposort sp) []); simpl; auto.
  - exists []. reflexivity.
  - intros x [].
  - intros x Hx Hn. apply Hin in Hx. destruct Hx as [E|Hx]; [congruence|].
    apply In_step_names in Hx as [t [Ht <-]].
    exists t. split; [apply find_step_In; auto; apply topo_names_nodup; auto|].
    intros p [[Hp Hs]|Hp].
    + right. assert (Hto : In (s_name t) (toposort sp)) by (apply Hin; right; apply in_map; auto).
      apply in_split in Hto as [l1 [l2 E]].
      assert (Hx1 : ~ In (s_name t) l1).
      { rewrite E in Hnd. apply NoDup_remove_2 in Hnd. intros Hi; apply Hnd, in_app_iff; auto. }
      rewrite E, upto_app by auto.
      apply (toposort_before sp Hc t p l1 l2); auto.
      rewrite <- (strip_star_nostar p Hs). apply parents_raw_In; auto.
    + right. unfold wsrefs_ok in Hw. rewrite forallb_forall in Hw. specialize (Hw t Ht).
      rewrite forallb_forall in Hw. apply str_mem_In. apply Hw; auto.
Qed.

(* ------------------------------------------------------------------------ *)
(** * Phase 2 *)
Section Total.
  Variable ap : list param -> nat -> str -> str.
  Variable san : str -> str.
  Variable pi : an_oracle.
  Variable sp : spec.
  Variable um : usedmap.
  Notation ps := (sp_params sp).

  Hypothesis Hpi : forall l x, In x (pi l) <-> In x l.
  Hypothesis Hnostep : forall t i, In t (sp_steps sp) -> used_in um (s_name t) <> [] ->
      (i < nrows ps)%nat -> ~ In (iname ps um (s_name t) i) (SOURCE :: step_names sp).
  Hypothesis Hum_src : used_in um SOURCE = [].
  Hypothesis Hself : forall t p, In t (sp_steps sp) -> In p (parents_raw t) -> p <> s_name t.
  Hypothesis Hsrc : ~ In SOURCE (step_names sp).

  Lemma iname_source i : iname ps um SOURCE i = SOURCE.
  Proof. unfold iname. rewrite Hum_src. reflexivity. Qed.

  (** what is present after the steps [D] have been expanded *)
  Record KInv (D : list str) (st : sstate) : Prop := mkK {
    k_src_g : In SOURCE (g_names (st_g st));
    k_src_ws : exists w, alookup SOURCE (st_ws st) = Some w;
    k_src_c : exists c, alookup SOURCE (st_combos st) = Some c;
    k_inst : forall x i, In x D -> valid_row sp um x i ->
               In (iname ps um x i) (g_names (st_g st))
               /\ exists w, alookup (iname ps um x i) (st_ws st) = Some w;
    k_combo : forall x, In x D -> exists c, alookup x (st_combos st) = Some c;
    k_cg : forall h c y, alookup h (st_combos st) = Some c -> In y c -> In y (g_names (st_g st));
    k_keys : forall x, In x (akeys (st_combos st)) -> In x (SOURCE :: step_names sp) }.

  (** what a step needs of the steps expanded before it *)
  Definition ready (D : list str) (t : step) : Prop :=
    (forall p, In p (parents_raw t) -> p = SOURCE \/ In p D)
    /\ (forall d, In d (deps_ord t) -> incl (used_in um d) (used_in um (s_name t)))
    /\ (forall w, In w (step_wsrefs t) -> ~ In w (deps_hub t) ->
          (w = SOURCE \/ In w D) /\ (exists U, alookup w um = Some U)
          /\ incl (used_in um w) (used_in um (s_name t))).

  Lemma ws_pass_total wsm t i ms :
    (forall m, In m ms -> exists w, ws_value san sp um wsm t i m = Some w) ->
    forall cr, exists cr', ws_pass san sp um wsm t i ms cr = Some cr'.
  Proof.
    induction ms as [|m ms IH]; simpl; intros H cr; eauto.
    destruct (H m (or_introl eq_refl)) as [w Ew]. rewrite Ew. apply IH. intros; apply H; auto.
  Qed.

  Lemma hub_items_total combos hs :
    (forall h, In h hs -> exists c, alookup h combos = Some c) ->
    exists out, hub_items pi combos hs = Some out.
  Proof.
    induction hs as [|h hs IH]; intros H; [exists []; reflexivity|].
    destruct IH as [r Er]; [intros; apply H; right; auto|].
    destruct (H h (or_introl eq_refl)) as [c Ec]. exists (pi c ++ r).
    unfold hub_items in *. simpl. rewrite Ec, Er. reflexivity.
  Qed.

  Lemma connect_all_total pl c : forall g,
    (forall p, In p pl -> p = c \/ In p (g_names g)) ->
    exists g', connect_all pl c g = Some g'.
  Proof.
    induction pl as [|p pl IH]; intros g H.
    - rewrite connect_all_nil; eauto.
    - rewrite connect_all_cons.
      assert (E : exists g1, g_connect p c g = Some g1).
      { unfold g_connect. seqb p c; eauto.
        destruct (H p (or_introl eq_refl)) as [?|Hi]; [contradiction|].
        rewrite g_has_names. rewrite (proj2 (str_mem_In _ _) Hi). eauto. }
      destruct E as [g1 E1]. rewrite E1. apply IH.
      intros q Hq. rewrite (g_connect_names _ _ _ _ E1). apply H; right; auto.
  Qed.

  (** one instance *)
  Lemma add_instance_total D t x comps f params i g combos ws :
    In t (sp_steps sp) -> ready D t -> valid_row sp um (s_name t) i ->
    In SOURCE (g_names g) ->
    (exists w, alookup SOURCE ws = Some w) ->
    (forall y j, In y D -> valid_row sp um y j ->
       In (iname ps um y j) (g_names g) /\ exists w, alookup (iname ps um y j) ws = Some w) ->
    (forall h, In h (deps_hub t) ->
       exists c, alookup h combos = Some c /\ forall y, In y c -> In y (g_names g)) ->
    exists g', add_instance san pi sp um t x comps f params i (mkSt g combos ws) = Some (mkSt g' combos ws)
               /\ (forall y, In y (g_names g') <-> y = x \/ In y (g_names g)).
  Proof.
    intros Ht (R1 & R2 & R3) Hv Hsg Hsw Hinst Hhub.
    (* the rows of a step this one refers to are rows of the table *)
    assert (Hrow : forall y, incl (used_in um y) (used_in um (s_name t)) -> valid_row sp um y i).
    { intros y Hi. destruct Hv as [E0|Hlt]; [|right; auto].
      left. rewrite E0 in Hi. destruct (used_in um y) as [|k l]; auto. exfalso; apply (Hi k); simpl; auto. }
    (* workspaces *)
    assert (W : exists cr', ws_pass san sp um ws t i (step_wsrefs t) (f (s_cmd t), f (s_restart t)) = Some cr').
    { apply ws_pass_total. intros m Hm. unfold ws_value.
      destruct (str_mem m (deps_hub t)) eqn:Eh; eauto. apply str_mem_nIn in Eh.
      destruct (R3 m Hm Eh) as (Hmd & [U EU] & Hinc). rewrite EU.
      assert (Eused : used_in um m = U) by (unfold used_in; rewrite EU; auto).
      destruct Hmd as [->|Hmd].
      - rewrite Hum_src in Eused. subst U. auto.
      - destruct (Hinst m i Hmd (Hrow m Hinc)) as [_ Hw]. unfold iname in Hw. rewrite Eused in Hw.
        destruct U; auto. }
    destruct W as [[cmd rcmd] W].
    (* parents *)
    assert (P : exists pl, parent_list pi sp um combos t i = Some pl /\ forall p, In p pl -> In p (g_names g)).
    { unfold parent_list.
      assert (G : exists hs, hub_items pi combos (pi (deps_hub t)) = Some hs /\ forall y, In y hs -> In y (g_names g)).
      { destruct (hub_items_total combos (pi (deps_hub t))) as [hs Eh].
        - intros h Hh. apply (proj1 (Hpi _ _)) in Hh. destruct (Hhub h Hh) as [c [Ec _]]; eauto.
        - exists hs; split; auto. intros y Hy.
          destruct (hub_items_spec pi Hpi _ _ _ Eh) as [_ I2]. apply I2 in Hy as (h & c & Hh & Hl & Hy).
          apply (proj1 (Hpi _ _)) in Hh. destruct (Hhub h Hh) as [c' [Ec' Hc']]. rewrite Hl in Ec'; inversion Ec'; subst; auto. }
      destruct G as (hs & Eh & Hh).
      assert (Hod : forall p, In p (map (fun p0 => iname ps um p0 i) (pi (deps_ord t)) ++ hs) -> In p (g_names g)).
      { intros p Hp. apply in_app_iff in Hp as [Hp|Hp]; auto.
        apply in_map_iff in Hp as [d [<- Hd]]. apply (proj1 (Hpi _ _)) in Hd.
        destruct (R1 d (deps_ord_parents t d Hd)) as [->|HdD].
        - rewrite iname_source; auto.
        - apply Hinst; auto. }
      destruct (deps_ord t) as [|o od] eqn:Eo; destruct (deps_hub t) as [|h hd] eqn:Ehb.
      - exists [SOURCE]; split; auto. intros p [<-|[]]; auto.
      - rewrite Eh. eauto.
      - rewrite Eh. eauto.
      - rewrite Eh. eauto. }
    destruct P as (pl & Epl & Hpl).
    unfold add_instance. cbn [st_g st_combos st_ws]. rewrite W. cbv zeta. rewrite Epl.
    match goal with |- context [connect_all pl x ?G] =>
      destruct (connect_all_total pl x G) as [g' Eg'] end.
    { intros p Hp. right. apply g_names_add_In; right; auto. }
    rewrite Eg'. exists g'. split; auto.
    intros y. rewrite (connect_all_names _ _ _ _ Eg'). apply g_names_add_In.
  Qed.

  (** one step *)
  Lemma stage_step_total D t st :
    KInv D st -> In t (sp_steps sp) -> ready D t ->
    exists st', stage_step ap san pi sp um t st = Some st' /\ KInv (D ++ [s_name t]) st'.
  Proof.
    destruct st as [g combos ws]. intros [K1 K2 K3 K4 K5 K6 K7] Ht R. cbn [st_g st_combos st_ws] in *.
    pose proof R as (R1 & _ & _).
    assert (Hxs : In (s_name t) (step_names sp)) by (apply in_map; auto).
    assert (Hhubs : forall combos', (forall y, y <> s_name t -> alookup y combos' = alookup y combos) ->
              forall h, In h (deps_hub t) ->
              exists c, alookup h combos' = Some c /\ forall y, In y c -> In y (g_names g)).
    { intros combos' Hoth h Hh. pose proof (deps_hub_parents t h Hh) as Hp.
      rewrite Hoth by (apply Hself; auto).
      destruct (R1 h Hp) as [->|HhD]; [destruct K3 as [c Ec] | destruct (K5 h HhD) as [c Ec]];
        exists c; split; auto; intros y Hy; eapply K6; eauto. }
    unfold stage_step. cbn [st_g st_combos st_ws]. set (x := s_name t) in *.
    destruct (used_in um x) as [|u0 U0] eqn:EU.
    - (* no parameters *)
      destruct (add_instance_total D t x [x] (fun y => y) [] 0%nat g
                  (aset x [x] (aset x [] combos)) (aset x (msp san sp [x]) ws))
        as [g' [Eg Hg]]; auto.
      { left; auto. }
      { apply alookup_aset_ex; auto. }
      { intros y j Hy Hj. destruct (K4 y j Hy Hj) as [A B]. split; auto. apply alookup_aset_ex; auto. }
      { apply Hhubs. intros y Hy. rewrite !alookup_aset_other; auto. }
      rewrite Eg. eexists; split; [reflexivity|].
      constructor; cbn [st_g st_combos st_ws].
      + apply Hg; auto.
      + apply alookup_aset_ex; auto.
      + do 2 apply alookup_aset_ex; auto.
      + intros y j Hy Hj. apply in_app_iff in Hy as [Hy|[<-|[]]].
        * destruct (K4 y j Hy Hj) as [A B]. split; [apply Hg; auto | apply alookup_aset_ex; auto].
        * assert (En : iname ps um x j = x) by (unfold iname; rewrite EU; auto).
          rewrite En. split; [apply Hg; auto | rewrite alookup_aset_same; eauto].
      + intros y Hy. apply in_app_iff in Hy as [Hy|[<-|[]]].
        * do 2 apply alookup_aset_ex; auto.
        * rewrite alookup_aset_same; eauto.
      + intros h c y Hl Hy. destruct (str_dec h x) as [->|Hn].
        * rewrite alookup_aset_same in Hl. inversion Hl; subst. destruct Hy as [<-|[]]. apply Hg; auto.
        * rewrite !alookup_aset_other in Hl by auto. apply Hg; right. eapply K6; eauto.
      + intros y Hy. apply akeys_aset in Hy as [->|Hy]; [right; auto|].
        apply akeys_aset in Hy as [->|Hy]; [right; auto|]. auto.
    - (* one instance per row *)
      rewrite <- EU.
      set (P := fun (k : nat) (s1 : sstate) =>
                  (forall y, In y (g_names g) -> In y (g_names (st_g s1)))
                  /\ (forall y, (exists w, alookup y ws = Some w) -> exists w, alookup y (st_ws s1) = Some w)
                  /\ (forall y, y <> x -> alookup y (st_combos s1) = alookup y combos)
                  /\ (exists c, alookup x (st_combos s1) = Some c /\ forall y, In y c -> In y (g_names (st_g s1)))
                  /\ (forall i, (i < k)%nat -> In (iname ps um x i) (g_names (st_g s1))
                                              /\ exists w, alookup (iname ps um x i) (st_ws s1) = Some w)
                  /\ (forall y, In y (akeys (st_combos s1)) -> y = x \/ In y (akeys combos))).
      destruct (fold_opt_seq_total P (stage_row ap san pi sp um t (used_in um x)) (nrows ps))
        with (st0 := mkSt g (aset x [] combos) ws) as [st' [Ef HP]].
      + (* one row *)
        intros k [g1 c1 w1] Hk (I1 & I2 & I3 & (c & I4 & I4') & I5 & I6). cbn [st_g st_combos st_ws] in *.
        unfold stage_row. cbn [st_g st_combos st_ws]. fold x.
        assert (En : x ++ c_us :: combo_string ps (used_in um x) k = iname ps um x k).
        { unfold iname. rewrite EU; auto. }
        rewrite En.
        assert (Hkey : str_mem (iname ps um x k) (akeys c1) = false).
        { apply str_mem_nIn. intros Hi.
          apply (Hnostep t k Ht); [fold x; rewrite EU; discriminate | auto |]. fold x.
          destruct (I6 _ Hi) as [E|Hi']; [rewrite E; right; auto | apply K7; auto]. }
        rewrite Hkey. unfold add_combo. rewrite I4.
        destruct (add_instance_total D t (iname ps um x k) [x; combo_string ps (used_in um x) k]
                    (ap ps k) (param_values ps (used_in um x) k) k g1
                    (aset x (sadd_s (iname ps um x k) c) c1)
                    (aset (iname ps um x k) (msp san sp [x; combo_string ps (used_in um x) k]) w1))
          as [g' [Eg Hg]]; auto.
        { right; auto. }
        { apply alookup_aset_ex; auto. }
        { intros y j Hy Hj. destruct (K4 y j Hy Hj) as [A B]. split; auto. apply alookup_aset_ex; auto. }
        { intros h Hh. destruct (Hhubs (aset x (sadd_s (iname ps um x k) c) c1)) with (h := h) as [c' [Ec' Hc']]; auto.
          - intros y Hy. rewrite alookup_aset_other; auto.
          - exists c'; split; auto. }
        rewrite Eg. eexists; split; [reflexivity|].
        unfold P. cbn [st_g st_combos st_ws]. repeat split.
        * intros y Hy. apply Hg; right; auto.
        * intros y Hy. apply alookup_aset_ex; auto.
        * intros y Hy. rewrite alookup_aset_other; auto.
        * exists (sadd_s (iname ps um x k) c). rewrite alookup_aset_same. split; auto.
          intros y Hy. apply In_sadd_s in Hy as [->|Hy]; apply Hg; auto.
        * destruct (Nat.eq_dec i k) as [->|Hne]; [apply Hg; auto|].
          apply Hg; right. apply I5; lia.
        * destruct (Nat.eq_dec i k) as [->|Hne]; [rewrite alookup_aset_same; eauto|].
          apply alookup_aset_ex. apply I5; lia.
        * intros y Hy. apply akeys_aset in Hy as [->|Hy]; auto.
      + (* before the first row *)
        unfold P. cbn [st_g st_combos st_ws]. repeat split; auto.
        * intros y Hy. rewrite alookup_aset_other; auto.
        * exists []. rewrite alookup_aset_same. split; auto. intros y [].
        * lia.
        * lia.
        * intros y Hy. apply akeys_aset in Hy as [->|Hy]; auto.
      + exists st'. split; auto.
        destruct st' as [g' c' w']. destruct HP as (I1 & I2 & I3 & (c & I4 & I4') & I5 & I6).
        cbn [st_g st_combos st_ws] in *.
        assert (Hsx : SOURCE <> x) by (intros E; apply Hsrc; rewrite E; auto).
        constructor; cbn [st_g st_combos st_ws]; auto.
        * rewrite I3; auto.
        * intros y j Hy Hj. apply in_app_iff in Hy as [Hy|[<-|[]]].
          -- destruct (K4 y j Hy Hj) as [A B]. split; auto.
          -- apply I5. destruct Hj as [E0|Hlt]; auto. rewrite EU in E0; discriminate.
        * intros y Hy. apply in_app_iff in Hy as [Hy|[<-|[]]]; eauto.
          destruct (str_dec y x) as [->|Hn]; eauto. rewrite I3; auto.
        * intros h c0 y Hl Hy. destruct (str_dec h x) as [->|Hn].
          -- rewrite I4 in Hl; inversion Hl; subst; auto.
          -- rewrite I3 in Hl by auto. apply I1. eapply K6; eauto.
        * intros y Hy. destruct (I6 y Hy) as [->|Hy']; [right; auto | auto].
  Qed.

  (** all steps, in an order in which every step is [ready] *)
  Lemma stage_go_total : forall order D st,
    KInv D st ->
    (forall l1 x l2, order = l1 ++ x :: l2 ->
       x <> SOURCE /\ exists t, find_step sp x = Some t /\ ready (D ++ l1) t) ->
    exists st', stage_go ap san pi sp um order st = Some st'.
  Proof.
    induction order as [|x order IH]; simpl; intros D st K H; eauto.
    destruct (H [] x order eq_refl) as [Hx [t [Ef Hr]]]. rewrite app_nil_r in Hr.
    apply str_eqb_neq in Hx. rewrite Hx, Ef.
    pose proof (find_step_Some _ _ _ Ef) as [Ht En].
    destruct (stage_step_total D t st K Ht Hr) as [st1 [E1 K1]]. rewrite E1.
    apply (IH (D ++ [s_name t]) st1 K1).
    intros l1 y l2 E. destruct (H (x :: l1) y l2) as [Hy [ty [Efy Hry]]]; [rewrite E; reflexivity|].
    split; auto. exists ty; split; auto. rewrite En, <- app_assoc. exact Hry.
  Qed.
End Total.

(* ------------------------------------------------------------------------ *)
(** * [stage] returns a graph *)
Theorem stage_total ap san pi sp :
  perm_oracle pi ->
  construct_ok [SOURCE] (sp_steps sp) = true -> hygb sp = true -> wsrefs_ok sp = true ->
  exists um st, stage ap san pi sp = Ok (um, st).
Proof.
  intros Hperm Hc Hh Hw.
  destruct (plan_total sp Hc Hw) as [um Hplan].
  pose proof (hygb_hygiene sp um Hplan Hh) as Hyg.
  destruct (toposort_total sp Hc) as (rest & Eo & Hnd & Hin & _).
  unfold stage. rewrite Hc. cbn [negb]. rewrite (toposort_topo_ok sp Hc). cbn [negb].
  unfold plan in Hplan. rewrite Hplan. fold (plan sp) in Hplan.
  exists um.
  assert (Hsrc : ~ In SOURCE (step_names sp)) by (apply topo_src_notin; auto).
  assert (Hself : forall t p, In t (sp_steps sp) -> In p (parents_raw t) -> p <> s_name t).
  { intros t p Ht Hp. destruct (topo_split sp Hc t Ht) as (l1 & l2 & _ & _ & _ & H). apply H; auto. }
  rewrite Eo in *. rewrite stage_go_source.
  match goal with |- context [stage_go ap san pi sp um rest ?s0] =>
    destruct (stage_go_total ap san pi sp um (in_oracle_of_perm pi Hperm)
                (hy_nostep _ _ Hyg) (pf_used_src sp um Hc Hplan) Hself Hsrc rest [] s0) as [st Est] end.
  - constructor; cbn [st_g st_combos st_ws init_state g_has existsb app g_names map nd_name].
    + left; auto.
    + exists (sp_root sp). reflexivity.
    + exists []. reflexivity.
    + intros x0 i0 [].
    + intros x0 [].
    + intros h0 c0 y0 Hl. cbn [alookup] in Hl. destruct (str_eqb h0 SOURCE); inversion Hl; subst. intros [].
    + intros x0 [<-|[]]; left; auto.
  - intros l1 x l2 E. inversion Hnd as [|? ? Hns Hnr]; subst.
    assert (Hxr : In x (l1 ++ x :: l2)) by (apply in_app_iff; right; left; auto).
    assert (Hxs : x <> SOURCE) by (intros ->; auto).
    split; auto.
    assert (Hxn : In x (step_names sp)).
    { destruct (proj1 (Hin x) (or_intror Hxr)) as [?|?]; [congruence | auto]. }
    apply In_step_names in Hxn as [t [Ht <-]].
    exists t. split; [apply find_step_In; auto; apply topo_names_nodup; auto|].
    assert (Hx1 : ~ In (s_name t) (SOURCE :: l1)).
    { intros [?|Hi]; [congruence|]. apply NoDup_remove_2 in Hnr. apply Hnr, in_app_iff; auto. }
    assert (Eord : toposort sp = (SOURCE :: l1) ++ s_name t :: l2) by (rewrite Eo; reflexivity).
    repeat split.
    + intros p Hp. pose proof (toposort_before sp Hc t p _ _ Ht Hp Eord) as [<-|Hi]; auto.
    + intros d Hd. apply (pf_mono sp um Hc Hplan); auto.
    + unfold wsrefs_ok in Hw. rewrite forallb_forall in Hw. specialize (Hw t Ht).
      rewrite forallb_forall in Hw. specialize (Hw w H). apply str_mem_In in Hw.
      rewrite Eord, upto_app in Hw by auto. destruct Hw as [<-|Hi]; auto.
    + assert (Hwo : In w (toposort sp)).
      { unfold wsrefs_ok in Hw. rewrite forallb_forall in Hw. specialize (Hw t Ht).
        rewrite forallb_forall in Hw. specialize (Hw w H). apply str_mem_In in Hw.
        eapply upto_incl; eauto. }
      apply (pf_ws sp um Hc Hplan t w Ht H Hwo).
    + assert (Hwo : In w (toposort sp)).
      { unfold wsrefs_ok in Hw. rewrite forallb_forall in Hw. specialize (Hw t Ht).
        rewrite forallb_forall in Hw. specialize (Hw w H). apply str_mem_In in Hw.
        eapply upto_incl; eauto. }
      apply (pf_ws sp um Hc Hplan t w Ht H Hwo); auto.
  - rewrite Est. eauto.
Qed.

(** simple sufficient conditions for [wsrefs_ok] *)
Lemma no_wsrefs_ok sp : no_wsrefs sp = true -> wsrefs_ok sp = true.
Proof.
  unfold no_wsrefs, wsrefs_ok. rewrite !forallb_forall. intros H t Ht. specialize (H t Ht).
  destruct (step_wsrefs t); [reflexivity | discriminate].
Qed.

Lemma wsrefs_parents_ok sp :
  construct_ok [SOURCE] (sp_steps sp) = true -> wsrefs_parents sp = true -> wsrefs_ok sp = true.
Proof.
  intros Hc. unfold wsrefs_parents, wsrefs_ok. rewrite !forallb_forall. intros H t Ht. specialize (H t Ht).
  rewrite forallb_forall in *. intros w Hw. specialize (H w Hw). apply str_mem_In in H. apply str_mem_In.
  destruct (toposort_total sp Hc) as (rest & _ & Hnd & Hin & _).
  assert (Hto : In (s_name t) (toposort sp)) by (apply Hin; right; apply in_map; auto).
  apply in_split in Hto as [l1 [l2 E]].
  assert (Hx1 : ~ In (s_name t) l1).
  { rewrite E in Hnd. apply NoDup_remove_2 in Hnd. intros Hi; apply Hnd, in_app_iff; auto. }
  rewrite E, upto_app by auto. apply (toposort_before sp Hc t w l1 l2); auto.
Qed.

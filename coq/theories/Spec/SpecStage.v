(** C13_stageable -- definitions.  The bridge between the two models:

      Spec/Verify.v   the specification front end (documents [jv] -> Accept / Reject)
      Expand/Expand.v the expansion [stage] (model of Study._stage, property C08)

    [to_expand_spec render envsub root rlimit d] is the Expand-side
    specification the real code hands to Study._stage for the loaded document
    [d]: what YAMLSpecification.get_parameters / get_study_steps read out of it
    (parameters: key, optional name, values, label; steps: name, description,
    run.cmd / depends / restart and the remaining string-valued run entries in
    the order of StudyStep.run's dictionary), after Study.add_step applied the
    environment.  Two functions are ABSTRACT (the theorem is for every choice):
      [render]  Python's [str(v)] of a parameter value (Combination's tables
                hold [str] of ints, floats, strings ...),
      [envsub]  StudyEnvironment.apply_environment on a text (description, cmd,
                restart, the other run strings).  Step names and [depends]
                entries are taken as written: the Verify model is faithful only
                for names / dependencies without "$" (its hypothesis [tokfree]),
                on which the environment is the identity.
    [render_simple] is a concrete [render] for the non-vacuity examples.

    [wsrefs_ok sp]: every "$(x.workspace)" reference of a step names a node the
    staging loop has processed before it reaches the step, i.e. one listed
    earlier in the topological order (exactly the test study.py makes: "Workspace
    for 'x' is being used before it would be generated").  [no_wsrefs] (no
    reference at all) and [wsrefs_parents] (references to direct dependencies
    only) are simple sufficient conditions.
    Stdlib only; definitions only. *)
From Coq Require Import List ZArith NArith Bool Arith.
From MWF Require Import Base.Str Spec.Json Spec.Verify.
From MWF Require Import Expand.PyStr Expand.Expand.
Import ListNotations.

(* ------------------------------------------------------------------------ *)
(** * Workspace references *)
(** the elements listed before the first occurrence of [x] *)
Fixpoint upto (x : str) (l : list str) : list str :=
  match l with
  | [] => []
  | y :: l' => if str_eqb x y then [] else y :: upto x l'
  end.

Definition wsrefs_ok (sp : Expand.spec) : bool :=
  forallb (fun t => forallb (fun w => str_mem w (upto (s_name t) (toposort sp))) (step_wsrefs t))
          (sp_steps sp).

Definition no_wsrefs (sp : Expand.spec) : bool :=
  forallb (fun t => match step_wsrefs t with [] => true | _ => false end) (sp_steps sp).

Definition wsrefs_parents (sp : Expand.spec) : bool :=
  forallb (fun t => forallb (fun w => str_mem w (parents_raw t)) (step_wsrefs t)) (sp_steps sp).

(* ------------------------------------------------------------------------ *)
(** * From a loaded document to the specification [stage] works on *)
Definition default_run_keys : list str :=
  [s "cmd"; s "depends"; s "pre"; s "post"; s "restart"; s "nodes"; s "procs"; s "gpus";
   s "cores per task"; s "walltime"; s "reservation"].
Definition special_keys : list str := [s "cmd"; s "restart"; s "depends"].

(** StudyStep().run updated with the document's run mapping (dict order) *)
Definition run_dict (r : jv) : list (str * jv) :=
  fold_left (fun m kv => aset (fst kv) (snd kv) m) (obj_items r)
            (map (fun k => (k, JStr [])) default_run_keys).

Section Translate.
  Variable render : jv -> str.
  Variable envsub : str -> str.

  Definition to_param (kv : str * jv) : param :=
    let v := snd kv in
    mkP (fst kv) (str_of (field (s "name") v))
        (map render (arr_items (field (s "values") v)))
        (match field (s "label") v with
         | JArr ll => LL (map render ll)
         | x => LT (str_of x)
         end).

  Definition rest_of (r : jv) : list (str * str) :=
    flat_map (fun kv =>
                if str_mem (fst kv) special_keys then []
                else match snd kv with
                     | JStr x => match envsub x with [] => [] | y => [(fst kv, y)] end
                     | _ => []
                     end) (run_dict r).

  Definition to_step (st : jv) : step :=
    let r := field (s "run") st in
    mkS (str_of (field (s "name") st))
        (envsub (str_of (field (s "description") st)))
        (step_depends st)
        (envsub (str_of (field (s "cmd") r)))
        (envsub (str_of (field (s "restart") r)))
        (rest_of r).

  Definition to_expand_spec (root : str) (rlimit : nat) (d : jv) : Expand.spec :=
    mkSpec root rlimit
           (map to_param (obj_items (field (s "global.parameters") d)))
           (map to_step (doc_steps d)).
End Translate.

(* ------------------------------------------------------------------------ *)
(** * A concrete [render] for the examples: [str()] of strings, ints, bools and
    None; floats are written mantissa "e-" exponent (NOT Python's repr: the
    examples use no floats, the theorems quantify over every [render]) *)
Fixpoint digits_go (fuel : nat) (n : N) (acc : str) : str :=
  match fuel with
  | O => acc
  | S f => let d := (48 + N.modulo n 10)%N in
           let q := N.div n 10 in
           if N.eqb q 0 then d :: acc else digits_go f q (d :: acc)
  end.
Definition dec_N (n : N) : str := digits_go (S (N.to_nat (N.log2 n))) n [].
Definition dec_Z (z : Z) : str :=
  match z with
  | Z0 => s "0"
  | Zpos p => dec_N (Npos p)
  | Zneg p => 45%N :: dec_N (Npos p)
  end.
Definition render_simple (v : jv) : str :=
  match v with
  | JStr x => x
  | JInt z => dec_Z z
  | JBool true => s "True"
  | JBool false => s "False"
  | JNull => s "None"
  | JFlt m e => dec_Z m ++ s "e-" ++ dec_N (N.of_nat e)
  | _ => []
  end.

(** a document with a parameterised step, a dependent step that reads its
    parent's workspace, and a funnel step *)
Definition ex_stage_doc : jv :=
  JObj [(s "description", JObj [(s "name", JStr (s "study")); (s "description", JStr (s "d"))]);
        (s "env", JObj [(s "variables", JObj [(s "OUTPUT_PATH", JStr (s "./out"))])]);
        (s "study",
         JArr [JObj [(s "name", JStr (s "make")); (s "description", JStr (s "build"));
                     (s "run", JObj [(s "cmd", JStr (s "make SIZE=$(SIZE)"))])];
               JObj [(s "name", JStr (s "run")); (s "description", JStr (s "run it"));
                     (s "run", JObj [(s "cmd", JStr (s "$(make.workspace)/app --iter $(ITER)"));
                                     (s "depends", JArr [JStr (s "make")]);
                                     (s "restart", JStr (s "$(make.workspace)/app --restart"));
                                     (s "nodes", JInt 2); (s "walltime", JStr (s "00:10:00"))])];
               JObj [(s "name", JStr (s "post")); (s "description", JStr (s "collect"));
                     (s "run", JObj [(s "cmd", JStr (s "ls $(run.workspace)"));
                                     (s "depends", JArr [JStr (s "run_*")])])]]);
        (s "global.parameters",
         JObj [(s "SIZE", JObj [(s "values", JArr [JInt 10; JInt 10; JInt 20]); (s "label", JStr (s "SIZE.%%"))]);
               (s "ITER", JObj [(s "values", JArr [JInt 1; JInt 2; JInt 3]); (s "label", JStr (s "ITER.%%"))])])].

Definition ex_stage_spec : Expand.spec :=
  to_expand_spec render_simple (fun x => x) (s "/R") 1 ex_stage_doc.

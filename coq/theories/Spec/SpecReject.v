(** Proofs for C13, part 3: the rejection theorems, class by class, and the
    staging precondition.

    Every class is a consequence of [malformed_rejected] (SpecAccept.v):
    a loaded document that breaks a documented rule is rejected with a
    diagnostic -- never accepted, never an internal error.  The schema classes
    are stated for ANY position the regenerated schema can be navigated to
    ([schema_at DOC p]); the semantic classes for ANY document that has the
    defect. *)
From Coq Require Import List ZArith NArith Bool Arith Lia.
From MWF Require Import Base.Str Spec.Json Spec.Schema Gen.SpecData Spec.Verify
  Spec.SchemaProofs Spec.SpecProofs Spec.SpecAccept Spec.SpecExamples.
Import ListNotations.

Definition rejected (d : jv) : Prop := exists dg, build d = Reject (Diag dg).

(** known finding K5: a written document that repeats a key is accepted *)
Lemma K5_refuted : exists doc : jv,
  sig_K5 doc (verify_and_build doc) = true /\ C13_ok doc (verify_and_build doc) = false.
Proof. exists k5_witness. vm_compute. split; reflexivity. Qed.

(* ------------------------------------------------- editing along a path *)
Lemma nth_error_set_nth i x l : (i < List.length l)%nat -> nth_error (set_nth i x l) i = Some x.
Proof.
  revert i. induction l as [|y r IH]; intros i H; simpl in H; [lia|].
  destruct i; simpl; [reflexivity|]. apply IH. lia.
Qed.

Lemma value_at_set_at : forall p d x, value_at d p <> None -> value_at (set_at d p x) p = Some x.
Proof.
  induction p as [|st p IH]; intros d x H; simpl in *; [reflexivity|].
  destruct st as [k|i].
  - destruct d; try congruence. destruct (lookup k l) as [c|] eqn:L; [|congruence].
    rewrite (lookup_set_key k _ l (lookup_has_key _ _ _ L)). apply IH. exact H.
  - destruct d; try congruence. destruct (nth_error l i) as [c|] eqn:L; [|congruence].
    rewrite nth_error_set_nth; [apply IH; exact H|].
    apply nth_error_Some. congruence.
Qed.

(** the generic schema class: whatever is put at a schema-navigable position,
    if the sub-schema found there does not admit it, the document is rejected *)
Theorem reject_invalid_at d p sc x :
  value_at d p <> None -> schema_at DOC p = Some sc -> valid sc x = false -> rejected (set_at d p x).
Proof.
  intros Hv Hs Hx. apply malformed_rejected. unfold malformed.
  destruct (valid DOC (set_at d p x)) eqn:V; [|reflexivity].
  pose proof (valid_at _ _ _ _ _ V Hs (value_at_set_at _ _ _ Hv)) as H. congruence.
Qed.

Theorem reject_delete_required d p sc l k :
  value_at d p = Some (JObj l) -> schema_at DOC p = Some sc -> In k (required_of sc) ->
  rejected (set_at d p (JObj (remove_key k l))).
Proof.
  intros Hv Hs Hk. eapply reject_invalid_at; [congruence | exact Hs|].
  apply invalid_missing_required with (k := k); [exact Hk | apply has_key_remove_key].
Qed.

Theorem reject_empty_string d p sc :
  value_at d p <> None -> schema_at DOC p = Some sc -> (1 <= min_length_of sc)%nat ->
  rejected (set_at d p (JStr [])).
Proof.
  intros Hv Hs Hm. eapply reject_invalid_at; [exact Hv | exact Hs|]. apply invalid_empty_string. exact Hm.
Qed.

Theorem reject_unknown_key d p sc l k x :
  value_at d p = Some (JObj l) -> schema_at DOC p = Some sc ->
  closed_of sc = true -> pattern_all_of sc = None -> ~ In k (map fst (props_of sc)) ->
  rejected (set_at d p (JObj (l ++ [(k, x)]))).
Proof.
  intros Hv Hs Hc Hp Hk. eapply reject_invalid_at; [congruence | exact Hs|].
  apply invalid_unknown_key with (k := k); try assumption.
  rewrite keys_app. apply in_or_app. right. left. reflexivity.
Qed.

Theorem reject_wrong_type d p sc t x :
  value_at d p <> None -> schema_at DOC p = Some sc -> type_of sc = Some t -> has_type t x = false ->
  rejected (set_at d p x).
Proof.
  intros Hv Hs Ht Hx. eapply reject_invalid_at; [exact Hv | exact Hs|].
  eapply invalid_wrong_type; eauto.
Qed.

Lemma invalid_anyof sc ss x :
  In (KAnyOf ss) sc -> forallb (fun a => negb (valid a x)) ss = true -> valid sc x = false.
Proof.
  intros Hin H. eapply invalid_In; [exact Hin|]. rewrite kw_ok_anyof.
  destruct (existsb (fun a => valid a x) ss) eqn:E; [|reflexivity].
  apply existsb_exists in E. destruct E as [a [Ha Hv]].
  pose proof (proj1 (forallb_forall _ _) H _ Ha) as H1. cbv beta in H1. rewrite Hv in H1. discriminate.
Qed.
Theorem reject_no_alternative d p sc ss x :
  value_at d p <> None -> schema_at DOC p = Some sc -> In (KAnyOf ss) sc ->
  forallb (fun a => negb (valid a x)) ss = true -> rejected (set_at d p x).
Proof.
  intros Hv Hs Hin H. eapply reject_invalid_at; [exact Hv | exact Hs|]. eapply invalid_anyof; eauto.
Qed.

(** a parameter label that is a list (label / value list mismatch): the schema
    wants a string there *)
Theorem reject_label_list d name ll :
  value_at d [PKey (s "global.parameters"); PKey name; PKey (s "label")] <> None ->
  rejected (set_at d [PKey (s "global.parameters"); PKey name; PKey (s "label")] (JArr ll)).
Proof.
  intro Hv.
  assert (Hs : exists sc, schema_at DOC [PKey (s "global.parameters"); PKey name; PKey (s "label")] = Some sc /\
                          type_of sc = Some TString).
  { unfold schema_at, DOC.
    replace (prop_schema _ (s "global.parameters")) with (Some [KType TObject; KPatternAll PARAM]) by reflexivity.
    replace (prop_schema [KType TObject; KPatternAll PARAM] name) with (Some PARAM).
    2:{ unfold prop_schema. simpl. reflexivity. }
    vm_compute. eexists. split; reflexivity. }
  destruct Hs as [sc [Hs Ht]]. eapply reject_wrong_type; [exact Hv | exact Hs | exact Ht | reflexivity].
Qed.

(* ---------------------------------------------------- the semantic classes *)
Local Opaque s DESCRIPTION ENV STUDY_STEP PARAM.

Lemma or_true_r (a b : bool) : b = true -> a || b = true.
Proof. intro H. rewrite H. apply orb_true_r. Qed.

Theorem reject_dup_step_names d : ~ NoDup (source_name :: step_names d) -> rejected d.
Proof.
  intro H. apply malformed_rejected. unfold malformed.
  assert (E : dup_step_names d = true).
  { unfold dup_step_names. destruct (nodup_str (source_name :: step_names d)) eqn:N; [|reflexivity].
    apply nodup_str_NoDup in N. contradiction. }
  rewrite E. destruct (negb (valid DOC d)); reflexivity.
Qed.

(** the mutation "repeat step i" *)
Definition set_study (d : jv) (sl : list jv) : jv := set_at d [PKey (s "study")] (JArr sl).
Lemma doc_steps_set_study l sl :
  has_key (s "study") l = true -> doc_steps (set_study (JObj l) sl) = sl.
Proof.
  intro H. unfold set_study, doc_steps. simpl set_at.
  destruct (has_key_lookup _ _ H) as [c L]. rewrite L.
  rewrite field_obj, (lookup_set_key _ _ _ H). reflexivity.
Qed.
Theorem reject_repeat_step l i st :
  has_key (s "study") l = true -> nth_error (doc_steps (JObj l)) i = Some st ->
  rejected (set_study (JObj l) (doc_steps (JObj l) ++ [st])).
Proof.
  intros H Hi. apply reject_dup_step_names.
  rewrite step_names_eq, doc_steps_set_study by exact H.
  intro N. inversion N as [|? ? _ N']; subst. rewrite map_app in N'. simpl in N'.
  apply nth_error_In in Hi. apply (in_map step_name) in Hi.
  revert N' Hi. generalize (step_name st) (map step_name (doc_steps (JObj l))). clear.
  intros x l. induction l as [|y r IH]; simpl; intros N Hi; [contradiction|].
  inversion N; subst. destruct Hi as [->|Hi]; [|apply IH; assumption].
  apply H1. apply in_or_app. right. left. reflexivity.
Qed.

Lemma bad_deps_self : forall steps earlier st dep,
  In st steps -> In dep (step_depends st) -> strip_stars dep = step_name st ->
  bad_deps_from earlier steps = true.
Proof.
  induction steps as [|st0 r IH]; intros earlier st dep Hin Hd He; [contradiction|].
  simpl. destruct Hin as [->|Hin].
  - apply orb_true_iff. left. apply existsb_exists. exists dep. split; [exact Hd|].
    fold (step_name st). rewrite He, str_eqb_refl. reflexivity.
  - apply or_true_r. eapply IH; eauto.
Qed.
Theorem reject_self_dependency d st dep :
  In st (doc_steps d) -> In dep (step_depends st) -> strip_stars dep = step_name st -> rejected d.
Proof.
  intros H1 H2 H3. apply malformed_rejected. unfold malformed.
  assert (E : bad_dependency d = true) by (unfold bad_dependency; eapply bad_deps_self; eauto).
  rewrite E. destruct (negb (valid DOC d)); destruct (dup_step_names d); reflexivity.
Qed.

(** an accepted dependency list only names strictly earlier nodes *)
Lemma bad_deps_earlier : forall steps earlier,
  bad_deps_from earlier steps = false ->
  forall i st dep, nth_error steps i = Some st -> In dep (step_depends st) ->
    In (strip_stars dep) (earlier ++ firstn i (map step_name steps)) /\ strip_stars dep <> step_name st.
Proof.
  induction steps as [|st0 r IH]; intros earlier H i st dep Hi Hd.
  - destruct i; discriminate.
  - simpl in H. apply orb_false_iff in H. destruct H as [H1 H2]. destruct i as [|i].
    + simpl in Hi. inversion Hi; subst st0. simpl. rewrite app_nil_r.
      assert (Hx : forall x, In x (step_depends st) ->
                 (str_eqb (strip_stars x) (step_name st) || negb (mem_str (strip_stars x) earlier)) = false).
      { intros x Hx. destruct (_ || _) eqn:E; [|reflexivity].
        assert (existsb (fun dep0 => str_eqb (strip_stars dep0) (str_of (field (s "name") st)) ||
                                     negb (mem_str (strip_stars dep0) earlier)) (step_depends st) = true).
        { apply existsb_exists. exists x. split; [exact Hx | exact E]. }
        congruence. }
      specialize (Hx _ Hd). apply orb_false_iff in Hx. destruct Hx as [Ha Hb].
      apply negb_false_iff in Hb. apply mem_str_In in Hb. apply str_eqb_neq in Ha. auto.
    + simpl in Hi. destruct (IH _ H2 _ _ _ Hi Hd) as [Ha Hb]. split; [|exact Hb].
      simpl. fold (step_name st0) in Ha. rewrite <- app_assoc in Ha. exact Ha.
Qed.

Theorem reject_undefined_dependency d st dep :
  In st (doc_steps d) -> In dep (step_depends st) ->
  ~ In (strip_stars dep) (source_name :: step_names d) -> rejected d.
Proof.
  intros H1 H2 H3. apply malformed_rejected. unfold malformed.
  assert (E : bad_dependency d = true).
  { unfold bad_dependency. destruct (bad_deps_from [source_name] (doc_steps d)) eqn:B; [reflexivity|].
    exfalso. apply In_nth_error in H1. destruct H1 as [i Hi].
    destruct (bad_deps_earlier _ _ B _ _ _ Hi H2) as [Ha _]. apply H3.
    simpl in Ha. destruct Ha as [Ha|Ha]; [left; exact Ha | right].
    rewrite step_names_eq. revert Ha. generalize (map step_name (doc_steps d)). clear.
    intros l. revert i. induction l as [|y r IH]; intros [|i]; simpl; try tauto.
    intros [H|H]; [left; exact H | right; eapply IH; exact H]. }
  rewrite E. destruct (negb (valid DOC d)); destruct (dup_step_names d); reflexivity.
Qed.

Lemma all_eq_nat_spec l : all_eq_nat l = true -> forall n m, In n l -> In m l -> n = m.
Proof.
  destruct l as [|a r]; simpl; [contradiction|]. intros H n m Hn Hm.
  assert (Ha : forall x, In x (a :: r) -> x = a).
  { intros x [<-|Hx]; [reflexivity|].
    pose proof (proj1 (forallb_forall _ _) H _ Hx) as E. apply Nat.eqb_eq in E. congruence. }
  rewrite (Ha _ Hn), (Ha _ Hm). reflexivity.
Qed.
Theorem reject_param_length_mismatch d n m :
  In n (param_lengths d) -> In m (param_lengths d) -> n <> m -> rejected d.
Proof.
  intros Hn Hm Hne. apply malformed_rejected. unfold malformed.
  assert (E : param_len_mismatch d = true).
  { unfold param_len_mismatch. destruct (all_eq_nat (param_lengths d)) eqn:A; [|reflexivity].
    exfalso. apply Hne. eapply all_eq_nat_spec; eauto. }
  rewrite E. destruct (negb (valid DOC d)); destruct (dup_step_names d); destruct (bad_dependency d); reflexivity.
Qed.

Theorem reject_dup_env_names d : ~ NoDup (env_names d) -> rejected d.
Proof.
  intro H. apply malformed_rejected. unfold malformed.
  assert (E : dup_env_names d = true).
  { unfold dup_env_names. destruct (nodup_str (env_names d)) eqn:N; [|reflexivity].
    apply nodup_str_NoDup in N. contradiction. }
  rewrite E. destruct (negb (valid DOC d)); destruct (dup_step_names d); destruct (bad_dependency d);
    destruct (param_len_mismatch d); reflexivity.
Qed.

(* ----------------------------------------------------- staging precondition *)
(** accepted => node names are unique and every dependency of the i-th step
    names the source node or one of the first i steps: the graph handed to
    [stage] is topologically ordered by insertion (its cycle check passes) *)
Theorem accepted_topological d ns :
  build d = Accept ns ->
  NoDup (source_name :: ns) /\
  forall i st dep, nth_error (doc_steps d) i = Some st -> In dep (step_depends st) ->
    In (strip_stars dep) (source_name :: firstn i ns) /\ strip_stars dep <> step_name st.
Proof.
  unfold build. destruct (pipeline d) as [ns'|c] eqn:P; [|discriminate].
  intro E. inversion E; subst ns'. destruct (accept_sound _ _ P) as [M En].
  unfold malformed in M. repeat (apply orb_false_iff in M; destruct M as [M ?]).
  split.
  - unfold dup_step_names in *. rewrite En.
    apply nodup_str_NoDup. destruct (nodup_str (source_name :: step_names d)); [reflexivity | discriminate].
  - intros i st dep Hi Hd. unfold bad_dependency in *.
    match goal with B : bad_deps_from _ _ = false |- _ =>
      destruct (bad_deps_earlier _ _ B _ _ _ Hi Hd) as [Ha Hb] end.
    split; [|exact Hb]. rewrite En, step_names_eq. exact Ha.
Qed.

(** C13_stageable, part 3: composition of the specification model with the
    expansion model.  A document the front end accepts ([Verify.build d =
    Accept ns]: schema, verify_*, the three consumers, Study.add_step per step)
    translates ([SpecStage.to_expand_spec]) into a CONSTRUCTIBLE Expand
    specification (unique step names, every dependency names the source node or
    an earlier step, never the step itself -- [accepted_topological]), and on
    such a specification [Expand.stage] is total inside hygiene H8 when the
    workspace references name nodes processed earlier ([stage_total]). *)
From Coq Require Import List ZArith NArith Bool Arith Lia.
From MWF Require Import Base.Str Spec.Json Spec.Schema Gen.SpecData Spec.Verify
     Spec.SpecProofs Spec.SpecAccept Spec.SpecReject.
From MWF Require Import Expand.PyStr Expand.PyStrProofs Expand.Expand Expand.ExpandProofs
     Expand.ExpandInv Expand.ExpandC08 Spec.SpecStage Spec.SpecStage2 Spec.SpecStage3.
Import ListNotations.

(* ------------------------------------------------------------------------ *)
(** * The two transcriptions of  re.sub(r"_\*|\*", "", d)  agree *)
Lemma strip_go_cons2 c c2 r2 :
  Expand.strip_go (c :: c2 :: r2) 0 =
  if (N.eqb c 95 && N.eqb c2 42)%bool then Expand.strip_go (c2 :: r2) 1
  else if N.eqb c 42 then Expand.strip_go (c2 :: r2) 0 else c :: Expand.strip_go (c2 :: r2) 0.
Proof. reflexivity. Qed.
Lemma strip_go_skip c r k : Expand.strip_go (c :: r) (S k) = Expand.strip_go r k.
Proof. reflexivity. Qed.
Lemma strip_stars_cons2 c c2 r2 :
  Verify.strip_stars (c :: c2 :: r2) =
  if N.eqb c 42 then Verify.strip_stars (c2 :: r2)
  else if N.eqb c 95
       then (if N.eqb c2 42 then Verify.strip_stars r2 else c :: Verify.strip_stars (c2 :: r2))
       else c :: Verify.strip_stars (c2 :: r2).
Proof. reflexivity. Qed.

Lemma strip_star_eq : forall d : str, Expand.strip_star d = Verify.strip_stars d.
Proof.
  unfold Expand.strip_star.
  assert (G : forall n (d : str), (List.length d <= n)%nat -> Expand.strip_go d 0 = Verify.strip_stars d).
  { induction n as [|n IH]; intros d Hn.
    - destruct d; [reflexivity | simpl in Hn; lia].
    - destruct d as [|c r]; [reflexivity|]. simpl in Hn.
      destruct r as [|c2 r2].
      + simpl. unfold c_star, c_us.
        destruct (N.eqb c 42) eqn:E1; auto. destruct (N.eqb c 95); auto.
      + rewrite strip_go_cons2, strip_stars_cons2.
        assert (H1 : (List.length (c2 :: r2) <= n)%nat) by lia.
        assert (H2 : (List.length r2 <= n)%nat) by (simpl in *; lia).
        destruct (N.eqb c 42) eqn:E1.
        * assert (E2 : (N.eqb c 95 && N.eqb c2 42)%bool = false).
          { apply N.eqb_eq in E1; subst. reflexivity. }
          rewrite E2. apply IH; auto.
        * destruct (N.eqb c 95) eqn:E3; cbn [andb].
          -- destruct (N.eqb c2 42) eqn:E4.
             ++ rewrite strip_go_skip. apply IH; auto.
             ++ f_equal. apply IH; auto.
          -- f_equal. apply IH; auto. }
  intros d. apply (G (List.length d)); auto.
Qed.

(* ------------------------------------------------------------------------ *)
(** * Constructibility from the positions of the dependencies *)
Lemma construct_ok_intro : forall l seen,
  In SOURCE seen -> NoDup (seen ++ map s_name l) ->
  (forall i t d, nth_error l i = Some t -> In d (s_deps t) ->
     In (Expand.strip_star d) (seen ++ firstn i (map s_name l)) /\ Expand.strip_star d <> s_name t) ->
  construct_ok seen l = true.
Proof.
  induction l as [|t l IH]; simpl; intros seen Hs Hnd H; auto.
  assert (Hn : ~ In (s_name t) seen).
  { apply NoDup_remove_2 in Hnd. intros Hi; apply Hnd, in_app_iff; auto. }
  rewrite !andb_true_iff. repeat split.
  - apply negb_true_iff, str_mem_nIn; auto.
  - apply forallb_forall. intros p Hp. unfold parents_raw in Hp.
    destruct (s_deps t) as [|d0 ds] eqn:Ed.
    + destruct Hp as [<-|[]]. apply andb_true_iff; split.
      * apply negb_true_iff, str_eqb_neq. intros E; apply Hn; rewrite <- E; auto.
      * apply str_mem_In; auto.
    + apply in_map_iff in Hp as [d [<- Hd]].
      destruct (H 0%nat t d eq_refl) as [Ha Hb]; [rewrite Ed; auto|].
      simpl in Ha. rewrite app_nil_r in Ha. apply andb_true_iff; split.
      * apply negb_true_iff, str_eqb_neq; auto.
      * apply str_mem_In; auto.
  - apply IH.
    + apply in_app_iff; auto.
    + rewrite <- app_assoc; simpl; auto.
    + intros i t' d Hi Hd. destruct (H (S i) t' d Hi Hd) as [Ha Hb]. split; auto.
      simpl in Ha. rewrite <- app_assoc; simpl; auto.
Qed.

(* ------------------------------------------------------------------------ *)
(** * An accepted document gives a constructible specification *)
Section Compose.
  Variable render : jv -> str.
  Variable envsub : str -> str.
  Variable root : str.
  Variable rlimit : nat.

  Notation tr := (to_expand_spec render envsub root rlimit).

  Lemma tr_step_names d : Expand.step_names (tr d) = Verify.step_names d.
  Proof.
    unfold Expand.step_names, to_expand_spec. cbn [sp_steps]. rewrite map_map.
    rewrite step_names_eq. apply map_ext. reflexivity.
  Qed.

  Theorem accepted_constructible d ns :
    build d = Accept ns -> construct_ok [SOURCE] (sp_steps (tr d)) = true.
  Proof.
    intros Hb. destruct (accepted_topological d ns Hb) as [Hnd Hdeps].
    pose proof (accepted_steps d ns Hb) as En.
    apply construct_ok_intro.
    - left; auto.
    - change (map s_name (sp_steps (tr d))) with (Expand.step_names (tr d)).
      rewrite tr_step_names, <- En. exact Hnd.
    - intros i t dep Hi Hd.
      change (map s_name (sp_steps (tr d))) with (Expand.step_names (tr d)).
      rewrite tr_step_names, <- En.
      unfold to_expand_spec in Hi. cbn [sp_steps] in Hi. rewrite nth_error_map in Hi.
      destruct (nth_error (doc_steps d) i) as [st|] eqn:Est; [|discriminate].
      simpl in Hi. inversion Hi; subst t. cbn [s_deps s_name to_step] in *.
      rewrite strip_star_eq. apply (Hdeps i st dep Est Hd).
  Qed.

  (** accepted, H8 and workspace references to earlier nodes: staging returns
      a graph over exactly the document's steps, and the C08 monitor holds *)
  Theorem accepted_stageable ap san pi d ns :
    build d = Accept ns -> perm_oracle pi ->
    hygb (tr d) = true -> wsrefs_ok (tr d) = true ->
    exists um st, stage ap san pi (tr d) = Expand.Ok (um, st)
                  /\ Expand.step_names (tr d) = ns
                  /\ C08_ok (tr d) (observe_result (stage ap san pi (tr d))) = true.
  Proof.
    intros Hb Hp Hh Hw.
    destruct (stage_total ap san pi (tr d) Hp (accepted_constructible d ns Hb) Hh Hw) as [um [st E]].
    exists um, st. split; auto. split.
    - rewrite tr_step_names. symmetry. apply (accepted_steps d ns Hb).
    - apply monitor_model; auto.
  Qed.
End Compose.

(** on documents as written *)
Theorem written_stageable render envsub root rlimit ap san pi doc ns :
  verify_and_build doc = Accept ns -> perm_oracle pi ->
  hygb (to_expand_spec render envsub root rlimit (yaml_load doc)) = true ->
  wsrefs_ok (to_expand_spec render envsub root rlimit (yaml_load doc)) = true ->
  exists um st,
    stage ap san pi (to_expand_spec render envsub root rlimit (yaml_load doc)) = Expand.Ok (um, st)
    /\ Expand.step_names (to_expand_spec render envsub root rlimit (yaml_load doc)) = ns
    /\ C08_ok (to_expand_spec render envsub root rlimit (yaml_load doc))
              (observe_result (stage ap san pi (to_expand_spec render envsub root rlimit (yaml_load doc)))) = true.
Proof. unfold verify_and_build. apply accepted_stageable. Qed.

(** the two simple instances of the reference condition *)
Theorem written_stageable_norefs render envsub root rlimit ap san pi doc ns :
  verify_and_build doc = Accept ns -> perm_oracle pi ->
  hygb (to_expand_spec render envsub root rlimit (yaml_load doc)) = true ->
  no_wsrefs (to_expand_spec render envsub root rlimit (yaml_load doc)) = true ->
  exists um st,
    stage ap san pi (to_expand_spec render envsub root rlimit (yaml_load doc)) = Expand.Ok (um, st).
Proof.
  intros Hb Hp Hh Hn.
  destruct (written_stageable render envsub root rlimit ap san pi doc ns Hb Hp Hh (no_wsrefs_ok _ Hn))
    as (um & st & E & _). eauto.
Qed.

Theorem written_stageable_parentrefs render envsub root rlimit ap san pi doc ns :
  verify_and_build doc = Accept ns -> perm_oracle pi ->
  hygb (to_expand_spec render envsub root rlimit (yaml_load doc)) = true ->
  wsrefs_parents (to_expand_spec render envsub root rlimit (yaml_load doc)) = true ->
  exists um st,
    stage ap san pi (to_expand_spec render envsub root rlimit (yaml_load doc)) = Expand.Ok (um, st).
Proof.
  intros Hb Hp Hh Hn.
  assert (Hc := accepted_constructible render envsub root rlimit (yaml_load doc) ns Hb).
  destruct (written_stageable render envsub root rlimit ap san pi doc ns Hb Hp Hh (wsrefs_parents_ok _ Hc Hn))
    as (um & st & E & _). eauto.
Qed.

(** the reference condition cannot be dropped: an accepted document whose only
    step reads the workspace of a step that does not exist is inside H8 and
    [stage] fails on it (study.py raises Exception("Workspace for 'nosuch' is
    being used before it would be generated.") -- a deliberate diagnostic, at
    staging time) *)
Definition ex_badref_doc : jv :=
  JObj [(s "description", JObj [(s "name", JStr (s "study")); (s "description", JStr (s "d"))]);
        (s "study",
         JArr [JObj [(s "name", JStr (s "a")); (s "description", JStr (s "d"));
                     (s "run", JObj [(s "cmd", JStr (s "ls $(nosuch.workspace)"))])]])].

Lemma stageable_needs_refs :
  verify_and_build ex_badref_doc = Accept [s "a"]
  /\ hygb (to_expand_spec render_simple (fun x => x) (s "/R") 0 (yaml_load ex_badref_doc)) = true
  /\ wsrefs_ok (to_expand_spec render_simple (fun x => x) (s "/R") 0 (yaml_load ex_badref_doc)) = false
  /\ stage_c pi_id (to_expand_spec render_simple (fun x => x) (s "/R") 0 (yaml_load ex_badref_doc)) = Expand.Err 2.
Proof. vm_compute. repeat split; reflexivity. Qed.

(** non-vacuity: [ex_stage_doc] (a parameterised step, a dependent step that
    reads its parent's workspace, a funnel step) is accepted, inside H8, its
    references are fine, and the staging is computed *)
Lemma ex_stage_doc_ok :
  verify_and_build ex_stage_doc = Accept [s "make"; s "run"; s "post"]
  /\ nodupkeys ex_stage_doc = true
  /\ hygb (to_expand_spec render_simple (fun x => x) (s "/R") 1 (yaml_load ex_stage_doc)) = true
  /\ wsrefs_ok (to_expand_spec render_simple (fun x => x) (s "/R") 1 (yaml_load ex_stage_doc)) = true
  /\ match stage_c pi_id (to_expand_spec render_simple (fun x => x) (s "/R") 1 (yaml_load ex_stage_doc)) with
     | Expand.Ok (um, st) => g_names (st_g st)
     | Expand.Err _ => []
     end = [s "_source"; s "make_SIZE.10"; s "make_SIZE.20";
            s "run_ITER.1.SIZE.10"; s "run_ITER.2.SIZE.10"; s "run_ITER.3.SIZE.20"; s "post"].
Proof. vm_compute. repeat split; reflexivity. Qed.

(** C13_stageable, part 1: the depth-first topological sort of the Expand model
    ([Expand.toposort], model of DAG.topological_sort as Study._stage calls it)
    never runs out of fuel on a constructible study, enumerates every node
    exactly once starting with "_source", and lists every parent before its
    children.  (The C08 development only ever ASSUMED a successful [stage];
    totality is what "an accepted specification can be staged" needs.) *)
From MWF Require Import Base.Str Base.Util Base.UtilLemmas Expand.PyStr Expand.PyStrProofs
     Expand.Expand Expand.ExpandProofs Expand.ExpandGraph Expand.ExpandInv Spec.SpecStage.
From Coq Require Import List NArith Bool Arith Lia.
Import ListNotations.

(* ------------------------------------------------------------------------ *)
(** * Lists *)
Lemma index_of_app_notin x a b : ~ In x a -> index_of x (a ++ x :: b) = length a.
Proof.
  induction a as [|y a IH]; simpl; intros H.
  - rewrite str_eqb_refl; auto.
  - seqb x y; [exfalso; apply H; auto|]. rewrite IH; auto.
Qed.

Lemma upto_app x a b : ~ In x a -> upto x (a ++ x :: b) = a.
Proof.
  induction a as [|y a IH]; simpl; intros H.
  - rewrite str_eqb_refl; auto.
  - seqb x y; [exfalso; apply H; auto|]. rewrite IH; auto.
Qed.

Lemma upto_incl x l : incl (upto x l) l.
Proof.
  induction l as [|y l IH]; simpl; [intros ? []|].
  destruct (str_eqb x y); [intros ? []|]. intros z [<-|Hz]; simpl; auto.
Qed.

(* ------------------------------------------------------------------------ *)
(** * The depth-first search *)
Section Dfs.
  Variable kids : str -> list str.
  Variable nodes : list str.
  Notation idx x := (index_of x nodes).
  (** every edge goes forward in the insertion order of the nodes *)
  Hypothesis Hk : forall v c, In c (kids v) -> In c nodes /\ idx v < idx c.

  (** every listed node comes before all its children (which are listed) *)
  Definition closed (out : list str) : Prop :=
    forall l1 x l2, out = l1 ++ x :: l2 -> forall c, In c (kids x) -> In c l2.

  Lemma closed_nil : closed [].
  Proof. intros l1 x l2 H. destruct l1; discriminate. Qed.

  Lemma closed_cons v out :
    closed out -> (forall c, In c (kids v) -> In c out) -> closed (v :: out).
  Proof.
    intros Hc Hv l1 x l2 E c Hin. destruct l1 as [|a l1]; simpl in E; inversion E; subst.
    - auto.
    - eapply Hc; eauto.
  Qed.

  Definition dpost (v : str) (vis out : list str) (r : list str * list str) : Prop :=
    exists new, snd r = v :: new ++ out
      /\ (forall x, In x (fst r) <-> In x vis \/ x = v \/ In x new)
      /\ NoDup (v :: new ++ out)
      /\ closed (v :: new ++ out)
      /\ (forall x, In x new -> In x nodes)
      /\ (forall x, In x new -> ~ In x vis).

  Definition fpost (vis out ks : list str) (r : list str * list str) : Prop :=
    exists new, snd r = new ++ out
      /\ (forall x, In x (fst r) <-> In x vis \/ In x new)
      /\ NoDup (new ++ out)
      /\ closed (new ++ out)
      /\ (forall x, In x new -> In x nodes)
      /\ (forall x, In x new -> ~ In x vis)
      /\ (forall e, In e ks -> In e (new ++ out)).

  Lemma dfs_ok : forall f v vis out,
    In v nodes -> length nodes < f + idx v -> ~ In v vis ->
    incl out vis -> NoDup out -> closed out ->
    (forall x, In x vis -> ~ In x out -> idx x < idx v) ->
    dpost v vis out (dfs f kids v (vis, out)).
  Proof.
    induction f as [|f IHf]; intros v vis out Hv Hf Hnv Hsub Hnd Hcl Hpend.
    - pose proof (index_of_lt v nodes Hv). lia.
    - cbn [dfs]. cbn [fst snd].
      assert (G : forall ks vis1 out1,
                (forall e, In e ks -> In e nodes /\ idx v < idx e) ->
                incl out1 vis1 -> NoDup out1 -> closed out1 ->
                (forall x, In x vis1 -> ~ In x out1 -> idx x <= idx v) ->
                fpost vis1 out1 ks
                  (fold_left (fun a e => if str_mem e (fst a) then a else dfs f kids e a) ks (vis1, out1))).
      { induction ks as [|e ks IHks]; intros vis1 out1 Hks Hsub1 Hnd1 Hcl1 Hp1.
        - exists []. simpl. repeat split; auto; try tauto.
        - cbn [fold_left fst]. destruct (Hks e (or_introl eq_refl)) as [Hen Hei].
          destruct (str_mem e vis1) eqn:Em.
          + apply str_mem_In in Em.
            assert (Heo : In e out1).
            { destruct (in_dec str_dec e out1) as [?|Hno]; auto.
              pose proof (Hp1 e Em Hno). lia. }
            destruct (IHks vis1 out1) as (new & R1 & R2 & R3 & R4 & R5 & R6 & R7); auto.
            { intros e' He'; apply Hks; right; auto. }
            exists new. repeat split; auto; try (apply R2).
            intros e' [<-|He']; auto. apply in_app_iff; auto.
          + apply str_mem_nIn in Em.
            assert (Hpe : dpost e vis1 out1 (dfs f kids e (vis1, out1))).
            { apply IHf; auto; try lia. intros x Hx Hxo. pose proof (Hp1 x Hx Hxo). lia. }
            destruct (dfs f kids e (vis1, out1)) as [vis' out'] eqn:Ed.
            destruct Hpe as (ne & P1 & P2 & P3 & P4 & P5 & P6). cbn [fst snd] in P1, P2. subst out'.
            destruct (IHks vis' (e :: ne ++ out1)) as (new & R1 & R2 & R3 & R4 & R5 & R6 & R7); auto.
            { intros e' He'; apply Hks; right; auto. }
            { intros x Hx. apply P2. destruct Hx as [<-|Hx]; auto.
              apply in_app_iff in Hx as [Hx|Hx]; auto. }
            { intros x Hx Hxo. apply P2 in Hx as [Hx|[->|Hx]].
              - apply Hp1; auto. intros Hi. apply Hxo. right. apply in_app_iff; auto.
              - exfalso; apply Hxo; left; auto.
              - exfalso; apply Hxo; right; apply in_app_iff; auto. }
            exists (new ++ e :: ne).
            assert (Eapp : (new ++ e :: ne) ++ out1 = new ++ e :: ne ++ out1)
              by (rewrite <- app_assoc; reflexivity).
            rewrite Eapp. repeat split; auto.
            * intros Hx. apply R2 in Hx as [Hx|Hx].
              -- apply P2 in Hx as [Hx|[->|Hx]]; auto; right; apply in_app_iff; simpl; auto.
              -- right; apply in_app_iff; auto.
            * intros [Hx|Hx].
              -- apply R2. left. apply P2; auto.
              -- apply in_app_iff in Hx as [Hx|[<-|Hx]].
                 ++ apply R2; auto.
                 ++ apply R2; left; apply P2; auto.
                 ++ apply R2; left; apply P2; auto.
            * intros x Hx. apply in_app_iff in Hx as [Hx|[<-|Hx]]; auto.
            * intros x Hx Hv1. apply in_app_iff in Hx as [Hx|[<-|Hx]].
              -- apply (R6 x Hx). apply P2; auto.
              -- contradiction.
              -- apply (P6 x Hx); auto.
            * intros e' [<-|He']; [apply in_app_iff; right; left; auto | apply R7; auto]. }
      destruct (G (kids v) (v :: vis) out) as (new & R1 & R2 & R3 & R4 & R5 & R6 & R7); auto.
      { intros x Hx; right; auto. }
      { intros x [<-|Hx] Hxo; auto. pose proof (Hpend x Hx Hxo). lia. }
      exists new. cbn [fst snd]. rewrite R1.
      assert (Hvn : ~ In v new) by (intros Hi; apply (R6 v Hi); left; auto).
      repeat split; auto.
      + intros Hx. apply R2 in Hx as [[<-|Hx]|Hx]; auto.
      + intros [Hx|[->|Hx]]; apply R2; simpl; auto.
      + constructor; auto. intros Hi. apply in_app_iff in Hi as [Hi|Hi]; auto.
      + apply closed_cons; auto.
      + intros x Hx Hxv. apply (R6 x Hx). right; auto.
  Qed.
End Dfs.

(* ------------------------------------------------------------------------ *)
(** * The study graph of a constructible specification *)
Lemma construct_ok_pos : forall l seen,
  construct_ok seen l = true ->
  forall l1 t l2, l = l1 ++ t :: l2 ->
    ~ In (s_name t) (seen ++ map s_name l1)
    /\ forall p, In p (parents_raw t) -> In p (seen ++ map s_name l1) /\ p <> s_name t.
Proof.
  induction l as [|a l IH]; simpl; intros seen H l1 t l2 E.
  - destruct l1; discriminate.
  - apply andb_true_iff in H as [H H3]. apply andb_true_iff in H as [H1 H2].
    apply negb_true_iff, str_mem_nIn in H1. rewrite forallb_forall in H2.
    destruct l1 as [|b l1]; simpl in E; inversion E; subst.
    + simpl. rewrite app_nil_r. split; auto.
      intros p Hp. specialize (H2 p Hp). apply andb_true_iff in H2 as [Ha Hb].
      apply negb_true_iff, str_eqb_neq in Ha. apply str_mem_In in Hb. auto.
    + destruct (IH _ H3 l1 t l2 eq_refl) as [I1 I2]. simpl.
      replace (seen ++ s_name b :: map s_name l1) with ((seen ++ [s_name b]) ++ map s_name l1)
        by (rewrite <- app_assoc; reflexivity).
      split; auto.
Qed.

Lemma parents_raw_nonempty t : parents_raw t <> [].
Proof. unfold parents_raw. destruct (s_deps t); simpl; discriminate. Qed.

Lemma study_kids_In sp u c :
  In c (study_kids sp u) <-> exists t, In t (sp_steps sp) /\ s_name t = c /\ In u (parents_raw t).
Proof.
  unfold study_kids. rewrite in_map_iff. split.
  - intros [t [E Ht]]. apply filter_In in Ht as [Ht Hu]. apply str_mem_In in Hu. eauto.
  - intros [t (Ht & E & Hu)]. exists t; split; auto. apply filter_In; split; auto. apply str_mem_In; auto.
Qed.

Section Topo.
  Variable sp : spec.
  Hypothesis Hc : construct_ok [SOURCE] (sp_steps sp) = true.

  Let nodes := study_nodes sp.
  Let kids := study_kids sp.

  Lemma topo_names_nodup : NoDup (step_names sp).
  Proof. destruct (construct_ok_spec _ _ Hc) as (H & _); exact H. Qed.

  Lemma topo_src_notin : ~ In SOURCE (step_names sp).
  Proof.
    destruct (construct_ok_spec _ _ Hc) as (_ & H & _).
    intros Hi. apply In_step_names in Hi as [t [Ht E]]. apply (H t Ht). rewrite E; simpl; auto.
  Qed.

  Lemma topo_nodes_nodup : NoDup nodes.
  Proof. constructor; [apply topo_src_notin | apply topo_names_nodup]. Qed.

  (** position facts for a step [t] with the steps [l1] listed before it *)
  Lemma topo_split t : In t (sp_steps sp) ->
    exists l1 l2, sp_steps sp = l1 ++ t :: l2
      /\ nodes = (SOURCE :: map s_name l1) ++ s_name t :: map s_name l2
      /\ ~ In (s_name t) (SOURCE :: map s_name l1)
      /\ forall p, In p (parents_raw t) -> In p (SOURCE :: map s_name l1) /\ p <> s_name t.
  Proof.
    intros Ht. apply in_split in Ht as [l1 [l2 E]]. exists l1, l2. split; auto.
    destruct (construct_ok_pos _ _ Hc l1 t l2 E) as [H1 H2].
    split; [|split; auto].
    unfold nodes, study_nodes, step_names. rewrite E, map_app. reflexivity.
  Qed.

  Lemma topo_parent_node t p : In t (sp_steps sp) -> In p (parents_raw t) -> In p nodes.
  Proof.
    intros Ht Hp. destruct (topo_split t Ht) as (l1 & l2 & _ & En & _ & H). rewrite En.
    apply in_app_iff; left. apply H; auto.
  Qed.

  Lemma topo_edges_forward v c :
    In c (kids v) -> In c nodes /\ index_of v nodes < index_of c nodes.
  Proof.
    intros H. apply study_kids_In in H as [t (Ht & <- & Hu)].
    destruct (topo_split t Ht) as (l1 & l2 & _ & En & Hn & Hp).
    destruct (Hp v Hu) as [Hv _]. split.
    - rewrite En. apply in_app_iff; right; left; auto.
    - rewrite En. rewrite index_of_app_in by auto. rewrite index_of_app_notin by auto.
      apply index_of_lt; auto.
  Qed.

  Lemma fold_visited_noop f : forall l a,
    (forall v, In v l -> In v (fst a)) ->
    fold_left (fun a v => if str_mem v (fst a) then a else dfs f kids v a) l a = a.
  Proof.
    induction l as [|v l IH]; simpl; intros a H; auto.
    rewrite (proj2 (str_mem_In v (fst a))) by auto. apply IH; auto.
  Qed.

  Theorem toposort_total :
    exists rest, toposort sp = SOURCE :: rest
      /\ NoDup (toposort sp)
      /\ (forall v, In v (toposort sp) <-> In v nodes)
      /\ closed kids (toposort sp).
  Proof.
    assert (Eu : toposort sp =
                 snd (fold_left (fun a v => if str_mem v (fst a) then a else dfs (S (length nodes)) kids v a)
                                (step_names sp) (dfs (S (length nodes)) kids SOURCE ([], [])))) by reflexivity.
    rewrite Eu. clear Eu.
    assert (En : nodes = SOURCE :: step_names sp) by reflexivity.
    assert (Hs : In SOURCE nodes) by (rewrite En; left; auto).
    assert (Hi0 : index_of SOURCE nodes = 0).
    { rewrite En. unfold index_of. rewrite str_eqb_refl; auto. }
    pose proof (dfs_ok kids nodes topo_edges_forward (S (length nodes)) SOURCE [] []) as D.
    destruct D as (new & R1 & R2 & R3 & R4 & R5 & R6); auto.
    { rewrite Hi0; lia. }
    { intros ? []. }
    { constructor. }
    { apply closed_nil. }
    { intros x []. }
    destruct (dfs (S (length nodes)) kids SOURCE ([], [])) as [vis out] eqn:Ed.
    cbn [fst snd] in R1, R2. rewrite app_nil_r in *. subst out.
    (* every step is reached from the source *)
    assert (Hall : forall l1 l2, sp_steps sp = l1 ++ l2 -> forall t, In t l1 -> In (s_name t) (SOURCE :: new)).
    { induction l1 as [|t l1 IH] using rev_ind; intros l2 E t' Ht'; [destruct Ht'|].
      apply in_app_iff in Ht' as [Ht'|[<-|[]]].
      - apply (IH ([t] ++ l2)); auto. rewrite E, <- app_assoc; reflexivity.
      - rewrite <- app_assoc in E. simpl in E.
        destruct (construct_ok_pos _ _ Hc l1 t l2 E) as [_ Hp].
        destruct (parents_raw t) as [|p pr] eqn:Epr; [exfalso; eapply parents_raw_nonempty; eauto|].
        destruct (Hp p (or_introl eq_refl)) as [Hin _].
        assert (Hpo : In p (SOURCE :: new)).
        { destruct Hin as [<-|Hin]; [left; auto|].
          apply in_map_iff in Hin as [tp [<- Htp]].
          apply (IH ([t] ++ l2)); auto. }
        apply in_split in Hpo as [a [b Eab]].
        assert (Hkid : In (s_name t) (kids p)).
        { apply study_kids_In. exists t. split; [rewrite E; apply in_app_iff; right; left; auto|].
          split; auto. rewrite Epr; left; auto. }
        pose proof (R4 a p b Eab _ Hkid) as Hb. rewrite Eab. apply in_app_iff; right; right; auto. }
    assert (Hvis : forall v, In v (step_names sp) -> In v vis).
    { intros v Hv. apply In_step_names in Hv as [t [Ht <-]].
      apply R2. right. specialize (Hall (sp_steps sp) [] (eq_sym (app_nil_r _)) t Ht).
      destruct Hall as [E|Hn]; auto. }
    rewrite fold_visited_noop by (cbn [fst]; auto). cbn [snd].
    exists new. repeat split; auto.
    - intros [<-|Hv]; auto.
    - intros Hv. rewrite En in Hv. destruct Hv as [<-|Hv]; [left; auto|].
      apply In_step_names in Hv as [t [Ht <-]].
      apply (Hall (sp_steps sp) [] (eq_sym (app_nil_r _)) t Ht).
  Qed.

  Lemma toposort_topo_ok : topo_ok sp (toposort sp) = true.
  Proof.
    destruct toposort_total as (rest & E & Hn & Hin & _).
    unfold topo_ok. rewrite !andb_true_iff. repeat split.
    - apply str_nodupb_NoDup; auto.
    - apply forallb_forall. intros v Hv. apply str_mem_In, Hin; auto.
    - apply forallb_forall. intros v Hv. apply str_mem_In, Hin; auto.
    - rewrite E. apply str_eqb_refl.
  Qed.

  (** every parent of a step is listed before the step *)
  Lemma toposort_before t p l1 l2 :
    In t (sp_steps sp) -> In p (parents_raw t) ->
    toposort sp = l1 ++ s_name t :: l2 -> In p l1.
  Proof.
    intros Ht Hp E. destruct toposort_total as (rest & _ & Hn & Hin & Hcl).
    assert (Hpo : In p (toposort sp)) by (apply Hin; eapply topo_parent_node; eauto).
    assert (Hne : p <> s_name t).
    { destruct (topo_split t Ht) as (l1' & l2' & _ & _ & _ & H). apply H; auto. }
    rewrite E in Hpo. apply in_app_iff in Hpo as [?|[Hx|Hpo]]; auto; [congruence|].
    exfalso. apply in_split in Hpo as [a [b Eab]].
    assert (E' : toposort sp = (l1 ++ s_name t :: a) ++ p :: b).
    { rewrite E, Eab, <- app_assoc. reflexivity. }
    assert (Hkid : In (s_name t) (kids p)) by (apply study_kids_In; eauto).
    pose proof (Hcl _ _ _ E' _ Hkid) as Hb.
    rewrite E, Eab in Hn. apply NoDup_remove_2 in Hn. apply Hn.
    apply in_app_iff; right. apply in_app_iff; right; right; auto.
  Qed.
End Topo.

(** Model of the specification front end of maestrowf (C13), as the code is NOW:

      YAMLSpecification.load_specification_from_stream  (yaml load, defaults)
      -> verify (description / environment / study / parameters)
      -> get_study_environment, get_study_steps, get_parameters
      -> maestro.run_study's reserved variables
      -> Study(...): add_step for every step (node + dependency edges).

    Every Python indexing / iteration / attribute access is a PARTIAL operation
    here: when the value does not have the kind Python needs the model answers
    [Err Internal] (KeyError / TypeError / AttributeError).  Deliberate
    [raise ValidationError / ValueError / Exception(msg)] are [Err (Diag _)].
    The theorems (SpecProofs.v, Props/C13.v) show that [Internal] is never the
    outcome, whatever the document.

    Where a branch is unreachable behind the schema the model is allowed to be
    conservative (it may say [Internal] where Python would survive, e.g. an
    integer [hash:] that happens to be 0); the theorems make that moot and the
    correspondence run compares outcomes on every generated document.

    Not modelled: message texts; [batch] (not verified by the code either);
    environment substitution into step names / dependency names by add_step
    (faithful for step names and depends entries without "$", hypothesis
    [tokfree]); Unicode [\w] beyond ASCII (hypothesis [H_word]).
    Stdlib only; definitions only. *)
From Coq Require Import List ZArith NArith Bool Arith.
From MWF Require Import Base.Str Spec.Json Spec.Schema Gen.SpecData.
Import ListNotations.

(* ----------------------------------------------------------------- results *)
Inductive diag :=
| DTop | DSchemaDescription | DSchemaEnv | DSchemaStep | DSchemaParam
| DVarName | DVarValue | DDupVar | DDupDepName
| DNoSteps | DStudyNotList | DParamsNotMap | DLabelLen | DLabelDup | DParamLen
| DVarIncomplete | DScript | DDupEnvName | DPathDep | DGitDep | DGitOpts | DReserved
| DDupStep | DSelfDep | DUnknownDep.
Inductive rclass := Diag (d : diag) | Internal.
Inductive result := Accept (steps : list str) | Reject (c : rclass).

Inductive res (A : Type) := Ok (a : A) | Err (c : rclass).
Arguments Ok {A} a.
Arguments Err {A} c.
Definition bind {A B} (r : res A) (f : A -> res B) : res B :=
  match r with Ok a => f a | Err c => Err c end.
Notation "x <- e ;; f" := (bind e (fun x => f)) (at level 61, e at next level, right associativity).
Notation "e ;;; f" := (bind e (fun _ => f)) (at level 61, right associativity).

Fixpoint mfold {A S} (f : S -> A -> res S) (l : list A) (st : S) : res S :=
  match l with
  | [] => Ok st
  | a :: r => st' <- f st a ;; mfold f r st'
  end.
Definition miter {A} (f : A -> res unit) (l : list A) : res unit :=
  mfold (fun _ a => f a) l tt.
Fixpoint mmap {A B} (f : A -> res B) (l : list A) : res (list B) :=
  match l with
  | [] => Ok []
  | a :: r => b <- f a ;; bs <- mmap f r ;; Ok (b :: bs)
  end.

(* -------------------------------------------- Python's partial operations *)
Definition getitem (v : jv) (k : str) : res jv :=           (* v[k] *)
  match v with
  | JObj l => match lookup k l with Some x => Ok x | None => Err Internal end
  | _ => Err Internal
  end.
Definition contains (k : str) (v : jv) : res bool :=        (* k in v *)
  match v with JObj l => Ok (has_key k l) | _ => Err Internal end.
Definition items (v : jv) : res (list (str * jv)) :=        (* v.items() *)
  match v with JObj l => Ok l | _ => Err Internal end.
Definition iter (v : jv) : res (list jv) :=                 (* for x in v *)
  match v with JArr l => Ok l | _ => Err Internal end.
Definition pylen (v : jv) : res nat :=                      (* len(v) *)
  match v with
  | JArr l => Ok (List.length l)
  | JStr x => Ok (List.length x)
  | JObj l => Ok (List.length l)
  | _ => Err Internal
  end.
Definition as_str (v : jv) : res str :=                     (* re.search(p, v), "*" in v, abspath(v) *)
  match v with JStr x => Ok x | _ => Err Internal end.
Definition getd (k : str) (d : jv) (l : list (str * jv)) : jv :=   (* l.pop(k, d) / l.get(k, d) *)
  match lookup k l with Some x => x | None => d end.
Definition is_nil {A} (l : list A) : bool := match l with [] => true | _ => false end.

(* -------------------------------------------------------------------- load *)
Record spec := { sp_desc : jv; sp_env : jv; sp_study : jv; sp_globals : jv }.

Definition default_env : jv :=
  JObj [(s "variables", JObj []); (s "sources", JArr []); (s "labels", JObj []);
        (s "dependencies", JObj [])].

Definition load (d : jv) : res spec :=
  match d with
  | JObj l => Ok {| sp_desc := getd (s "description") (JObj []) l;
                    sp_env := getd (s "env") default_env l;
                    sp_study := getd (s "study") (JArr []) l;
                    sp_globals := getd (s "global.parameters") (JObj []) l |}
  | _ => Err (Diag DTop)
  end.

(* ------------------------------------------------------------------ verify *)
(** validate_schema: the first jsonschema error is re-raised as a
    ValidationError / ValueError by the formatter *)
Definition validate (d : diag) (sc : schema) (v : jv) : res unit :=
  if valid sc v then Ok tt else Err (Diag d).

Definition verify_variables (env : jv) : res (list str) :=
  b <- contains (s "variables") env ;;
  if negb b then Ok [] else
  vars <- getitem env (s "variables") ;;
  kvs <- items vars ;;
  mfold (fun seen kv =>
           let k := fst kv in
           if is_nil k then Err (Diag DVarName)
           else if match snd kv with JStr [] => true | _ => false end then Err (Diag DVarValue)
           else if mem_str k seen then Err (Diag DDupVar)
           else Ok (seen ++ [k])) kvs [].

Definition dep_types : list str := [s "paths"; s "git"].

Definition verify_dependencies (env : jv) (seen : list str) : res (list str) :=
  b <- contains (s "dependencies") env ;;
  if negb b then Ok seen else
  deps <- getitem env (s "dependencies") ;;
  mfold (fun seen t =>
           b <- contains t deps ;;
           if negb b then Ok seen else
           lst <- getitem deps t ;;
           its <- iter lst ;;
           mfold (fun seen item =>
                    n <- getitem item (s "name") ;;
                    n <- as_str n ;;
                    if mem_str n seen then Err (Diag DDupDepName) else Ok (seen ++ [n]))
                 its seen)
        dep_types seen.

Definition verify_environment (env : jv) : res unit :=
  validate DSchemaEnv ENV env ;;;
  seen <- verify_variables env ;;
  verify_dependencies env seen ;;;
  Ok tt.

Definition verify_study (study : jv) : res unit :=
  if negb (truthy study) then Err (Diag DNoSteps) else
  match study with
  | JArr steps => miter (validate DSchemaStep STUDY_STEP) steps
  | _ => Err (Diag DStudyNotList)
  end.

Definition verify_parameters (globals : jv) : res unit :=
  match globals with
  | JObj kvs =>
      mfold (fun (vlen : option nat) kv =>
               let value := snd kv in
               validate DSchemaParam PARAM value ;;;
               values <- getitem value (s "values") ;;
               label <- getitem value (s "label") ;;
               n <- pylen values ;;
               match label with
               | JArr ll =>
                   if negb (Nat.eqb n (List.length ll)) then Err (Diag DLabelLen)
                   else if negb (unique_jv ll) then Err (Diag DLabelDup) else Ok tt
               | _ => Ok tt
               end ;;;
               match vlen with
               | None => Ok (Some n)
               | Some m => if Nat.eqb n m then Ok vlen else Err (Diag DParamLen)
               end) kvs None ;;;
      Ok tt
  | _ => Err (Diag DParamsNotMap)
  end.

Definition verify (sp : spec) : res unit :=
  validate DSchemaDescription DESCRIPTION (sp_desc sp) ;;;
  verify_environment (sp_env sp) ;;;
  verify_study (sp_study sp) ;;;
  verify_parameters (sp_globals sp) ;;;
  getitem (sp_desc sp) (s "name") ;;;          (* logger.debug(..., self.name) *)
  Ok tt.

(* --------------------------------------------------------------- consumers *)
(** StudyEnvironment.add: name uniqueness over variables, labels, dependencies *)
Definition add_name (names : list str) (n : str) : res (list str) :=
  if negb (is_nil n) && mem_str n names then Err (Diag DDupEnvName) else Ok (names ++ [n]).

(** environment.Variable(key, value) then env.add *)
Definition add_variable (names : list str) (kv : str * jv) : res (list str) :=
  if is_nil (fst kv) || match snd kv with JNull => true | _ => false end
  then Err (Diag DVarIncomplete) else add_name names (fst kv).

Definition add_variables (key : str) (env : jv) (names : list str) : res (list str) :=
  b <- contains key env ;;
  if negb b then Ok names else
  vars <- getitem env key ;;
  kvs <- items vars ;;
  mfold add_variable kvs names.

Definition add_sources (env : jv) : res unit :=
  b <- contains (s "sources") env ;;
  if negb b then Ok tt else
  lst <- getitem env (s "sources") ;;
  srcs <- iter lst ;;
  miter (fun src => x <- as_str src ;; if wordy x then Ok tt else Err (Diag DScript)) srcs.

Definition add_path_dep (names : list str) (item : jv) : res (list str) :=
  n <- getitem item (s "name") ;;
  p <- getitem item (s "path") ;;
  _ <- as_str p ;;                       (* os.path.abspath(value) *)
  n <- as_str n ;;                       (* re.search(r"\w+", name) *)
  if wordy n then add_name names n else Err (Diag DPathDep).

Definition git_reserved_kw : list str := [s "value"; s "self"].
Definition first_nonempty (l : list str) : str :=
  match filter (fun x => negb (is_nil x)) l with x :: _ => x | [] => [] end.
Fixpoint distinct_str (l : list str) : list str :=
  match l with [] => [] | x :: r => if mem_str x r then distinct_str r else x :: distinct_str r end.

Definition add_git_dep (names : list str) (repo : jv) : res (list str) :=
  kvs <- items repo ;;                   (* optionals.pop(...) *)
  n <- getitem repo (s "name") ;;
  u <- getitem repo (s "url") ;;
  p <- getitem repo (s "path") ;;
  let rest := remove_key (s "path") (remove_key (s "url") (remove_key (s "name") kvs)) in
  if existsb (fun k => mem_str k git_reserved_kw) (keys rest) then Err Internal else
  n <- as_str n ;; u <- as_str u ;; p <- as_str p ;;
  h <- as_str (getd (s "hash") (JStr []) rest) ;;
  t <- as_str (getd (s "tag") (JStr []) rest) ;;
  b <- as_str (getd (s "branch") (JStr []) rest) ;;
  if Nat.ltb 1 (List.length (distinct_str (filter (fun x => negb (is_nil x)) [b; h; t])))
  then Err (Diag DGitOpts)
  else if wordy n && wordy u && wordy p && truthy (getd (s "token") (JStr (s "$")) rest) &&
          (is_nil (first_nonempty [h; t; b]) || wordy (first_nonempty [h; t; b]))
       then add_name names n
       else Err (Diag DGitDep).

Definition add_dependencies (env : jv) (names : list str) : res (list str) :=
  b <- contains (s "dependencies") env ;;
  if negb b then Ok names else
  deps <- getitem env (s "dependencies") ;;
  bp <- contains (s "paths") deps ;;
  names <- (if negb bp then Ok names else
            lst <- getitem deps (s "paths") ;; its <- iter lst ;; mfold add_path_dep its names) ;;
  bg <- contains (s "git") deps ;;
  if negb bg then Ok names else
  lst <- getitem deps (s "git") ;; its <- iter lst ;; mfold add_git_dep its names.

(** get_study_environment: the names registered in the StudyEnvironment *)
Definition get_study_environment (env : jv) : res (list str) :=
  names <- add_variables (s "variables") env [] ;;
  add_sources env ;;;
  names <- add_variables (s "labels") env names ;;
  add_dependencies env names.

(** maestro.run_study: OUTPUT_PATH is removed and re-added (never clashes);
    SPECROOT is added and must be free *)
Definition reserved_ok (names : list str) : res unit :=
  if mem_str (s "SPECROOT") names then Err (Diag DReserved) else Ok tt.

Definition get_study_steps (study : jv) : res (list (jv * list (str * jv))) :=
  steps <- iter study ;;
  mmap (fun st =>
          n <- getitem st (s "name") ;;
          _ <- getitem st (s "description") ;;
          r <- getitem st (s "run") ;;
          kvs <- items r ;;
          Ok (n, kvs)) steps.

Definition get_parameters (globals : jv) : res unit :=
  kvs <- items globals ;;
  mfold (fun (len : nat) kv =>
           let value := snd kv in
           b <- contains (s "name") value ;;
           vals <- getitem value (s "values") ;;
           _ <- getitem value (s "label") ;;
           (if b then getitem value (s "name") else Ok JNull) ;;;
           n <- pylen vals ;;
           if Nat.eqb len 0 then Ok n
           else if Nat.eqb n len then Ok len else Err (Diag DParamLen)) kvs O ;;;
  Ok tt.

(* ------------------------------------------------------ Study construction *)
Definition source_name : str := s "_source".

(** re.sub(r"_\*|\*", "", d) *)
Fixpoint strip_stars (d : str) : str :=
  match d with
  | [] => []
  | c :: r =>
      if N.eqb c 42 then strip_stars r
      else if N.eqb c 95 then
             match r with
             | c2 :: r2 => if N.eqb c2 42 then strip_stars r2 else c :: strip_stars r
             | [] => [c]
             end
           else c :: strip_stars r
  end.

(** Study.add_step: [nodes] = keys of Study.values so far *)
Definition add_step (nodes : list str) (st : jv * list (str * jv)) : res (list str) :=
  name <- as_str (fst st) ;;
  if mem_str name nodes then Err (Diag DDupStep) else
  let nodes' := nodes ++ [name] in
  let deps := getd (s "depends") (JStr []) (snd st) in
  if negb (truthy deps) then Ok nodes' else
  ds <- iter deps ;;
  miter (fun dep =>
           d <- as_str dep ;;
           let parent := strip_stars d in
           if str_eqb parent name then Err (Diag DSelfDep)
           else if mem_str parent nodes' then Ok tt else Err (Diag DUnknownDep)) ds ;;;
  Ok nodes'.

(* ------------------------------------------------------------ the pipeline *)
Definition pipeline (d : jv) : res (list str) :=
  sp <- load d ;;
  verify sp ;;;
  names <- get_study_environment (sp_env sp) ;;
  steps <- get_study_steps (sp_study sp) ;;
  reserved_ok names ;;;
  get_parameters (sp_globals sp) ;;;
  nodes <- mfold add_step steps [source_name] ;;
  Ok (tl nodes).

(** on a loaded document (what yaml.load returned) *)
Definition build (d : jv) : result :=
  match pipeline d with Ok ns => Accept ns | Err c => Reject c end.
(** on a document as written *)
Definition verify_and_build (doc : jv) : result := build (yaml_load doc).

(* ------------------------------------------- the documented rules, declaratively *)
(** the whole document as ONE schema, built from the four regenerated ones *)
Definition DOC : schema :=
  [KType TObject;
   KProperties [(s "description", DESCRIPTION);
                (s "env", ENV);
                (s "study", [KType TArray; KMinItems 1; KItems STUDY_STEP]);
                (s "global.parameters", [KType TObject; KPatternAll PARAM])];
   KRequired [s "description"; s "study"]].

Definition obj_items (v : jv) : list (str * jv) := match v with JObj l => l | _ => [] end.
Definition arr_items (v : jv) : list jv := match v with JArr l => l | _ => [] end.
Definition field (k : str) (v : jv) : jv := getd k JNull (obj_items v).
Definition str_of (v : jv) : str := match v with JStr x => x | _ => [] end.

Definition doc_steps (d : jv) : list jv := arr_items (field (s "study") d).
(** names of the document's steps, in order *)
Definition step_names (d : jv) : list str := map (fun st => str_of (field (s "name") st)) (doc_steps d).
Definition step_depends (st : jv) : list str :=
  map str_of (arr_items (field (s "depends") (field (s "run") st))).

Definition dup_step_names (d : jv) : bool := negb (nodup_str (source_name :: step_names d)).

(** some dependency names the step itself or no earlier step *)
Fixpoint bad_deps_from (earlier : list str) (steps : list jv) : bool :=
  match steps with
  | [] => false
  | st :: r =>
      let name := str_of (field (s "name") st) in
      existsb (fun dep => str_eqb (strip_stars dep) name ||
                          negb (mem_str (strip_stars dep) earlier)) (step_depends st) ||
      bad_deps_from (earlier ++ [name]) r
  end.
Definition bad_dependency (d : jv) : bool := bad_deps_from [source_name] (doc_steps d).

Definition param_lengths (d : jv) : list nat :=
  map (fun kv => List.length (arr_items (field (s "values") (snd kv))))
      (obj_items (field (s "global.parameters") d)).
Definition all_eq_nat (l : list nat) : bool :=
  match l with [] => true | n :: r => forallb (Nat.eqb n) r end.
Definition param_len_mismatch (d : jv) : bool := negb (all_eq_nat (param_lengths d)).

Definition env_names (d : jv) : list str :=
  let env := field (s "env") d in
  let deps := field (s "dependencies") env in
  keys (obj_items (field (s "variables") env)) ++
  keys (obj_items (field (s "labels") env)) ++
  map (fun it => str_of (field (s "name") it)) (arr_items (field (s "paths") deps)) ++
  map (fun it => str_of (field (s "name") it)) (arr_items (field (s "git") deps)).
Definition dup_env_names (d : jv) : bool := negb (nodup_str (env_names d)).
Definition empty_var_name (d : jv) : bool :=
  mem_str [] (keys (obj_items (field (s "variables") (field (s "env") d)))).

(** [malformed d]: the loaded document breaks a documented rule:
    structure/types/required/unknown keys/empty strings (the schema),
    duplicate step names, a dependency on an undefined step or on itself,
    parameter value lists of different lengths, duplicate variable / label /
    dependency names. *)
Definition malformed (d : jv) : bool :=
  negb (valid DOC d) || dup_step_names d || bad_dependency d ||
  param_len_mismatch d || dup_env_names d || empty_var_name d.

(* ------------------------------------------------------------- the monitor *)
Fixpoint strs_eqb (a b : list str) : bool :=
  match a, b with
  | [], [] => true
  | x :: a', y :: b' => str_eqb x y && strs_eqb a' b'
  | _, _ => false
  end.

(** C13 on an outcome [r] (of the model, or observed on the implementation)
    for the document [doc] as written: never an internal error; a malformed
    document (or one whose mappings repeat a key) is not accepted; an accepted
    one keeps exactly the document's steps, names and order. *)
Definition C13_ok (doc : jv) (r : result) : bool :=
  match r with
  | Reject Internal => false
  | Reject (Diag _) => true
  | Accept names =>
      nodupkeys doc && negb (malformed (yaml_load doc)) &&
      strs_eqb names (step_names (yaml_load doc))
  end.

(** signature of the known finding K5: the written document repeats a key in
    some mapping (the YAML loader merges them silently before verification);
    everything else the monitor asks for holds on the loaded document *)
Definition sig_K5 (doc : jv) (obs : result) : bool :=
  negb (nodupkeys doc) &&
  match obs with
  | Accept names => negb (malformed (yaml_load doc)) && strs_eqb names (step_names (yaml_load doc))
  | _ => false
  end.

Definition rclass_eqb (a b : rclass) : bool :=
  match a, b with Diag _, Diag _ => true | Internal, Internal => true | _, _ => false end.
(** observable equality: the class and, when accepted, the step list *)
Definition result_eqb (a b : result) : bool :=
  match a, b with
  | Accept x, Accept y => strs_eqb x y
  | Reject x, Reject y => rclass_eqb x y
  | _, _ => false
  end.

(* ------------------------------------------------------------------ enums *)
Definition enum_strings (sc : schema) : list str :=
  flat_map (fun k => match k with KEnum vs => map str_of vs | _ => [] end) sc.
(** the strings the schema admits for run.priority *)
Definition priority_schema : option schema :=
  schema_at STUDY_STEP [PKey (s "run"); PKey (s "priority")].
Definition priority_enum : list str :=
  match priority_schema with
  | Some sc => flat_map (fun k => match k with KAnyOf ss => flat_map enum_strings ss | _ => [] end) sc
               ++ enum_strings sc
  | None => []
  end.
Fixpoint urgency_of (p : StepPriority) (tbl : list (StepPriority * Z)) : option Z :=
  match tbl with
  | [] => None
  | (q, u) :: r => if priority_eqb p q then Some u else urgency_of p r
  end.
(** FluxInterface.get_flux_urgency on a priority string: [None] = an exception *)
Definition flux_urgency_str (x : str) : option Z :=
  match priority_from_str x with
  | Some p => urgency_of p flux_urgency_table
  | None => None
  end.
(** ... on a number n/d: ceil(n/d * scale) *)
Definition flux_urgency_num (n d : Z) : Z := (- ((- (n * flux_urgency_scale)) / d))%Z.
Definition enum_ok (x : str) : bool :=
  match flux_urgency_str x with Some u => (Z.leb 0 u && Z.leb u 31)%bool | None => false end.

(* ------------------------------------------------------ Script._verify's form *)
(** [add_sources] models environment.Script._verify by [wordy]: the line
    CONTAINS a word character, i.e. [re.search] of [\w+].  The form found in
    the source is regenerated as [script_verify_form] (Gen/SpecData.v); the
    obligation [script_verify_form = script_form_expected] (Props/C13.v) breaks
    when the code applies another function or pattern. *)
Definition script_form_expected : str := s "search:\w+".
